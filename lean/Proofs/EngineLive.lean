import DurableModel.EngineSpec
import Proofs.EngineH
import Proofs.EngineRun
import Proofs.EngineCompat
import Proofs.EngineExec
/-!
# Liveness of the replay engine (support for C07)

* `fireAll`: the *good environment*: every timer fires, every awaited external event is delivered.
* crash-free, fault-free visits of the handlers (`*_visit`), table frames of the handlers and of
  `run` (`run_frame`).
* `kept s k` (`= finalTbl e s k`): what the backend holds after an invocation that ends in `s` when
  `k` of the asynchronous updates in flight got through; `Full` (working table = acknowledged table +
  everything in flight) is an invariant of `run`; `kept_mono` (every kept table is below the working
  table), `kept_keeps` (terminal and parking records — written synchronously — are never lost).
* `live`: an infinite sequence of invocations of a `Bounded`, replay-stable (`LScoped`) program, each
  on the table the good environment makes of what the backend kept of the previous one — for an
  arbitrary keep plan —, cannot consist of suspensions only (structural induction on the program;
  `GoodSeq`, `GoodSeq.cont`, `GoodSeq.phase2`).
* `good_terminates'`: executions from the empty table driven by the good environment end after
  finitely many suspended rounds; `good_no_fault`: none of their rounds ends `ckptFailed`;
  `run_crashed_budget`: `crashed` only with an exhausted crash budget.
* `pb_run`, `PendKinded`, `wake_enabled`: a parking record can be woken (C07 part A).

Core Lean only.
-/
set_option linter.unusedSimpArgs false
set_option linter.unusedVariables false

namespace EngineLive
open Engine EngineCompat

/-! ## The good environment -/

/-- What the environment does to one record: the retry timer of a PENDING step / wait-for-condition
fires, a STARTED wait elapses, a STARTED callback / chained invoke is completed with outcome `o`. -/
def fireRec (o : Backend.Immediate) (r : OpRec) : OpRec :=
  if (r.kind == .step || r.kind == .wfc) && r.status == .pending then { r with status := .ready }
  else if r.kind == .wait && r.status == .started then { r with status := .succeeded }
  else if (r.kind == .callback || r.kind == .invoke) && r.status == .started then Backend.finish r o
  else r

/-- Every enabled timer / external event fires once. -/
def fireAll (outc : Pos → Backend.Immediate) (t : Tbl) : Tbl :=
  t.map (fun e => (e.1, fireRec (outc e.1) e.2))

theorem lookup_fireAll (outc : Pos → Backend.Immediate) (t : Tbl) (q : Pos) :
    lookup (fireAll outc t) q = (lookup t q).map (fireRec (outc q)) := by
  induction t with
  | nil => rfl
  | cons e t ih =>
    have : fireAll outc (e :: t) = (e.1, fireRec (outc e.1) e.2) :: fireAll outc t := rfl
    rw [this, lookup_cons, lookup_cons, ih]
    by_cases h : e.1 = q
    · subst h; simp
    · simp [h]

theorem fireRec_terminal {o : Backend.Immediate} {r : OpRec} (h : r.status.terminal = true) :
    fireRec o r = r := by
  unfold fireRec
  cases hs : r.status <;> simp_all [Status.terminal]

theorem fireRec_kind (o : Backend.Immediate) (r : OpRec) : (fireRec o r).kind = r.kind := by
  unfold fireRec
  split
  · rfl
  · split
    · rfl
    · split
      · exact finish_kind r o
      · rfl

theorem fireRec_context {o : Backend.Immediate} {r : OpRec} (h : r.kind = .context) : fireRec o r = r := by
  unfold fireRec
  simp [h]

/-- Each cell `fireAll` changes is changed by a legal backend event (B3), provided the outcome the
environment delivers is a real one. -/
theorem fireAll_legal (outc : Pos → Backend.Immediate) (t : Tbl) (q : Pos) (r : OpRec)
    (hl : lookup t q = some r) (hne : fireRec (outc q) r ≠ r) (ho : outc q ≠ .none) :
    ∃ ev, Backend.fire t ev = some (upsert t q (fireRec (outc q) r)) := by
  unfold fireRec at hne ⊢
  split at hne
  · rename_i hc
    refine ⟨.retryReady q, ?_⟩
    simp only [Backend.fire, hl, hc, if_true]
  · split at hne
    · rename_i _ hc
      refine ⟨.waitDone q, ?_⟩
      simp only [Backend.fire, hl, hc, if_true]
      rename_i h1
      simp [h1]
    · split at hne
      · rename_i h1 h2 hc
        simp only [Bool.and_eq_true, Bool.or_eq_true, beq_iff_eq] at hc
        rcases hc.1 with hk | hk
        · refine ⟨.callbackDone q (outc q), ?_⟩
          simp only [Backend.fire, hl, hk, hc.2, if_true]
          simp [h1, h2, hk, hc.2, ho]
        · refine ⟨.invokeDone q (outc q), ?_⟩
          simp only [Backend.fire, hl, hk, hc.2, if_true]
          simp [h1, h2, hk, hc.2, ho]
      · exact absurd rfl hne

/-- A sequence of backend events, each of which must be enabled. -/
def fireSeq (t : Tbl) (evs : List Backend.Event) : Option Tbl := evs.foldlM Backend.fire t

theorem fireSeq_append (t : Tbl) (evs : List Backend.Event) (ev : Backend.Event) (t1 : Tbl)
    (h : fireSeq t evs = some t1) : fireSeq t (evs ++ [ev]) = Backend.fire t1 ev := by
  unfold fireSeq at h ⊢
  rw [List.foldlM_append, h]
  simp [List.foldlM]

/-- **`fireAll` is a sequence of legal backend events (B3)**, up to the order of the table's
entries: firing, one position after the other, the event that is enabled there leads to a table with
the same records as `fireAll outc t`. -/
theorem fireAll_fires (outc : Pos → Backend.Immediate) (hout : ∀ q, outc q ≠ .none) (t : Tbl) :
    ∃ evs t', fireSeq t evs = some t' ∧ ∀ q, lookup t' q = lookup (fireAll outc t) q := by
  have key : ∀ qs : List Pos, ∃ evs t', fireSeq t evs = some t' ∧
      ∀ q, lookup t' q = if q ∈ qs then (lookup t q).map (fireRec (outc q)) else lookup t q := by
    intro qs
    induction qs with
    | nil => exact ⟨[], t, rfl, fun q => by simp⟩
    | cons q0 rest ih =>
      obtain ⟨evs, t1, h1, hl1⟩ := ih
      by_cases hmem : q0 ∈ rest
      · refine ⟨evs, t1, h1, fun q => ?_⟩
        rw [hl1 q]
        by_cases hq : q = q0
        · subst hq; simp [hmem]
        · simp [hq]
      · have hl0 : lookup t1 q0 = lookup t q0 := by rw [hl1 q0, if_neg hmem]
        cases hr : lookup t q0 with
        | none =>
          refine ⟨evs, t1, h1, fun q => ?_⟩
          rw [hl1 q]
          by_cases hq : q = q0
          · subst hq; simp [hmem, hr]
          · simp [hq]
        | some r =>
          by_cases hfix : fireRec (outc q0) r = r
          · refine ⟨evs, t1, h1, fun q => ?_⟩
            rw [hl1 q]
            by_cases hq : q = q0
            · subst hq; simp [hmem, hr, hfix]
            · simp [hq]
          · obtain ⟨ev, hev⟩ := fireAll_legal outc t1 q0 r (by rw [hl0, hr]) hfix (hout q0)
            refine ⟨evs ++ [ev], _, (fireSeq_append t evs ev t1 h1).trans hev, fun q => ?_⟩
            rw [lookup_upsert]
            by_cases hq : q = q0
            · subst hq; simp [hr]
            · simp [hq, hl1 q]
  obtain ⟨evs, t', h1, h2⟩ := key (t.map Prod.fst)
  refine ⟨evs, t', h1, fun q => ?_⟩
  rw [h2 q, lookup_fireAll]
  split
  · rfl
  · rename_i hnm
    have : lookup t q = none := by
      unfold lookup
      cases hf : t.find? (fun e => e.1 == q) with
      | none => rfl
      | some e =>
        exfalso
        apply hnm
        have hmem := List.mem_of_find?_eq_some hf
        have hk := List.find?_some hf
        simp only [beq_iff_eq] at hk
        exact List.mem_map.mpr ⟨e, hmem, hk⟩
    rw [this]; rfl

/-- `fireAll` is an evolution of the table in the sense of `EngineCompat.Evolve` (so it preserves
`Compat`). -/
theorem fireAll_evolve (outc : Pos → Backend.Immediate) (t : Tbl) : Evolve t (fireAll outc t) := by
  intro p
  rw [lookup_fireAll]
  cases hl : lookup t p with
  | none => exact Or.inl ⟨rfl, rfl⟩
  | some r =>
    refine Or.inr ⟨r, fireRec (outc p) r, rfl, rfl, ?_⟩
    by_cases hterm : r.status.terminal = true
    · exact Or.inl (fireRec_terminal hterm)
    · have hnt : r.status.terminal = false := by simpa using hterm
      by_cases hctx : r.kind = .context
      · exact Or.inl (fireRec_context hctx)
      · by_cases hsw : r.kind = .step ∨ r.kind = .wfc
        · by_cases hp : r.status = .pending
          · refine Or.inr ⟨hnt, fireRec_kind _ _, hctx, fun _ => ⟨hp, ?_⟩⟩
            unfold fireRec
            rcases hsw with h | h <;> simp [h, hp]
          · left
            unfold fireRec
            rcases hsw with h | h <;> simp [h, hp]
        · exact Or.inr ⟨hnt, fireRec_kind _ _, hctx, fun h => absurd h hsw⟩

/-! ## Crash-free, fault-free states -/

/-- No injected checkpoint fault, and the backend completes nothing at START (outcomes arrive by
events only). -/
def StOk (s : St) : Prop := s.failAt = none ∧ s.imm = fun _ => Backend.Immediate.none

theorem StOk.of_frame {p : Pos} {s s' : St} (h : StOk s) (hf : EngineRun.Frame p s s') : StOk s' :=
  ⟨by rw [hf.failAt]; exact h.1, by rw [hf.imm]; exact h.2⟩

theorem StOk.of_fr {s s' : St} (h : StOk s) (hf : EngineRun.Fr s s') : StOk s' :=
  ⟨by rw [hf.failAt]; exact h.1, by rw [hf.imm]; exact h.2⟩

theorem StOk.of_same {s s' : St} (h : StOk s) (hf : s'.failAt = s.failAt) (hi : s'.imm = s.imm) : StOk s' :=
  ⟨by rw [hf]; exact h.1, by rw [hi]; exact h.2⟩

theorem stOk_run {p : Prog} {ctx : Pos} {n : Nat} {s : St} (h : StOk s) : StOk (run p ctx n s).2 :=
  h.of_fr (EngineRun.fr_run p ctx n s)

theorem stOk_init (t : Tbl) (b : Nat) : StOk (initSt t b none (fun _ => .none)) := ⟨rfl, rfl⟩

/-- A checkpoint call whose update the backend accepts, in a fault-free state: it returns normally
with the new table, or the invocation crashes. -/
theorem ck_cases {s : St} {u : Upd} {t' : Tbl} (hok : StOk s)
    (ha : Backend.apply s.tbl u .none = some t') :
    (∃ s', checkpoint s u = .error (.crashed, s')) ∨
    (∃ s', checkpoint s u = .ok s' ∧ s'.tbl = t' ∧ StOk s') := by
  have ha' : Backend.apply s.tbl u (s.imm u.pos) = some t' := by rw [hok.2]; exact ha
  cases hs : u.sync with
  | false =>
    refine Or.inr ⟨_, EngineH.checkpoint_async s u hs, (EngineH.ckAsync_trace_of_apply ha').2, ?_⟩
    exact hok.of_same (by simp) (by simp)
  | true =>
    rw [EngineH.checkpoint_sync_eq s u hs]
    by_cases hb : s.budget = 0
    · exact Or.inl ⟨_, by rw [if_pos hb]⟩
    · rw [if_neg hb, if_neg (by rw [hok.1]; simp), ha']
      simp only []
      by_cases hb1 : s.budget = 1
      · exact Or.inl ⟨_, by rw [if_pos hb1]⟩
      · exact Or.inr ⟨EngineH.ckOk s u t', by rw [if_neg hb1], rfl, hok.of_same rfl rfl⟩

theorem ckAsync_ok {s : St} {u : Upd} {t' : Tbl} (hok : StOk s)
    (ha : Backend.apply s.tbl u .none = some t') :
    (EngineH.ckAsync s u).tbl = t' ∧ StOk (EngineH.ckAsync s u) := by
  have ha' : Backend.apply s.tbl u (s.imm u.pos) = some t' := by rw [hok.2]; exact ha
  exact ⟨(EngineH.ckAsync_trace_of_apply ha').2, hok.of_same (by simp) (by simp)⟩

/-! ## Table frames -/

/-- Only the record at `p` may differ. -/
def OnlyAt (p : Pos) (s s' : St) : Prop := ∀ q, q ≠ p → lookup s'.tbl q = lookup s.tbl q

theorem OnlyAt.refl (p : Pos) (s : St) : OnlyAt p s s := fun _ _ => rfl

theorem OnlyAt.trans {p : Pos} {a b c : St} (h1 : OnlyAt p a b) (h2 : OnlyAt p b c) : OnlyAt p a c :=
  fun q hq => (h2 q hq).trans (h1 q hq)

theorem OnlyAt.of_tbl {p : Pos} {s0 s s' : St} (h : OnlyAt p s0 s) (ht : s'.tbl = s.tbl) : OnlyAt p s0 s' :=
  fun q hq => by rw [ht]; exact h q hq

theorem onlyAt_emit {p s0 s e} (h : OnlyAt p s0 s) : OnlyAt p s0 (emit s e) := h.of_tbl rfl

theorem onlyAt_tick {p s0 s s'} (h : OnlyAt p s0 s) (ht : tick s = some s') : OnlyAt p s0 s' := by
  rw [EngineRun.tick_some ht]; exact h.of_tbl rfl

theorem onlyAt_track {p s0 s q} (h : OnlyAt p s0 s) : OnlyAt p s0 (trackReplay s q) :=
  h.of_tbl (EngineRun.trackReplay_tbl s q)

theorem onlyAt_ck_ok {p s0 s u s'} (h : OnlyAt p s0 s) (hc : checkpoint s u = .ok s') (hu : u.pos = p) :
    OnlyAt p s0 s' := by
  have := EngineRun.checkpoint_spec s u
  rw [hc] at this
  refine h.trans ?_
  intro q hq
  have hq' : u.pos ≠ q := fun he => hq (by rw [← he, hu])
  cases this with
  | asyncApplied t hs ha => exact EngineRun.apply_lookup_ne ha hq'
  | asyncRejected hs ha => rfl
  | syncApplied t hs hf ha => exact EngineRun.apply_lookup_ne ha hq'

theorem onlyAt_ck_err {p s0 s u e s'} (h : OnlyAt p s0 s) (hc : checkpoint s u = .error (e, s'))
    (hu : u.pos = p) : OnlyAt p s0 s' := by
  have := EngineRun.checkpoint_spec s u
  rw [hc] at this
  refine h.trans ?_
  intro q hq
  have hq' : u.pos ≠ q := fun he => hq (by rw [← he, hu])
  cases this with
  | crashBefore hs => rfl
  | fault hs hf => rfl
  | rejected hs hf ha => rfl
  | crashAfter t hs hf ha => exact EngineRun.apply_lookup_ne ha hq'

syntax "oa_close" : tactic
macro_rules | `(tactic| oa_close) => `(tactic| first
  | assumption
  | (refine onlyAt_track ?_; oa_close)
  | (refine onlyAt_emit ?_; oa_close)
  | (refine onlyAt_tick ?_ ‹_›; oa_close)
  | (refine onlyAt_ck_ok ?_ ‹_› (by first | rfl | (split <;> rfl)); oa_close)
  | (refine onlyAt_ck_err ?_ ‹_› (by first | rfl | (split <;> rfl)); oa_close))

theorem onlyAt_deliverAt {p s0 s o} (h : OnlyAt p s0 s) : OnlyAt p s0 (deliverAt s p o).st :=
  h.of_tbl (EngineH.deliverAt_st_tbl s p o)

syntax "oa_close2" : tactic
macro_rules | `(tactic| oa_close2) => `(tactic| first
  | assumption
  | (refine onlyAt_deliverAt ?_; oa_close2)
  | (refine onlyAt_track ?_; oa_close2)
  | (refine onlyAt_emit ?_; oa_close2)
  | (refine onlyAt_tick ?_ ‹_›; oa_close2)
  | (refine onlyAt_ck_ok ?_ ‹_› (by first | rfl | (split <;> rfl)); oa_close2)
  | (refine onlyAt_ck_err ?_ ‹_› (by first | rfl | (split <;> rfl)); oa_close2))

theorem onlyAt_retryHandler {p s0 s spec r e} (h : OnlyAt p s0 s) :
    OnlyAt p s0 (retryHandler s p spec r e).st := by
  unfold retryHandler
  dsimp only
  repeat' split
  all_goals try simp only [EngineRun.st_deliver, EngineRun.st_stop]
  all_goals oa_close2

theorem onlyAt_stepExecute {p s0 s spec r} (h : OnlyAt p s0 s) : OnlyAt p s0 (stepExecute s p spec r).st := by
  unfold stepExecute
  dsimp only
  repeat' split
  all_goals try simp only [EngineRun.st_deliver, EngineRun.st_stop]
  all_goals first | oa_close2 | (refine onlyAt_retryHandler ?_; oa_close2)

theorem onlyAt_wfcExecute {p s0 s w r} (h : OnlyAt p s0 s) : OnlyAt p s0 (wfcExecute s p w r).st := by
  unfold wfcExecute
  dsimp only
  repeat' split
  all_goals try simp only [EngineRun.st_deliver, EngineRun.st_stop]
  all_goals oa_close2

syntax "oa_close3" : tactic
macro_rules | `(tactic| oa_close3) => `(tactic| first
  | assumption
  | (refine onlyAt_deliverAt ?_; oa_close3)
  | (refine onlyAt_retryHandler ?_; oa_close3)
  | (refine onlyAt_stepExecute ?_; oa_close3)
  | (refine onlyAt_wfcExecute ?_; oa_close3)
  | (refine onlyAt_track ?_; oa_close3)
  | (refine onlyAt_emit ?_; oa_close3)
  | (refine onlyAt_tick ?_ ‹_›; oa_close3)
  | (refine onlyAt_ck_ok ?_ ‹_› (by first | rfl | (split <;> rfl)); oa_close3)
  | (refine onlyAt_ck_err ?_ ‹_› (by first | rfl | (split <;> rfl)); oa_close3))

theorem onlyAt_handleStep (s : St) (p : Pos) (spec : StepSpec) : OnlyAt p s (handleStep s p spec).st := by
  have h := OnlyAt.refl p s
  unfold handleStep
  repeat' split
  all_goals try simp only [EngineRun.st_deliver, EngineRun.st_stop]
  all_goals oa_close3

theorem onlyAt_handleWait (s : St) (p : Pos) (secs : Nat) : OnlyAt p s (handleWait s p secs).st := by
  have h := OnlyAt.refl p s
  unfold handleWait
  repeat' split
  all_goals try simp only [EngineRun.st_deliver, EngineRun.st_stop]
  all_goals oa_close3

theorem onlyAt_handleInvoke (s : St) (p : Pos) (v : Val) : OnlyAt p s (handleInvoke s p v).st := by
  have h := OnlyAt.refl p s
  unfold handleInvoke invokeTerminal
  repeat' split
  all_goals try simp only [EngineRun.st_deliver, EngineRun.st_stop, Option.getD]
  all_goals oa_close3

theorem onlyAt_handleWfc (s : St) (p : Pos) (w : WfcSpec) : OnlyAt p s (handleWfc s p w).st := by
  have h := OnlyAt.refl p s
  unfold handleWfc
  dsimp only
  repeat' split
  all_goals try simp only [EngineRun.st_deliver, EngineRun.st_stop]
  all_goals oa_close3

theorem handleCbRes_tbl (s : St) (hd : Pos) : (handleCbRes s hd).st.tbl = s.tbl := by
  unfold handleCbRes
  dsimp only
  repeat' split
  all_goals rfl

theorem onlyAt_handleCbNew (s : St) (p : Pos) : OnlyAt p s (EngineRun.Except.st (handleCbNew s p)) := by
  have h := OnlyAt.refl p s
  unfold handleCbNew
  repeat' split
  all_goals try simp only [EngineRun.st_ok, EngineRun.st_error]
  all_goals oa_close3

theorem onlyAt_childBefore (s : St) (p : Pos) : OnlyAt p s (EngineRun.childSt (childBefore s p)) := by
  have h := OnlyAt.refl p s
  unfold childBefore
  repeat' split
  all_goals try simp only [EngineRun.st_inl, EngineRun.st_inr, EngineRun.st_deliver, EngineRun.st_stop]
  all_goals oa_close3

theorem onlyAt_childAfter (s : St) (p : Pos) (c : ChildSpec) (m : Bool) (e : End) :
    OnlyAt p s (childAfter s p c m e).st := by
  have h := OnlyAt.refl p s
  unfold childAfter
  dsimp only
  repeat' split
  all_goals try simp only [EngineRun.st_deliver, EngineRun.st_stop]
  all_goals oa_close3

/-- **Table frame of a run**: the fragment at `(ctx, n)` only writes inside its region. -/
theorem run_frame (p : Prog) : ∀ (ctx : Pos) (n : Nat) (s : St),
    Frame ctx n s.tbl (run p ctx n s).2.tbl := by
  have hself : ∀ (ctx : Pos) (n : Nat) {s s' : St}, OnlyAt (ctx ++ [n + 1]) s s' → Frame ctx n s.tbl s'.tbl :=
    fun ctx n _ _ h q hq => h q (fun he => hq (he ▸ inRegion_self ctx n))
  induction p with
  | ret v => intro ctx n s; exact Frame.refl _ _ _
  | raise e => intro ctx n s; exact Frame.refl _ _ _
  | log m k ih => intro ctx n s; simp only [run]; exact ih ctx n _
  | step spec k ih =>
    intro ctx n s
    have h := hself ctx n (onlyAt_handleStep s (ctx ++ [n + 1]) spec)
    simp only [run]
    split
    · rename_i o s' heq; rw [heq] at h; exact h.trans (ih o ctx (n + 1) s').succ
    · rename_i e s' heq; rw [heq] at h; exact h
  | wait secs k ih =>
    intro ctx n s
    have h := hself ctx n (onlyAt_handleWait s (ctx ++ [n + 1]) secs)
    simp only [run]
    split
    · rename_i o s' heq; rw [heq] at h; exact h.trans (ih ctx (n + 1) s').succ
    · rename_i e s' heq; rw [heq] at h; exact h
  | cbNew k ih =>
    intro ctx n s
    have h := hself ctx n (onlyAt_handleCbNew s (ctx ++ [n + 1]))
    simp only [run]
    split
    · rename_i s' heq; rw [heq] at h; exact h.trans (ih _ ctx (n + 1) s').succ
    · rename_i e s' heq; rw [heq] at h; exact h
  | cbRes hd k ih =>
    intro ctx n s
    have h := handleCbRes_tbl s hd
    simp only [run]
    split
    · rename_i o s' heq
      rw [heq] at h
      have h2 := ih o ctx n s'
      intro q hq; rw [h2 q hq]; exact congrArg (lookup · q) h
    · rename_i e s' heq
      rw [heq] at h
      intro q _; exact congrArg (lookup · q) h
  | invoke payload k ih =>
    intro ctx n s
    have h := hself ctx n (onlyAt_handleInvoke s (ctx ++ [n + 1]) payload)
    simp only [run]
    split
    · rename_i o s' heq; rw [heq] at h; exact h.trans (ih o ctx (n + 1) s').succ
    · rename_i e s' heq; rw [heq] at h; exact h
  | wfc w k ih =>
    intro ctx n s
    have h := hself ctx n (onlyAt_handleWfc s (ctx ++ [n + 1]) w)
    simp only [run]
    split
    · rename_i o s' heq; rw [heq] at h; exact h.trans (ih o ctx (n + 1) s').succ
    · rename_i e s' heq; rw [heq] at h; exact h
  | child c body k ihb ihk =>
    intro ctx n s
    have h := hself ctx n (onlyAt_childBefore s (ctx ++ [n + 1]))
    simp only [run]
    split
    · rename_i o s' heq; rw [heq] at h; exact h.trans (ihk o ctx (n + 1) s').succ
    · rename_i e s' heq; rw [heq] at h; exact h
    · rename_i s' m heq
      rw [heq] at h
      have hb := (ihb (ctx ++ [n + 1]) 0 s').child (ctx := ctx) (n := n)
      have ha := hself ctx n (onlyAt_childAfter (run body (ctx ++ [n + 1]) 0 s').2 (ctx ++ [n + 1]) c m
        (run body (ctx ++ [n + 1]) 0 s').1)
      have hall := (h.trans hb).trans ha
      split
      · rename_i o s'' heq2; rw [heq2] at hall; exact hall.trans (ihk o ctx (n + 1) s'').succ
      · rename_i e s'' heq2; rw [heq2] at hall; exact hall

/-! ## Crash-free, fault-free visits of the handlers -/

theorem deliverAt_deliver (s : St) (p : Pos) (o : Outcome) :
    ∃ s', deliverAt s p o = .deliver o s' ∧ s'.tbl = s.tbl := by
  obtain ⟨s', h, _, ht⟩ := EngineH.deliverAt_eq s p o
  exact ⟨s', h, ht⟩

theorem parentOk_upsert {t : Tbl} {q : Pos} (h : Backend.parentOk t q = true) (r : OpRec) :
    Backend.parentOk (upsert t q r) q = true := by
  unfold Backend.parentOk at h ⊢
  cases hdl : q.dropLast with
  | nil => rfl
  | cons c cs =>
    rw [hdl] at h
    simp only [] at h ⊢
    have hne : (c :: cs) ≠ q := by
      intro he
      have h1 := congrArg List.length hdl
      have h2 := congrArg List.length he
      simp at h1 h2
      omega
    rw [lookup_upsert_ne _ _ hne]; exact h

/-- Nothing is in flight: every update handed over so far is acknowledged. -/
def Synced (s : St) : Prop := s.pending = [] ∧ s.syncTbl = s.tbl

theorem ck_synced {s s' : St} {u : Upd} (hs : u.sync = true) (hc : checkpoint s u = .ok s') : Synced s' := by
  obtain ⟨_, _, t', _, rfl⟩ := EngineH.checkpoint_sync_ok_inv hs hc
  exact ⟨rfl, rfl⟩

theorem synced_of_eq {s s' : St} (h : Synced s) (h1 : s'.pending = s.pending) (h2 : s'.syncTbl = s.syncTbl)
    (h3 : s'.tbl = s.tbl) : Synced s' := ⟨by rw [h1]; exact h.1, by rw [h2, h3]; exact h.2⟩

theorem synced_deliverAt {s : St} (h : Synced s) {p : Pos} {o : Outcome} {s' : St}
    (hd : deliverAt s p o = .deliver o s') : Synced s' := by
  obtain ⟨s'', he, hsame⟩ := deliverAt_same s p o
  rw [he] at hd
  cases hd
  exact synced_of_eq h hsame.pending hsame.syncTbl hsame.tbl

/-- What one visit of a step at `q` whose record has made `a` attempts leads to: the step is
delivered (its record is final), the invocation crashes, or it suspends on the PENDING record with
one more attempt — and then the retry strategy asked for that retry. -/
def StepPost (sp : StepSpec) (q : Pos) (a : Nat) : HRes → Prop
  | .deliver o s' => ∃ r', lookup s'.tbl q = some r' ∧ Done r' = true ∧ StepDeliv sp q o r' ∧ Synced s'
  | .stop e s' => e = .crashed ∨ ∃ d r' ex, e = .suspended d ∧ lookup s'.tbl q = some r' ∧ r'.kind = .step ∧
      r'.status = .pending ∧ r'.attempt = a + 1 ∧ (sp.strategy ex (a + 1)).isSome = true ∧ Synced s'

theorem retry_visit {s : St} {q : Pos} (sp : StepSpec) (r : Option OpRec) (e : Exc) {rt : OpRec}
    (hok : StOk s) (hp : Backend.parentOk s.tbl q = true) (hl : lookup s.tbl q = some rt)
    (hk : rt.kind = .step) (hst : rt.status = .started ∨ rt.status = .ready)
    (hatt : EngineH.att r = rt.attempt + 1)
    (hprov : e.inv = true → (∃ a, sp.body a = .err e) ∨ (sp.amo = true ∧ e = StepInterrupted q)) :
    StepPost sp q rt.attempt (retryHandler s q sp r e) := by
  rw [EngineH.retryHandler_eq]
  cases hstr : sp.strategy e (EngineH.att r) with
  | some d =>
    simp only []
    have happ := apply_retry (t := s.tbl) (u := EngineH.stepRetryUpd q e d) (imm := .none) hp hl rfl hk
      (Or.inl rfl) hst
    rcases ck_cases hok happ with ⟨s', hc⟩ | ⟨s', hc, htbl, _⟩
    · rw [hc]; exact Or.inl rfl
    · rw [hc]
      refine Or.inr ⟨_, retryRec rt none (some (ErrObj.ofExc e)), e, rfl,
        by rw [htbl]; exact lookup_upsert_same _ _ _, hk, rfl, rfl, ?_, ck_synced rfl hc⟩
      rw [← hatt, hstr]; rfl
  | none =>
    simp only []
    have happ := apply_fail (t := s.tbl) (u := EngineH.stepFailUpd q e) (imm := .none) hp hl rfl hk
      (hst.imp id (fun h => ⟨Or.inl rfl, h⟩)) (Or.inl rfl)
    rcases ck_cases hok happ with ⟨s', hc⟩ | ⟨s', hc, htbl, _⟩
    · rw [hc]; exact Or.inl rfl
    · rw [hc]
      simp only []
      have hl' : lookup s'.tbl q = some (failRec rt (some (ErrObj.ofExc e))) := by
        rw [htbl]; exact lookup_upsert_same _ _ _
      split
      · rename_i hinv
        obtain ⟨s'', hd, ht⟩ := deliverAt_deliver s' q (.err e)
        rw [hd]
        exact ⟨_, by rw [ht]; exact hl', rfl, Or.inr ⟨e, hinv, hprov hinv, rfl, outcomeOf_failRec _ _⟩,
          synced_deliverAt (ck_synced rfl hc) hd⟩
      · obtain ⟨s'', hd, ht⟩ := deliverAt_deliver s' q (.err (ErrObj.ofExc e).toCallable)
        rw [hd]
        exact ⟨_, by rw [ht]; exact hl', rfl, Or.inl (outcomeOf_failRec _ _).symm,
          synced_deliverAt (ck_synced rfl hc) hd⟩

theorem stepExecute_visit {s : St} {q : Pos} (sp : StepSpec) (r : Option OpRec) {rt : OpRec}
    (hok : StOk s) (hp : Backend.parentOk s.tbl q = true) (hl : lookup s.tbl q = some rt)
    (hk : rt.kind = .step) (hst : rt.status = .started ∨ rt.status = .ready)
    (hatt : EngineH.att r = rt.attempt + 1) :
    StepPost sp q rt.attempt (stepExecute s q sp r) := by
  rw [EngineH.stepExecute_eq]
  cases htick : tick (emit s (.enter q .step (EngineH.att r) none)) with
  | none => exact Or.inl rfl
  | some s1 =>
    simp only []
    obtain ⟨_, rfl⟩ := EngineH.tick_some htick
    have hok1 : StOk (EngineH.ticked (emit s (.enter q .step (EngineH.att r) none))) := hok.of_same rfl rfl
    cases hbody : sp.body (EngineH.att r) with
    | ok v =>
      simp only []
      have happ := apply_succeed (t := s.tbl) (u := EngineH.stepSucceedUpd q v) (imm := .none) hp hl rfl hk
        (hst.imp id (fun h => ⟨Or.inl rfl, h⟩)) (Or.inl rfl)
      rcases ck_cases (s := EngineH.ticked (emit s (.enter q .step (EngineH.att r) none))) hok1 happ with
        ⟨s', hc⟩ | ⟨s', hc, htbl, _⟩
      · rw [hc]; exact Or.inl rfl
      · rw [hc]
        simp only []
        obtain ⟨s'', hd, ht⟩ := deliverAt_deliver s' q (.ok v)
        rw [hd]
        exact ⟨_, by rw [ht, htbl]; exact lookup_upsert_same _ _ _, rfl, Or.inl (outcomeOf_succRec _ _ _).symm,
          synced_deliverAt (ck_synced rfl hc) hd⟩
    | err e =>
      simp only []
      exact retry_visit sp r e hok1 hp hl hk hst hatt (fun _ => Or.inl ⟨_, hbody⟩)

/-- **Progress of a step.**  From a position whose record is absent, READY or STARTED. -/
theorem handleStep_visit {s : St} {q : Pos} (sp : StepSpec) (a : Nat)
    (hok : StOk s) (hp : Backend.parentOk s.tbl q = true)
    (hl : (lookup s.tbl q = none ∧ a = 0) ∨
      ∃ rt, lookup s.tbl q = some rt ∧ rt.kind = .step ∧ (rt.status = .started ∨ rt.status = .ready) ∧
        a = rt.attempt) :
    StepPost sp q a (handleStep s q sp) := by
  unfold handleStep
  rcases hl with ⟨hl, rfl⟩ | ⟨rt, hl, hk, hst, rfl⟩
  · rw [hl]
    simp only []
    have happ := apply_start_absent (t := s.tbl)
      (u := { pos := q, kind := .step, action := .start, sync := sp.amo }) (imm := .none) hp hl rfl
    rcases ck_cases hok happ with ⟨s', hc⟩ | ⟨s', hc, htbl, hok'⟩
    · rw [hc]; exact Or.inl rfl
    · rw [hc]
      simp only []
      have hl' : lookup s'.tbl q = some (Backend.startRec .step .none) := by
        rw [htbl]; exact lookup_upsert_same _ _ _
      have hp' : Backend.parentOk s'.tbl q = true := by rw [htbl]; exact parentOk_upsert hp _
      refine stepExecute_visit (rt := Backend.startRec .step .none) sp _ hok' hp' hl' rfl (Or.inl rfl) ?_
      split
      · rw [hl']; rfl
      · rfl
  · rw [hl]
    simp only []
    rcases hst with hs | hs
    · simp only [hs, beq_iff_eq, reduceCtorEq, if_false, Bool.and_eq_true, true_and, false_and]
      split
      · rename_i hamo
        exact retry_visit sp (some rt) (StepInterrupted q) hok hp hl hk (Or.inl hs) rfl
          (fun _ => Or.inr ⟨hamo, rfl⟩)
      · exact stepExecute_visit sp (some rt) hok hp hl hk (Or.inl hs) rfl
    · simp only [hs, beq_iff_eq, reduceCtorEq, if_false, Bool.and_eq_true, true_and, false_and]
      split
      · have happ := apply_start_ready (t := s.tbl)
          (u := { pos := q, kind := .step, action := .start, sync := true }) (imm := .none) hp hl rfl hk
          (Or.inl rfl) hs
        rcases ck_cases hok happ with ⟨s', hc⟩ | ⟨s', hc, htbl, hok'⟩
        · rw [hc]; exact Or.inl rfl
        · rw [hc]
          simp only []
          have hl' : lookup s'.tbl q = some (restartRec rt) := by
            rw [htbl]; exact lookup_upsert_same _ _ _
          have hp' : Backend.parentOk s'.tbl q = true := by rw [htbl]; exact parentOk_upsert hp _
          rw [hl']
          exact stepExecute_visit (rt := restartRec rt) sp _ hok' hp' hl' hk (Or.inl rfl) rfl
      · exact stepExecute_visit sp (some rt) hok hp hl hk (Or.inr hs) rfl

/-- What one visit of a wait-for-condition at `q` whose record has made `a` attempts leads to. -/
def WfcPost (w : WfcSpec) (q : Pos) (a : Nat) : HRes → Prop
  | .deliver o s' => ∃ r', lookup s'.tbl q = some r' ∧ Done r' = true ∧ WfcDeliv w o r' ∧ Synced s'
  | .stop e s' => e = .crashed ∨ ∃ d r' v, e = .suspended d ∧ lookup s'.tbl q = some r' ∧ r'.kind = .wfc ∧
      r'.status = .pending ∧ r'.attempt = a + 1 ∧ (w.decide v (a + 1)).isSome = true ∧ Synced s'

theorem wfcExecute_visit {s : St} {q : Pos} (w : WfcSpec) (r : Option OpRec) {rt : OpRec}
    (hok : StOk s) (hp : Backend.parentOk s.tbl q = true) (hl : lookup s.tbl q = some rt)
    (hk : rt.kind = .wfc) (hst : rt.status = .started)
    (hatt : EngineH.att r = rt.attempt + 1) :
    WfcPost w q rt.attempt (wfcExecute s q w r) := by
  rw [EngineH.wfcExecute_eq]
  cases htick : tick (emit s (.enter q .wfc (EngineH.att r) (some (EngineH.pollState w r)))) with
  | none => exact Or.inl rfl
  | some s1 =>
    simp only []
    obtain ⟨_, rfl⟩ := EngineH.tick_some htick
    have hok1 : StOk (EngineH.ticked (emit s (.enter q .wfc (EngineH.att r) (some (EngineH.pollState w r))))) :=
      hok.of_same rfl rfl
    cases hcheck : w.check (EngineH.pollState w r) (EngineH.att r) with
    | ok ns =>
      simp only []
      cases hdec : w.decide ns (EngineH.att r) with
      | none =>
        simp only []
        have happ := apply_succeed (t := s.tbl) (u := EngineH.wfcSucceedUpd q ns) (imm := .none) hp hl rfl hk
          (Or.inl hst) (Or.inr (Or.inl rfl))
        rcases ck_cases (s := EngineH.ticked (emit s (.enter q .wfc (EngineH.att r) (some (EngineH.pollState w r)))))
          hok1 happ with ⟨s', hc⟩ | ⟨s', hc, htbl, _⟩
        · rw [hc]; exact Or.inl rfl
        · rw [hc]
          simp only []
          obtain ⟨s'', hd, ht⟩ := deliverAt_deliver s' q (.ok ns)
          rw [hd]
          exact ⟨_, by rw [ht, htbl]; exact lookup_upsert_same _ _ _, rfl, Or.inl (outcomeOf_succRec _ _ _).symm,
            synced_deliverAt (ck_synced rfl hc) hd⟩
      | some d =>
        simp only []
        have happ := apply_retry (t := s.tbl) (u := EngineH.wfcRetryUpd q ns d) (imm := .none) hp hl rfl hk
          (Or.inr rfl) (Or.inl hst)
        rcases ck_cases (s := EngineH.ticked (emit s (.enter q .wfc (EngineH.att r) (some (EngineH.pollState w r)))))
          hok1 happ with ⟨s', hc⟩ | ⟨s', hc, htbl, _⟩
        · rw [hc]; exact Or.inl rfl
        · rw [hc]
          refine Or.inr ⟨_, retryRec rt (some ns) none, ns, rfl,
            by rw [htbl]; exact lookup_upsert_same _ _ _, hk, rfl, rfl, ?_, ck_synced rfl hc⟩
          rw [← hatt, hdec]; rfl
    | err e =>
      simp only []
      have happ := apply_fail (t := s.tbl) (u := EngineH.wfcFailUpd q e) (imm := .none) hp hl rfl hk
        (Or.inl hst) (Or.inr (Or.inl rfl))
      rcases ck_cases (s := EngineH.ticked (emit s (.enter q .wfc (EngineH.att r) (some (EngineH.pollState w r)))))
        hok1 happ with ⟨s', hc⟩ | ⟨s', hc, htbl, _⟩
      · rw [hc]; exact Or.inl rfl
      · rw [hc]
        simp only []
        obtain ⟨s'', hd, ht⟩ := deliverAt_deliver s' q (.err e)
        rw [hd]
        exact ⟨_, by rw [ht, htbl]; exact lookup_upsert_same _ _ _, rfl,
          Or.inr ⟨e, _, _, hcheck, rfl, outcomeOf_failRec _ _⟩, synced_deliverAt (ck_synced rfl hc) hd⟩

/-- **Progress of a wait-for-condition.**  From a position whose record is absent, READY or STARTED. -/
theorem handleWfc_visit {s : St} {q : Pos} (w : WfcSpec) (a : Nat)
    (hok : StOk s) (hp : Backend.parentOk s.tbl q = true)
    (hl : (lookup s.tbl q = none ∧ a = 0) ∨
      ∃ rt, lookup s.tbl q = some rt ∧ rt.kind = .wfc ∧ (rt.status = .started ∨ rt.status = .ready) ∧
        a = rt.attempt) :
    WfcPost w q a (handleWfc s q w) := by
  rcases hl with ⟨hl, rfl⟩ | ⟨rt, hl, hk, hst, rfl⟩
  · rw [EngineH.handleWfc_absent w hl]
    have happ := apply_start_absent (t := s.tbl) (u := EngineH.wfcStartUpd q) (imm := .none) hp hl rfl
    obtain ⟨htbl, hok'⟩ := ckAsync_ok hok happ
    exact wfcExecute_visit (rt := Backend.startRec .wfc .none) w none hok'
      (by rw [htbl]; exact parentOk_upsert hp _) (by rw [htbl]; exact lookup_upsert_same _ _ _) rfl rfl rfl
  · rcases hst with hs | hs
    · rw [EngineH.handleWfc_started w hl hs]
      exact wfcExecute_visit w (some rt) hok hp hl hk hs rfl
    · rw [EngineH.handleWfc_ready w hl hs]
      have happ := apply_start_ready (t := s.tbl) (u := EngineH.wfcStartUpd q) (imm := .none) hp hl rfl hk
        (Or.inr rfl) hs
      obtain ⟨htbl, hok'⟩ := ckAsync_ok hok happ
      exact wfcExecute_visit (rt := restartRec rt) w (some rt) hok'
        (by rw [htbl]; exact parentOk_upsert hp _) (by rw [htbl]; exact lookup_upsert_same _ _ _) hk rfl rfl

/-- **Progress of a wait**, first visit: the timer is registered (synchronously) and the invocation
suspends on it. -/
theorem handleWait_visit {s : St} {q : Pos} (secs : Nat) (hok : StOk s)
    (hp : Backend.parentOk s.tbl q = true) (hl : lookup s.tbl q = none) :
    (∃ s', handleWait s q secs = .stop .crashed s') ∨
    (∃ s', handleWait s q secs = .stop (.suspended (some secs)) s' ∧
      lookup s'.tbl q = some { kind := .wait, status := .started } ∧ Synced s') := by
  unfold handleWait
  rw [hl]
  simp only []
  have happ := apply_start_absent (t := s.tbl)
    (u := { pos := q, kind := .wait, action := .start, delay := some secs }) (imm := .none) hp hl rfl
  rcases ck_cases hok happ with ⟨s', hc⟩ | ⟨s', hc, htbl, _⟩
  · rw [hc]; exact Or.inl ⟨_, rfl⟩
  · rw [hc]
    simp only []
    have hl' : lookup s'.tbl q = some { kind := .wait, status := .started } := by
      rw [htbl]; exact lookup_upsert_same _ _ _
    rw [hl']
    exact Or.inr ⟨s', rfl, hl', ck_synced rfl hc⟩

/-- **Progress of a chained invoke**, first visit. -/
theorem handleInvoke_visit {s : St} {q : Pos} (payload : Val) (hok : StOk s)
    (hp : Backend.parentOk s.tbl q = true) (hl : lookup s.tbl q = none) :
    (∃ s', handleInvoke s q payload = .stop .crashed s') ∨
    (∃ s', handleInvoke s q payload = .stop (.suspended (some 0)) s' ∧
      lookup s'.tbl q = some { kind := .invoke, status := .started } ∧ Synced s') := by
  unfold handleInvoke
  rw [hl]
  simp only []
  have happ := apply_start_absent (t := s.tbl)
    (u := { pos := q, kind := .invoke, action := .start, payload := some payload }) (imm := .none) hp hl rfl
  rcases ck_cases hok happ with ⟨s', hc⟩ | ⟨s', hc, htbl, _⟩
  · rw [hc]; exact Or.inl ⟨_, rfl⟩
  · rw [hc]
    simp only []
    have hl' : lookup s'.tbl q = some { kind := .invoke, status := .started } := by
      rw [htbl]; exact lookup_upsert_same _ _ _
    rw [hl']
    exact Or.inr ⟨s', rfl, hl', ck_synced rfl hc⟩

/-- **Progress of `create_callback`**, first visit: the callback is registered and the handle returned. -/
theorem handleCbNew_visit {s : St} {q : Pos} (hok : StOk s)
    (hp : Backend.parentOk s.tbl q = true) (hl : lookup s.tbl q = none) :
    (∃ s', handleCbNew s q = .error (.crashed, s')) ∨
    (∃ s', handleCbNew s q = .ok s' ∧ lookup s'.tbl q = some { kind := .callback, status := .started } ∧
      Synced s') := by
  unfold handleCbNew
  rw [hl]
  simp only []
  have happ := apply_start_absent (t := s.tbl)
    (u := { pos := q, kind := .callback, action := .start }) (imm := .none) hp hl rfl
  rcases ck_cases hok happ with ⟨s', hc⟩ | ⟨s', hc, htbl, _⟩
  · rw [hc]; exact Or.inl ⟨_, rfl⟩
  · rw [hc]
    simp only []
    have hl' : lookup s'.tbl q = some { kind := .callback, status := .started } := by
      rw [htbl]; exact lookup_upsert_same _ _ _
    rw [hl']
    exact Or.inr ⟨_, rfl, by simpa using hl',
      synced_of_eq (ck_synced rfl hc) (by simp) (by simp) (by simp)⟩

/-- A child context entered for the first time: its START is handed over and the body runs. -/
theorem childBefore_visit {s : St} {q : Pos} (hok : StOk s)
    (hp : Backend.parentOk s.tbl q = true) (hl : lookup s.tbl q = none) :
    ∃ s', childBefore s q = .inr (s', false) ∧ lookup s'.tbl q = some { kind := .context, status := .started } ∧
      s'.syncTbl = s.syncTbl := by
  unfold childBefore
  rw [hl]
  simp only []
  have happ := apply_start_absent (t := s.tbl)
    (u := { pos := q, kind := .context, action := .start, sync := false }) (imm := .none) hp hl rfl
  rcases ck_cases hok happ with ⟨s', hc⟩ | ⟨s', hc, htbl, _⟩
  · rw [EngineH.checkpoint_async _ _ rfl] at hc; cases hc
  · rw [hc]
    refine ⟨_, rfl, by rw [EngineRun.emit_tbl, htbl]; exact lookup_upsert_same _ _ _, ?_⟩
    rw [EngineH.checkpoint_async _ _ rfl] at hc
    cases hc
    show (EngineH.ckAsync s _).syncTbl = _
    unfold EngineH.ckAsync
    split <;> rfl

/-- What the completion of a child context whose record is STARTED leads to. -/
def ChildPost (c : ChildSpec) (q : Pos) (e : End) : HRes → Prop
  | .deliver o s' => ∃ r', lookup s'.tbl q = some r' ∧ Done r' = true ∧ Synced s' ∧
      ((∃ v, e = .returned v ∧ o = .ok v ∧
          (c.large v = false → r'.replayChildren = false ∧ outcomeOf r' = .ok v) ∧
          (c.large v = true → r'.status = .succeeded ∧ r'.replayChildren = true)) ∨
       (∃ ex, e = .raised ex ∧ r'.status = .failed ∧
          (o = outcomeOf r' ∨ (ex.inv = true ∧ o = .err ex ∧ outcomeOf r' = canonErr ex))))
  | .stop e' _ => e' = .crashed ∨ (e' = e ∧ (∀ v, e ≠ .returned v) ∧ ∀ ex, e ≠ .raised ex)

theorem childAfter_visit {s : St} {q : Pos} (c : ChildSpec) (e : End) {rt : OpRec}
    (hok : StOk s) (hp : Backend.parentOk s.tbl q = true) (hl : lookup s.tbl q = some rt)
    (hk : rt.kind = .context) (hst : rt.status = .started) :
    ChildPost c q e (childAfter s q c false e) := by
  cases e with
  | returned v =>
    simp only [childAfter, Bool.false_eq_true, if_false]
    generalize hu : (if c.large v = true then
        ({ pos := q, kind := .context, action := .succeed, payload := some (c.summary v), replayChildren := true } : Upd)
      else { pos := q, kind := .context, action := .succeed, payload := some v }) = u
    have hpos : u.pos = q := by subst hu; split <;> rfl
    have hact : u.action = .succeed := by subst hu; split <;> rfl
    have hkind : u.kind = .context := by subst hu; split <;> rfl
    have happ := apply_succeed (t := s.tbl) (u := u) (imm := .none) (by rw [hpos]; exact hp)
      (by rw [hpos]; exact hl) hact (by rw [hk, hkind]) (Or.inl hst) (Or.inr (Or.inr hkind))
    rcases ck_cases hok happ with ⟨s', hc⟩ | ⟨s', hc, htbl, _⟩
    · rw [hc]; exact Or.inl rfl
    · rw [hc]
      simp only []
      obtain ⟨s'', hd, ht⟩ := deliverAt_deliver s' q (.ok v)
      rw [hd]
      refine ⟨_, by rw [ht, htbl, hpos]; exact lookup_upsert_same _ _ _, rfl,
        synced_deliverAt (ck_synced (by subst hu; split <;> rfl) hc) hd, Or.inl ⟨v, rfl, rfl, ?_, ?_⟩⟩
      · intro hlarge
        subst hu
        simp only [hlarge, Bool.false_eq_true, if_false]
        exact ⟨rfl, outcomeOf_succRec _ _ _⟩
      · intro hlarge
        subst hu
        simp only [hlarge, if_true]
        exact ⟨rfl, rfl⟩
  | raised ex =>
    rw [EngineH.childAfter_raised]
    have happ := apply_fail (t := s.tbl) (u := EngineH.ctxFailUpd q ex) (imm := .none) hp hl rfl hk
      (Or.inl hst) (Or.inr (Or.inr rfl))
    rcases ck_cases hok happ with ⟨s', hc⟩ | ⟨s', hc, htbl, _⟩
    · rw [hc]; exact Or.inl rfl
    · rw [hc]
      simp only []
      have hl' : lookup s'.tbl q = some (failRec rt (some (ErrObj.ofExc ex))) := by
        rw [htbl]; exact lookup_upsert_same _ _ _
      have hrc : (failRec rt (some (ErrObj.ofExc ex))).status = .failed := rfl
      split
      · rename_i hinv
        obtain ⟨s'', hd, ht⟩ := deliverAt_deliver s' q (.err ex)
        rw [hd]
        exact ⟨_, by rw [ht]; exact hl', rfl, synced_deliverAt (ck_synced rfl hc) hd,
          Or.inr ⟨ex, rfl, hrc, Or.inr ⟨hinv, rfl, outcomeOf_failRec _ _⟩⟩⟩
      · obtain ⟨s'', hd, ht⟩ := deliverAt_deliver s' q (.err (ErrObj.ofExc ex).toCallable)
        rw [hd]
        exact ⟨_, by rw [ht]; exact hl', rfl, synced_deliverAt (ck_synced rfl hc) hd,
          Or.inr ⟨ex, rfl, hrc, Or.inl (outcomeOf_failRec _ _).symm⟩⟩
  | suspended d => exact Or.inr ⟨rfl, (fun v hv => by cases hv), (fun v hv => by cases hv)⟩
  | crashed => exact Or.inl rfl
  | ckptFailed => exact Or.inr ⟨rfl, (fun v hv => by cases hv), (fun v hv => by cases hv)⟩

/-! ## Static conditions on programs -/

/-- Every retry strategy gives up after finitely many attempts, every wait-for-condition stops
polling after finitely many attempts — along every path of the program. -/
inductive Bounded : Prog → Prop
  | ret {v} : Bounded (.ret v)
  | raise {e} : Bounded (.raise e)
  | log {m k} : Bounded k → Bounded (.log m k)
  | step {sp k} : (∃ M, ∀ e a, M ≤ a → sp.strategy e a = none) → (∀ o, Bounded (k o)) → Bounded (.step sp k)
  | wait {secs k} : Bounded k → Bounded (.wait secs k)
  | cbNew {k} : (∀ h, Bounded (k h)) → Bounded (.cbNew k)
  | cbRes {h k} : (∀ o, Bounded (k o)) → Bounded (.cbRes h k)
  | invoke {pl k} : (∀ o, Bounded (k o)) → Bounded (.invoke pl k)
  | wfc {w k} : (∃ M, ∀ v a, M ≤ a → w.decide v a = none) → (∀ o, Bounded (k o)) → Bounded (.wfc w k)
  | child {c body k} : Bounded body → (∀ o, Bounded (k o)) → Bounded (.child c body k)

/-- Replay-stable programs: `EngineCompat.Scoped` with *equality* of continuations instead of `Sim`:
* `Callback.result()` is called on the position of an earlier operation (`Past`), as in `Scoped`;
* a continuation does not distinguish the exception delivered on first execution from the
  `CallableRuntimeError` delivered for the same failure on replay (finding F2 and its relatives). -/
inductive LScoped : Prog → Pos → Nat → Prop
  | ret {v ctx n} : LScoped (.ret v) ctx n
  | raise {e ctx n} : LScoped (.raise e) ctx n
  | log {m k ctx n} : LScoped k ctx n → LScoped (.log m k) ctx n
  | step {sp k ctx n} : (∀ o, LScoped (k o) ctx (n + 1)) →
      (∀ e, e.inv = true → ((∃ a, sp.body a = .err e) ∨ (sp.amo = true ∧ e = StepInterrupted (ctx ++ [n + 1]))) →
        k (.err e) = k (canonErr e)) →
      LScoped (.step sp k) ctx n
  | wait {secs k ctx n} : LScoped k ctx (n + 1) → LScoped (.wait secs k) ctx n
  | cbNew {k ctx n} : LScoped (k (ctx ++ [n + 1])) ctx (n + 1) → LScoped (.cbNew k) ctx n
  | cbRes {h k ctx n} : Past h ctx n → (∀ o, LScoped (k o) ctx n) → LScoped (.cbRes h k) ctx n
  | invoke {pl k ctx n} : (∀ o, LScoped (k o) ctx (n + 1)) → LScoped (.invoke pl k) ctx n
  | wfc {w k ctx n} : (∀ o, LScoped (k o) ctx (n + 1)) →
      (∀ e st a, w.check st a = .err e → k (.err e) = k (canonErr e)) → LScoped (.wfc w k) ctx n
  | child {c body k ctx n} : LScoped body (ctx ++ [n + 1]) 0 →
      (∀ o, LScoped (k o) ctx (n + 1)) →
      (∀ e, e.inv = true → k (.err e) = k (canonErr e)) → LScoped (.child c body k) ctx n

theorem past_mono {h ctx n} (hp : Past h ctx n) : Past h ctx (n + 1) := by
  obtain ⟨c, j, rfl, hj, h | h⟩ := hp
  · exact ⟨c, j, rfl, hj, Or.inl ⟨h.1, by omega⟩⟩
  · exact ⟨c, j, rfl, hj, Or.inr h⟩

theorem past_self (ctx : Pos) (n : Nat) : Past (ctx ++ [n + 1]) ctx (n + 1) :=
  ⟨ctx, n + 1, rfl, by omega, Or.inl ⟨rfl, Nat.le_refl _⟩⟩

theorem past_into_child {h ctx n} (hp : Past h ctx n) : Past h (ctx ++ [n + 1]) 0 := by
  obtain ⟨c, j, rfl, hj, h | h⟩ := hp
  · obtain ⟨rfl, hle⟩ := h
    exact ⟨c, j, rfl, hj, Or.inr ⟨n + 1, [], rfl, by omega⟩⟩
  · obtain ⟨m, rest, he, hjm⟩ := h
    exact ⟨c, j, rfl, hj, Or.inr ⟨m, rest ++ [n + 1], by rw [he]; simp, hjm⟩⟩

theorem past_not_inRegion {h ctx n} (hp : Past h ctx n) : ¬ InRegion ctx n h := by
  obtain ⟨c, j, rfl, hj, h | h⟩ := hp
  · obtain ⟨rfl, hle⟩ := h
    rintro ⟨i, rest, he, hi⟩
    have := List.append_cancel_left he
    simp at this
    omega
  · obtain ⟨m, rest, he, hjm⟩ := h
    rintro ⟨i, rest', he', hi⟩
    subst he
    rw [List.append_assoc] at he'
    have := List.append_cancel_left he'
    simp at this

/-- A replay-stable program is `Scoped` (so `EngineCompat.run_ok` applies to it). -/
theorem LScoped.scoped {p : Prog} {ctx : Pos} {n : Nat} (h : LScoped p ctx n) : Scoped p ctx n := by
  induction h with
  | ret => exact .ret
  | raise => exact .raise
  | log _ ih => exact .log ih
  | step _ hs ih => exact .step ih (fun e h1 h2 => Sim.of_eq (hs e h1 h2))
  | wait _ ih => exact .wait ih
  | cbNew _ ih => exact .cbNew ih
  | cbRes hh _ ih => exact .cbRes hh ih
  | invoke _ ih => exact .invoke ih
  | wfc _ hs ih => exact .wfc ih (fun e st a h => Sim.of_eq (hs e st a h))
  | child _ _ hs ihb ihk => exact .child ihb ihk (fun e h => Sim.of_eq (hs e h))

/-! ## Sequences of invocations driven by the good environment -/

theorem hides_congr {t t' : Tbl} {a : Pos} (h : lookup t' a = lookup t a) : hides t' a = hides t a := by
  unfold hides; rw [h]

theorem hides_fireAll (outc : Pos → Backend.Immediate) (t : Tbl) (a : Pos) :
    hides (fireAll outc t) a = hides t a := by
  unfold hides
  rw [lookup_fireAll]
  cases hl : lookup t a with
  | none => rfl
  | some r =>
    show (match some (fireRec (outc a) r) with
      | some r => r.kind == Kind.context && r.status.terminal && !r.replayChildren
      | none => false) = _
    by_cases hk : r.kind = .context
    · rw [fireRec_context hk]
    · have hk' : (fireRec (outc a) r).kind ≠ .context := by rw [fireRec_kind]; exact hk
      have h1 : ((fireRec (outc a) r).kind == Kind.context) = false := by simpa using hk'
      have h2 : (r.kind == Kind.context) = false := by simpa using hk
      simp only [h1, h2, Bool.false_and]

theorem not_inRegion_take (ctx : Pos) (n k : Nat) : ¬ InRegion ctx n (ctx.take k) := by
  rintro ⟨i, rest, he, _⟩
  have := congrArg List.length he
  simp at this
  omega

theorem ctxVis_of_frame {ctx : Pos} {n : Nat} {t t' : Tbl} (hf : Frame ctx n t t') (h : CtxVis t ctx) :
    CtxVis t' ctx := fun k hk0 hk => by
  rw [hides_congr (hf _ (not_inRegion_take ctx n k))]; exact h k hk0 hk

theorem ctxVis_fireAll {ctx : Pos} {outc : Pos → Backend.Immediate} {t : Tbl} (h : CtxVis t ctx) :
    CtxVis (fireAll outc t) ctx := fun k hk0 hk => by
  rw [hides_fireAll]; exact h k hk0 hk

theorem ctxVis_visible {ctx : Pos} {t : Tbl} (h : CtxVis t ctx) : CtxVis (Exec.visible t) ctx := by
  intro k hk0 hk
  have hnh : Exec.hidden t (ctx.take k) = false := by
    apply hidden_false_of
    intro k' hk0' hk'
    rw [List.take_take]
    have : min k' k ≤ ctx.length := by omega
    exact h _ (by omega) this
  rw [hides_congr (lookup_visible_of hnh)]
  exact h k hk0 hk

theorem ctxOk_of_frame {ctx : Pos} {n : Nat} {t t' : Tbl} (hf : Frame ctx n t t') (h : CtxOk ctx t) :
    CtxOk ctx t' := by
  rcases h with h | ⟨r, hl, hk⟩
  · exact Or.inl h
  · exact Or.inr ⟨r, by rw [hf _ (not_inRegion_self ctx n)]; exact hl, hk⟩

/-! ## Inversion of `Compat` at an operation whose record is known -/

theorem returns_unique {p : Prog} {ctx : Pos} {n : Nat} {t : Tbl} {v v' : Val}
    (h : Returns p ctx n t v) (h' : Returns p ctx n t v') : v = v' := by
  obtain ⟨s1, e1, _⟩ := run_of_returns h (initSt t 0 none (fun _ => .none)) rfl
  obtain ⟨s2, e2, _⟩ := run_of_returns h' (initSt t 0 none (fun _ => .none)) rfl
  rw [e1] at e2
  cases e2; rfl

theorem compat_log_inv {m : String} {k : Prog} {ctx : Pos} {n : Nat} {t : Tbl}
    (h : Compat (.log m k) ctx n t) : Compat k ctx n t := by
  cases h with
  | fresh hu => exact .fresh hu
  | log h => exact h

theorem compat_step_inv {sp : StepSpec} {k : Outcome → Prog} {ctx : Pos} {n : Nat} {t : Tbl} {r : OpRec}
    (h : Compat (.step sp k) ctx n t) (hl : lookup t (ctx ++ [n + 1]) = some r) (hd : Done r = true) :
    Compat (k (outcomeOf r)) ctx (n + 1) t := by
  cases h with
  | fresh hu => rw [hu.self] at hl; cases hl
  | stepActive hl' _ ha _ =>
    rw [hl] at hl'; cases hl'
    have := ha.not_terminal
    rw [done_terminal hd] at this; cases this
  | stepDone hl' _ hc => rw [hl] at hl'; cases hl'; exact hc

theorem compat_wfc_inv {w : WfcSpec} {k : Outcome → Prog} {ctx : Pos} {n : Nat} {t : Tbl} {r : OpRec}
    (h : Compat (.wfc w k) ctx n t) (hl : lookup t (ctx ++ [n + 1]) = some r) (hd : Done r = true) :
    Compat (k (outcomeOf r)) ctx (n + 1) t := by
  cases h with
  | fresh hu => rw [hu.self] at hl; cases hl
  | wfcActive hl' _ ha _ =>
    rw [hl] at hl'; cases hl'
    have := ha.not_terminal
    rw [done_terminal hd] at this; cases this
  | wfcDone hl' _ hc => rw [hl] at hl'; cases hl'; exact hc

theorem compat_wait_inv {secs : Nat} {k : Prog} {ctx : Pos} {n : Nat} {t : Tbl} {r : OpRec}
    (h : Compat (.wait secs k) ctx n t) (hl : lookup t (ctx ++ [n + 1]) = some r) (hs : r.status = .succeeded) :
    Compat k ctx (n + 1) t := by
  cases h with
  | fresh hu => rw [hu.self] at hl; cases hl
  | waitPark hl' hne _ => rw [hl] at hl'; cases hl'; exact absurd hs hne
  | waitDone hl' _ hc => exact hc

theorem compat_invoke_inv {pl : Val} {k : Outcome → Prog} {ctx : Pos} {n : Nat} {t : Tbl} {r : OpRec} {o : Outcome}
    (h : Compat (.invoke pl k) ctx n t) (hl : lookup t (ctx ++ [n + 1]) = some r) (ho : invOut r = some o) :
    Compat (k o) ctx (n + 1) t := by
  cases h with
  | fresh hu => rw [hu.self] at hl; cases hl
  | invokePark hl' hn _ => rw [hl] at hl'; cases hl'; rw [ho] at hn; cases hn
  | invokeDone hl' ho' hc => rw [hl] at hl'; cases hl'; rw [ho] at ho'; cases ho'; exact hc

theorem compat_cbNew_inv {k : Handle → Prog} {ctx : Pos} {n : Nat} {t : Tbl} {r : OpRec}
    (h : Compat (.cbNew k) ctx n t) (hl : lookup t (ctx ++ [n + 1]) = some r) :
    Compat (k (ctx ++ [n + 1])) ctx (n + 1) t := by
  cases h with
  | fresh hu => rw [hu.self] at hl; cases hl
  | cbNew _ hc => exact hc

theorem compat_cbRes_inv {hd : Handle} {k : Outcome → Prog} {ctx : Pos} {n : Nat} {t : Tbl} {r : OpRec} {o : Outcome}
    (h : Compat (.cbRes hd k) ctx n t) (hl : lookup t hd = some r) (ho : cbOut r = some o) :
    Compat (k o) ctx n t := by
  cases h with
  | fresh hu => exact .fresh hu
  | cbResPark _ hl' hn _ => rw [hl] at hl'; cases hl'; rw [ho] at hn; cases hn
  | cbResDone _ hl' ho' hc => rw [hl] at hl'; cases hl'; rw [ho] at ho'; cases ho'; exact hc

theorem compat_child_body_inv {c : ChildSpec} {body : Prog} {k : Outcome → Prog} {ctx : Pos} {n : Nat} {t : Tbl}
    {r : OpRec} (h : Compat (.child c body k) ctx n t) (hl : lookup t (ctx ++ [n + 1]) = some r)
    (hs : r.status = .started) : Compat body (ctx ++ [n + 1]) 0 t := by
  cases h with
  | fresh hu => rw [hu.self] at hl; cases hl
  | childActive _ _ _ hb _ => exact hb
  | childDone hl' hd _ _ =>
    rw [hl] at hl'; cases hl'
    have := done_terminal hd
    rw [hs] at this; cases this
  | childReplay hl' hs' _ _ _ => rw [hl] at hl'; cases hl'; rw [hs] at hs'; cases hs'

theorem compat_child_done_inv {c : ChildSpec} {body : Prog} {k : Outcome → Prog} {ctx : Pos} {n : Nat} {t : Tbl}
    {r : OpRec} (h : Compat (.child c body k) ctx n t) (hl : lookup t (ctx ++ [n + 1]) = some r)
    (hd : Done r = true) (hrc : r.status = .succeeded → r.replayChildren = false) :
    Compat (k (outcomeOf r)) ctx (n + 1) t := by
  cases h with
  | fresh hu => rw [hu.self] at hl; cases hl
  | childActive hl' _ hs _ _ =>
    rw [hl] at hl'; cases hl'
    have := done_terminal hd
    rw [hs] at this; cases this
  | childDone hl' _ _ hc => rw [hl] at hl'; cases hl'; exact hc
  | childReplay hl' hs' hr _ _ =>
    rw [hl] at hl'; cases hl'
    rw [hrc hs'] at hr; cases hr

theorem compat_child_replay_inv {c : ChildSpec} {body : Prog} {k : Outcome → Prog} {ctx : Pos} {n : Nat} {t : Tbl}
    {r : OpRec} {v : Val} (h : Compat (.child c body k) ctx n t) (hl : lookup t (ctx ++ [n + 1]) = some r)
    (hs : r.status = .succeeded) (hrc : r.replayChildren = true) (hv : Returns body (ctx ++ [n + 1]) 0 t v) :
    Compat (k (.ok v)) ctx (n + 1) t := by
  cases h with
  | fresh hu => rw [hu.self] at hl; cases hl
  | childActive hl' _ hs' _ _ => rw [hl] at hl'; cases hl'; rw [hs] at hs'; cases hs'
  | childDone hl' _ hr _ => rw [hl] at hl'; cases hl'; rw [hr hs] at hrc; cases hrc
  | childReplay hl' _ _ hv' hc =>
    rw [returns_unique hv hv']; exact hc

/-! ## More on `fireRec`, `Mono` -/

theorem fireRec_pending {o : Backend.Immediate} {r : OpRec} (hk : r.kind = .step ∨ r.kind = .wfc)
    (hs : r.status = .pending) : fireRec o r = { r with status := .ready } := by
  unfold fireRec
  rcases hk with hk | hk <;> simp [hk, hs]

theorem fireRec_wait (o : Backend.Immediate) :
    fireRec o { kind := .wait, status := .started } = { kind := .wait, status := .succeeded } := rfl

theorem fireRec_invoke (o : Backend.Immediate) :
    fireRec o { kind := .invoke, status := .started } = Backend.finish { kind := .invoke, status := .started } o := rfl

theorem fireRec_callback (o : Backend.Immediate) :
    fireRec o { kind := .callback, status := .started } =
      Backend.finish { kind := .callback, status := .started } o := rfl

theorem invOut_finish {o : Backend.Immediate} (ho : o ≠ .none) :
    (invOut (Backend.finish { kind := .invoke, status := .started } o)).isSome = true := by
  cases o <;> first | exact absurd rfl ho | rfl

theorem cbOut_finish {o : Backend.Immediate} (ho : o ≠ .none) :
    (cbOut (Backend.finish { kind := .callback, status := .started } o)).isSome = true := by
  cases o <;> first | exact absurd rfl ho | rfl

theorem cbOut_isSome_terminal {r : OpRec} (h : (cbOut r).isSome = true) : r.status.terminal = true := by
  cases ho : cbOut r with
  | none => rw [ho] at h; cases h
  | some o => exact cbOut_terminal ho

/-- `Callback.result()` delivers on every terminal record. -/
theorem cbOut_of_terminal {r : OpRec} (h : r.status.terminal = true) : (cbOut r).isSome = true := by
  unfold cbOut
  cases hs : r.status <;> simp_all [Status.terminal]

theorem apply_mono {t t' : Tbl} {u : Upd} {imm : Backend.Immediate} (h : Backend.apply t u imm = some t') :
    Mono t t' := by
  intro q r hl
  by_cases hq : u.pos = q
  · subst hq
    obtain ⟨r', rfl, hk, hc⟩ := EngineExec.apply_cases h
    refine ⟨r', lookup_upsert_same _ _ _, ?_, fun ht => ?_⟩
    · rcases hc with ⟨h0, _⟩ | ⟨r0, h0, _, _, _, rfl⟩ | ⟨r0, h0, _, _, _, rfl⟩ | ⟨r0, h0, _, _, _, rfl⟩ |
        ⟨r0, h0, _, _, _, rfl⟩
      · rw [hl] at h0; cases h0
      all_goals (rw [hl] at h0; cases h0; rfl)
    · have := EngineRun.apply_terminal h hl ht
      rw [lookup_upsert_same] at this
      exact Option.some.inj this
  · exact ⟨r, by rw [EngineRun.apply_lookup_ne h hq]; exact hl, rfl, fun _ => rfl⟩

theorem mv_mono {E : Ev → Prop} {a b : St} (h : EngineExec.Mv E a b) : Mono a.tbl b.tbl := by
  induction h with
  | refl => exact Mono.refl _
  | silent e1 _ _ _ _ _ ih => rw [e1] at ih; exact ih
  | emit e _ _ ih => exact ih
  | async u _ _ ha _ _ _ _ _ ih => exact (apply_mono ha).trans ih
  | asyncRej _ _ e1 _ _ _ _ _ ih => rw [e1] at ih; exact ih
  | sync u _ ha _ _ _ _ _ ih => exact (apply_mono ha).trans ih

/-- Records persist through a run, keep their kind, and terminal ones are never changed. -/
theorem run_mono (p : Prog) (ctx : Pos) (n : Nat) (s : St) : Mono s.tbl (run p ctx n s).2.tbl :=
  mv_mono (EngineExec.run_mv p ctx n s)

/-- A table predicate preserved by every accepted update holds of the working table and of the
acknowledged table after any number of moves. -/
theorem mv_stable' {Q : Tbl → Prop} (hQ : ∀ t u imm t', Backend.apply t u imm = some t' → Q t → Q t')
    {E : Ev → Prop} {a b : St} (h : EngineExec.Mv E a b) :
    Q a.tbl ∧ Q a.syncTbl → Q b.tbl ∧ Q b.syncTbl := by
  induction h with
  | refl => exact id
  | silent e1 _ e3 _ _ _ ih => intro h; exact ih (by rw [e1, e3]; exact h)
  | emit e _ _ ih => intro h; exact ih h
  | async u _ _ ha _ e3 _ _ _ ih => intro h; exact ih ⟨hQ _ _ _ _ ha h.1, by rw [e3]; exact h.2⟩
  | asyncRej _ _ e1 _ e3 _ _ _ ih => intro h; exact ih (by rw [e1, e3]; exact h)
  | sync u _ ha e2 _ _ _ _ ih =>
    intro h
    have := hQ _ _ _ _ ha h.1
    exact ih ⟨this, by rw [e2]; exact this⟩

theorem applyPrefix_stable' {Q : Tbl → Prop} (hQ : ∀ t u imm t', Backend.apply t u imm = some t' → Q t → Q t')
    (imm : Pos → Backend.Immediate) : ∀ (l : List Upd) (k : Nat) (t : Tbl), Q t → Q (applyPrefix t imm l k) := by
  intro l
  induction l with
  | nil => intro k t h; simpa [applyPrefix] using h
  | cons u us ih =>
    intro k t h
    cases k with
    | zero => simpa [applyPrefix] using h
    | succ k =>
      simp only [applyPrefix]
      split
      · rename_i t' ha; exact ih k t' (hQ _ _ _ _ ha h)
      · exact ih k t h

/-! ## What the backend keeps of an invocation -/

/-- The table the backend holds after an invocation that ends in state `s`, if the first `k`
asynchronous updates in flight were still delivered (`= finalTbl e s k` for every ending `e`). -/
def kept (s : St) (k : Nat) : Tbl := applyPrefix s.syncTbl s.imm s.pending k

theorem finalTbl_eq_kept (e : End) (s : St) (k : Nat) : finalTbl e s k = kept s k := rfl

/-- The working table is the acknowledged table plus all updates in flight. -/
def Full (s : St) : Prop := applyPrefix s.syncTbl s.imm s.pending s.pending.length = s.tbl

theorem applyPrefix_mono (imm : Pos → Backend.Immediate) :
    ∀ (l : List Upd) (k : Nat) (t : Tbl), Mono t (applyPrefix t imm l k) :=
  fun l k t => applyPrefix_stable' (Q := Mono t) (fun _ _ _ _ ha h => h.trans (apply_mono ha)) imm l k t
    (Mono.refl t)

theorem applyPrefix_mono_full (imm : Pos → Backend.Immediate) :
    ∀ (l : List Upd) (k : Nat) (t : Tbl), Mono (applyPrefix t imm l k) (applyPrefix t imm l l.length) := by
  intro l
  induction l with
  | nil => intro k t; simp only [applyPrefix]; cases k <;> exact Mono.refl _
  | cons u us ih =>
    intro k t
    cases k with
    | zero =>
      simp only [applyPrefix, List.length_cons]
      split
      · rename_i t' ha; exact (apply_mono ha).trans (applyPrefix_mono imm us us.length t')
      · exact applyPrefix_mono imm us us.length t
    | succ k =>
      simp only [applyPrefix, List.length_cons]
      split
      · exact ih k _
      · exact ih k _

/-- Every kept table is below the working table. -/
theorem kept_mono {s : St} (h : Full s) (k : Nat) : Mono (kept s k) s.tbl := by
  have := applyPrefix_mono_full s.imm s.pending k s.syncTbl
  rw [h] at this
  exact this

theorem kept_none {s : St} (h : Full s) (k : Nat) {q : Pos} (hl : lookup s.tbl q = none) :
    lookup (kept s k) q = none := by
  cases hk : lookup (kept s k) q with
  | none => rfl
  | some r =>
    obtain ⟨r', hl', _⟩ := kept_mono h k q r hk
    rw [hl] at hl'; cases hl'

theorem kept_untouched {s : St} (h : Full s) (k : Nat) {ctx : Pos} {m : Nat} (hu : Untouched ctx m s.tbl) :
    Untouched ctx m (kept s k) := fun x hx => kept_none h k (hu x hx)

theorem kept_synced {s : St} (h : Synced s) (k : Nat) : kept s k = s.tbl := by
  unfold kept
  rw [h.1, h.2]
  cases k <;> rfl

theorem applyPrefix_keeps (imm : Pos → Backend.Immediate) {q : Pos} {r : OpRec}
    (hr : r.status.terminal = true ∨ Parked r = true) :
    ∀ (l : List Upd) (k : Nat) (t : Tbl), (∀ u ∈ l, EngineRun.AsyncStart u) → lookup t q = some r →
      lookup (applyPrefix t imm l k) q = some r := by
  intro l
  induction l with
  | nil => intro k t _ h; simpa [applyPrefix] using h
  | cons u us ih =>
    intro k t hl h
    cases k with
    | zero => simpa [applyPrefix] using h
    | succ k =>
      simp only [applyPrefix]
      have hus : ∀ x ∈ us, EngineRun.AsyncStart x := fun x hx => hl x (List.mem_cons_of_mem _ hx)
      split
      · rename_i t' ha
        refine ih k t' hus ?_
        by_cases hq : u.pos = q
        · subst hq
          obtain ⟨_, hst, _⟩ := EngineH.apply_start_present_inv h (hl u (List.mem_cons_self ..)).2.1 ha
          rcases hr with hr | hr
          · rw [hst] at hr; cases hr
          · simp [Parked, hst] at hr
        · rw [EngineRun.apply_lookup_ne ha hq]; exact h
      · exact ih k t hus h

/-- **Synchronously written records are never lost**: a terminal or parking record of the working
table is in every kept table. -/
theorem kept_keeps {s : St} (hw : EngineRun.WAL s) (k : Nat) {q : Pos} {r : OpRec}
    (hl : lookup s.tbl q = some r) (hr : r.status.terminal = true ∨ Parked r = true) :
    lookup (kept s k) q = some r :=
  applyPrefix_keeps s.imm hr s.pending k s.syncTbl hw.pending (hw.acked q r hl hr)

theorem ctxVis_of_mono_rev {ctx : Pos} {t K : Tbl} (hm : Mono K t) (h : CtxVis t ctx) : CtxVis K ctx := by
  intro k hk0 hk
  have ht := h k hk0 hk
  unfold hides at ht ⊢
  cases hl : lookup K (ctx.take k) with
  | none => rfl
  | some r =>
    obtain ⟨r', hl', hkd, heq⟩ := hm _ _ hl
    rw [hl'] at ht
    simp only [] at ht ⊢
    by_cases hterm : r.status.terminal = true
    · rw [heq hterm] at ht; exact ht
    · have : r.status.terminal = false := by simpa using hterm
      simp [this]

/-! ### `Full` is an invariant -/

theorem full_of_eq {s s' : St} (h : Full s) (h1 : s'.tbl = s.tbl) (h2 : s'.syncTbl = s.syncTbl)
    (h3 : s'.pending = s.pending) (h4 : s'.imm = s.imm) : Full s' := by
  unfold Full at h ⊢
  rw [h1, h2, h3, h4]; exact h

theorem full_init (t : Tbl) (b : Nat) (f : Option Nat) (imm : Pos → Backend.Immediate) :
    Full (initSt t b f imm) := rfl

open EngineRun in
theorem full_ck_ok {s u s'} (h : Full s) (hc : checkpoint s u = .ok s') : Full s' := by
  have hs := checkpoint_spec s u
  rw [hc] at hs
  unfold Full at h ⊢
  cases hs with
  | asyncApplied t hs ha =>
    show applyPrefix s.syncTbl s.imm (s.pending ++ [u]) (s.pending ++ [u]).length = t
    rw [applyPrefix_append, if_neg (by simp), h, ha]
  | asyncRejected hs ha =>
    show applyPrefix s.syncTbl s.imm (s.pending ++ [u]) (s.pending ++ [u]).length = s.tbl
    rw [applyPrefix_append, if_neg (by simp), h, ha]
  | syncApplied t hs hf ha => rfl

open EngineRun in
theorem full_ck_err {s u e s'} (h : Full s) (hc : checkpoint s u = .error (e, s')) : Full s' := by
  have hs := checkpoint_spec s u
  rw [hc] at hs
  cases hs with
  | crashBefore hs => exact full_of_eq h rfl rfl rfl rfl
  | fault hs hf => exact full_of_eq h rfl rfl rfl rfl
  | rejected hs hf ha => exact full_of_eq h rfl rfl rfl rfl
  | crashAfter t hs hf ha => rfl

theorem full_tick {s s' : St} (h : Full s) (ht : tick s = some s') : Full s' := by
  rw [EngineRun.tick_some ht]; exact full_of_eq h rfl rfl rfl rfl

theorem full_track {s : St} {p : Pos} (h : Full s) : Full (trackReplay s p) :=
  full_of_eq h (EngineRun.trackReplay_tbl s p) (EngineRun.trackReplay_syncTbl s p)
    (EngineRun.trackReplay_pending s p) (EngineRun.trackReplay_imm s p)

theorem full_emit {s : St} {e : Ev} (h : Full s) : Full (emit s e) := full_of_eq h rfl rfl rfl rfl

syntax "fu_close" : tactic
macro_rules | `(tactic| fu_close) => `(tactic| first
  | assumption
  | (refine full_track ?_; fu_close)
  | (refine full_emit ?_; fu_close)
  | (refine full_tick ?_ ‹_›; fu_close)
  | (refine full_ck_ok ?_ ‹_›; fu_close)
  | (refine full_ck_err ?_ ‹_›; fu_close))

theorem full_deliverAt {s p o} (h : Full s) : Full (deliverAt s p o).st := by
  unfold deliverAt
  split <;> simp only [EngineRun.st_deliver] <;> fu_close

syntax "fu_close2" : tactic
macro_rules | `(tactic| fu_close2) => `(tactic| first
  | (refine full_deliverAt ?_; fu_close)
  | fu_close)

theorem full_retryHandler {s p spec r e} (h : Full s) : Full (retryHandler s p spec r e).st := by
  unfold retryHandler
  dsimp only
  repeat' split
  all_goals try simp only [EngineRun.st_deliver, EngineRun.st_stop]
  all_goals fu_close2

theorem full_stepExecute {s p spec r} (h : Full s) : Full (stepExecute s p spec r).st := by
  unfold stepExecute
  dsimp only
  repeat' split
  all_goals try simp only [EngineRun.st_deliver, EngineRun.st_stop]
  all_goals first | fu_close2 | (refine full_retryHandler ?_; fu_close)

theorem full_wfcExecute {s p w r} (h : Full s) : Full (wfcExecute s p w r).st := by
  unfold wfcExecute
  dsimp only
  repeat' split
  all_goals try simp only [EngineRun.st_deliver, EngineRun.st_stop]
  all_goals fu_close2

syntax "fu_close3" : tactic
macro_rules | `(tactic| fu_close3) => `(tactic| first
  | fu_close2
  | (refine full_retryHandler ?_; fu_close)
  | (refine full_stepExecute ?_; fu_close)
  | (refine full_wfcExecute ?_; fu_close))

theorem full_handleStep {s p spec} (h : Full s) : Full (handleStep s p spec).st := by
  unfold handleStep
  repeat' split
  all_goals try simp only [EngineRun.st_deliver, EngineRun.st_stop]
  all_goals fu_close3

theorem full_handleWait {s p secs} (h : Full s) : Full (handleWait s p secs).st := by
  unfold handleWait
  repeat' split
  all_goals try simp only [EngineRun.st_deliver, EngineRun.st_stop]
  all_goals fu_close3

theorem full_handleInvoke {s p v} (h : Full s) : Full (handleInvoke s p v).st := by
  unfold handleInvoke invokeTerminal
  repeat' split
  all_goals try simp only [EngineRun.st_deliver, EngineRun.st_stop, Option.getD]
  all_goals fu_close3

theorem full_handleWfc {s p w} (h : Full s) : Full (handleWfc s p w).st := by
  unfold handleWfc
  dsimp only
  repeat' split
  all_goals try simp only [EngineRun.st_deliver, EngineRun.st_stop]
  all_goals fu_close3

theorem full_handleCbRes {s hd} (h : Full s) : Full (handleCbRes s hd).st := by
  unfold handleCbRes
  dsimp only
  repeat' split
  all_goals try simp only [EngineRun.st_deliver, EngineRun.st_stop]
  all_goals fu_close3

theorem full_handleCbNew {s p} (h : Full s) : Full (EngineRun.Except.st (handleCbNew s p)) := by
  unfold handleCbNew
  repeat' split
  all_goals try simp only [EngineRun.st_ok, EngineRun.st_error]
  all_goals fu_close3

theorem full_childBefore {s p} (h : Full s) : Full (EngineRun.childSt (childBefore s p)) := by
  unfold childBefore
  repeat' split
  all_goals try simp only [EngineRun.st_inl, EngineRun.st_inr, EngineRun.st_deliver, EngineRun.st_stop]
  all_goals fu_close3

theorem full_childAfter {s p c m e} (h : Full s) : Full (childAfter s p c m e).st := by
  unfold childAfter
  dsimp only
  repeat' split
  all_goals try simp only [EngineRun.st_deliver, EngineRun.st_stop]
  all_goals fu_close3

theorem full_run (p : Prog) (ctx : Pos) (n : Nat) (s : St) (h : Full s) : Full (run p ctx n s).2 :=
  EngineRun.run_inv Full
    (fun _ _ _ h => full_emit h)
    (fun _ _ _ h => full_handleStep h)
    (fun _ _ _ h => full_handleWait h)
    (fun _ _ h => full_handleCbNew h)
    (fun _ _ h => full_handleCbRes h)
    (fun _ _ _ h => full_handleInvoke h)
    (fun _ _ _ h => full_handleWfc h)
    (fun _ _ h => full_childBefore h)
    (fun _ _ _ _ _ _ _ _ _ _ _ h => full_childAfter h)
    p ctx n s h

/-! ### The state invariant carried along the sequences -/

/-- Fault-free, write-ahead, and the working table is the acknowledged one plus what is in flight. -/
structure SInv (s : St) : Prop where
  ok : StOk s
  wal : EngineRun.WAL s
  full : Full s

theorem sinv_init (t : Tbl) (b : Nat) : SInv (initSt t b none (fun _ => .none)) :=
  ⟨stOk_init t b, EngineRun.wal_init _ _ _ _, full_init _ _ _ _⟩

theorem sinv_run {s : St} (h : SInv s) (p : Prog) (ctx : Pos) (n : Nat) : SInv (run p ctx n s).2 :=
  ⟨stOk_run h.ok, EngineRun.wal_run p ctx n s h.wal, full_run p ctx n s h.full⟩

theorem sinv_doLog {s : St} (h : SInv s) (ctx : Pos) (m : String) : SInv (doLog s ctx m) :=
  ⟨h.ok.of_same rfl rfl, EngineRun.wal_doLog h.wal, full_emit h.full⟩

theorem sinv_handleStep {s : St} (h : SInv s) (p : Pos) (sp : StepSpec) : SInv (handleStep s p sp).st :=
  ⟨h.ok.of_frame (EngineRun.frame_handleStep (EngineRun.Frame.refl p s)), EngineRun.wal_handleStep h.wal,
    full_handleStep h.full⟩

theorem sinv_handleWfc {s : St} (h : SInv s) (p : Pos) (w : WfcSpec) : SInv (handleWfc s p w).st :=
  ⟨h.ok.of_frame (EngineRun.frame_handleWfc (EngineRun.Frame.refl p s)), EngineRun.wal_handleWfc h.wal,
    full_handleWfc h.full⟩

theorem sinv_handleWait {s : St} (h : SInv s) (p : Pos) (secs : Nat) : SInv (handleWait s p secs).st :=
  ⟨h.ok.of_frame (EngineRun.frame_handleWait (EngineRun.Frame.refl p s)), EngineRun.wal_handleWait h.wal,
    full_handleWait h.full⟩

theorem sinv_handleInvoke {s : St} (h : SInv s) (p : Pos) (v : Val) : SInv (handleInvoke s p v).st :=
  ⟨h.ok.of_frame (EngineRun.frame_handleInvoke (EngineRun.Frame.refl p s)), EngineRun.wal_handleInvoke h.wal,
    full_handleInvoke h.full⟩

theorem sinv_handleCbRes {s : St} (h : SInv s) (hd : Pos) : SInv (handleCbRes s hd).st :=
  ⟨h.ok.of_frame (EngineRun.frame_handleCbRes (EngineRun.Frame.refl hd s)), EngineRun.wal_handleCbRes h.wal,
    full_handleCbRes h.full⟩

theorem sinv_handleCbNew {s : St} (h : SInv s) (p : Pos) : SInv (EngineRun.Except.st (handleCbNew s p)) :=
  ⟨h.ok.of_frame (EngineRun.frame_handleCbNew (EngineRun.Frame.refl p s)), EngineRun.wal_handleCbNew h.wal,
    full_handleCbNew h.full⟩

theorem sinv_childBefore {s : St} (h : SInv s) (p : Pos) : SInv (EngineRun.childSt (childBefore s p)) :=
  ⟨h.ok.of_frame (EngineRun.frame_childBefore (EngineRun.Frame.refl p s)), EngineRun.wal_childBefore h.wal,
    full_childBefore h.full⟩

theorem sinv_deliverAt {s : St} (h : SInv s) (p : Pos) (o : Outcome)
    (hr : ∃ r, lookup s.tbl p = some r ∧ r.status.terminal = true) : SInv (deliverAt s p o).st :=
  ⟨h.ok.of_frame (EngineRun.frame_deliverAt (EngineRun.Frame.refl p s)), EngineRun.wal_deliverAt h.wal hr,
    full_deliverAt h.full⟩

/-- The operation at `h` is resolved (its record makes `Callback.result()` deliver) from the second
invocation of the sequence on, and stays so; in the first one it is outstanding or already so. -/
def Resolved (seq : Nat → St) (h : Pos) : Prop :=
  ∃ rs, (cbOut rs).isSome = true ∧ (∀ i, 1 ≤ i → lookup (seq i).tbl h = some rs) ∧
    ∃ r0, lookup (seq 0).tbl h = some r0 ∧ (cbOut r0 = none ∨ r0 = rs)

/-- An infinite sequence of invocations of the fragment `p` at `(ctx, n)`, each of which suspends,
each on the table the good environment makes of what the backend kept of the previous one
(`keep i` = how many of the asynchronous updates in flight at the end of invocation `i` still
reached the backend).  The enclosing contexts (`x <+: ctx`) are exempt from `next` and `syn`: their
START may have been lost and sent again. -/
structure GoodSeq (outc : Pos → Backend.Immediate) (keep : Nat → Nat) (p : Prog) (ctx : Pos) (n : Nat)
    (seq : Nat → St) : Prop where
  ok : ∀ i, SInv (seq i)
  vis : ∀ i, CtxVis (seq i).tbl ctx
  par : ∀ i, CtxOk ctx (seq i).tbl
  res : ∀ h, Past h ctx n → Resolved seq h
  fresh : Untouched ctx n (seq 0).tbl
  compat : ∀ i, Compat p ctx n (seq i).tbl
  susp : ∀ i, ∃ d, (run p ctx n (seq i)).1 = .suspended d
  syn : ∀ i x, ¬ x <+: ctx → lookup (seq i).syncTbl x = lookup (seq i).tbl x
  next : ∀ i x, ¬ x <+: ctx → lookup (seq (i + 1)).tbl x =
    lookup (Exec.visible (fireAll outc (kept (run p ctx n (seq i)).2 (keep i)))) x

/-! ## Tools for the induction -/

theorem exists_least {P : Nat → Prop} (h : ∃ n, P n) : ∃ n, P n ∧ ∀ m, m < n → ¬ P m := by
  obtain ⟨n, hn⟩ := h
  induction n using Nat.strongRecOn with
  | _ n ih =>
    by_cases hex : ∃ m, m < n ∧ P m
    · obtain ⟨m, hm, hpm⟩ := hex; exact ih m hm hpm
    · exact ⟨n, hn, fun m hm hp => hex ⟨m, hm, hp⟩⟩

theorem deliverAt_st (s : St) (p : Pos) (o : Outcome) : deliverAt s p o = .deliver o (deliverAt s p o).st := by
  cases o <;> rfl

theorem deliverAt_st_syncTbl (s : St) (p : Pos) (o : Outcome) : (deliverAt s p o).st.syncTbl = s.syncTbl := by
  obtain ⟨s', he, hsame⟩ := deliverAt_same s p o
  rw [he]; exact hsame.syncTbl

theorem Resolved.congr {seq seq' : Nat → St} {h : Pos}
    (he : ∀ i, lookup (seq' i).tbl h = lookup (seq i).tbl h) (hr : Resolved seq h) : Resolved seq' h := by
  obtain ⟨rs, hrs, hall, r0, hr0, hor⟩ := hr
  exact ⟨rs, hrs, fun i hi => by rw [he]; exact hall i hi, r0, by rw [he]; exact hr0, hor⟩

theorem not_prefix_child (ctx : Pos) (m : Nat) : ¬ (ctx ++ [m]) <+: ctx := by
  intro h
  have := h.length_le
  simp at this
  omega

theorem not_prefix_inRegion {ctx : Pos} {m : Nat} {x : Pos} (h : InRegion ctx m x) : ¬ x <+: ctx := by
  obtain ⟨i, rest, rfl, _⟩ := h
  intro hp
  have := hp.length_le
  simp at this
  omega

theorem not_prefix_past {h ctx : Pos} {n : Nat} (hp : Past h ctx n) : ¬ h <+: ctx := by
  obtain ⟨c, j, rfl, hj, hc | ⟨m, rest, hc, hjm⟩⟩ := hp
  · rw [hc.1]; exact not_prefix_child ctx j
  · subst hc
    intro hpre
    have := (List.prefix_append_right_inj c).mp hpre
    simp at this
    omega

/-- No infinite all-suspended good sequence exists for the fragment `p`, wherever it is placed and
whatever the backend keeps. -/
def LiveAt (outc : Pos → Backend.Immediate) (p : Prog) : Prop :=
  ∀ (ctx : Pos) (n : Nat) (keep : Nat → Nat) (seq : Nat → St), Bounded p → LScoped p ctx n →
    GoodSeq outc keep p ctx n seq → False

section seqs
variable {outc : Pos → Backend.Immediate} {keep : Nat → Nat} {p : Prog} {ctx : Pos} {n : Nat} {seq : Nat → St}

theorem GoodSeq.fin (g : GoodSeq outc keep p ctx n seq) (i : Nat) : SInv (run p ctx n (seq i)).2 :=
  sinv_run (g.ok i) p ctx n

theorem GoodSeq.vis_next (g : GoodSeq outc keep p ctx n seq) (i : Nat) :
    CtxVis (fireAll outc (kept (run p ctx n (seq i)).2 (keep i))) ctx :=
  ctxVis_fireAll (ctxVis_of_mono_rev (kept_mono (g.fin i).full _)
    (ctxVis_of_frame (run_frame p ctx n (seq i)) (g.vis i)))

/-- The record of a direct child of `ctx` at the next invocation: what the backend kept, fired. -/
theorem GoodSeq.next_child (g : GoodSeq outc keep p ctx n seq) (i m : Nat) :
    lookup (seq (i + 1)).tbl (ctx ++ [m]) =
      (lookup (kept (run p ctx n (seq i)).2 (keep i)) (ctx ++ [m])).map (fireRec (outc (ctx ++ [m]))) := by
  rw [g.next i _ (not_prefix_child ctx m), lookup_visible_of ((g.vis_next i).hidden_child m), lookup_fireAll]

/-- … in particular a terminal or parking record (written synchronously) is found again, fired. -/
theorem GoodSeq.next_child_of (g : GoodSeq outc keep p ctx n seq) (i m : Nat) {r : OpRec}
    (hl : lookup (run p ctx n (seq i)).2.tbl (ctx ++ [m]) = some r)
    (hr : r.status.terminal = true ∨ Parked r = true) :
    lookup (seq (i + 1)).tbl (ctx ++ [m]) = some (fireRec (outc (ctx ++ [m])) r) := by
  rw [g.next_child i m, kept_keeps (g.fin i).wal _ hl hr]; rfl

theorem untouched_next {ctx : Pos} {m : Nat} {t : Tbl} (outc : Pos → Backend.Immediate)
    (h : Untouched ctx m t) : Untouched ctx m (Exec.visible (fireAll outc t)) :=
  untouched_visible ((fireAll_evolve outc t).untouched h)

/-- What the invocation left untouched is untouched at the next invocation. -/
theorem GoodSeq.untouched_next_of (g : GoodSeq outc keep p ctx n seq) (i : Nat) {m : Nat}
    (hu : Untouched ctx m (run p ctx n (seq i)).2.tbl) : Untouched ctx m (seq (i + 1)).tbl := by
  intro x hx
  rw [g.next i x (not_prefix_inRegion hx)]
  exact untouched_next outc (kept_untouched (g.fin i).full _ hu) x hx

theorem untouched_of_onlyAt {ctx : Pos} {n : Nat} {s s' : St} (h : Untouched ctx (n + 1) s.tbl)
    (ho : OnlyAt (ctx ++ [n + 1]) s s') : Untouched ctx (n + 1) s'.tbl := by
  intro x hx
  rw [ho x (fun he => not_inRegion_self_succ ctx n (he ▸ hx))]
  exact h x hx

theorem frame_of_onlyAt {ctx : Pos} {n : Nat} {s s' : St} (ho : OnlyAt (ctx ++ [n + 1]) s s') :
    Frame ctx n s.tbl s'.tbl := fun q hq => ho q (fun he => hq (he ▸ inRegion_self ctx n))

theorem syn_of_synced {s : St} (h : Synced s) (x : Pos) : lookup s.syncTbl x = lookup s.tbl x := by
  rw [h.2]

/-- First state `s0`, then `f 0, f 1, …`. -/
def shiftSeq (s0 : St) (f : Nat → St) : Nat → St
  | 0 => s0
  | i + 1 => f i

/-- **Continuation.**  From invocation `j` on, the runs of `p` are runs of `kp` at `(ctx, n')`: in
invocation `j` from `s0` (the state in which the current operation delivered for the first time),
afterwards from `rp (seq i)` (the state in which it delivers the replayed outcome). -/
theorem GoodSeq.cont (g : GoodSeq outc keep p ctx n seq)
    (kp : Prog) (n' : Nat) (j : Nat) (s0 : St) (rp : St → St)
    (hrun0 : run p ctx n (seq j) = run kp ctx n' s0) (hok0 : SInv s0)
    (hfr0 : Frame ctx n (seq j).tbl s0.tbl) (hfresh : Untouched ctx n' s0.tbl)
    (hsyn0 : ∀ x, ¬ x <+: ctx → lookup s0.syncTbl x = lookup s0.tbl x)
    (hrest : ∀ i, 1 ≤ i → run p ctx n (seq (j + i)) = run kp ctx n' (rp (seq (j + i))) ∧
      (rp (seq (j + i))).tbl = (seq (j + i)).tbl ∧ (rp (seq (j + i))).syncTbl = (seq (j + i)).syncTbl ∧
      SInv (rp (seq (j + i))))
    (hcompat : ∀ i, 1 ≤ i → Compat kp ctx n' (seq (j + i)).tbl)
    (hnew : ∀ h, Past h ctx n' → ¬ Past h ctx n → Resolved (shiftSeq s0 (fun i => rp (seq (j + (i + 1))))) h) :
    GoodSeq outc (fun i => keep (j + i)) kp ctx n' (shiftSeq s0 (fun i => rp (seq (j + (i + 1))))) := by
  have hrun : ∀ i, run p ctx n (seq (j + i)) =
      run kp ctx n' (shiftSeq s0 (fun i => rp (seq (j + (i + 1)))) i) := by
    intro i
    cases i with
    | zero => exact hrun0
    | succ i => exact (hrest (i + 1) (by omega)).1
  have htbl : ∀ i, Frame ctx n (seq (j + i)).tbl (shiftSeq s0 (fun i => rp (seq (j + (i + 1)))) i).tbl := by
    intro i
    cases i with
    | zero => exact hfr0
    | succ i =>
      show Frame ctx n _ (rp (seq (j + (i + 1)))).tbl
      rw [(hrest (i + 1) (by omega)).2.1]; exact Frame.refl _ _ _
  refine ⟨?_, ?_, ?_, ?_, hfresh, ?_, ?_, ?_, ?_⟩
  · intro i
    cases i with
    | zero => exact hok0
    | succ i => exact (hrest (i + 1) (by omega)).2.2.2
  · intro i; exact ctxVis_of_frame (htbl i) (g.vis (j + i))
  · intro i; exact ctxOk_of_frame (htbl i) (g.par (j + i))
  · intro h hh
    by_cases hp : Past h ctx n
    · obtain ⟨rs, hrs, hall, r0, hr0, hor⟩ := g.res h hp
      have hnr := past_not_inRegion hp
      refine ⟨rs, hrs, fun i hi => ?_, ?_⟩
      · rw [htbl i h hnr]; exact hall (j + i) (by omega)
      · rw [htbl 0 h hnr]
        cases j with
        | zero => exact ⟨r0, hr0, hor⟩
        | succ j => exact ⟨rs, hall _ (by omega), Or.inr rfl⟩
    · exact hnew h hh hp
  · intro i
    cases i with
    | zero => exact .fresh hfresh
    | succ i =>
      show Compat kp ctx n' (rp (seq (j + (i + 1)))).tbl
      rw [(hrest (i + 1) (by omega)).2.1]; exact hcompat (i + 1) (by omega)
  · intro i
    rw [← hrun i]; exact g.susp (j + i)
  · intro i x hx
    cases i with
    | zero => exact hsyn0 x hx
    | succ i =>
      show lookup (rp (seq (j + (i + 1)))).syncTbl x = lookup (rp (seq (j + (i + 1)))).tbl x
      rw [(hrest (i + 1) (by omega)).2.1, (hrest (i + 1) (by omega)).2.2.1]
      exact g.syn _ x hx
  · intro i x hx
    show lookup (rp (seq (j + (i + 1)))).tbl x = _
    rw [(hrest (i + 1) (by omega)).2.1, ← hrun i]
    exact g.next (j + i) x hx

/-- **Continuation after the current operation has a record on which it delivers at once.**
`r0` is the record in the state `s0` in which the operation delivered first (terminal, or a parking
record: it was written synchronously); the environment makes it `fireRec _ r0`, terminal, and later
invocations find that record.  `TP` is an additional property of the tables, preserved by accepted
updates, on which the replay may depend. -/
theorem GoodSeq.phase2 (g : GoodSeq outc keep p ctx n seq)
    (kp : Prog) (j : Nat) (s0 : St) (rp : St → St) (r0 : OpRec)
    (hrun0 : run p ctx n (seq j) = run kp ctx (n + 1) s0) (hok0 : SInv s0)
    (hfr0 : Frame ctx n (seq j).tbl s0.tbl) (hfresh : Untouched ctx (n + 1) s0.tbl)
    (hsyn0 : ∀ x, ¬ x <+: ctx → lookup s0.syncTbl x = lookup s0.tbl x)
    (hrec0 : lookup s0.tbl (ctx ++ [n + 1]) = some r0)
    (hkeep0 : r0.status.terminal = true ∨ Parked r0 = true)
    (hterm : (fireRec (outc (ctx ++ [n + 1])) r0).status.terminal = true)
    (hcb : cbOut r0 = none ∨ r0 = fireRec (outc (ctx ++ [n + 1])) r0)
    (TP : Tbl → Prop) (hTPA : ∀ t u imm t', Backend.apply t u imm = some t' → TP t → TP t')
    (hTP0 : TP s0.tbl ∧ TP s0.syncTbl)
    (hTPnext : ∀ K t', TP K → CtxVis (fireAll outc K) ctx →
      lookup (fireAll outc K) (ctx ++ [n + 1]) = some (fireRec (outc (ctx ++ [n + 1])) r0) →
      (∀ x, ¬ x <+: ctx → lookup t' x = lookup (Exec.visible (fireAll outc K)) x) → TP t')
    (hTPcongr : ∀ t t', (∀ x, ¬ x <+: ctx → lookup t' x = lookup t x) → TP t → TP t')
    (hrp : ∀ s, SInv s → lookup s.tbl (ctx ++ [n + 1]) = some (fireRec (outc (ctx ++ [n + 1])) r0) → TP s.tbl →
      run p ctx n s = run kp ctx (n + 1) (rp s) ∧ (rp s).tbl = s.tbl ∧ (rp s).syncTbl = s.syncTbl ∧ SInv (rp s))
    (hinv : ∀ t, Compat p ctx n t → lookup t (ctx ++ [n + 1]) = some (fireRec (outc (ctx ++ [n + 1])) r0) →
      TP t → Compat kp ctx (n + 1) t) :
    GoodSeq outc (fun i => keep (j + i)) kp ctx (n + 1) (shiftSeq s0 (fun i => rp (seq (j + (i + 1))))) := by
  have hq : ¬ InRegion ctx (n + 1) (ctx ++ [n + 1]) := not_inRegion_self_succ ctx n
  have hfix : fireRec (outc (ctx ++ [n + 1])) (fireRec (outc (ctx ++ [n + 1])) r0) =
      fireRec (outc (ctx ++ [n + 1])) r0 := fireRec_terminal hterm
  -- one round of the continuation, started in `c` whose record at the position is `r`
  have hround : ∀ (r : Nat) (c : St) (rc : OpRec), run p ctx n (seq r) = run kp ctx (n + 1) c →
      lookup c.tbl (ctx ++ [n + 1]) = some rc → (rc.status.terminal = true ∨ Parked rc = true) →
      fireRec (outc (ctx ++ [n + 1])) rc = fireRec (outc (ctx ++ [n + 1])) r0 →
      TP c.tbl ∧ TP c.syncTbl →
      lookup (seq (r + 1)).tbl (ctx ++ [n + 1]) = some (fireRec (outc (ctx ++ [n + 1])) r0) ∧
        TP (seq (r + 1)).tbl := by
    intro r c rc hrun hl hk hf htp
    have hlf : lookup (run p ctx n (seq r)).2.tbl (ctx ++ [n + 1]) = some rc := by
      rw [hrun, run_frame kp ctx (n + 1) c _ hq, hl]
    have hnext : lookup (seq (r + 1)).tbl (ctx ++ [n + 1]) = some (fireRec (outc (ctx ++ [n + 1])) r0) := by
      rw [g.next_child_of r (n + 1) hlf hk, hf]
    refine ⟨hnext, ?_⟩
    have hmv := EngineExec.run_mv kp ctx (n + 1) c
    have hK : TP (kept (run p ctx n (seq r)).2 (keep r)) := by
      rw [hrun]
      exact applyPrefix_stable' hTPA _ _ _ _ (mv_stable' hTPA hmv htp).2
    refine hTPnext _ _ hK (g.vis_next r) ?_ (g.next r)
    rw [lookup_fireAll, kept_keeps (g.fin r).wal _ hlf hk, ← hf]; rfl
  have hpers : ∀ i, lookup (seq (j + (i + 1))).tbl (ctx ++ [n + 1]) =
      some (fireRec (outc (ctx ++ [n + 1])) r0) ∧ TP (seq (j + (i + 1))).tbl := by
    intro i
    induction i with
    | zero => exact hround j s0 r0 hrun0 hrec0 hkeep0 rfl hTP0
    | succ i ih =>
      obtain ⟨hl, htp⟩ := ih
      obtain ⟨h1, h2, h3, _⟩ := hrp _ (g.ok _) hl htp
      have htps : TP (seq (j + (i + 1))).syncTbl := hTPcongr _ _ (g.syn _) htp
      exact hround (j + (i + 1)) (rp (seq (j + (i + 1)))) _ h1 (by rw [h2]; exact hl) (Or.inl hterm) hfix
        ⟨by rw [h2]; exact htp, by rw [h3]; exact htps⟩
  refine g.cont kp (n + 1) j s0 rp hrun0 hok0 hfr0 hfresh hsyn0 ?_ ?_ ?_
  · intro i hi
    obtain ⟨i', rfl⟩ : ∃ i', i = i' + 1 := ⟨i - 1, by omega⟩
    obtain ⟨hl, htp⟩ := hpers i'
    exact hrp _ (g.ok _) hl htp
  · intro i hi
    obtain ⟨i', rfl⟩ : ∃ i', i = i' + 1 := ⟨i - 1, by omega⟩
    obtain ⟨hl, htp⟩ := hpers i'
    exact hinv _ (g.compat _) hl htp
  · intro h hh hnp
    rcases past_succ hh with hp | rfl
    · exact absurd hp hnp
    · refine ⟨_, cbOut_of_terminal hterm, fun i hi => ?_, r0, hrec0, hcb⟩
      obtain ⟨i', rfl⟩ : ∃ i', i = i' + 1 := ⟨i - 1, by omega⟩
      obtain ⟨hl, htp⟩ := hpers i'
      show lookup (rp (seq (j + (i' + 1)))).tbl _ = _
      rw [(hrp _ (g.ok _) hl htp).2.1]; exact hl

/-- A fragment whose first operation is handled by `hd` at `ctx ++ [n + 1]`. -/
def runVia (hd : St → HRes) (k : Outcome → Prog) (ctx : Pos) (n : Nat) (s : St) : End × St :=
  match hd s with
  | .deliver o s' => run (k o) ctx (n + 1) s'
  | .stop e s' => (e, s')

theorem runVia_deliver {hd : St → HRes} {k : Outcome → Prog} {s s' : St} {o : Outcome}
    (h : hd s = .deliver o s') : runVia hd k ctx n s = run (k o) ctx (n + 1) s' := by
  unfold runVia; rw [h]

theorem runVia_stop {hd : St → HRes} {k : Outcome → Prog} {s s' : St} {e : End}
    (h : hd s = .stop e s') : runVia hd k ctx n s = (e, s') := by
  unfold runVia; rw [h]

/-- Once the first operation has delivered in invocation `j`, leaving the terminal record `r'` on
which later visits deliver `o'` at once, the continuation `k o'` takes over. -/
theorem live_after_deliver {k : Outcome → Prog} {hd : St → HRes}
    (g : GoodSeq outc keep p ctx n seq)
    (hrun : ∀ s, run p ctx n s = runVia hd k ctx n s)
    (honly : ∀ s, OnlyAt (ctx ++ [n + 1]) s (hd s).st)
    (hsinv : ∀ s, SInv s → SInv (hd s).st)
    {j : Nat} {o : Outcome} {s0 : St} (hj : hd (seq j) = .deliver o s0)
    (hsyn0 : ∀ x, ¬ x <+: ctx → lookup s0.syncTbl x = lookup s0.tbl x)
    {r' : OpRec} {o' : Outcome} (hterm : r'.status.terminal = true)
    (hrec : lookup s0.tbl (ctx ++ [n + 1]) = some r') (hko : k o = k o')
    (hdone : ∀ s, lookup s.tbl (ctx ++ [n + 1]) = some r' → hd s = deliverAt s (ctx ++ [n + 1]) o')
    (hfresh : Untouched ctx (n + 1) (seq j).tbl)
    (hinv : ∀ t, Compat p ctx n t → lookup t (ctx ++ [n + 1]) = some r' → Compat (k o') ctx (n + 1) t)
    (ih : LiveAt outc (k o')) (hb : Bounded (k o')) (hsc : LScoped (k o') ctx (n + 1)) : False := by
  have hst : (hd (seq j)).st = s0 := by rw [hj]; rfl
  have hfix : fireRec (outc (ctx ++ [n + 1])) r' = r' := fireRec_terminal hterm
  have g' := g.phase2 (k o') j s0 (fun s => (deliverAt s (ctx ++ [n + 1]) o').st) r'
    (by rw [hrun, runVia_deliver hj, hko])
    (by rw [← hst]; exact hsinv _ (g.ok j))
    (by rw [← hst]; exact frame_of_onlyAt (honly _))
    (by rw [← hst]; exact untouched_of_onlyAt hfresh (honly _))
    hsyn0 hrec (Or.inl hterm) (by rw [hfix]; exact hterm) (Or.inr hfix.symm)
    (fun _ => True) (fun _ _ _ _ _ _ => trivial) ⟨trivial, trivial⟩ (fun _ _ _ _ _ _ => trivial)
    (fun _ _ _ _ => trivial)
    (by
      intro s hs hl _
      rw [hfix] at hl
      refine ⟨?_, EngineH.deliverAt_st_tbl _ _ _, deliverAt_st_syncTbl _ _ _,
        sinv_deliverAt hs _ _ ⟨r', hl, hterm⟩⟩
      rw [hrun, runVia_deliver ((hdone s hl).trans (deliverAt_st _ _ _))])
    (by intro t hc hl _; rw [hfix] at hl; exact hinv t hc hl)
  exact ih ctx (n + 1) _ _ hb hsc g'

/-- **Retrying operations** (step, wait-for-condition): every invocation that visits the operation
either completes it or leaves it PENDING (written synchronously, so never lost) with one more
attempt; the environment makes it READY; the attempts are bounded by `M`. -/
theorem live_retry_op {k : Outcome → Prog} {hd : St → HRes} (kd : Kind) (hkd : kd = .step ∨ kd = .wfc) (M : Nat)
    (g : GoodSeq outc keep p ctx n seq)
    (hrun : ∀ s, run p ctx n s = runVia hd k ctx n s)
    (honly : ∀ s, OnlyAt (ctx ++ [n + 1]) s (hd s).st)
    (hsinv : ∀ s, SInv s → SInv (hd s).st)
    (hvisit : ∀ s a, StOk s → Backend.parentOk s.tbl (ctx ++ [n + 1]) = true →
      ((lookup s.tbl (ctx ++ [n + 1]) = none ∧ a = 0) ∨
        ∃ rt, lookup s.tbl (ctx ++ [n + 1]) = some rt ∧ rt.kind = kd ∧
          (rt.status = .started ∨ rt.status = .ready) ∧ a = rt.attempt) →
      match hd s with
      | .deliver o s' => ∃ r', lookup s'.tbl (ctx ++ [n + 1]) = some r' ∧ Done r' = true ∧
          k o = k (outcomeOf r') ∧ Synced s'
      | .stop e s' => e = .crashed ∨ ∃ d r', e = .suspended d ∧ lookup s'.tbl (ctx ++ [n + 1]) = some r' ∧
          r'.kind = kd ∧ r'.status = .pending ∧ r'.attempt = a + 1 ∧ a + 1 < M)
    (hdone : ∀ s r, lookup s.tbl (ctx ++ [n + 1]) = some r → Done r = true →
      hd s = deliverAt s (ctx ++ [n + 1]) (outcomeOf r))
    (hinv : ∀ t r, Compat p ctx n t → lookup t (ctx ++ [n + 1]) = some r → Done r = true →
      Compat (k (outcomeOf r)) ctx (n + 1) t)
    (ih : ∀ o, LiveAt outc (k o)) (hb : ∀ o, Bounded (k o)) (hsc : ∀ o, LScoped (k o) ctx (n + 1)) :
    False := by
  have hA : ∀ i, (∀ i', i' < i → ¬ ∃ o s', hd (seq i') = .deliver o s') →
      Untouched ctx (n + 1) (seq i).tbl ∧
      ((lookup (seq i).tbl (ctx ++ [n + 1]) = none ∧ i = 0) ∨
        ∃ rt, lookup (seq i).tbl (ctx ++ [n + 1]) = some rt ∧ rt.kind = kd ∧
          (rt.status = .started ∨ rt.status = .ready) ∧ i = rt.attempt) := by
    intro i
    induction i with
    | zero => intro _; exact ⟨g.fresh.succ, Or.inl ⟨g.fresh.self, rfl⟩⟩
    | succ i ihi =>
      intro hno
      obtain ⟨hu, hrec⟩ := ihi (fun i' hi' => hno i' (by omega))
      have hv := hvisit (seq i) i (g.ok i).ok (parentOk_of_ctxOk (g.par i) (n + 1)) hrec
      cases hh : hd (seq i) with
      | deliver o s' => exact absurd ⟨o, s', hh⟩ (hno i (by omega))
      | stop e s' =>
        rw [hh] at hv
        have hst : (hd (seq i)).st = s' := by rw [hh]; rfl
        have hfin : (run p ctx n (seq i)).2 = s' := by rw [hrun, runVia_stop hh]
        obtain ⟨d, hd'⟩ := g.susp i
        rw [hrun, runVia_stop hh] at hd'
        rcases hv with hv | ⟨d', r', he, hl', hk', hs', hat', _⟩
        · rw [hv] at hd'; cases hd'
        · constructor
          · refine g.untouched_next_of i ?_
            rw [hfin, ← hst]; exact untouched_of_onlyAt hu (honly _)
          · refine Or.inr ⟨{ r' with status := .ready }, ?_, hk', Or.inr rfl, hat'.symm⟩
            rw [g.next_child_of i (n + 1) (by rw [hfin]; exact hl') (Or.inr (by simp [Parked, hs'])),
              fireRec_pending (by rw [hk']; exact hkd) hs']
  have hex : ∃ i, ∃ o s', hd (seq i) = .deliver o s' := by
    apply Classical.byContradiction
    intro hne
    have hno : ∀ i, ¬ ∃ o s', hd (seq i) = .deliver o s' := fun i hi => hne ⟨i, hi⟩
    obtain ⟨_, hrec⟩ := hA M (fun i' _ => hno i')
    have hv := hvisit (seq M) M (g.ok M).ok (parentOk_of_ctxOk (g.par M) (n + 1)) hrec
    cases hh : hd (seq M) with
    | deliver o s' => exact hno M ⟨o, s', hh⟩
    | stop e s' =>
      rw [hh] at hv
      obtain ⟨d, hd'⟩ := g.susp M
      rw [hrun, runVia_stop hh] at hd'
      rcases hv with hv | ⟨_, _, _, _, _, _, _, hlt⟩
      · rw [hv] at hd'; cases hd'
      · omega
  obtain ⟨j, ⟨o, s0, hj⟩, hmin⟩ := exists_least hex
  obtain ⟨hu, hrec⟩ := hA j hmin
  have hv := hvisit (seq j) j (g.ok j).ok (parentOk_of_ctxOk (g.par j) (n + 1)) hrec
  rw [hj] at hv
  obtain ⟨r', hl', hd', hko, hsy⟩ := hv
  exact live_after_deliver g hrun honly hsinv hj (fun x _ => syn_of_synced hsy x) (done_terminal hd') hl' hko
    (fun s hl => hdone s r' hl hd') hu (fun t hc hl => hinv t r' hc hl hd') (ih _) (hb _) (hsc _)

/-- **One-shot operations** (wait, chained invoke): the first visit registers the timer / the
external call synchronously and suspends; the environment completes it; the next visit delivers. -/
theorem live_oneshot {k : Outcome → Prog} {hd : St → HRes} (out : OpRec → Option Outcome) (r0 : OpRec)
    (hpk : Parked r0 = true)
    (g : GoodSeq outc keep p ctx n seq)
    (hrun : ∀ s, run p ctx n s = runVia hd k ctx n s)
    (honly : ∀ s, OnlyAt (ctx ++ [n + 1]) s (hd s).st)
    (hsinv : ∀ s, SInv s → SInv (hd s).st)
    (hvisit : ∀ s, StOk s → Backend.parentOk s.tbl (ctx ++ [n + 1]) = true →
      lookup s.tbl (ctx ++ [n + 1]) = none →
      (∃ s', hd s = .stop .crashed s') ∨
      (∃ e s', hd s = .stop e s' ∧ lookup s'.tbl (ctx ++ [n + 1]) = some r0))
    (hout : (out (fireRec (outc (ctx ++ [n + 1])) r0)).isSome = true)
    (hterm : ∀ r, (out r).isSome = true → r.status.terminal = true)
    (hdone : ∀ s r o, lookup s.tbl (ctx ++ [n + 1]) = some r → out r = some o →
      hd s = deliverAt s (ctx ++ [n + 1]) o)
    (hinv : ∀ t r o, Compat p ctx n t → lookup t (ctx ++ [n + 1]) = some r → out r = some o →
      Compat (k o) ctx (n + 1) t)
    (ih : ∀ o, LiveAt outc (k o)) (hb : ∀ o, Bounded (k o)) (hsc : ∀ o, LScoped (k o) ctx (n + 1)) :
    False := by
  obtain ⟨d, hd'⟩ := g.susp 0
  rcases hvisit (seq 0) (g.ok 0).ok (parentOk_of_ctxOk (g.par 0) (n + 1)) g.fresh.self with
    ⟨s', hh⟩ | ⟨e, s', hh, hl'⟩
  · rw [hrun, runVia_stop hh] at hd'; cases hd'
  · have hst : (hd (seq 0)).st = s' := by rw [hh]; rfl
    have hfin : (run p ctx n (seq 0)).2 = s' := by rw [hrun, runVia_stop hh]
    cases ho : out (fireRec (outc (ctx ++ [n + 1])) r0) with
    | none => rw [ho] at hout; cases hout
    | some os =>
      have hl1 : lookup (seq 1).tbl (ctx ++ [n + 1]) = some (fireRec (outc (ctx ++ [n + 1])) r0) :=
        g.next_child_of 0 (n + 1) (by rw [hfin]; exact hl') (Or.inr hpk)
      have hu1 : Untouched ctx (n + 1) (seq 1).tbl := by
        refine g.untouched_next_of 0 ?_
        rw [hfin, ← hst]; exact untouched_of_onlyAt g.fresh.succ (honly _)
      have hj : hd (seq 1) = .deliver os (deliverAt (seq 1) (ctx ++ [n + 1]) os).st :=
        (hdone _ _ _ hl1 ho).trans (deliverAt_st _ _ _)
      exact live_after_deliver g hrun honly hsinv hj
        (fun x hx => by rw [deliverAt_st_syncTbl, EngineH.deliverAt_st_tbl]; exact g.syn 1 x hx)
        (hterm _ (by rw [ho]; rfl))
        (by rw [EngineH.deliverAt_st_tbl]; exact hl1) rfl
        (fun s hl => hdone s _ _ hl ho) hu1 (fun t hc hl => hinv t _ _ hc hl ho) (ih _) (hb _) (hsc _)

end seqs

/-! ## The induction on programs -/

theorem handleCbRes_syncTbl (s : St) (hd : Pos) : (handleCbRes s hd).st.syncTbl = s.syncTbl := by
  unfold handleCbRes
  dsimp only
  repeat' split
  all_goals rfl

theorem compat_child_absent_inv {c : ChildSpec} {body : Prog} {k : Outcome → Prog} {ctx : Pos} {n : Nat} {t : Tbl}
    (h : Compat (.child c body k) ctx n t) (hl : lookup t (ctx ++ [n + 1]) = none) : Untouched ctx n t := by
  cases h with
  | fresh hu => exact hu
  | childActive hl' _ _ _ _ => rw [hl] at hl'; cases hl'
  | childDone hl' _ _ _ => rw [hl] at hl'; cases hl'
  | childReplay hl' _ _ _ _ => rw [hl] at hl'; cases hl'

theorem compat_child_active_inv {c : ChildSpec} {body : Prog} {k : Outcome → Prog} {ctx : Pos} {n : Nat} {t : Tbl}
    {r : OpRec} (h : Compat (.child c body k) ctx n t) (hl : lookup t (ctx ++ [n + 1]) = some r)
    (hnt : r.status.terminal = false) : r.kind = .context ∧ r.status = .started := by
  cases h with
  | fresh hu => rw [hu.self] at hl; cases hl
  | childActive hl' hk hs _ _ => rw [hl] at hl'; cases hl'; exact ⟨hk, hs⟩
  | childDone hl' hd _ _ =>
    rw [hl] at hl'; cases hl'
    rw [done_terminal hd] at hnt; cases hnt
  | childReplay hl' hs _ _ _ =>
    rw [hl] at hl'; cases hl'
    rw [hs] at hnt; cases hnt

/-- A complete traversal only depends on the records off the chain of enclosing contexts. -/
theorem _root_.EngineCompat.Returns.congr_off {p : Prog} {ctx : Pos} {n : Nat} {t t' : Tbl} {v : Val} (c0 : Pos)
    (h : Returns p ctx n t v) (hc : c0 <+: ctx)
    (he : ∀ x, ¬ x <+: c0 → lookup t' x = lookup t x) : Returns p ctx n t' v := by
  have hchild : ∀ (ctx : Pos) (m : Nat), c0 <+: ctx → ¬ (ctx ++ [m]) <+: c0 := by
    intro ctx m hc hp
    exact not_prefix_child ctx m (hp.trans hc)
  have hpast : ∀ {h ctx : Pos} {n : Nat}, c0 <+: ctx → Past h ctx n → ¬ h <+: c0 :=
    fun hc hp hpre => not_prefix_past hp (hpre.trans hc)
  induction h with
  | ret => exact .ret
  | log _ ih => exact .log (ih hc he)
  | step hl hd _ ih => exact .step (by rw [he _ (hchild _ _ hc)]; exact hl) hd (ih hc he)
  | wait hl hs _ ih => exact .wait (by rw [he _ (hchild _ _ hc)]; exact hl) hs (ih hc he)
  | cbNew hl _ ih => exact .cbNew (by rw [he _ (hchild _ _ hc)]; exact hl) (ih hc he)
  | cbRes hp hl ho _ ih => exact .cbRes hp (by rw [he _ (hpast hc hp)]; exact hl) ho (ih hc he)
  | invoke hl ho _ ih => exact .invoke (by rw [he _ (hchild _ _ hc)]; exact hl) ho (ih hc he)
  | wfc hl hd _ ih => exact .wfc (by rw [he _ (hchild _ _ hc)]; exact hl) hd (ih hc he)
  | childDone hl hd hr _ ih => exact .childDone (by rw [he _ (hchild _ _ hc)]; exact hl) hd hr (ih hc he)
  | childReplay hl hs hr _ _ ih1 ih2 =>
    exact .childReplay (by rw [he _ (hchild _ _ hc)]; exact hl) hs hr
      (ih1 (hc.trans (List.prefix_append _ _)) he) (ih2 hc he)

section cases
variable {outc : Pos → Backend.Immediate}

theorem live_ret (v : Val) : LiveAt outc (.ret v) := by
  intro ctx n keep seq _ _ g
  obtain ⟨d, hd⟩ := g.susp 0
  simp [run] at hd

theorem live_raise (e : Exc) : LiveAt outc (.raise e) := by
  intro ctx n keep seq _ _ g
  obtain ⟨d, hd⟩ := g.susp 0
  simp [run] at hd

theorem live_log {m : String} {k : Prog} (ih : LiveAt outc k) : LiveAt outc (.log m k) := by
  intro ctx n keep seq hb hsc g
  cases hb with | log hb =>
  cases hsc with | log hsc =>
  have hrun : ∀ s, run (.log m k) ctx n s = run k ctx n (doLog s ctx m) := fun s => by simp only [run]
  exact ih ctx n _ _ hb hsc
    (g.cont k n 0 (doLog (seq 0) ctx m) (fun s => doLog s ctx m) (hrun _) (sinv_doLog (g.ok 0) _ _)
      (Frame.refl _ _ _) g.fresh (g.syn 0) (fun i _ => ⟨hrun _, rfl, rfl, sinv_doLog (g.ok _) _ _⟩)
      (fun i _ => compat_log_inv (g.compat _)) (fun h hh hn => absurd hh hn))

theorem live_step {sp : StepSpec} {k : Outcome → Prog} (ih : ∀ o, LiveAt outc (k o)) :
    LiveAt outc (.step sp k) := by
  intro ctx n keep seq hb hsc g
  cases hb with | step hM hb =>
  cases hsc with | step hsc heq =>
  obtain ⟨M, hM⟩ := hM
  refine live_retry_op (hd := fun s => handleStep s (ctx ++ [n + 1]) sp) .step (Or.inl rfl) (M + 1) g
    (fun s => by simp only [run, runVia]; cases handleStep s (ctx ++ [n + 1]) sp <;> rfl)
    (fun s => onlyAt_handleStep s _ sp)
    (fun s hs => sinv_handleStep hs _ sp) ?_
    (fun s r hl hd => EngineH.handleStep_done sp hl hd) (fun t r hc hl hd => compat_step_inv hc hl hd) ih hb hsc
  intro s a hok hp hl
  have hv := handleStep_visit sp a hok hp hl
  cases hh : handleStep s (ctx ++ [n + 1]) sp with
  | deliver o s' =>
    rw [hh] at hv
    obtain ⟨r', hl', hd', hdel, hsy⟩ := hv
    refine ⟨r', hl', hd', ?_, hsy⟩
    rcases hdel with rfl | ⟨e, hinv, hprov, rfl, hcan⟩
    · rfl
    · rw [hcan]; exact heq e hinv hprov
  | stop e s' =>
    rw [hh] at hv
    rcases hv with hv | ⟨d, r', ex, he, hl', hk', hs', hat', hstr, _⟩
    · exact Or.inl hv
    · refine Or.inr ⟨d, r', he, hl', hk', hs', hat', ?_⟩
      apply Classical.byContradiction
      intro hlt
      rw [hM ex (a + 1) (by omega)] at hstr
      cases hstr

theorem live_wfc {w : WfcSpec} {k : Outcome → Prog} (ih : ∀ o, LiveAt outc (k o)) :
    LiveAt outc (.wfc w k) := by
  intro ctx n keep seq hb hsc g
  cases hb with | wfc hM hb =>
  cases hsc with | wfc hsc heq =>
  obtain ⟨M, hM⟩ := hM
  refine live_retry_op (hd := fun s => handleWfc s (ctx ++ [n + 1]) w) .wfc (Or.inr rfl) (M + 1) g
    (fun s => by simp only [run, runVia]; cases handleWfc s (ctx ++ [n + 1]) w <;> rfl)
    (fun s => onlyAt_handleWfc s _ w)
    (fun s hs => sinv_handleWfc hs _ w) ?_
    (fun s r hl hd => EngineH.handleWfc_done w hl hd) (fun t r hc hl hd => compat_wfc_inv hc hl hd) ih hb hsc
  intro s a hok hp hl
  have hv := handleWfc_visit w a hok hp hl
  cases hh : handleWfc s (ctx ++ [n + 1]) w with
  | deliver o s' =>
    rw [hh] at hv
    obtain ⟨r', hl', hd', hdel, hsy⟩ := hv
    refine ⟨r', hl', hd', ?_, hsy⟩
    rcases hdel with rfl | ⟨e, st, a', hck, rfl, hcan⟩
    · rfl
    · rw [hcan]; exact heq e st a' hck
  | stop e s' =>
    rw [hh] at hv
    rcases hv with hv | ⟨d, r', v, he, hl', hk', hs', hat', hstr, _⟩
    · exact Or.inl hv
    · refine Or.inr ⟨d, r', he, hl', hk', hs', hat', ?_⟩
      apply Classical.byContradiction
      intro hlt
      rw [hM v (a + 1) (by omega)] at hstr
      cases hstr

theorem live_wait {secs : Nat} {k : Prog} (ih : LiveAt outc k) : LiveAt outc (.wait secs k) := by
  intro ctx n keep seq hb hsc g
  cases hb with | wait hb =>
  cases hsc with | wait hsc =>
  refine live_oneshot (k := fun _ => k) (hd := fun s => handleWait s (ctx ++ [n + 1]) secs)
    (fun r => if r.status = .succeeded then some (.ok noneVal) else none) { kind := .wait, status := .started }
    rfl g (fun s => by simp only [run, runVia]; cases handleWait s (ctx ++ [n + 1]) secs <;> rfl)
    (fun s => onlyAt_handleWait s _ secs)
    (fun s hs => sinv_handleWait hs _ secs) ?_ rfl ?_ ?_ ?_
    (fun _ => ih) (fun _ => hb) (fun _ => hsc)
  · intro s hok hp hl
    rcases handleWait_visit secs hok hp hl with ⟨s', h⟩ | ⟨s', h, hl', _⟩
    · exact Or.inl ⟨s', h⟩
    · exact Or.inr ⟨_, s', h, hl'⟩
  · intro r hr
    by_cases hs : r.status = .succeeded
    · rw [hs]; rfl
    · simp [hs] at hr
  · intro s r o hl ho
    by_cases hs : r.status = .succeeded
    · simp only [hs, if_true, Option.some.injEq] at ho
      subst ho
      rw [handleWait_some secs hl, if_pos hs]
    · simp [hs] at ho
  · intro t r o hc hl ho
    by_cases hs : r.status = .succeeded
    · exact compat_wait_inv hc hl hs
    · simp [hs] at ho

theorem live_invoke (hout : ∀ q, outc q ≠ .none) {pl : Val} {k : Outcome → Prog}
    (ih : ∀ o, LiveAt outc (k o)) : LiveAt outc (.invoke pl k) := by
  intro ctx n keep seq hb hsc g
  cases hb with | invoke hb =>
  cases hsc with | invoke hsc =>
  refine live_oneshot (hd := fun s => handleInvoke s (ctx ++ [n + 1]) pl) invOut
    { kind := .invoke, status := .started } rfl
    g (fun s => by simp only [run, runVia]; cases handleInvoke s (ctx ++ [n + 1]) pl <;> rfl)
    (fun s => onlyAt_handleInvoke s _ pl)
    (fun s hs => sinv_handleInvoke hs _ pl) ?_ (invOut_finish (hout _)) ?_ ?_
    (fun t r o hc hl ho => compat_invoke_inv hc hl ho) ih hb hsc
  · intro s hok hp hl
    rcases handleInvoke_visit pl hok hp hl with ⟨s', h⟩ | ⟨s', h, hl', _⟩
    · exact Or.inl ⟨s', h⟩
    · exact Or.inr ⟨_, s', h, hl'⟩
  · intro r hr
    cases ho : invOut r with
    | none => rw [ho] at hr; cases hr
    | some o => exact invOut_terminal ho
  · intro s r o hl ho
    rw [handleInvoke_some pl hl, ho]

theorem live_cbNew (hout : ∀ q, outc q ≠ .none) {k : Handle → Prog} (ih : ∀ h, LiveAt outc (k h)) :
    LiveAt outc (.cbNew k) := by
  intro ctx n keep seq hb hsc g
  cases hb with | cbNew hb =>
  cases hsc with | cbNew hsc =>
  have hrun : ∀ s, run (.cbNew k) ctx n s =
      match handleCbNew s (ctx ++ [n + 1]) with
      | .ok s' => run (k (ctx ++ [n + 1])) ctx (n + 1) s'
      | .error (e, s') => (e, s') := fun s => by
    simp only [run]; rcases handleCbNew s (ctx ++ [n + 1]) with ⟨_, _⟩ | _ <;> rfl
  obtain ⟨d, hd⟩ := g.susp 0
  rcases handleCbNew_visit (g.ok 0).ok (parentOk_of_ctxOk (g.par 0) (n + 1)) g.fresh.self with
    ⟨s', hh⟩ | ⟨s0, hh, hl0, hsy0⟩
  · rw [hrun, hh] at hd; cases hd
  · have hst : EngineRun.Except.st (handleCbNew (seq 0) (ctx ++ [n + 1])) = s0 := by rw [hh]; rfl
    have hrs : (cbOut (fireRec (outc (ctx ++ [n + 1])) { kind := .callback, status := .started })).isSome = true :=
      cbOut_finish (hout _)
    have g' := g.phase2 (k (ctx ++ [n + 1])) 0 s0
      (fun s => EngineRun.Except.st (handleCbNew s (ctx ++ [n + 1]))) { kind := .callback, status := .started }
      (by rw [hrun, hh])
      (by rw [← hst]; exact sinv_handleCbNew (g.ok 0) _)
      (by rw [← hst]; exact frame_of_onlyAt (onlyAt_handleCbNew _ _))
      (by rw [← hst]; exact untouched_of_onlyAt g.fresh.succ (onlyAt_handleCbNew _ _))
      (fun x _ => syn_of_synced hsy0 x)
      hl0 (Or.inr rfl) (cbOut_isSome_terminal hrs) (Or.inl rfl)
      (fun _ => True) (fun _ _ _ _ _ _ => trivial) ⟨trivial, trivial⟩ (fun _ _ _ _ _ _ => trivial)
      (fun _ _ _ _ => trivial)
      (by
        intro s hs hl _
        obtain ⟨s1, h1, hsame⟩ := handleCbNew_some hl
        refine ⟨by rw [hrun, h1]; simp only [h1]; rfl, by simp only [h1]; exact hsame.tbl,
          by simp only [h1]; exact hsame.syncTbl, sinv_handleCbNew hs _⟩)
      (fun t hc hl _ => compat_cbNew_inv hc hl)
    exact ih (ctx ++ [n + 1]) ctx (n + 1) _ _ (hb _) hsc g'

theorem live_cbRes {h : Handle} {k : Outcome → Prog} (ih : ∀ o, LiveAt outc (k o)) :
    LiveAt outc (.cbRes h k) := by
  intro ctx n keep seq hb hsc g
  cases hb with | cbRes hb =>
  cases hsc with | cbRes hh hsc =>
  have hrun : ∀ s, run (.cbRes h k) ctx n s =
      match handleCbRes s h with
      | .deliver o s' => run (k o) ctx n s'
      | .stop e s' => (e, s') := fun s => by
    simp only [run]; cases handleCbRes s h <;> rfl
  obtain ⟨rs, hrs, hall, r0, hr0, hor⟩ := g.res h hh
  cases ho : cbOut rs with
  | none => rw [ho] at hrs; cases hrs
  | some os =>
    have hdel : ∀ s, lookup s.tbl h = some rs → handleCbRes s h = .deliver os (emit s (.deliver h os)) := by
      intro s hl; rw [handleCbRes_some hl, ho]
    -- from invocation `j` on, the callback is resolved
    have key : ∀ j, (∀ i, lookup (seq (j + i)).tbl h = some rs) → Untouched ctx n (seq j).tbl → False := by
      intro j hj hu
      have hdj : ∀ i, run (.cbRes h k) ctx n (seq (j + i)) = run (k os) ctx n ((handleCbRes (seq (j + i)) h).st) ∧
          (handleCbRes (seq (j + i)) h).st.tbl = (seq (j + i)).tbl ∧
          (handleCbRes (seq (j + i)) h).st.syncTbl = (seq (j + i)).syncTbl ∧
          SInv (handleCbRes (seq (j + i)) h).st := by
        intro i
        refine ⟨?_, handleCbRes_tbl _ _, handleCbRes_syncTbl _ _, sinv_handleCbRes (g.ok _) _⟩
        rw [hrun, hdel _ (hj i)]; rfl
      exact ih os ctx n _ _ (hb os) (hsc os)
        (g.cont (k os) n j (handleCbRes (seq j) h).st (fun s => (handleCbRes s h).st)
          (hdj 0).1 (hdj 0).2.2.2 (by intro q _; rw [handleCbRes_tbl]) (by rw [handleCbRes_tbl]; exact hu)
          (by intro x hx; rw [handleCbRes_tbl, handleCbRes_syncTbl]; exact g.syn j x hx)
          (fun i _ => hdj i) (fun i _ => compat_cbRes_inv (g.compat _) (hj i) ho)
          (fun h' hh' hn => absurd hh' hn))
    rcases hor with hnone | rfl
    · -- first invocation suspends on the outstanding callback
      have h0 : handleCbRes (seq 0) h = .stop (.suspended none) (seq 0) := by
        rw [handleCbRes_some hr0, hnone]
      refine key 1 (fun i => hall _ (by omega)) ?_
      refine g.untouched_next_of 0 ?_
      rw [hrun, h0]
      exact g.fresh
    · refine key 0 (fun i => ?_) g.fresh
      cases i with
      | zero => exact hr0
      | succ i => exact hall _ (by omega)

/-- Entering a child context whose record is absent or STARTED. -/
theorem childBefore_enter {s : St} {q : Pos} (hok : StOk s) (hp : Backend.parentOk s.tbl q = true)
    (hl : lookup s.tbl q = none ∨ ∃ rt, lookup s.tbl q = some rt ∧ rt.kind = .context ∧ rt.status = .started) :
    ∃ s2, childBefore s q = .inr (s2, false) ∧
      (∃ rt, lookup s2.tbl q = some rt ∧ rt.kind = .context ∧ rt.status = .started) ∧
      ((∃ rt, lookup s.tbl q = some rt) → s2.tbl = s.tbl) ∧ s2.syncTbl = s.syncTbl := by
  rcases hl with hl | ⟨rt, hl, hk, hs⟩
  · obtain ⟨s2, h1, h2, h3⟩ := childBefore_visit hok hp hl
    exact ⟨s2, h1, ⟨_, h2, rfl, rfl⟩, (fun ⟨rt, h⟩ => by rw [hl] at h; cases h), h3⟩
  · exact ⟨_, childBefore_started hl hs, ⟨rt, hl, hk, hs⟩, fun _ => rfl, rfl⟩

theorem child_frames {ctx : Pos} {n : Nat} {s s2 : St} {m : Bool} (body : Prog)
    (hB : childBefore s (ctx ++ [n + 1]) = .inr (s2, m)) :
    Frame ctx n s.tbl s2.tbl ∧ Frame ctx n s.tbl (run body (ctx ++ [n + 1]) 0 s2).2.tbl ∧
    (Untouched ctx (n + 1) s.tbl → Untouched ctx (n + 1) (run body (ctx ++ [n + 1]) 0 s2).2.tbl) ∧
    (SInv s → SInv s2) ∧ OnlyAt (ctx ++ [n + 1]) s s2 := by
  have hst : EngineRun.childSt (childBefore s (ctx ++ [n + 1])) = s2 := by rw [hB]; rfl
  have ho := onlyAt_childBefore s (ctx ++ [n + 1])
  rw [hst] at ho
  refine ⟨frame_of_onlyAt ho, (frame_of_onlyAt ho).trans (run_frame body _ 0 s2).child, fun hu => ?_, fun h => ?_, ho⟩
  · exact (untouched_of_onlyAt hu ho).frame_child (run_frame body _ 0 s2)
  · rw [← hst]; exact sinv_childBefore h _

theorem childTail_suspended {c : ChildSpec} {body : Prog} {k : Outcome → Prog} {ctx : Pos} {n : Nat} {s2 : St}
    {d : Option Nat} (hd : (run body (ctx ++ [n + 1]) 0 s2).1 = .suspended d) :
    childTail c body k ctx n s2 false = (.suspended d, (run body (ctx ++ [n + 1]) 0 s2).2) := by
  unfold childTail
  rw [hd]
  rfl

theorem compat_body_of_enter {c : ChildSpec} {body : Prog} {k : Outcome → Prog} {ctx : Pos} {n : Nat} {s s2 : St}
    (hc : Compat (.child c body k) ctx n s.tbl)
    (hB : childBefore s (ctx ++ [n + 1]) = .inr (s2, false))
    (hrec : lookup s.tbl (ctx ++ [n + 1]) = none ∨
      ∃ rt, lookup s.tbl (ctx ++ [n + 1]) = some rt ∧ rt.status = .started)
    (hsame : (∃ rt, lookup s.tbl (ctx ++ [n + 1]) = some rt) → s2.tbl = s.tbl) :
    Compat body (ctx ++ [n + 1]) 0 s2.tbl := by
  rcases hrec with hn | ⟨rt, hl, hs⟩
  · have hu := compat_child_absent_inv hc hn
    have hst : EngineRun.childSt (childBefore s (ctx ++ [n + 1])) = s2 := by rw [hB]; rfl
    have ho := onlyAt_childBefore s (ctx ++ [n + 1])
    rw [hst] at ho
    refine .fresh (fun x hx => ?_)
    rw [ho x (fun hxe => not_inRegion_self _ 0 (hxe ▸ hx))]
    exact hu.child x hx
  · rw [hsame ⟨rt, hl⟩]; exact compat_child_body_inv hc hl hs

theorem prefix_child_cases {x ctx : Pos} {m : Nat} (h : ¬ x <+: (ctx ++ [m])) : ¬ x <+: ctx ∧ x ≠ ctx ++ [m] :=
  ⟨fun hp => h (hp.trans (List.prefix_append _ _)), fun he => h (he ▸ List.prefix_refl _)⟩

theorem live_child {c : ChildSpec} {body : Prog} {k : Outcome → Prog} (ihb : LiveAt outc body)
    (ihk : ∀ o, LiveAt outc (k o)) : LiveAt outc (.child c body k) := by
  intro ctx n keep seq hb hsc g
  cases hb with | child hbb hbk =>
  cases hsc with | child hscb hsck heq =>
  have hrun := run_child c body k ctx n
  have hqq : ¬ InRegion (ctx ++ [n + 1]) 0 (ctx ++ [n + 1]) := not_inRegion_self _ 0
  -- `P i`: in invocation `i` the body is entered and suspends
  have hA : ∀ i, (∀ i', i' < i → ∃ s2, childBefore (seq i') (ctx ++ [n + 1]) = .inr (s2, false) ∧
        ∃ d, (run body (ctx ++ [n + 1]) 0 s2).1 = .suspended d) →
      Untouched ctx (n + 1) (seq i).tbl ∧
      (lookup (seq i).tbl (ctx ++ [n + 1]) = none ∨
        ∃ rt, lookup (seq i).tbl (ctx ++ [n + 1]) = some rt ∧ rt.kind = .context ∧ rt.status = .started) := by
    intro i
    induction i with
    | zero => intro _; exact ⟨g.fresh.succ, Or.inl g.fresh.self⟩
    | succ i ihi =>
      intro hP
      obtain ⟨hu, hrec⟩ := ihi (fun i' hi' => hP i' (by omega))
      obtain ⟨s2, hB, d, hd⟩ := hP i (by omega)
      obtain ⟨s2', hB', ⟨rt, hl2, hk2, hs2⟩, _⟩ :=
        childBefore_enter (g.ok i).ok (parentOk_of_ctxOk (g.par i) (n + 1)) hrec
      rw [hB] at hB'
      cases hB'
      obtain ⟨_, _, hu3, _, _⟩ := child_frames body hB
      have hr : run (.child c body k) ctx n (seq i) = (.suspended d, (run body (ctx ++ [n + 1]) 0 s2).2) := by
        rw [hrun, hB]; exact childTail_suspended hd
      have hfin : (run (.child c body k) ctx n (seq i)).2 = (run body (ctx ++ [n + 1]) 0 s2).2 := by rw [hr]
      have hl3 : lookup (run body (ctx ++ [n + 1]) 0 s2).2.tbl (ctx ++ [n + 1]) = some rt := by
        rw [run_frame body _ 0 s2 _ hqq, hl2]
      constructor
      · refine g.untouched_next_of i ?_
        rw [hfin]; exact hu3 hu
      · -- the START of the context may have been lost: the record is absent, or STARTED
        have hnc := g.next_child i (n + 1)
        rw [hfin] at hnc
        cases hk : lookup (kept (run body (ctx ++ [n + 1]) 0 s2).2 (keep i)) (ctx ++ [n + 1]) with
        | none => rw [hk] at hnc; exact Or.inl hnc
        | some r' =>
          rw [hk] at hnc
          have hfull : Full (run body (ctx ++ [n + 1]) 0 s2).2 := by rw [← hfin]; exact (g.fin i).full
          obtain ⟨r'', hl'', hkd, hteq⟩ := kept_mono hfull (keep i) _ _ hk
          rw [hl3] at hl''
          cases hl''
          have hctx : r'.kind = .context := by rw [← hkd]; exact hk2
          have hnt : r'.status.terminal = false := by
            cases ht : r'.status.terminal with
            | false => rfl
            | true =>
              have e := hteq ht
              rw [← e, hs2] at ht
              cases ht
          have hnc' : lookup (seq (i + 1)).tbl (ctx ++ [n + 1]) = some r' := by
            rw [hnc]; show some (fireRec _ r') = _; rw [fireRec_context hctx]
          obtain ⟨h1, h2⟩ := compat_child_active_inv (g.compat (i + 1)) hnc' hnt
          exact Or.inr ⟨r', hnc', h1, h2⟩
  -- what entering the body in invocation `i` gives, when its record is absent or STARTED
  have henter : ∀ i, (lookup (seq i).tbl (ctx ++ [n + 1]) = none ∨
        ∃ rt, lookup (seq i).tbl (ctx ++ [n + 1]) = some rt ∧ rt.kind = .context ∧ rt.status = .started) →
      ∃ s2, childBefore (seq i) (ctx ++ [n + 1]) = .inr (s2, false) ∧
        (∃ rt, lookup s2.tbl (ctx ++ [n + 1]) = some rt ∧ rt.kind = .context ∧ rt.status = .started) ∧
        s2.syncTbl = (seq i).syncTbl ∧ Compat body (ctx ++ [n + 1]) 0 s2.tbl := by
    intro i hrec
    obtain ⟨s2, hB, hrec2, hsame, hsync⟩ :=
      childBefore_enter (g.ok i).ok (parentOk_of_ctxOk (g.par i) (n + 1)) hrec
    refine ⟨s2, hB, hrec2, hsync, compat_body_of_enter (g.compat i) hB ?_ hsame⟩
    rcases hrec with hn | ⟨rt, hl, _, hs⟩
    · exact Or.inl hn
    · exact Or.inr ⟨rt, hl, hs⟩
  by_cases hall : ∀ i, ∃ s2, childBefore (seq i) (ctx ++ [n + 1]) = .inr (s2, false) ∧
      ∃ d, (run body (ctx ++ [n + 1]) 0 s2).1 = .suspended d
  · -- the body suspends forever: impossible by the induction hypothesis for the body
    have hfacts : ∀ i, ∃ s2, childBefore (seq i) (ctx ++ [n + 1]) = .inr (s2, false) ∧
        EngineRun.childSt (childBefore (seq i) (ctx ++ [n + 1])) = s2 ∧
        (∃ d, (run body (ctx ++ [n + 1]) 0 s2).1 = .suspended d ∧
          run (.child c body k) ctx n (seq i) = (.suspended d, (run body (ctx ++ [n + 1]) 0 s2).2)) ∧
        (∃ rt, lookup s2.tbl (ctx ++ [n + 1]) = some rt ∧ rt.kind = .context ∧ rt.status = .started) ∧
        SInv s2 ∧ Frame ctx n (seq i).tbl s2.tbl ∧ OnlyAt (ctx ++ [n + 1]) (seq i) s2 ∧
        s2.syncTbl = (seq i).syncTbl ∧ Compat body (ctx ++ [n + 1]) 0 s2.tbl := by
      intro i
      obtain ⟨hu, hrec⟩ := hA i (fun i' _ => hall i')
      obtain ⟨s2, hB, d, hd⟩ := hall i
      obtain ⟨s2', hB', hrec2, hsync, hcb⟩ := henter i hrec
      rw [hB] at hB'
      cases hB'
      obtain ⟨hf2, _, _, hok2, hoa⟩ := child_frames body hB
      exact ⟨s2, hB, by rw [hB]; rfl, ⟨d, hd, by rw [hrun, hB]; exact childTail_suspended hd⟩, hrec2, hok2 (g.ok i),
        hf2, hoa, hsync, hcb⟩
    refine ihb (ctx ++ [n + 1]) 0 keep (fun i => EngineRun.childSt (childBefore (seq i) (ctx ++ [n + 1]))) hbb hscb
      ⟨?_, ?_, ?_, ?_, ?_, ?_, ?_, ?_, ?_⟩
    · intro i
      obtain ⟨s2, _, he, _, _, hok2, _⟩ := hfacts i
      simp only [he]; exact hok2
    · intro i
      obtain ⟨s2, _, he, _, ⟨rt, hl2, _, hs2⟩, _, hf2, _⟩ := hfacts i
      simp only [he]
      exact (ctxVis_of_frame hf2 (g.vis i)).child (hides_false_of hl2 (Or.inl (by rw [hs2]; rfl)))
    · intro i
      obtain ⟨s2, _, he, _, ⟨rt, hl2, hk2, _⟩, _, _, _⟩ := hfacts i
      simp only [he]
      exact Or.inr ⟨rt, hl2, hk2⟩
    · intro h hh
      have hp := past_child hh
      refine Resolved.congr (fun i => ?_) (g.res h hp)
      obtain ⟨s2, _, he, _, _, _, hf2, _⟩ := hfacts i
      simp only [he]
      exact hf2 h (past_not_inRegion hp)
    · obtain ⟨s2, hB, he, _, _, _, _, hoa, _⟩ := hfacts 0
      simp only [he]
      intro x hx
      rw [hoa x (fun hxe => hqq (hxe ▸ hx))]
      exact g.fresh.child x hx
    · intro i
      obtain ⟨s2, _, he, _, _, _, _, _, _, hcb⟩ := hfacts i
      simp only [he]; exact hcb
    · intro i
      obtain ⟨s2, _, he, ⟨d, hd, _⟩, _⟩ := hfacts i
      simp only [he]
      exact ⟨d, hd⟩
    · intro i x hx
      obtain ⟨s2, _, he, _, _, _, _, hoa, hsync, _⟩ := hfacts i
      obtain ⟨hx1, hx2⟩ := prefix_child_cases hx
      simp only [he]
      rw [hsync, hoa x hx2]
      exact g.syn i x hx1
    · intro i x hx
      obtain ⟨s2, _, he, ⟨d, hd, hr⟩, _⟩ := hfacts i
      obtain ⟨s2', _, he', _, _, _, _, hoa', _⟩ := hfacts (i + 1)
      obtain ⟨hx1, hx2⟩ := prefix_child_cases hx
      simp only [he, he']
      rw [hoa' x hx2, g.next i x hx1, hr]
  · -- the body ends in some invocation `j`
    have hex : ∃ i, ¬ ∃ s2, childBefore (seq i) (ctx ++ [n + 1]) = .inr (s2, false) ∧
        ∃ d, (run body (ctx ++ [n + 1]) 0 s2).1 = .suspended d := by
      apply Classical.byContradiction
      intro hne
      exact hall (fun i => Classical.byContradiction (fun hni => hne ⟨i, hni⟩))
    obtain ⟨j, hnP, hmin⟩ := exists_least hex
    obtain ⟨hu, hrec⟩ := hA j (fun i' hi' => Classical.byContradiction (fun hni => hmin i' hi' hni))
    obtain ⟨s2, hB, ⟨rt, hl2, hk2, hs2⟩, _, hcb⟩ := henter j hrec
    obtain ⟨hf2, hf3, hu3, hok2, _⟩ := child_frames body hB
    have hnsusp : ∀ d, (run body (ctx ++ [n + 1]) 0 s2).1 ≠ .suspended d := fun d hd => hnP ⟨s2, hB, d, hd⟩
    have hl3 : lookup (run body (ctx ++ [n + 1]) 0 s2).2.tbl (ctx ++ [n + 1]) = some rt := by
      rw [run_frame body _ 0 s2 _ hqq, hl2]
    have hinv3 : SInv (run body (ctx ++ [n + 1]) 0 s2).2 := sinv_run (hok2 (g.ok j)) _ _ _
    have hp3 := parentOk_of_ctxOk (ctxOk_of_frame hf3 (g.par j)) (n + 1)
    have hcp := childAfter_visit c (run body (ctx ++ [n + 1]) 0 s2).1 hinv3.ok hp3 hl3 hk2 hs2
    have hoa := onlyAt_childAfter (run body (ctx ++ [n + 1]) 0 s2).2 (ctx ++ [n + 1]) c false
      (run body (ctx ++ [n + 1]) 0 s2).1
    have hfa := EngineRun.frame_childAfter (c := c) (m := false) (e := (run body (ctx ++ [n + 1]) 0 s2).1)
      (EngineRun.Frame.refl (ctx ++ [n + 1]) (run body (ctx ++ [n + 1]) 0 s2).2)
    have hwa := EngineRun.wal_childAfter (c := c) hB rfl hinv3.wal
    have hfu := full_childAfter (p := ctx ++ [n + 1]) (c := c) (m := false)
      (e := (run body (ctx ++ [n + 1]) 0 s2).1) hinv3.full
    have hmv := EngineExec.childAfter_mv (run body (ctx ++ [n + 1]) 0 s2).2 (ctx ++ [n + 1]) c false
      (run body (ctx ++ [n + 1]) 0 s2).1
    obtain ⟨d, hd⟩ := g.susp j
    rw [hrun, hB] at hd
    simp only [childTail] at hd
    cases hca : childAfter (run body (ctx ++ [n + 1]) 0 s2).2 (ctx ++ [n + 1]) c false
        (run body (ctx ++ [n + 1]) 0 s2).1 with
    | stop e' s4 =>
      rw [hca] at hd hcp
      simp only [] at hd
      rcases hcp with hcr | ⟨he, _, _⟩
      · rw [hcr] at hd; cases hd
      · exact hnsusp d (by rw [← he]; exact hd)
    | deliver o s4 =>
      rw [hca] at hcp hoa hfa hmv hwa hfu
      simp only [EngineRun.st_deliver] at hoa hfa hmv hwa hfu
      obtain ⟨r', hl4, hd4, hsy4, hcases⟩ := hcp
      have hinv4 : SInv s4 := ⟨hinv3.ok.of_frame hfa, hwa, hfu⟩
      have hfix : fireRec (outc (ctx ++ [n + 1])) r' = r' := fireRec_terminal (done_terminal hd4)
      have hrun0 : run (.child c body k) ctx n (seq j) = run (k o) ctx (n + 1) s4 := by
        rw [hrun, hB]; simp only [childTail, hca]
      by_cases hbig : ∃ v, (run body (ctx ++ [n + 1]) 0 s2).1 = .returned v ∧ c.large v = true
      · -- oversized result: the context is replayed; the body's records form a complete traversal
        obtain ⟨v, hev, hlg⟩ := hbig
        have hov : o = .ok v ∧ r'.status = .succeeded ∧ r'.replayChildren = true := by
          rcases hcases with ⟨v', hev', ho, _, hbigv⟩ | ⟨ex, hex, _⟩
          · rw [hev] at hev'; cases hev'
            exact ⟨ho, hbigv hlg⟩
          · rw [hev] at hex; cases hex
        obtain ⟨rfl, hs', hrc'⟩ := hov
        have hpast : PastOk (ctx ++ [n + 1]) 0 s2.tbl := by
          intro h hh
          have hp := past_child hh
          obtain ⟨rs, _, hall', r0, hr0, _⟩ := g.res h hp
          rw [hf2 h (past_not_inRegion hp)]
          cases j with
          | zero => exact ⟨r0, hr0⟩
          | succ j => exact ⟨rs, hall' _ (by omega)⟩
        have hret3 := (run_ok body (ctx ++ [n + 1]) 0 s2 AnyTbl hscb.scoped (crashG_any _)
          (Or.inr ⟨rt, hl2, hk2⟩) hpast hcb (nodeG_any _ _ _ _)).2 v hev
        have hret4 : Returns body (ctx ++ [n + 1]) 0 s4.tbl v := hret3.mono (mv_mono hmv)
        have g' := g.phase2 (k (.ok v)) j s4
          (fun s => (deliverAt (run body (ctx ++ [n + 1]) 0 (emit s (.enter (ctx ++ [n + 1]) .context 0 none))).2
            (ctx ++ [n + 1]) (.ok v)).st) r'
          hrun0 hinv4 (hf3.trans (frame_of_onlyAt hoa)) (untouched_of_onlyAt (hu3 hu) hoa)
          (fun x _ => syn_of_synced hsy4 x)
          hl4 (Or.inl (done_terminal hd4)) (by rw [hfix]; exact done_terminal hd4) (Or.inr hfix.symm)
          (fun t => Returns body (ctx ++ [n + 1]) 0 t v)
          (fun t u imm t' ha h => h.mono (apply_mono ha))
          ⟨hret4, by rw [hsy4.2]; exact hret4⟩
          (by
            intro K t' htp hvis hlk hoff
            rw [hfix] at hlk
            have h1 : Returns body (ctx ++ [n + 1]) 0 (fireAll outc K) v := htp.mono (fireAll_evolve outc K).mono
            have h2 := h1.visible (hvis.child (hides_false_of hlk (Or.inr hrc')))
            exact h2.congr_off ctx (List.prefix_append _ _) hoff)
          (fun t t' hoff h => h.congr_off ctx (List.prefix_append _ _) hoff)
          (by
            intro s hs hl htp
            rw [hfix] at hl
            obtain ⟨s3', hrun3, hsame⟩ := run_of_returns htp
              (emit s (.enter (ctx ++ [n + 1]) .context 0 none)) rfl
            have hl3' : lookup (run body (ctx ++ [n + 1]) 0
                (emit s (.enter (ctx ++ [n + 1]) .context 0 none))).2.tbl (ctx ++ [n + 1]) = some r' := by
              rw [hrun3, hsame.tbl]; exact hl
            refine ⟨?_, ?_, ?_, ?_⟩
            · rw [hrun, childBefore_replay hl hs' hrc']
              simp only [childTail, hrun3, EngineH.childAfter_replay]
              rw [deliverAt_st]
              rfl
            · rw [EngineH.deliverAt_st_tbl, hrun3]; exact hsame.tbl
            · rw [deliverAt_st_syncTbl, hrun3]; exact hsame.syncTbl
            · have hse : SInv (emit s (.enter (ctx ++ [n + 1]) .context 0 none)) := by
                have := sinv_childBefore hs (ctx ++ [n + 1])
                rw [childBefore_replay hl hs' hrc'] at this
                exact this
              exact sinv_deliverAt (sinv_run hse _ _ _) _ _ ⟨r', hl3', done_terminal hd4⟩)
          (by
            intro t hc hl htp
            rw [hfix] at hl
            exact compat_child_replay_inv hc hl hs' hrc' htp)
        exact ihk _ ctx (n + 1) _ _ (hbk _) (hsck _) g'
      · have hrc : r'.status = .succeeded → r'.replayChildren = false := by
          rcases hcases with ⟨v, hev, _, hv, _⟩ | ⟨ex, _, hfail, _⟩
          · intro _
            have hsm : c.large v = false := by
              cases hl : c.large v with
              | false => rfl
              | true => exact absurd ⟨v, hev, hl⟩ hbig
            exact (hv hsm).1
          · intro h; rw [hfail] at h; cases h
        have hko : k o = k (outcomeOf r') := by
          rcases hcases with ⟨v, hev, rfl, hv, _⟩ | ⟨ex, _, _, rfl | ⟨hinv, rfl, hcan⟩⟩
          · have hsm : c.large v = false := by
              cases hl : c.large v with
              | false => rfl
              | true => exact absurd ⟨v, hev, hl⟩ hbig
            rw [(hv hsm).2]
          · rfl
          · rw [hcan]; exact heq ex hinv
        have g' := g.phase2 (k (outcomeOf r')) j s4
          (fun s => (deliverAt s (ctx ++ [n + 1]) (outcomeOf r')).st) r'
          (by rw [hrun0, hko])
          hinv4 (hf3.trans (frame_of_onlyAt hoa)) (untouched_of_onlyAt (hu3 hu) hoa)
          (fun x _ => syn_of_synced hsy4 x)
          hl4 (Or.inl (done_terminal hd4)) (by rw [hfix]; exact done_terminal hd4) (Or.inr hfix.symm)
          (fun _ => True) (fun _ _ _ _ _ _ => trivial) ⟨trivial, trivial⟩ (fun _ _ _ _ _ _ => trivial)
          (fun _ _ _ _ => trivial)
          (by
            intro s hs hl _
            rw [hfix] at hl
            refine ⟨?_, EngineH.deliverAt_st_tbl _ _ _, deliverAt_st_syncTbl _ _ _,
              sinv_deliverAt hs _ _ ⟨r', hl, done_terminal hd4⟩⟩
            rw [hrun, childBefore_done hl hd4 hrc, deliverAt_st]
            rfl)
          (by
            intro t hc hl _
            rw [hfix] at hl
            exact compat_child_done_inv hc hl hd4 hrc)
        exact ihk _ ctx (n + 1) _ _ (hbk _) (hsck _) g'

/-- **No infinite all-suspended good execution**, for every bounded, replay-stable program
fragment, wherever it is placed and whatever the backend keeps of the asynchronous updates. -/
theorem live (hout : ∀ q, outc q ≠ .none) (p : Prog) : LiveAt outc p := by
  induction p with
  | ret v => exact live_ret v
  | raise e => exact live_raise e
  | log m k ih => exact live_log ih
  | step sp k ih => exact live_step ih
  | wait secs k ih => exact live_wait ih
  | cbNew k ih => exact live_cbNew hout ih
  | cbRes h k ih => exact live_cbRes ih
  | invoke pl k ih => exact live_invoke hout ih
  | wfc w k ih => exact live_wfc ih
  | child c body k ihb ihk => exact live_child ihb ihk

end cases

/-! ## Without an injected fault, `ckptFailed` means the backend rejected an update -/

/-- At an end of a run without fault plan: it is `ckptFailed` only if an update was rejected. -/
def NQ (e : End) (s : St) : Prop := s.failAt = none ∧ (e = .ckptFailed → ∃ u, Ev.rejected u ∈ s.trace)

open EngineRun in
theorem ni_ck_ok {s u s'} (h : s.failAt = none) (hc : checkpoint s u = .ok s') : s'.failAt = none := by
  have hs := checkpoint_spec s u
  rw [hc] at hs
  cases hs <;> exact h

open EngineRun in
theorem nq_ck_err {s u e s'} (h : s.failAt = none) (hc : checkpoint s u = .error (e, s')) : NQ e s' := by
  have hs := checkpoint_spec s u
  rw [hc] at hs
  cases hs with
  | crashBefore hs => exact ⟨h, fun he => by cases he⟩
  | fault hs hf => rw [h] at hf; cases hf
  | rejected hs hf ha => exact ⟨h, fun _ => ⟨u, by simp⟩⟩
  | crashAfter t hs hf ha => exact ⟨h, fun he => by cases he⟩

theorem ni_tick {s s' : St} (h : s.failAt = none) (ht : tick s = some s') : s'.failAt = none := by
  rw [EngineRun.tick_some ht]; exact h

theorem ni_track {s : St} {p : Pos} (h : s.failAt = none) : (trackReplay s p).failAt = none := by
  rw [EngineRun.trackReplay_failAt]; exact h

theorem ni_emit {s : St} {e : Ev} (h : s.failAt = none) : (emit s e).failAt = none := h

syntax "ni_close" : tactic
macro_rules | `(tactic| ni_close) => `(tactic| first
  | assumption
  | (refine ni_track ?_; ni_close)
  | (refine ni_emit ?_; ni_close)
  | (refine ni_tick ?_ ‹_›; ni_close)
  | (refine ni_ck_ok ?_ ‹_›; ni_close))

open EngineRun in
theorem ni_deliverAt {s p o} (h : s.failAt = none) :
    Post (fun s => s.failAt = none) NQ (deliverAt s p o) := by
  unfold deliverAt
  split <;> simp only [Post_deliver] <;> ni_close

syntax "nq_close" : tactic
macro_rules | `(tactic| nq_close) => `(tactic| first
  | (refine nq_ck_err ?_ ‹_›; ni_close)
  | (refine ni_deliverAt ?_; ni_close)
  | (refine ⟨?_, fun he => by cases he⟩; ni_close)
  | ni_close)

open EngineRun in
theorem ni_retryHandler {s p spec r e} (h : s.failAt = none) :
    Post (fun s => s.failAt = none) NQ (retryHandler s p spec r e) := by
  unfold retryHandler
  dsimp only
  repeat' split
  all_goals try simp only [Post_deliver, Post_stop]
  all_goals nq_close

open EngineRun in
theorem ni_stepExecute {s p spec r} (h : s.failAt = none) :
    Post (fun s => s.failAt = none) NQ (stepExecute s p spec r) := by
  unfold stepExecute
  dsimp only
  repeat' split
  all_goals try simp only [Post_deliver, Post_stop]
  all_goals first | nq_close | (refine ni_retryHandler ?_; ni_close)

open EngineRun in
theorem ni_wfcExecute {s p w r} (h : s.failAt = none) :
    Post (fun s => s.failAt = none) NQ (wfcExecute s p w r) := by
  unfold wfcExecute
  dsimp only
  repeat' split
  all_goals try simp only [Post_deliver, Post_stop]
  all_goals nq_close

syntax "nq_close2" : tactic
macro_rules | `(tactic| nq_close2) => `(tactic| first
  | nq_close
  | (refine ni_retryHandler ?_; ni_close)
  | (refine ni_stepExecute ?_; ni_close)
  | (refine ni_wfcExecute ?_; ni_close))

open EngineRun in
theorem ni_handleStep {s p spec} (h : s.failAt = none) :
    Post (fun s => s.failAt = none) NQ (handleStep s p spec) := by
  unfold handleStep
  repeat' split
  all_goals try simp only [Post_deliver, Post_stop]
  all_goals nq_close2

open EngineRun in
theorem ni_handleWait {s p secs} (h : s.failAt = none) :
    Post (fun s => s.failAt = none) NQ (handleWait s p secs) := by
  unfold handleWait
  repeat' split
  all_goals try simp only [Post_deliver, Post_stop]
  all_goals nq_close2

open EngineRun in
theorem ni_handleInvoke {s p v} (h : s.failAt = none) :
    Post (fun s => s.failAt = none) NQ (handleInvoke s p v) := by
  unfold handleInvoke invokeTerminal
  repeat' split
  all_goals try simp only [Post_deliver, Post_stop, Option.getD]
  all_goals nq_close2

open EngineRun in
theorem ni_handleWfc {s p w} (h : s.failAt = none) :
    Post (fun s => s.failAt = none) NQ (handleWfc s p w) := by
  unfold handleWfc
  dsimp only
  repeat' split
  all_goals try simp only [Post_deliver, Post_stop]
  all_goals nq_close2

open EngineRun in
theorem ni_handleCbRes {s hd} (h : s.failAt = none) :
    Post (fun s => s.failAt = none) NQ (handleCbRes s hd) := by
  unfold handleCbRes
  dsimp only
  repeat' split
  all_goals try simp only [Post_deliver, Post_stop]
  all_goals nq_close2

open EngineRun in
theorem ni_handleCbNew {s p} (h : s.failAt = none) :
    PostE (fun s => s.failAt = none) NQ (handleCbNew s p) := by
  unfold handleCbNew
  repeat' split
  all_goals try simp only [PostE_ok, PostE_error]
  all_goals nq_close2

open EngineRun in
theorem ni_childBefore {s p} (h : s.failAt = none) :
    PostC (fun s => s.failAt = none) NQ (childBefore s p) := by
  unfold childBefore
  repeat' split
  all_goals try simp only [PostC_inl, PostC_inr, Post_deliver, Post_stop]
  all_goals nq_close2

open EngineRun in
theorem ni_childAfter {s p c m e} (h : NQ e s) :
    Post (fun s => s.failAt = none) NQ (childAfter s p c m e) := by
  unfold childAfter
  split
  · have h : s.failAt = none := h.1
    dsimp only
    repeat' split
    all_goals try simp only [Post_deliver, Post_stop]
    all_goals nq_close2
  · have h : s.failAt = none := h.1
    repeat' split
    all_goals try simp only [Post_deliver, Post_stop]
    all_goals nq_close2
  · exact h

/-- A run without fault plan ends `ckptFailed` only if the backend rejected an update. -/
theorem run_ckptFailed_rejected (p : Prog) (ctx : Pos) (n : Nat) (s : St) (hf : s.failAt = none)
    (he : (run p ctx n s).1 = .ckptFailed) : ∃ u, Ev.rejected u ∈ (run p ctx n s).2.trace :=
  (EngineRun.run_ind (fun s => s.failAt = none) NQ
    (fun _ _ h => ⟨h, fun he => by cases he⟩) (fun _ _ h => ⟨h, fun he => by cases he⟩)
    (fun _ _ _ h => h)
    (fun _ _ _ h => ni_handleStep h)
    (fun _ _ _ h => ni_handleWait h)
    (fun _ _ h => ni_handleCbNew h)
    (fun _ _ h => ni_handleCbRes h)
    (fun _ _ _ h => ni_handleInvoke h)
    (fun _ _ _ h => ni_handleWfc h)
    (fun _ _ h => ni_childBefore h)
    (fun _ _ _ _ _ _ _ _ _ _ _ h => ni_childAfter h)
    p ctx n s hf).2 he

/-! ## `crashed` means the crash budget is exhausted -/

/-- At an end of a run: it is `crashed` only with an exhausted crash budget. -/
def CQ (e : End) (s : St) : Prop := e = .crashed → s.budget = 0

theorem tick_none_budget {s : St} (h : tick s = none) : s.budget = 0 := by
  unfold tick at h
  split at h
  · assumption
  · cases h

theorem cq_ck_err {s u e s'} (hc : checkpoint s u = .error (e, s')) : CQ e s' := by
  intro he
  subst he
  cases hs : u.sync with
  | false => rw [EngineH.checkpoint_async s u hs] at hc; cases hc
  | true =>
    rw [EngineH.checkpoint_sync_eq s u hs] at hc
    split at hc
    · rename_i hb
      cases hc
      exact hb
    · split at hc
      · cases hc
      · split at hc
        · cases hc
        · split at hc
          · rename_i hb1
            cases hc
            show s.budget - 1 = 0
            omega
          · cases hc

syntax "cq_close" : tactic
macro_rules | `(tactic| cq_close) => `(tactic| first
  | trivial
  | exact cq_ck_err ‹_›
  | (intro _; exact tick_none_budget ‹_›)
  | (intro he; cases he; done))

open EngineRun in
theorem cq_deliverAt {s p o} : Post (fun _ => True) CQ (deliverAt s p o) := by
  unfold deliverAt
  split <;> trivial

open EngineRun in
theorem cq_retryHandler {s p spec r e} : Post (fun _ => True) CQ (retryHandler s p spec r e) := by
  unfold retryHandler
  dsimp only
  repeat' split
  all_goals try simp only [Post_deliver, Post_stop]
  all_goals first | cq_close | exact cq_deliverAt

open EngineRun in
theorem cq_stepExecute {s p spec r} : Post (fun _ => True) CQ (stepExecute s p spec r) := by
  unfold stepExecute
  dsimp only
  repeat' split
  all_goals try simp only [Post_deliver, Post_stop]
  all_goals first | cq_close | exact cq_deliverAt | exact cq_retryHandler

open EngineRun in
theorem cq_wfcExecute {s p w r} : Post (fun _ => True) CQ (wfcExecute s p w r) := by
  rw [EngineH.wfcExecute_eq]
  repeat' split
  all_goals try simp only [Post_deliver, Post_stop]
  all_goals first | cq_close | exact cq_deliverAt

syntax "cq_close2" : tactic
macro_rules | `(tactic| cq_close2) => `(tactic| first
  | cq_close
  | exact cq_deliverAt
  | exact cq_retryHandler
  | exact cq_stepExecute
  | exact cq_wfcExecute)

open EngineRun in
theorem cq_handleStep {s p spec} : Post (fun _ => True) CQ (handleStep s p spec) := by
  unfold handleStep
  repeat' split
  all_goals try simp only [Post_deliver, Post_stop]
  all_goals cq_close2

open EngineRun in
theorem cq_handleWait {s p secs} : Post (fun _ => True) CQ (handleWait s p secs) := by
  unfold handleWait
  repeat' split
  all_goals try simp only [Post_deliver, Post_stop]
  all_goals cq_close2

open EngineRun in
theorem cq_handleInvoke {s p v} : Post (fun _ => True) CQ (handleInvoke s p v) := by
  unfold handleInvoke invokeTerminal
  repeat' split
  all_goals try simp only [Post_deliver, Post_stop, Option.getD]
  all_goals cq_close2

open EngineRun in
theorem cq_handleWfc {s p w} : Post (fun _ => True) CQ (handleWfc s p w) := by
  unfold handleWfc
  dsimp only
  repeat' split
  all_goals try simp only [Post_deliver, Post_stop]
  all_goals cq_close2

open EngineRun in
theorem cq_handleCbRes {s hd} : Post (fun _ => True) CQ (handleCbRes s hd) := by
  unfold handleCbRes
  dsimp only
  repeat' split
  all_goals try simp only [Post_deliver, Post_stop]
  all_goals cq_close2

open EngineRun in
theorem cq_handleCbNew {s p} : PostE (fun _ => True) CQ (handleCbNew s p) := by
  unfold handleCbNew
  repeat' split
  all_goals try simp only [PostE_ok, PostE_error]
  all_goals cq_close2

open EngineRun in
theorem cq_childBefore {s p} : PostC (fun _ => True) CQ (childBefore s p) := by
  unfold childBefore
  repeat' split
  all_goals try simp only [PostC_inl, PostC_inr, Post_deliver, Post_stop]
  all_goals cq_close2

open EngineRun in
theorem cq_childAfter {s p c m e} (h : CQ e s) : Post (fun _ => True) CQ (childAfter s p c m e) := by
  unfold childAfter
  split
  · dsimp only
    repeat' split
    all_goals try simp only [Post_deliver, Post_stop]
    all_goals cq_close2
  · repeat' split
    all_goals try simp only [Post_deliver, Post_stop]
    all_goals cq_close2
  · exact h

/-- A run ends `crashed` only when its crash budget is exhausted. -/
theorem run_crashed_budget (p : Prog) (ctx : Pos) (n : Nat) (s : St)
    (he : (run p ctx n s).1 = .crashed) : (run p ctx n s).2.budget = 0 :=
  EngineRun.run_ind (fun _ => True) CQ
    (fun _ _ _ he => by cases he) (fun _ _ _ he => by cases he)
    (fun _ _ _ _ => trivial)
    (fun _ _ _ _ => cq_handleStep)
    (fun _ _ _ _ => cq_handleWait)
    (fun _ _ _ => cq_handleCbNew)
    (fun _ _ _ => cq_handleCbRes)
    (fun _ _ _ _ => cq_handleInvoke)
    (fun _ _ _ _ => cq_handleWfc)
    (fun _ _ _ => cq_childBefore)
    (fun _ _ _ _ _ _ _ _ _ _ _ h => cq_childAfter h)
    p ctx n s trivial he

/-! ## Acknowledged parking records are current (support for C07 part A) -/

/-- A parking record of the synchronously acknowledged table is still in the working table: the
asynchronous updates in flight (STARTs) never touch a parking record. -/
def PB (s : St) : Prop := ∀ q r, lookup s.syncTbl q = some r → Parked r = true → lookup s.tbl q = some r

theorem pb_init (t : Tbl) (b : Nat) (f : Option Nat) (imm : Pos → Backend.Immediate) : PB (initSt t b f imm) :=
  fun _ _ h _ => h

theorem pb_of_eq {s s' : St} (h : PB s) (h1 : s'.tbl = s.tbl) (h2 : s'.syncTbl = s.syncTbl) : PB s' := by
  intro q r hl hp; rw [h1]; rw [h2] at hl; exact h q r hl hp

open EngineRun in
theorem pb_ck_ok {s u s'} (h : PB s) (hc : checkpoint s u = .ok s') (hu : u.sync = false → u.action = .start) :
    PB s' := by
  have hs := checkpoint_spec s u
  rw [hc] at hs
  cases hs with
  | asyncApplied t hs ha =>
    intro q r hl hp
    have hcur := h q r hl hp
    show lookup t q = some r
    by_cases hq : u.pos = q
    · subst hq
      obtain ⟨_, hst, _⟩ := EngineH.apply_start_present_inv hcur (hu hs) ha
      simp [Parked, hst] at hp
    · rw [apply_lookup_ne ha hq]; exact hcur
  | asyncRejected hs ha => exact pb_of_eq h rfl rfl
  | syncApplied t hs hf ha => exact fun _ _ hl _ => hl

open EngineRun in
theorem pb_ck_err {s u e s'} (h : PB s) (hc : checkpoint s u = .error (e, s')) : PB s' := by
  have hs := checkpoint_spec s u
  rw [hc] at hs
  cases hs with
  | crashBefore hs => exact pb_of_eq h rfl rfl
  | fault hs hf => exact pb_of_eq h rfl rfl
  | rejected hs hf ha => exact pb_of_eq h rfl rfl
  | crashAfter t hs hf ha => exact fun _ _ hl _ => hl

theorem pb_tick {s s' : St} (h : PB s) (ht : tick s = some s') : PB s' := by
  rw [EngineRun.tick_some ht]; exact pb_of_eq h rfl rfl

theorem pb_track {s : St} {p : Pos} (h : PB s) : PB (trackReplay s p) :=
  pb_of_eq h (EngineRun.trackReplay_tbl s p) (EngineRun.trackReplay_syncTbl s p)

theorem pb_emit {s : St} {e : Ev} (h : PB s) : PB (emit s e) := pb_of_eq h rfl rfl

syntax "pb_close" : tactic
macro_rules | `(tactic| pb_close) => `(tactic| first
  | assumption
  | (refine pb_track ?_; pb_close)
  | (refine pb_emit ?_; pb_close)
  | (refine pb_tick ?_ ‹_›; pb_close)
  | (refine pb_ck_ok ?_ ‹_› (by first | (intro h; cases h; done) | (intro _; rfl) | (split <;> intro h <;> cases h)); pb_close)
  | (refine pb_ck_err ?_ ‹_›; pb_close))

theorem pb_deliverAt {s p o} (h : PB s) : PB (deliverAt s p o).st := by
  unfold deliverAt
  split <;> simp only [EngineRun.st_deliver] <;> pb_close

syntax "pb_close2" : tactic
macro_rules | `(tactic| pb_close2) => `(tactic| first
  | (refine pb_deliverAt ?_; pb_close)
  | pb_close)

theorem pb_retryHandler {s p spec r e} (h : PB s) : PB (retryHandler s p spec r e).st := by
  unfold retryHandler
  dsimp only
  repeat' split
  all_goals try simp only [EngineRun.st_deliver, EngineRun.st_stop]
  all_goals pb_close2

theorem pb_stepExecute {s p spec r} (h : PB s) : PB (stepExecute s p spec r).st := by
  unfold stepExecute
  dsimp only
  repeat' split
  all_goals try simp only [EngineRun.st_deliver, EngineRun.st_stop]
  all_goals first | pb_close2 | (refine pb_retryHandler ?_; pb_close)

theorem pb_wfcExecute {s p w r} (h : PB s) : PB (wfcExecute s p w r).st := by
  unfold wfcExecute
  dsimp only
  repeat' split
  all_goals try simp only [EngineRun.st_deliver, EngineRun.st_stop]
  all_goals pb_close2

syntax "pb_close3" : tactic
macro_rules | `(tactic| pb_close3) => `(tactic| first
  | pb_close2
  | (refine pb_retryHandler ?_; pb_close)
  | (refine pb_stepExecute ?_; pb_close)
  | (refine pb_wfcExecute ?_; pb_close))

theorem pb_handleStep {s p spec} (h : PB s) : PB (handleStep s p spec).st := by
  unfold handleStep
  repeat' split
  all_goals try simp only [EngineRun.st_deliver, EngineRun.st_stop]
  all_goals pb_close3

theorem pb_handleWait {s p secs} (h : PB s) : PB (handleWait s p secs).st := by
  unfold handleWait
  repeat' split
  all_goals try simp only [EngineRun.st_deliver, EngineRun.st_stop]
  all_goals pb_close3

theorem pb_handleInvoke {s p v} (h : PB s) : PB (handleInvoke s p v).st := by
  unfold handleInvoke invokeTerminal
  repeat' split
  all_goals try simp only [EngineRun.st_deliver, EngineRun.st_stop, Option.getD]
  all_goals pb_close3

theorem pb_handleWfc {s p w} (h : PB s) : PB (handleWfc s p w).st := by
  unfold handleWfc
  dsimp only
  repeat' split
  all_goals try simp only [EngineRun.st_deliver, EngineRun.st_stop]
  all_goals pb_close3

theorem pb_handleCbRes {s hd} (h : PB s) : PB (handleCbRes s hd).st := by
  unfold handleCbRes
  dsimp only
  repeat' split
  all_goals try simp only [EngineRun.st_deliver, EngineRun.st_stop]
  all_goals pb_close3

theorem pb_handleCbNew {s p} (h : PB s) : PB (EngineRun.Except.st (handleCbNew s p)) := by
  unfold handleCbNew
  repeat' split
  all_goals try simp only [EngineRun.st_ok, EngineRun.st_error]
  all_goals pb_close3

theorem pb_childBefore {s p} (h : PB s) : PB (EngineRun.childSt (childBefore s p)) := by
  unfold childBefore
  repeat' split
  all_goals try simp only [EngineRun.st_inl, EngineRun.st_inr, EngineRun.st_deliver, EngineRun.st_stop]
  all_goals pb_close3

theorem pb_childAfter {s p c m e} (h : PB s) : PB (childAfter s p c m e).st := by
  unfold childAfter
  dsimp only
  repeat' split
  all_goals try simp only [EngineRun.st_deliver, EngineRun.st_stop]
  all_goals pb_close3

theorem pb_run (p : Prog) (ctx : Pos) (n : Nat) (s : St) (h : PB s) : PB (run p ctx n s).2 :=
  EngineRun.run_inv PB
    (fun _ _ _ h => pb_emit h)
    (fun _ _ _ h => pb_handleStep h)
    (fun _ _ _ h => pb_handleWait h)
    (fun _ _ h => pb_handleCbNew h)
    (fun _ _ h => pb_handleCbRes h)
    (fun _ _ _ h => pb_handleInvoke h)
    (fun _ _ _ h => pb_handleWfc h)
    (fun _ _ h => pb_childBefore h)
    (fun _ _ _ _ _ _ _ _ _ _ _ h => pb_childAfter h)
    p ctx n s h

/-- **A parking record of the acknowledged table is in everything the backend may keep**: it was
written synchronously, and the asynchronous updates in flight (STARTs) never touch it. -/
theorem parked_kept {s : St} (hw : EngineRun.WAL s) {q : Pos} {r : OpRec}
    (hl : lookup s.syncTbl q = some r) (hp : Parked r = true) (k : Nat) : lookup (kept s k) q = some r :=
  applyPrefix_keeps s.imm (Or.inr hp) s.pending k s.syncTbl hw.pending hl

/-- PENDING records are steps or wait-for-conditions (B1: only RETRY makes a record PENDING). -/
def PendKinded (t : Tbl) : Prop :=
  ∀ q r, lookup t q = some r → r.status = .pending → r.kind = .step ∨ r.kind = .wfc

theorem pendKinded_nil : PendKinded [] := fun _ _ h => by cases h

theorem pendKinded_upsert {t : Tbl} {p : Pos} {r' : OpRec} (h : PendKinded t)
    (hr : r'.status = .pending → r'.kind = .step ∨ r'.kind = .wfc) : PendKinded (upsert t p r') := by
  intro q r hl
  rw [lookup_upsert] at hl
  split at hl
  · cases hl; exact hr
  · exact h q r hl

theorem stableA_pendKinded : EngineExec.StableA PendKinded := by
  intro t u imm t' _ ha h
  obtain ⟨r', rfl, hk, hc⟩ := EngineExec.apply_cases ha
  refine pendKinded_upsert h ?_
  rcases hc with ⟨_, _, rfl⟩ | ⟨r0, h0, _, _, _, rfl⟩ | ⟨r0, h0, _, _, _, rfl⟩ | ⟨r0, h0, _, _, _, rfl⟩ |
    ⟨r0, h0, _, hk0, _, rfl⟩
  · intro hp
    cases hkk : u.kind <;> cases imm <;> simp [Backend.startRec, hkk] at hp
  · intro hp; cases hp
  · intro hp; cases hp
  · intro hp; cases hp
  · intro _; exact hk0

theorem stableF_pendKinded : EngineExec.StableF PendKinded := by
  intro t ev t' hf h
  obtain ⟨p, r0, r', h0, rfl, hc⟩ := EngineExec.fire_cases hf
  refine pendKinded_upsert h ?_
  rcases hc with ⟨_, _, rfl⟩ | ⟨_, _, rfl⟩ | ⟨o, _, hs, _, rfl⟩
  · intro hp; cases hp
  · intro hp; cases hp
  · intro hp
    cases o <;> simp [Backend.finish, hs] at hp

theorem pendKinded_visible {t : Tbl} (h : PendKinded t) : PendKinded (Exec.visible t) := by
  intro q r hl
  rw [lookup_visible] at hl
  split at hl
  · cases hl
  · exact h q r hl

theorem pendKinded_fireAll (outc : Pos → Backend.Immediate) {t : Tbl} (h : PendKinded t) :
    PendKinded (fireAll outc t) := by
  intro q r hl hp
  rw [lookup_fireAll] at hl
  cases hl0 : lookup t q with
  | none => rw [hl0] at hl; cases hl
  | some r0 =>
    rw [hl0] at hl
    simp only [Option.map_some, Option.some.injEq] at hl
    subst hl
    rw [fireRec_kind]
    apply h q r0 hl0
    unfold fireRec at hp
    split at hp
    · cases hp
    · split at hp
      · cases hp
      · split at hp
        · rename_i hc
          simp only [Bool.and_eq_true, beq_iff_eq] at hc
          cases ho : outc q <;> simp [Backend.finish, ho, hc.2] at hp
        · exact hp

/-- The event that wakes an execution parked on the record `r` at `q` (`o` = the outcome the
external party delivers to a callback / chained invoke). -/
def wakeEvent (q : Pos) (r : OpRec) (o : Backend.Immediate) : Backend.Event :=
  if r.status == .pending then .retryReady q
  else if r.kind == .wait then .waitDone q
  else if r.kind == .callback then .callbackDone q o
  else .invokeDone q o

/-- A parking record (of the right kind, if PENDING) can always be woken. -/
theorem wake_enabled {t : Tbl} {q : Pos} {r : OpRec} (hl : lookup t q = some r) (hp : Parked r = true)
    (hk : r.status = .pending → r.kind = .step ∨ r.kind = .wfc) (o : Backend.Immediate) (ho : o ≠ .none) :
    ∃ t', Backend.fire t (wakeEvent q r o) = some t' := by
  unfold wakeEvent
  by_cases hs : r.status = .pending
  · simp only [hs, beq_self_eq_true, if_true, Backend.fire, hl]
    rcases hk hs with h | h <;> simp [h]
  · have hs' : (r.status == .pending) = false := by simpa using hs
    simp only [Parked, hs', Bool.false_or, Bool.and_eq_true, Bool.or_eq_true, beq_iff_eq] at hp
    obtain ⟨hst, hkd⟩ := hp
    simp only [hs', Bool.false_eq_true, if_false]
    rcases hkd with (hkd | hkd) | hkd
    · simp [hkd, Backend.fire, hl, hst]
    · simp [hkd, Backend.fire, hl, hst, ho]
    · simp [hkd, Backend.fire, hl, hst, ho]

/-! ## Executions driven by the good environment -/

/-- One round: an invocation with crash budget `b` (no injected checkpoint fault, no completion at
START) on the part of the table the backend hands out; the backend keeps the acknowledged table plus
the first `k` asynchronous updates still in flight when the invocation ended (the others are
abandoned — whatever the ending); then every enabled event fires. -/
def goodRound (outc : Pos → Backend.Immediate) (p : Prog) (b k : Nat) (t : Tbl) : End × Tbl :=
  ((Engine.invoke p (Exec.visible t) b none (fun _ => .none)).1,
   fireAll outc (finalTbl (Engine.invoke p (Exec.visible t) b none (fun _ => .none)).1
     (Engine.invoke p (Exec.visible t) b none (fun _ => .none)).2 k))

/-- The backend table before round `i` (the execution starts with the empty table); round `i` has
crash budget `budget i` and keeps `keep i` asynchronous updates. -/
def goodTbl (outc : Pos → Backend.Immediate) (p : Prog) (budget keep : Nat → Nat) : Nat → Tbl
  | 0 => []
  | i + 1 => (goodRound outc p (budget i) (keep i) (goodTbl outc p budget keep i)).2

/-- How round `i` ends. -/
def goodEnd (outc : Pos → Backend.Immediate) (p : Prog) (budget keep : Nat → Nat) (i : Nat) : End :=
  (goodRound outc p (budget i) (keep i) (goodTbl outc p budget keep i)).1

/-- The state in which the invocation of round `i` ends. -/
def goodSt (outc : Pos → Backend.Immediate) (p : Prog) (budget keep : Nat → Nat) (i : Nat) : St :=
  (Engine.invoke p (Exec.visible (goodTbl outc p budget keep i)) (budget i) none (fun _ => .none)).2

/-- A round ends `crashed` only when the crash budget of its invocation is exhausted. -/
theorem good_crash_budget (outc : Pos → Backend.Immediate) (p : Prog) (budget keep : Nat → Nat) (i : Nat)
    (h : goodEnd outc p budget keep i = .crashed) : (goodSt outc p budget keep i).budget = 0 :=
  run_crashed_budget p [] 0 _ h

/-- The invocation of a good round is a round of `Exec.runRound`. -/
theorem goodRound_eq_runRound (outc : Pos → Backend.Immediate) (p : Prog) (b k : Nat) (t : Tbl) :
    (Exec.runRound p t (.invoke b none k [])).ending = some (goodRound outc p b k t).1 ∧
    fireAll outc (Exec.runRound p t (.invoke b none k [])).tbl = (goodRound outc p b k t).2 :=
  ⟨rfl, rfl⟩

/-- Every table of a good execution of a well-formed program is `Compat`ible with it. -/
theorem good_compat (outc : Pos → Backend.Immediate) {p : Prog} (hsc : Scoped p [] 0) (budget keep : Nat → Nat) :
    ∀ i, Compat p [] 0 (goodTbl outc p budget keep i) := by
  intro i
  induction i with
  | zero => exact compat_nil p [] 0
  | succ i ih =>
    exact compat_evolve ((invoke_ok hsc ih (budget i) none (fun _ => .none)).2 (keep i)) (fireAll_evolve outc _)

/-- **Liveness.**  For every budget plan and every keep plan, some round does not end `suspended`,
and all rounds before it do. -/
theorem good_terminates {outc : Pos → Backend.Immediate} (hout : ∀ q, outc q ≠ .none) (p : Prog)
    (hb : Bounded p) (hsc : LScoped p [] 0) (budget keep : Nat → Nat) :
    ∃ n, (∀ i, i < n → ∃ d, goodEnd outc p budget keep i = .suspended d) ∧
      ∀ d, goodEnd outc p budget keep n ≠ .suspended d := by
  have hex : ∃ n, ¬ ∃ d, goodEnd outc p budget keep n = .suspended d := by
    apply Classical.byContradiction
    intro hne
    have hall : ∀ i, ∃ d, goodEnd outc p budget keep i = .suspended d :=
      fun i => Classical.byContradiction (fun hni => hne ⟨i, hni⟩)
    refine live hout p [] 0 keep
      (fun i => initSt (Exec.visible (goodTbl outc p budget keep i)) (budget i) none (fun _ => .none)) hb hsc
      ⟨fun i => sinv_init _ _, fun i => ctxVis_root _, fun i => Or.inl rfl,
        fun h hh => ?_, fun _ _ => rfl,
        fun i => (good_compat outc hsc.scoped budget keep i).visible (ctxVis_root _), hall,
        fun _ _ _ => rfl, fun _ _ _ => rfl⟩
    obtain ⟨r, hr⟩ := pastOk_root [] h hh
    cases hr
  obtain ⟨n, hn, hmin⟩ := exists_least hex
  exact ⟨n, fun i hi => Classical.byContradiction (fun h => hmin i hi h), fun d hd => hn ⟨d, hd⟩⟩

/-- **No round of a good execution of a well-formed program ends `ckptFailed`**: the backend accepts
every update (`EngineCompat.invoke_ok`), and there is no injected fault. -/
theorem good_no_fault (outc : Pos → Backend.Immediate) {p : Prog} (hsc : Scoped p [] 0) (budget keep : Nat → Nat)
    (i : Nat) : goodEnd outc p budget keep i ≠ .ckptFailed := by
  intro he
  have hnr := (invoke_ok hsc (good_compat outc hsc budget keep i) (budget i) none (fun _ => .none)).1
  obtain ⟨u, hu⟩ := run_ckptFailed_rejected p [] 0 _ rfl he
  have := hnr _ hu
  cases this

/-- **Liveness, final form.**  A good execution of a bounded, replay-stable program — whatever the
crash budgets, whatever the backend keeps of the asynchronous updates in flight at the end of each
invocation — consists of finitely many suspended rounds followed by a round that returns, raises,
or crashes (the latter only if its crash budget is exhausted). -/
theorem good_terminates' {outc : Pos → Backend.Immediate} (hout : ∀ q, outc q ≠ .none) (p : Prog)
    (hb : Bounded p) (hsc : LScoped p [] 0) (budget keep : Nat → Nat) :
    ∃ n, (∀ i, i < n → ∃ d, goodEnd outc p budget keep i = .suspended d) ∧
      ((∃ v, goodEnd outc p budget keep n = .returned v) ∨ (∃ e, goodEnd outc p budget keep n = .raised e) ∨
        (goodEnd outc p budget keep n = .crashed ∧ (goodSt outc p budget keep n).budget = 0)) := by
  obtain ⟨n, h1, h2⟩ := good_terminates hout p hb hsc budget keep
  refine ⟨n, h1, ?_⟩
  have h3 := good_no_fault outc hsc.scoped budget keep n
  cases he : goodEnd outc p budget keep n with
  | returned v => exact Or.inl ⟨v, rfl⟩
  | raised e => exact Or.inr (Or.inl ⟨e, rfl⟩)
  | suspended d => exact absurd he (h2 d)
  | crashed => exact Or.inr (Or.inr ⟨rfl, good_crash_budget outc p budget keep n he⟩)
  | ckptFailed => exact absurd he h3

end EngineLive
