import DurableModel.Serdes
/-!
# Proofs about the serializer model (property C15)

Everything here is about `DurableModel/Serdes.lean`; the theorems of `Props/C15.lean` are thin
corollaries.
-/
namespace SerdesProofs
open Serdes

/-! ## envelopes -/

theorem dec_env (tag : String) (p : J) : dec (env tag p) = decTag tag p := rfl

theorem isPrimJ_env (tag : String) (p : J) : isPrimJ (env tag p) = false := rfl

/-! ## the primitive fast path -/

mutual
  theorem plain_prim : (v : V) → isPrim v = true → isPrimJ (plain v) = true
    | .none, _ | .bool _, _ | .int _, _ | .float _, _ | .str _, _ => by simp [plain, isPrimJ]
    | .list xs, h => by
        simp only [isPrim] at h
        simp only [plain, isPrimJ]
        exact plainList_prim xs h
    | .bytes _, h | .uuid _, h | .decimal _, h | .datetime _, h | .date _, h
    | .tuple _, h | .dict _, h | .batch _ _, h => by simp [isPrim] at h
  theorem plainList_prim : (xs : List V) → isPrim.isPrimList xs = true →
      isPrimJ.isPrimJList (plain.plainList xs) = true
    | [], _ => by simp [plain.plainList, isPrimJ.isPrimJList]
    | x :: xs, h => by
        simp only [isPrim.isPrimList, Bool.and_eq_true] at h
        simp only [plain.plainList, isPrimJ.isPrimJList, Bool.and_eq_true]
        exact ⟨plain_prim x h.1, plainList_prim xs h.2⟩
end

mutual
  theorem fromPlain_plain : (v : V) → isPrim v = true → fromPlain (plain v) = v
    | .none, _ | .bool _, _ | .int _, _ | .float _, _ | .str _, _ => by simp [plain, fromPlain]
    | .list xs, h => by
        simp only [isPrim] at h
        simp only [plain, fromPlain]
        rw [fromPlainList_plainList xs h]
    | .bytes _, h | .uuid _, h | .decimal _, h | .datetime _, h | .date _, h
    | .tuple _, h | .dict _, h | .batch _ _, h => by simp [isPrim] at h
  theorem fromPlainList_plainList : (xs : List V) → isPrim.isPrimList xs = true →
      fromPlain.fromPlainList (plain.plainList xs) = xs
    | [], _ => by simp [plain.plainList, fromPlain.fromPlainList]
    | x :: xs, h => by
        simp only [isPrim.isPrimList, Bool.and_eq_true] at h
        simp only [plain.plainList, fromPlain.fromPlainList]
        rw [fromPlain_plain x h.1, fromPlainList_plainList xs h.2]
end

/-- The wrapped encoder always produces an envelope, which is never mistaken for plain JSON. -/
theorem enc_not_primJ (v : V) (j : J) (h : enc v = some j) : isPrimJ j = false := by
  cases v <;> simp only [enc, Option.some.injEq, Option.map_eq_some_iff] at h
  all_goals first
    | (subst h; rfl)
    | (obtain ⟨_, _, rfl⟩ := h; rfl)

/-! ## errors -/

theorem decList_strs (st : List String) :
    decList (st.map (fun s => env "s" (.str s))) = some (st.map V.str) := by
  induction st with
  | nil => simp [decList]
  | cons s st ih => simp [decList, ih, dec_env, decTag]

theorem decStrList_strs (st : List String) : decStrList (st.map V.str) = some st := by
  induction st with
  | nil => simp [decStrList]
  | cons s st ih => simp [decStrList, ih, strOf]

/-- A not-all-`None` error object survives `to_dict` → wrap → unwrap → `from_dict`. -/
theorem encErr_dec (e : Err) (h : errNonEmpty e = true) :
    ∃ ekvs, dec (encErr e) = some (.dict ekvs) ∧ ekvs.isEmpty = false ∧ errOfDict ekvs = some e := by
  obtain ⟨m, t, d, s⟩ := e
  cases m <;> cases t <;> cases d <;> cases s <;>
    first
    | (exfalso; revert h; decide)
    | simp [encErr, optStrJ, dec_env, decTag, decKVs, decList_strs, decStrList_strs, errOfDict,
        strOf]

theorem encOptErr_dec (e : Option Err)
    (h : (match e with | some e => errNonEmpty e | none => true) = true) :
    ∃ ve, dec (encOptErr e) = some ve ∧
      ∀ (i : Int) (st : String) (r : V),
        itemOfDict [(.kstr "index", .int i), (.kstr "status", .str st), (.kstr "result", r),
                    (.kstr "error", ve)] = some (i, st, r, e) := by
  cases e with
  | none =>
    refine ⟨.none, by simp [encOptErr, dec_env, decTag], ?_⟩
    intro i st r
    simp [itemOfDict]
  | some e =>
    obtain ⟨ekvs, h1, h2, h3⟩ := encErr_dec e h
    refine ⟨.dict ekvs, by simpa [encOptErr] using h1, ?_⟩
    intro i st r
    simp [itemOfDict, h2, h3]

/-! ## the wrapped encoder: totality and round trip, by mutual structural induction -/

mutual
  theorem enc_dec : (v : V) → wf v = true → ∃ j, enc v = some j ∧ dec j = some v
    | .none, _ => ⟨_, rfl, by simp [dec_env, decTag]⟩
    | .bool _, _ => ⟨_, rfl, by simp [dec_env, decTag]⟩
    | .int _, _ => ⟨_, rfl, by simp [dec_env, decTag]⟩
    | .float _, _ => ⟨_, rfl, by simp [dec_env, decTag]⟩
    | .str _, _ => ⟨_, rfl, by simp [dec_env, decTag]⟩
    | .bytes _, _ => ⟨_, rfl, by simp [dec_env, decTag]⟩
    | .uuid _, _ => ⟨_, rfl, by simp [dec_env, decTag]⟩
    | .decimal _, _ => ⟨_, rfl, by simp [dec_env, decTag]⟩
    | .datetime _, _ => ⟨_, rfl, by simp [dec_env, decTag]⟩
    | .date _, _ => ⟨_, rfl, by simp [dec_env, decTag]⟩
    | .list xs, h => by
        simp only [wf] at h
        obtain ⟨js, h1, h2⟩ := encList_dec xs h
        exact ⟨env "l" (.arr js), by simp [enc, h1], by simp [dec_env, decTag, h2]⟩
    | .tuple xs, h => by
        simp only [wf] at h
        obtain ⟨js, h1, h2⟩ := encList_dec xs h
        exact ⟨env "t" (.arr js), by simp [enc, h1], by simp [dec_env, decTag, h2]⟩
    | .dict kvs, h => by
        simp only [wf, Bool.and_eq_true] at h
        obtain ⟨js, h1, h2⟩ := encKVs_dec kvs h.1
        exact ⟨env "m" (.obj js), by simp [enc, h1], by simp [dec_env, decTag, h2]⟩
    | .batch items reason, h => by
        simp only [wf] at h
        obtain ⟨js, h1, vs, h2, h3⟩ := encItems_dec items h
        refine ⟨env "br" (.obj [("all", env "l" (.arr js)),
          ("completionReason", env "s" (.str reason))]), by simp [enc, h1], ?_⟩
        simp [dec_env, decTag, decKVs, h2, batchOfDict, h3]
  theorem encList_dec : (xs : List V) → wfList xs = true →
      ∃ js, encList xs = some js ∧ decList js = some xs
    | [], _ => ⟨[], by simp [encList], by simp [decList]⟩
    | x :: xs, h => by
        simp only [wfList, Bool.and_eq_true] at h
        obtain ⟨j, h1, h2⟩ := enc_dec x h.1
        obtain ⟨js, h3, h4⟩ := encList_dec xs h.2
        exact ⟨j :: js, by simp [encList, h1, h3], by simp [decList, h2, h4]⟩
  theorem encKVs_dec : (kvs : List (Key × V)) → wfKVs kvs = true →
      ∃ js, encKVs kvs = some js ∧ decKVs js = some kvs
    | [], _ => ⟨[], by simp [encKVs], by simp [decKVs]⟩
    | (k, x) :: kvs, h => by
        simp only [wfKVs, Bool.and_eq_true] at h
        obtain ⟨j, h1, h2⟩ := enc_dec x h.1.2
        obtain ⟨js, h3, h4⟩ := encKVs_dec kvs h.2
        cases k with
        | kstr s => exact ⟨(s, j) :: js, by simp [encKVs, keyText, h1, h3], by simp [decKVs, h2, h4]⟩
        | _ => simp [Key.isStr] at h
  theorem encItems_dec : (items : List (Int × String × V × Option Err)) → wfItems items = true →
      ∃ js, encItems items = some js ∧ ∃ vs, decList js = some vs ∧ itemsOfList vs = some items
    | [], _ => ⟨[], by simp [encItems], [], by simp [decList], by simp [itemsOfList]⟩
    | (idx, st, r, e) :: items, h => by
        simp only [wfItems, Bool.and_eq_true] at h
        obtain ⟨j, h1, h2⟩ := enc_dec r h.1.1
        obtain ⟨js, h3, vs, h4, h5⟩ := encItems_dec items h.2
        obtain ⟨ve, h6, h7⟩ := encOptErr_dec e h.1.2
        refine ⟨env "m" (.obj [("index", env "i" (.int idx)), ("status", env "s" (.str st)),
          ("result", j), ("error", encOptErr e)]) :: js, by simp only [encItems, h1, h3],
          .dict [(.kstr "index", .int idx), (.kstr "status", .str st), (.kstr "result", r),
            (.kstr "error", ve)] :: vs, ?_, ?_⟩
        · simp only [decList, dec_env, decTag, decKVs, h2, h4, h6, Option.map_some]
        · simp only [itemsOfList, h7, h5]
end

/-! ## `ser` / `deser` -/

theorem ser_total (v : V) (h : wf v = true) : (ser v).isSome = true := by
  unfold ser
  split
  · rfl
  · obtain ⟨j, hj, _⟩ := enc_dec v h
    simp [hj]

theorem roundtrip (v : V) (h : wf v = true) : (ser v).bind deser = some v := by
  unfold ser
  split
  · next hp =>
    simp only [Option.bind_some, deser, plain_prim v hp, if_true, fromPlain_plain v hp]
  · obtain ⟨j, hj, hd⟩ := enc_dec v h
    simp [hj, deser, enc_not_primJ v j hj, hd]

theorem ser_injective (v w : V) (hv : wf v = true) (hw : wf w = true) (h : ser v = ser w) :
    v = w := by
  have h1 := roundtrip v hv
  rw [h, roundtrip w hw] at h1
  exact (Option.some.inj h1).symm

end SerdesProofs
