import DurableModel.EngineSpec
/-!
# Compatibility of backend tables with a workflow program (support for C11)

* `Compat p ctx n t`: `t` is a table that earlier invocations of the program fragment `p`, started
  with call counter `n` in context `ctx`, could have left (inductive; one constructor per way a
  handler can find its record).  `Returns p ctx n t v`: `t` holds a complete traversal of `p` that
  returns `v` (what the body of a ReplayChildren context must look like).
* `Scoped p ctx n`: the static condition on programs (replay-stable continuations `Sim`, callback
  handles of earlier operations `Past`).  Without it the engine model does send rejected updates
  (witnesses in `Props/C11.lean`).
* `run_ok`: running a `Scoped` fragment on a compatible table sends only updates the backend
  accepts, and every table the backend can hold afterwards (for every ending, also after a crash
  with any `keep`) is compatible again; `compat_evolve` / `Compat.visible`: backend events (B3) and
  the omission of descendants of completed contexts (B6) preserve compatibility; `runRounds_ok`:
  whole executions.
* `run_fresh`: on a table where the fragment's region is untouched (first invocation) no condition
  on the program is needed.

Core Lean only.
-/
namespace EngineCompat
open Engine

/-! ## lookup / upsert -/

theorem lookup_nil (p : Pos) : lookup [] p = none := rfl

theorem lookup_cons (e : Pos × OpRec) (t : Tbl) (p : Pos) :
    lookup (e :: t) p = if e.1 = p then some e.2 else lookup t p := by
  unfold lookup
  by_cases h : e.1 = p <;> simp [h]

theorem lookup_append (t u : Tbl) (p : Pos) :
    lookup (t ++ u) p = (lookup t p).or (lookup u p) := by
  induction t with
  | nil => simp [lookup_nil]
  | cons e t ih =>
    simp only [List.cons_append, lookup_cons]
    split <;> simp [ih]

theorem any_false_lookup (t : Tbl) (p : Pos) (h : t.any (fun e => e.1 == p) = false) :
    lookup t p = none := by
  induction t with
  | nil => rfl
  | cons e t ih =>
    simp only [List.any_cons, Bool.or_eq_false_iff, beq_eq_false_iff_ne] at h
    simp [lookup_cons, h.1, ih h.2]

theorem lookup_map_upd (t : Tbl) (p q : Pos) (r : OpRec) :
    lookup (t.map (fun e => if e.1 == p then (p, r) else e)) q =
      if q = p then (if t.any (fun e => e.1 == p) then some r else none) else lookup t q := by
  induction t with
  | nil => simp [lookup_nil]
  | cons e t ih =>
    simp only [List.map_cons, lookup_cons, List.any_cons, ih]
    by_cases he : e.1 = p <;> by_cases hq : q = p
    · subst hq; simp [he]
    · have : ¬ p = q := fun h => hq h.symm
      simp [he, hq, this]
    · subst hq
      have hb : (e.1 == q) = false := by simpa using he
      simp only [he, if_false, if_true, hb, Bool.false_or, Bool.false_eq_true]
    · simp [he, hq]

theorem lookup_upsert (t : Tbl) (p q : Pos) (r : OpRec) :
    lookup (upsert t p r) q = if q = p then some r else lookup t q := by
  unfold upsert
  split
  · rename_i hany
    rw [lookup_map_upd]; simp [hany]
  · rename_i hany
    have hl := any_false_lookup t p (Bool.eq_false_iff.mpr hany)
    rw [lookup_append]
    by_cases hq : q = p
    · subst hq; simp [hl, lookup_cons]
    · have : ¬ p = q := fun h => hq h.symm
      simp [lookup_cons, lookup_nil, hq, this]

theorem lookup_upsert_same (t : Tbl) (p : Pos) (r : OpRec) : lookup (upsert t p r) p = some r := by
  simp [lookup_upsert]

theorem lookup_upsert_ne (t : Tbl) {p q : Pos} (r : OpRec) (h : q ≠ p) :
    lookup (upsert t p r) q = lookup t q := by
  simp [lookup_upsert, h]


/-! ## Regions, monotone evolution, frames -/

/-- Positions of the operations called after the `n`-th call of context `ctx`, and everything
below them. -/
def InRegion (ctx : Pos) (n : Nat) (p : Pos) : Prop := ∃ i rest, p = ctx ++ i :: rest ∧ n < i

def Untouched (ctx : Pos) (n : Nat) (t : Tbl) : Prop := ∀ p, InRegion ctx n p → lookup t p = none

/-- Records persist, keep their kind, and terminal records never change. -/
def Mono (t t' : Tbl) : Prop :=
  ∀ p r, lookup t p = some r →
    ∃ r', lookup t' p = some r' ∧ r'.kind = r.kind ∧ (r.status.terminal = true → r' = r)

def Frame (ctx : Pos) (n : Nat) (t t' : Tbl) : Prop :=
  ∀ p, ¬ InRegion ctx n p → lookup t' p = lookup t p

def Ext (ctx : Pos) (n : Nat) (t t' : Tbl) : Prop := Mono t t' ∧ Frame ctx n t t'

theorem inRegion_self (ctx : Pos) (n : Nat) : InRegion ctx n (ctx ++ [n + 1]) :=
  ⟨n + 1, [], rfl, Nat.lt_succ_self n⟩

theorem inRegion_succ {ctx : Pos} {n : Nat} {p : Pos} (h : InRegion ctx (n + 1) p) : InRegion ctx n p := by
  obtain ⟨i, rest, rfl, hi⟩ := h
  exact ⟨i, rest, rfl, by omega⟩

theorem inRegion_child {ctx : Pos} {n m : Nat} {p : Pos} (h : InRegion (ctx ++ [n + 1]) m p) :
    InRegion ctx n p := by
  obtain ⟨i, rest, rfl, _⟩ := h
  exact ⟨n + 1, i :: rest, by simp, Nat.lt_succ_self n⟩

theorem not_inRegion_self_succ (ctx : Pos) (n : Nat) : ¬ InRegion ctx (n + 1) (ctx ++ [n + 1]) := by
  rintro ⟨i, rest, h, hi⟩
  have := List.append_cancel_left h
  simp at this
  omega

theorem not_inRegion_self (q : Pos) (m : Nat) : ¬ InRegion q m q := by
  rintro ⟨i, rest, h, _⟩
  have := congrArg List.length h
  simp at this

theorem region_disjoint {ctx : Pos} {n m : Nat} {p : Pos} (h : InRegion ctx (n + 1) p) :
    ¬ InRegion (ctx ++ [n + 1]) m p := by
  obtain ⟨i, rest, rfl, hi⟩ := h
  rintro ⟨j, rest', h, _⟩
  rw [List.append_assoc] at h
  have := List.append_cancel_left h
  simp at this
  omega

theorem Mono.refl (t : Tbl) : Mono t t := fun _ r h => ⟨r, h, rfl, fun _ => rfl⟩

theorem Mono.trans {t t' t'' : Tbl} (h1 : Mono t t') (h2 : Mono t' t'') : Mono t t'' := by
  intro p r h
  obtain ⟨r', h', hk, ht⟩ := h1 p r h
  obtain ⟨r'', h'', hk', ht'⟩ := h2 p r' h'
  refine ⟨r'', h'', hk'.trans hk, fun hterm => ?_⟩
  have := ht hterm; subst this
  exact ht' hterm

theorem Frame.refl (ctx : Pos) (n : Nat) (t : Tbl) : Frame ctx n t t := fun _ _ => rfl

theorem Frame.trans {ctx : Pos} {n : Nat} {t t' t'' : Tbl} (h1 : Frame ctx n t t') (h2 : Frame ctx n t' t'') :
    Frame ctx n t t'' := fun p hp => (h2 p hp).trans (h1 p hp)

theorem Frame.succ {ctx : Pos} {n : Nat} {t t' : Tbl} (h : Frame ctx (n + 1) t t') : Frame ctx n t t' :=
  fun p hp => h p (fun hr => hp (inRegion_succ hr))

theorem Frame.child {ctx : Pos} {n m : Nat} {t t' : Tbl} (h : Frame (ctx ++ [n + 1]) m t t') :
    Frame ctx n t t' :=
  fun p hp => h p (fun hr => hp (inRegion_child hr))

theorem Ext.refl (ctx : Pos) (n : Nat) (t : Tbl) : Ext ctx n t t := ⟨Mono.refl t, Frame.refl ctx n t⟩

theorem Ext.trans {ctx : Pos} {n : Nat} {t t' t'' : Tbl} (h1 : Ext ctx n t t') (h2 : Ext ctx n t' t'') :
    Ext ctx n t t'' := ⟨h1.1.trans h2.1, h1.2.trans h2.2⟩

theorem Ext.succ {ctx : Pos} {n : Nat} {t t' : Tbl} (h : Ext ctx (n + 1) t t') : Ext ctx n t t' :=
  ⟨h.1, h.2.succ⟩

theorem Ext.child {ctx : Pos} {n m : Nat} {t t' : Tbl} (h : Ext (ctx ++ [n + 1]) m t t') : Ext ctx n t t' :=
  ⟨h.1, h.2.child⟩

theorem Untouched.succ {ctx : Pos} {n : Nat} {t : Tbl} (h : Untouched ctx n t) : Untouched ctx (n + 1) t :=
  fun p hp => h p (inRegion_succ hp)

theorem Untouched.child {ctx : Pos} {n m : Nat} {t : Tbl} (h : Untouched ctx n t) :
    Untouched (ctx ++ [n + 1]) m t :=
  fun p hp => h p (inRegion_child hp)

theorem Untouched.self {ctx : Pos} {n : Nat} {t : Tbl} (h : Untouched ctx n t) :
    lookup t (ctx ++ [n + 1]) = none := h _ (inRegion_self ctx n)

/-- The continuation's region is not affected by what happens below the current operation. -/
theorem Untouched.frame_child {ctx : Pos} {n m : Nat} {t t' : Tbl} (h : Untouched ctx (n + 1) t)
    (hf : Frame (ctx ++ [n + 1]) m t t') : Untouched ctx (n + 1) t' :=
  fun p hp => (hf p (region_disjoint hp)).trans (h p hp)

theorem Untouched.upsert {ctx : Pos} {n : Nat} {t : Tbl} (h : Untouched ctx (n + 1) t) (r : OpRec) :
    Untouched ctx (n + 1) (upsert t (ctx ++ [n + 1]) r) := by
  intro p hp
  have hne : p ≠ ctx ++ [n + 1] := fun he => not_inRegion_self_succ ctx n (he ▸ hp)
  rw [lookup_upsert_ne t r hne]; exact h p hp

/-- Writing the record of the current operation is an extension, provided the old record (if any)
is not terminal and has the same kind. -/
theorem ext_upsert {ctx : Pos} {n : Nat} {t : Tbl} {r' : OpRec}
    (h : ∀ r, lookup t (ctx ++ [n + 1]) = some r → r.status.terminal = false ∧ r'.kind = r.kind) :
    Ext ctx n t (upsert t (ctx ++ [n + 1]) r') := by
  constructor
  · intro p r hl
    by_cases hp : p = ctx ++ [n + 1]
    · subst hp
      obtain ⟨hnt, hk⟩ := h r hl
      exact ⟨r', lookup_upsert_same _ _ _, hk, fun ht => by simp [hnt] at ht⟩
    · exact ⟨r, by rw [lookup_upsert_ne t r' hp]; exact hl, rfl, fun _ => rfl⟩
  · intro p hp
    have hne : p ≠ ctx ++ [n + 1] := fun he => hp (he ▸ inRegion_self ctx n)
    exact lookup_upsert_ne t r' hne

/-! ## The parent of an operation -/

/-- The enclosing context is the root or has a CONTEXT record. -/
def CtxOk (ctx : Pos) (t : Tbl) : Prop := ctx = [] ∨ ∃ r, lookup t ctx = some r ∧ r.kind = .context

theorem CtxOk.mono {ctx : Pos} {t t' : Tbl} (h : CtxOk ctx t) (hm : Mono t t') : CtxOk ctx t' := by
  rcases h with h | ⟨r, hl, hk⟩
  · exact Or.inl h
  · obtain ⟨r', hl', hk', _⟩ := hm ctx r hl
    exact Or.inr ⟨r', hl', hk'.trans hk⟩

theorem parentOk_of_ctxOk {ctx : Pos} {t : Tbl} (h : CtxOk ctx t) (i : Nat) :
    Backend.parentOk t (ctx ++ [i]) = true := by
  unfold Backend.parentOk
  rw [List.dropLast_concat]
  rcases h with rfl | ⟨r, hl, hk⟩
  · rfl
  · cases ctx with
    | nil => rfl
    | cons c cs => simp [hl, hk]

theorem ctxOk_of_parentOk {ctx : Pos} {t : Tbl} {i : Nat} (h : Backend.parentOk t (ctx ++ [i]) = true) :
    CtxOk ctx t := by
  unfold Backend.parentOk at h
  rw [List.dropLast_concat] at h
  cases ctx with
  | nil => exact Or.inl rfl
  | cons c cs =>
    refine Or.inr ?_
    cases hl : lookup t (c :: cs) with
    | none => simp [hl] at h
    | some r => exact ⟨r, rfl, by simpa [hl] using h⟩

/-! ## Acceptance by the backend (B1) -/

def succRec (r : OpRec) (payload : Option Val) (rc : Bool) : OpRec :=
  { r with status := .succeeded, result := payload, error := none, replayChildren := rc }
def failRec (r : OpRec) (e : Option ErrObj) : OpRec := { r with status := .failed, error := e }
def retryRec (r : OpRec) (payload : Option Val) (e : Option ErrObj) : OpRec :=
  { r with status := .pending, attempt := r.attempt + 1,
           result := (if payload.isSome then payload else r.result), error := e }
def restartRec (r : OpRec) : OpRec := { r with status := .started }

section apply
variable {t : Tbl} {u : Upd} {imm : Backend.Immediate}

theorem apply_start_absent (hp : Backend.parentOk t u.pos = true) (hl : lookup t u.pos = none)
    (ha : u.action = .start) :
    Backend.apply t u imm = some (upsert t u.pos (Backend.startRec u.kind imm)) := by
  simp [Backend.apply, hp, hl, ha]

theorem apply_start_ready {r : OpRec} (hp : Backend.parentOk t u.pos = true) (hl : lookup t u.pos = some r)
    (ha : u.action = .start) (hk : r.kind = u.kind) (hk' : u.kind = .step ∨ u.kind = .wfc)
    (hs : r.status = .ready) :
    Backend.apply t u imm = some (upsert t u.pos (restartRec r)) := by
  rcases hk' with hk' | hk' <;> simp [Backend.apply, hp, hl, ha, hk, hk', hs, restartRec]

theorem apply_succeed {r : OpRec} (hp : Backend.parentOk t u.pos = true) (hl : lookup t u.pos = some r)
    (ha : u.action = .succeed) (hk : r.kind = u.kind)
    (hs : r.status = .started ∨ ((u.kind = .step ∨ u.kind = .wfc) ∧ r.status = .ready))
    (hk' : u.kind = .step ∨ u.kind = .wfc ∨ u.kind = .context) :
    Backend.apply t u imm = some (upsert t u.pos (succRec r u.payload u.replayChildren)) := by
  rcases hs with hs | ⟨hk2 | hk2, hs⟩ <;> rcases hk' with hk' | hk' | hk' <;>
    simp_all [Backend.apply, succRec]

theorem apply_fail {r : OpRec} (hp : Backend.parentOk t u.pos = true) (hl : lookup t u.pos = some r)
    (ha : u.action = .fail) (hk : r.kind = u.kind)
    (hs : r.status = .started ∨ ((u.kind = .step ∨ u.kind = .wfc) ∧ r.status = .ready))
    (hk' : u.kind = .step ∨ u.kind = .wfc ∨ u.kind = .context) :
    Backend.apply t u imm = some (upsert t u.pos (failRec r u.error)) := by
  rcases hs with hs | ⟨hk2 | hk2, hs⟩ <;> rcases hk' with hk' | hk' | hk' <;>
    simp_all [Backend.apply, failRec]

theorem apply_retry {r : OpRec} (hp : Backend.parentOk t u.pos = true) (hl : lookup t u.pos = some r)
    (ha : u.action = .retry) (hk : r.kind = u.kind) (hk' : u.kind = .step ∨ u.kind = .wfc)
    (hs : r.status = .started ∨ r.status = .ready) :
    Backend.apply t u imm = some (upsert t u.pos (retryRec r u.payload u.error)) := by
  rcases hs with hs | hs <;> rcases hk' with hk' | hk' <;> simp_all [Backend.apply, retryRec]

end apply


/-! ## State invariants -/

def NoRej (evs : List Ev) : Prop := ∀ ev ∈ evs, ev.isRejected = false

/-- The trace only grows, and by accepted events only. -/
def TraceExt (s s' : St) : Prop := ∃ evs, s'.trace = s.trace ++ evs ∧ NoRej evs

theorem TraceExt.refl (s : St) : TraceExt s s := ⟨[], by simp, by simp [NoRej]⟩

theorem TraceExt.trans {s s' s'' : St} (h1 : TraceExt s s') (h2 : TraceExt s' s'') : TraceExt s s'' := by
  obtain ⟨e1, h1, n1⟩ := h1
  obtain ⟨e2, h2, n2⟩ := h2
  refine ⟨e1 ++ e2, by rw [h2, h1, List.append_assoc], ?_⟩
  intro ev hev
  rcases List.mem_append.mp hev with h | h
  · exact n1 ev h
  · exact n2 ev h

/-- `s'` continues `s` with the same backend-related components. -/
structure Same (s s' : St) : Prop where
  tbl : s'.tbl = s.tbl
  syncTbl : s'.syncTbl = s.syncTbl
  pending : s'.pending = s.pending
  imm : s'.imm = s.imm
  trace : TraceExt s s'

theorem Same.refl (s : St) : Same s s := ⟨rfl, rfl, rfl, rfl, TraceExt.refl s⟩

theorem Same.trans {s s' s'' : St} (h1 : Same s s') (h2 : Same s' s'') : Same s s'' :=
  ⟨h2.tbl.trans h1.tbl, h2.syncTbl.trans h1.syncTbl, h2.pending.trans h1.pending, h2.imm.trans h1.imm,
   h1.trace.trans h2.trace⟩

theorem same_emit (s : St) (ev : Ev) (h : ev.isRejected = false) : Same s (emit s ev) :=
  ⟨rfl, rfl, rfl, rfl, [ev], rfl, by simpa [NoRej] using h⟩

theorem same_tick {s s' : St} (h : tick s = some s') : Same s s' := by
  unfold tick at h
  split at h
  · cases h
  · cases h; exact ⟨rfl, rfl, rfl, rfl, TraceExt.refl _⟩

theorem same_trackReplay (s : St) (p : Pos) : Same s (trackReplay s p) := by
  unfold trackReplay
  split
  · exact Same.refl s
  · exact ⟨rfl, rfl, rfl, rfl, [], by simp, by simp [NoRej]⟩

theorem same_doLog (s : St) (ctx : Pos) (m : String) : Same s (doLog s ctx m) := same_emit s _ rfl

theorem deliverAt_same (s : St) (p : Pos) (o : Outcome) :
    ∃ s', deliverAt s p o = .deliver o s' ∧ Same s s' := by
  cases o with
  | ok v => exact ⟨_, rfl, (same_emit s _ rfl).trans (same_trackReplay _ _)⟩
  | err e => exact ⟨_, rfl, (same_emit s _ rfl).trans (same_trackReplay _ _)⟩

theorem applyPrefix_append (imm : Pos → Backend.Immediate) (us : List Upd) (u : Upd) :
    ∀ (t : Tbl) (k : Nat), applyPrefix t imm (us ++ [u]) k =
      if k ≤ us.length then applyPrefix t imm us k
      else (match Backend.apply (applyPrefix t imm us us.length) u (imm u.pos) with
            | some t' => t'
            | none => applyPrefix t imm us us.length) := by
  induction us with
  | nil =>
    intro t k
    cases k with
    | zero => rfl
    | succ k =>
      simp only [List.nil_append, applyPrefix, List.length_nil]
      cases Backend.apply t u (imm u.pos) <;> rfl
  | cons a us ih =>
    intro t k
    cases k with
    | zero => simp [applyPrefix]
    | succ k =>
      simp only [List.cons_append, applyPrefix, List.length_cons, Nat.add_le_add_iff_right]
      cases Backend.apply t a (imm a.pos) <;> simp only [ih]

/-- Every table the backend can be left with if the invocation stops now satisfies `G`
(trivially so when `G` is trivial). -/
def CrashG (G : Tbl → Prop) (s : St) : Prop :=
  (∀ t, G t) ∨
  (s.tbl = applyPrefix s.syncTbl s.imm s.pending s.pending.length ∧
   ∀ keep, G (applyPrefix s.syncTbl s.imm s.pending keep))

theorem CrashG.cur {G : Tbl → Prop} {s : St} (h : CrashG G s) : G s.tbl := by
  rcases h with h | ⟨h1, h2⟩
  · exact h _
  · rw [h1]; exact h2 _

theorem CrashG.final {G : Tbl → Prop} {s : St} (h : CrashG G s) (e : End) (keep : Nat) :
    G (finalTbl e s keep) := by
  rcases h with h | ⟨h1, h2⟩
  · exact h _
  · have hc : G s.tbl := by rw [h1]; exact h2 _
    cases e <;> first | exact hc | exact h2 keep

theorem CrashG.same {G : Tbl → Prop} {s s' : St} (h : CrashG G s) (hs : Same s s') : CrashG G s' := by
  rcases h with h | ⟨h1, h2⟩
  · exact Or.inl h
  · refine Or.inr ?_
    rw [hs.tbl, hs.syncTbl, hs.pending, hs.imm]
    exact ⟨h1, h2⟩

/-- Progress of an invocation from `s` to `s'` inside the region `(ctx, n)`. -/
structure Step (G : Tbl → Prop) (ctx : Pos) (n : Nat) (s s' : St) : Prop where
  crash : CrashG G s'
  ext : Ext ctx n s.tbl s'.tbl
  trace : TraceExt s s'

theorem Step.trans {G : Tbl → Prop} {ctx : Pos} {n : Nat} {s s' s'' : St}
    (h1 : Step G ctx n s s') (h2 : Step G ctx n s' s'') : Step G ctx n s s'' :=
  ⟨h2.crash, h1.ext.trans h2.ext, h1.trace.trans h2.trace⟩

theorem Step.of_same {G : Tbl → Prop} {s s' : St} (ctx : Pos) (n : Nat) (hc : CrashG G s)
    (hs : Same s s') : Step G ctx n s s' :=
  ⟨hc.same hs, by rw [hs.tbl]; exact Ext.refl _ _ _, hs.trace⟩

theorem Step.refl {G : Tbl → Prop} {s : St} (ctx : Pos) (n : Nat) (hc : CrashG G s) : Step G ctx n s s :=
  Step.of_same ctx n hc (Same.refl s)

theorem Step.succ {G : Tbl → Prop} {ctx : Pos} {n : Nat} {s s' : St} (h : Step G ctx (n + 1) s s') :
    Step G ctx n s s' := ⟨h.crash, h.ext.succ, h.trace⟩

theorem Step.child {G : Tbl → Prop} {ctx : Pos} {n m : Nat} {s s' : St}
    (h : Step G (ctx ++ [n + 1]) m s s') : Step G ctx n s s' := ⟨h.crash, h.ext.child, h.trace⟩

def isCrash (e : End) : Prop := e = .crashed ∨ e = .ckptFailed

/-- One checkpoint call whose update the backend accepts. -/
theorem checkpoint_ok {G : Tbl → Prop} {ctx : Pos} {n : Nat} {s : St} {u : Upd} {t' : Tbl}
    (hc : CrashG G s) (happ : Backend.apply s.tbl u (s.imm u.pos) = some t')
    (hext : Ext ctx n s.tbl t') (hG : G t') :
    match checkpoint s u with
    | .ok s1 => Step G ctx n s s1 ∧ s1.tbl = t'
    | .error (e, s1) => Step G ctx n s s1 ∧ isCrash e := by
  by_cases hsync : u.sync = true
  · simp only [checkpoint, hsync, Bool.not_true, Bool.false_eq_true, if_false]
    cases htick : tick (emit s (.upd u)) with
    | none =>
      exact ⟨Step.of_same ctx n hc (same_emit s _ rfl), Or.inl rfl⟩
    | some s1 =>
      have hs1 : Same s s1 := (same_emit s _ rfl).trans (same_tick htick)
      simp only []
      by_cases hf : s1.failAt = some s1.syncCalls
      · rw [if_pos hf]
        refine ⟨Step.of_same ctx n hc (hs1.trans ?_), Or.inr rfl⟩
        exact ⟨rfl, rfl, rfl, rfl, TraceExt.refl _⟩
      · rw [if_neg hf]
        have happ' : Backend.apply s1.tbl u (s1.imm u.pos) = some t' := by
          rw [hs1.tbl, hs1.imm]; exact happ
        rw [happ']
        simp only []
        generalize hs2 : emit _ (Ev.applied u) = s2
        have hcr : CrashG G s2 := by
          subst hs2
          rcases hc with h | _
          · exact Or.inl h
          · exact Or.inr ⟨by simp [emit, applyPrefix], fun keep => by
              cases keep <;> simpa [emit, applyPrefix] using hG⟩
        have htr : TraceExt s s2 := by
          subst hs2
          obtain ⟨evs, he, hn⟩ := hs1.trace
          refine ⟨evs ++ [.applied u], by simp [emit, he], ?_⟩
          intro ev hev
          rcases List.mem_append.mp hev with h | h
          · exact hn ev h
          · simp at h; subst h; rfl
        have htb : s2.tbl = t' := by subst hs2; rfl
        have hst : Step G ctx n s s2 := ⟨hcr, by rw [htb]; exact hext, htr⟩
        cases htick2 : tick s2 with
        | none => exact ⟨hst, Or.inl rfl⟩
        | some s3 =>
          have h2 := same_tick htick2
          exact ⟨hst.trans (Step.of_same ctx n hcr h2), by rw [h2.tbl]; exact htb⟩
  · have hsync : u.sync = false := by simpa using hsync
    simp only [checkpoint, hsync, Bool.not_false, if_true]
    have happ' : Backend.apply (emit s (.upd u)).tbl u ((emit s (.upd u)).imm u.pos) = some t' := happ
    rw [happ']
    simp only []
    refine ⟨⟨?_, hext, ?_⟩, rfl⟩
    · rcases hc with h | ⟨h1, h2⟩
      · exact Or.inl h
      · refine Or.inr ⟨?_, ?_⟩
        · simp only [emit]
          rw [applyPrefix_append]
          simp only [List.length_append, List.length_cons, List.length_nil]
          rw [if_neg (by omega), ← h1, happ]
        · intro keep
          simp only [emit]
          rw [applyPrefix_append]
          split
          · exact h2 keep
          · rw [← h1, happ]; exact hG
    · refine ⟨[.upd u, .applied u], by simp [emit], ?_⟩
      intro ev hev; simp at hev; rcases hev with rfl | rfl <;> rfl


/-! ## Outcomes read off records -/

/-- What `Callback.result` delivers for a record (`none` = it suspends). -/
def cbOut (r : OpRec) : Option Outcome :=
  if r.status == .failed || r.status == .cancelled || r.status == .timedOut || r.status == .stopped then
    some (.err { cls := "CallbackError",
                 msg := match r.error with
                   | some e => (match e.message with
                                | some m => if m == "" then "Callback failed" else m
                                | none => "Callback failed")
                   | none => "Callback failed" })
  else if r.status == .succeeded then some (.ok (r.result.getD noneVal)) else none

/-- What an invoke call delivers for a record (`none` = it suspends). -/
def invOut (r : OpRec) : Option Outcome :=
  if r.status == .succeeded then some (.ok (r.result.getD noneVal))
  else if r.status == .failed || r.status == .timedOut || r.status == .stopped
  then some (.err (callableOf r.error)) else none

theorem handleCbRes_some {s : St} {h : Pos} {r : OpRec} (hl : lookup s.tbl h = some r) :
    handleCbRes s h = match cbOut r with
      | some o => .deliver o (emit s (.deliver h o))
      | none => .stop (.suspended none) s := by
  unfold handleCbRes cbOut
  rw [hl]
  simp only []
  split
  · rfl
  · split <;> rfl

theorem invokeTerminal_eq (s : St) (p : Pos) (r : OpRec) :
    invokeTerminal s p r = (invOut r).map (deliverAt s p) := by
  unfold invokeTerminal invOut
  split
  · rfl
  · split <;> rfl

theorem cbOut_terminal {r : OpRec} {o : Outcome} (h : cbOut r = some o) : r.status.terminal = true := by
  unfold cbOut at h
  cases hs : r.status <;> simp [hs] at h <;> rfl

theorem invOut_terminal {r : OpRec} {o : Outcome} (h : invOut r = some o) : r.status.terminal = true := by
  unfold invOut at h
  cases hs : r.status <;> simp [hs] at h <;> rfl

theorem done_terminal {r : OpRec} (h : Done r = true) : r.status.terminal = true := by
  unfold Done at h
  cases hs : r.status <;> simp [hs] at h <;> rfl

def ActiveSt (r : OpRec) : Prop := r.status = .started ∨ r.status = .pending ∨ r.status = .ready

theorem ActiveSt.not_terminal {r : OpRec} (h : ActiveSt r) : r.status.terminal = false := by
  rcases h with h | h | h <;> rw [h] <;> rfl

/-- The replayed form of an exception: what a later invocation delivers for the recorded error. -/
def canonErr (e : Exc) : Outcome := .err (ErrObj.ofExc e).toCallable


/-! ## Handlers that send updates: step, wait-for-condition -/

/-- Tables a step / wait-for-condition handler may produce at `(ctx, n)`. -/
def StepNode (U : Tbl → Prop) (kd : Kind) (ctx : Pos) (n : Nat) (t : Tbl) : Prop :=
  ∃ r, lookup t (ctx ++ [n + 1]) = some r ∧ r.kind = kd ∧ (ActiveSt r ∨ Done r = true) ∧ U t

/-- A table predicate that writing the record of the current operation cannot break (the frame
condition `Untouched ctx (n + 1)` in the induction; `True` for the stand-alone handler lemmas). -/
def UpsertStable (U : Tbl → Prop) (q : Pos) : Prop := ∀ t r, U t → U (upsert t q r)

theorem upsertStable_untouched (ctx : Pos) (n : Nat) : UpsertStable (Untouched ctx (n + 1)) (ctx ++ [n + 1]) :=
  fun _ r h => h.upsert r

def NodeG (G : Tbl → Prop) (Node : Tbl → Prop) (ctx : Pos) (n : Nat) (s : St) : Prop :=
  ∀ t', Ext ctx n s.tbl t' → Node t' → G t'

theorem NodeG.step {G Node ctx n s s1} (h : NodeG G Node ctx n s) (hs : Step G ctx n s s1) :
    NodeG G Node ctx n s1 := fun t' he hn => h t' (hs.ext.trans he) hn

/-- Postcondition of a handler at `(ctx, n)` whose operation has kind `kd`. -/
def HPost (G U : Tbl → Prop) (ctx : Pos) (n : Nat) (s : St) (kd : Kind) (D : Outcome → OpRec → Prop) :
    HRes → Prop
  | .deliver o s1 => Step G ctx n s s1 ∧ U s1.tbl ∧
      ∃ r', lookup s1.tbl (ctx ++ [n + 1]) = some r' ∧ r'.kind = kd ∧ Done r' = true ∧ D o r'
  | .stop e s1 => Step G ctx n s s1 ∧ ∀ v, e ≠ .returned v

theorem HPost.trans {G U ctx n s s1 kd D res} (hs : Step G ctx n s s1) (h : HPost G U ctx n s1 kd D res) :
    HPost G U ctx n s kd D res := by
  cases res with
  | deliver o s2 => exact ⟨hs.trans h.1, h.2⟩
  | stop e s2 => exact ⟨hs.trans h.1, h.2⟩

theorem HPost.weaken {G U ctx n s kd} {D D' : Outcome → OpRec → Prop} {res} (hd : ∀ o r, D o r → D' o r)
    (h : HPost G U ctx n s kd D res) : HPost G U ctx n s kd D' res := by
  cases res with
  | deliver o s2 =>
    obtain ⟨h1, h2, r', h3, h4, h5, h6⟩ := h
    exact ⟨h1, h2, r', h3, h4, h5, hd _ _ h6⟩
  | stop e s2 => exact h

theorem isCrash_ne {e : End} (h : isCrash e) : ∀ v, e ≠ .returned v := by
  intro v hv; subst hv; rcases h with h | h <;> cases h

/-- Delivery after the record at the current position has become `r'` in `s`. -/
theorem deliver_post {G U ctx n s0 s kd} {D : Outcome → OpRec → Prop} {o : Outcome} {r' : OpRec}
    (hs : Step G ctx n s0 s) (hu : U s.tbl)
    (hl : lookup s.tbl (ctx ++ [n + 1]) = some r') (hk : r'.kind = kd) (hd : Done r' = true) (hD : D o r') :
    HPost G U ctx n s0 kd D (deliverAt s (ctx ++ [n + 1]) o) := by
  obtain ⟨s', he, hsame⟩ := deliverAt_same s (ctx ++ [n + 1]) o
  rw [he]
  exact ⟨hs.trans (Step.of_same ctx n hs.crash hsame), by rw [hsame.tbl]; exact hu,
    r', by rw [hsame.tbl]; exact hl, hk, hd, hD⟩

/-- The delivered outcome agrees with the record, up to the replayed form of the exception `e`. -/
def DelivE (e : Exc) (o : Outcome) (r' : OpRec) : Prop :=
  o = outcomeOf r' ∨ (o = .err e ∧ outcomeOf r' = canonErr e)

/-- A checkpoint call followed by the rest of a handler. -/
theorem ckpt_bind {G : Tbl → Prop} {ctx : Pos} {n : Nat} {s : St} {u : Upd} {t' : Tbl} {P : HRes → Prop}
    {f : St → HRes} (hc : CrashG G s) (happ : Backend.apply s.tbl u (s.imm u.pos) = some t')
    (hext : Ext ctx n s.tbl t') (hG : G t')
    (hok : ∀ s1, Step G ctx n s s1 → s1.tbl = t' → P (f s1))
    (herr : ∀ e s1, Step G ctx n s s1 → isCrash e → P (.stop e s1)) :
    P (match checkpoint s u with
       | .error (en, s) => .stop en s
       | .ok s => f s) := by
  have hck := checkpoint_ok hc happ hext hG
  cases hres : checkpoint s u with
  | error x =>
    obtain ⟨en, s1⟩ := x
    rw [hres] at hck
    exact herr en s1 hck.1 hck.2
  | ok s1 =>
    rw [hres] at hck
    exact hok s1 hck.1 hck.2

theorem retryHandler_ok {G U : Tbl → Prop} {ctx : Pos} {n : Nat} {s : St} (spec : StepSpec) (r : Option OpRec)
    (e : Exc) {rt : OpRec}
    (hc : CrashG G s) (hctx : CtxOk ctx s.tbl) (hl : lookup s.tbl (ctx ++ [n + 1]) = some rt)
    (hk : rt.kind = .step) (hst : rt.status = .started ∨ rt.status = .ready)
    (hU : UpsertStable U (ctx ++ [n + 1])) (hu : U s.tbl) (hg : NodeG G (StepNode U .step ctx n) ctx n s) :
    HPost G U ctx n s .step (fun o r' => o = outcomeOf r' ∨ (e.inv = true ∧ o = .err e ∧ outcomeOf r' = canonErr e))
      (retryHandler s (ctx ++ [n + 1]) spec r e) := by
  have hp := parentOk_of_ctxOk hctx (n + 1)
  have hnt : rt.status.terminal = false := by rcases hst with h | h <;> rw [h] <;> rfl
  have hold : ∀ {r' : OpRec}, r'.kind = rt.kind → ∀ r0, lookup s.tbl (ctx ++ [n + 1]) = some r0 →
      r0.status.terminal = false ∧ r'.kind = r0.kind := by
    intro r' hr' r0 h0; rw [hl] at h0; cases h0; exact ⟨hnt, hr'⟩
  unfold retryHandler
  simp only []
  split
  · -- RETRY
    have hext := ext_upsert (ctx := ctx) (n := n) (hold (r' := retryRec rt none (some (ErrObj.ofExc e))) rfl)
    refine ckpt_bind hc (apply_retry hp hl rfl hk (Or.inl rfl) hst) hext
      (hg _ hext ⟨_, lookup_upsert_same _ _ _, hk, Or.inl (Or.inr (Or.inl rfl)), hU _ _ hu⟩) ?_ ?_
    · intro s1 hs1 _
      exact ⟨hs1, fun v hv => by cases hv⟩
    · intro en s1 hs1 hcr
      exact ⟨hs1, isCrash_ne hcr⟩
  · -- FAIL
    have hext := ext_upsert (ctx := ctx) (n := n) (hold (r' := failRec rt (some (ErrObj.ofExc e))) rfl)
    refine ckpt_bind hc (apply_fail hp hl rfl hk (hst.imp id (fun h => ⟨Or.inl rfl, h⟩)) (Or.inl rfl)) hext
      (hg _ hext ⟨_, lookup_upsert_same _ _ _, hk, Or.inr rfl, hU _ _ hu⟩) ?_ ?_
    · intro s1 hstep htbl
      have hl1 : lookup s1.tbl (ctx ++ [n + 1]) = some (failRec rt (some (ErrObj.ofExc e))) := by
        rw [htbl]; exact lookup_upsert_same _ _ _
      have hu1 : U s1.tbl := by rw [htbl]; exact hU _ _ hu
      split
      · rename_i hinv
        exact deliver_post hstep hu1 hl1 hk rfl (Or.inr ⟨hinv, rfl, rfl⟩)
      · exact deliver_post hstep hu1 hl1 hk rfl (Or.inl rfl)
    · intro en s1 hs1 hcr
      exact ⟨hs1, isCrash_ne hcr⟩


theorem outcomeOf_succRec (r : OpRec) (v : Val) (rc : Bool) : outcomeOf (succRec r (some v) rc) = .ok v := by
  simp [outcomeOf, succRec]

theorem outcomeOf_failRec (r : OpRec) (e : Exc) : outcomeOf (failRec r (some (ErrObj.ofExc e))) = canonErr e := by
  simp [outcomeOf, failRec, canonErr, callableOf]

theorem startRec_step (imm : Backend.Immediate) : Backend.startRec .step imm = { kind := .step, status := .started } := by
  cases imm <;> rfl
theorem startRec_wfc (imm : Backend.Immediate) : Backend.startRec .wfc imm = { kind := .wfc, status := .started } := by
  cases imm <;> rfl
theorem startRec_context (imm : Backend.Immediate) :
    Backend.startRec .context imm = { kind := .context, status := .started } := by
  cases imm <;> rfl

/-- What a step call may deliver, relative to the record `r'` it leaves: the recorded outcome, or the
original exception where a replay will deliver its CallableRuntimeError form. -/
def StepDeliv (spec : StepSpec) (q : Pos) (o : Outcome) (r' : OpRec) : Prop :=
  o = outcomeOf r' ∨
  ∃ e, e.inv = true ∧ ((∃ a, spec.body a = .err e) ∨ (spec.amo = true ∧ e = StepInterrupted q)) ∧
    o = .err e ∧ outcomeOf r' = canonErr e

theorem stepExecute_ok {G U : Tbl → Prop} {ctx : Pos} {n : Nat} {s : St} (spec : StepSpec) (r : Option OpRec)
    {rt : OpRec}
    (hc : CrashG G s) (hctx : CtxOk ctx s.tbl) (hl : lookup s.tbl (ctx ++ [n + 1]) = some rt)
    (hk : rt.kind = .step) (hst : rt.status = .started ∨ rt.status = .ready)
    (hU : UpsertStable U (ctx ++ [n + 1])) (hu : U s.tbl) (hg : NodeG G (StepNode U .step ctx n) ctx n s) :
    HPost G U ctx n s .step (StepDeliv spec (ctx ++ [n + 1])) (stepExecute s (ctx ++ [n + 1]) spec r) := by
  have hp := parentOk_of_ctxOk hctx (n + 1)
  have hnt : rt.status.terminal = false := by rcases hst with h | h <;> rw [h] <;> rfl
  unfold stepExecute
  simp only []
  generalize hatt : ((match r with | some r => r.attempt | none => 0) + 1) = attempt
  have hsame0 := same_emit s (.enter (ctx ++ [n + 1]) .step attempt none) rfl
  cases htick : tick (emit s (.enter (ctx ++ [n + 1]) .step attempt none)) with
  | none => exact ⟨Step.of_same ctx n hc hsame0, fun v hv => by cases hv⟩
  | some s0 =>
    have hsame := hsame0.trans (same_tick htick)
    have hstep0 : Step G ctx n s s0 := Step.of_same ctx n hc hsame
    have hl0 : lookup s0.tbl (ctx ++ [n + 1]) = some rt := by rw [hsame.tbl]; exact hl
    have hu0 : U s0.tbl := by rw [hsame.tbl]; exact hu
    have hp0 : Backend.parentOk s0.tbl (ctx ++ [n + 1]) = true := by rw [hsame.tbl]; exact hp
    simp only []
    cases hbody : spec.body attempt with
    | ok v =>
      simp only []
      have hext := ext_upsert (ctx := ctx) (n := n) (t := s0.tbl) (r' := succRec rt (some v) false)
        (fun r0 h0 => by rw [hl0] at h0; cases h0; exact ⟨hnt, rfl⟩)
      refine HPost.trans hstep0 (ckpt_bind hstep0.crash
        (apply_succeed hp0 hl0 rfl hk (hst.imp id (fun h => ⟨Or.inl rfl, h⟩)) (Or.inl rfl)) hext
        ((hg.step hstep0) _ hext ⟨_, lookup_upsert_same _ _ _, hk, Or.inr rfl, hU _ _ hu0⟩) ?_ ?_)
      · intro s1 hstep htbl
        refine deliver_post (r' := succRec rt (some v) false) hstep (by rw [htbl]; exact hU _ _ hu0)
          (by rw [htbl]; exact lookup_upsert_same _ _ _) hk rfl (Or.inl ?_)
        exact (outcomeOf_succRec _ _ _).symm
      · intro en s1 hs1 hcr
        exact ⟨hs1, isCrash_ne hcr⟩
    | err e =>
      simp only []
      refine HPost.trans hstep0 (HPost.weaken ?_
        (retryHandler_ok spec r e hstep0.crash (hctx.mono hstep0.ext.1) hl0 hk hst hU hu0 (hg.step hstep0)))
      intro o r' h
      rcases h with h | ⟨hinv, ho, hr⟩
      · exact Or.inl h
      · exact Or.inr ⟨e, hinv, Or.inl ⟨attempt, hbody⟩, ho, hr⟩

/-- The step handler on a position whose record is absent or an unfinished STEP record. -/
theorem handleStep_live {G U : Tbl → Prop} {ctx : Pos} {n : Nat} {s : St} (spec : StepSpec)
    (hc : CrashG G s) (hctx : CtxOk ctx s.tbl)
    (hl : lookup s.tbl (ctx ++ [n + 1]) = none ∨
      ∃ rt, lookup s.tbl (ctx ++ [n + 1]) = some rt ∧ rt.kind = .step ∧ ActiveSt rt)
    (hU : UpsertStable U (ctx ++ [n + 1])) (hu : U s.tbl) (hg : NodeG G (StepNode U .step ctx n) ctx n s) :
    HPost G U ctx n s .step (StepDeliv spec (ctx ++ [n + 1])) (handleStep s (ctx ++ [n + 1]) spec) := by
  have hp := parentOk_of_ctxOk hctx (n + 1)
  unfold handleStep
  rcases hl with hl | ⟨rt, hl, hk, hact⟩
  · rw [hl]
    simp only []
    have hext := ext_upsert (ctx := ctx) (n := n) (t := s.tbl) (r' := Backend.startRec .step (s.imm (ctx ++ [n + 1])))
      (fun r0 h0 => by rw [hl] at h0; cases h0)
    refine ckpt_bind hc (apply_start_absent (u := { pos := ctx ++ [n + 1], kind := .step, action := .start, sync := spec.amo }) hp hl rfl) hext
      (hg _ hext ⟨_, lookup_upsert_same _ _ _, by rw [startRec_step], Or.inl (Or.inl (by rw [startRec_step])),
        hU _ _ hu⟩) ?_ ?_
    · intro s1 hstep htbl
      refine HPost.trans hstep (stepExecute_ok spec _ hstep.crash (hctx.mono hstep.ext.1)
        (by rw [htbl]; exact lookup_upsert_same _ _ _) (by rw [startRec_step]) (Or.inl (by rw [startRec_step]))
        hU (by rw [htbl]; exact hU _ _ hu) (hg.step hstep))
    · intro en s1 hs1 hcr
      exact ⟨hs1, isCrash_ne hcr⟩
  · rw [hl]
    simp only []
    rcases hact with hs | hs | hs
    · -- STARTED
      simp only [hs, beq_iff_eq, reduceCtorEq, if_false, Bool.and_eq_true, true_and, false_and]
      split
      · rename_i hamo
        refine HPost.weaken ?_ (retryHandler_ok spec (some rt) (StepInterrupted (ctx ++ [n + 1])) hc hctx hl hk
          (Or.inl hs) hU hu hg)
        intro o r' h
        rcases h with h | ⟨hinv, ho, hr⟩
        · exact Or.inl h
        · exact Or.inr ⟨_, hinv, Or.inr ⟨hamo, rfl⟩, ho, hr⟩
      · exact stepExecute_ok spec (some rt) hc hctx hl hk (Or.inl hs) hU hu hg
    · -- PENDING
      simp only [hs, beq_iff_eq, reduceCtorEq, if_false, if_true]
      exact ⟨Step.refl ctx n hc, fun v hv => by cases hv⟩
    · -- READY
      simp only [hs, beq_iff_eq, reduceCtorEq, if_false, Bool.and_eq_true, true_and, false_and]
      split
      · have hext := ext_upsert (ctx := ctx) (n := n) (t := s.tbl) (r' := restartRec rt)
          (fun r0 h0 => by rw [hl] at h0; cases h0; exact ⟨by rw [hs]; rfl, rfl⟩)
        refine ckpt_bind hc (apply_start_ready (u := { pos := ctx ++ [n + 1], kind := .step, action := .start, sync := true }) hp hl rfl hk (Or.inl rfl) hs) hext
          (hg _ hext ⟨_, lookup_upsert_same _ _ _, hk, Or.inl (Or.inl rfl), hU _ _ hu⟩) ?_ ?_
        · intro s1 hstep htbl
          refine HPost.trans hstep (stepExecute_ok (rt := restartRec rt) spec _ hstep.crash (hctx.mono hstep.ext.1)
            (by rw [htbl]; exact lookup_upsert_same _ _ _) hk (Or.inl rfl)
            hU (by rw [htbl]; exact hU _ _ hu) (hg.step hstep))
        · intro en s1 hs1 hcr
          exact ⟨hs1, isCrash_ne hcr⟩
      · exact stepExecute_ok spec (some rt) hc hctx hl hk (Or.inr hs) hU hu hg

/-- The step handler on a finished record: it delivers the recorded outcome and sends nothing. -/
theorem handleStep_done {s : St} {p : Pos} (spec : StepSpec) {r : OpRec} (hl : lookup s.tbl p = some r)
    (hd : Done r = true) : handleStep s p spec = deliverAt s p (outcomeOf r) := by
  unfold handleStep outcomeOf
  rw [hl]
  simp only []
  unfold Done at hd
  by_cases h1 : r.status = .succeeded
  · simp [h1]
  · have h2 : r.status = .failed := by simpa [h1] using hd
    simp [h2]


/-- What a wait-for-condition call may deliver, relative to the record it leaves (F2: the original
exception is re-raised on the first execution, its CallableRuntimeError form on replay). -/
def WfcDeliv (w : WfcSpec) (o : Outcome) (r' : OpRec) : Prop :=
  o = outcomeOf r' ∨ ∃ e st a, w.check st a = .err e ∧ o = .err e ∧ outcomeOf r' = canonErr e

theorem wfcExecute_ok {G U : Tbl → Prop} {ctx : Pos} {n : Nat} {s : St} (w : WfcSpec) (r : Option OpRec)
    {rt : OpRec}
    (hc : CrashG G s) (hctx : CtxOk ctx s.tbl) (hl : lookup s.tbl (ctx ++ [n + 1]) = some rt)
    (hk : rt.kind = .wfc) (hst : rt.status = .started)
    (hU : UpsertStable U (ctx ++ [n + 1])) (hu : U s.tbl) (hg : NodeG G (StepNode U .wfc ctx n) ctx n s) :
    HPost G U ctx n s .wfc (WfcDeliv w) (wfcExecute s (ctx ++ [n + 1]) w r) := by
  have hp := parentOk_of_ctxOk hctx (n + 1)
  have hnt : rt.status.terminal = false := by rw [hst]; rfl
  unfold wfcExecute
  extract_lets state attempt se
  clear_value state attempt
  have hsame0 : Same s se := same_emit s (.enter (ctx ++ [n + 1]) .wfc attempt (some state)) rfl
  clear_value se
  cases htick : tick se with
  | none => exact ⟨Step.of_same ctx n hc hsame0, fun v hv => by cases hv⟩
  | some s0 =>
    have hsame := hsame0.trans (same_tick htick)
    have hstep0 : Step G ctx n s s0 := Step.of_same ctx n hc hsame
    have hl0 : lookup s0.tbl (ctx ++ [n + 1]) = some rt := by rw [hsame.tbl]; exact hl
    have hu0 : U s0.tbl := by rw [hsame.tbl]; exact hu
    have hp0 : Backend.parentOk s0.tbl (ctx ++ [n + 1]) = true := by rw [hsame.tbl]; exact hp
    have hold : ∀ {r' : OpRec}, r'.kind = rt.kind → ∀ r0, lookup s0.tbl (ctx ++ [n + 1]) = some r0 →
        r0.status.terminal = false ∧ r'.kind = r0.kind := by
      intro r' hr' r0 h0; rw [hl0] at h0; cases h0; exact ⟨hnt, hr'⟩
    simp only []
    cases hcheck : w.check state attempt with
    | ok ns =>
      simp only []
      cases hdec : w.decide ns attempt with
      | none =>
        simp only []
        have hext := ext_upsert (ctx := ctx) (n := n) (hold (r' := succRec rt (some ns) false) rfl)
        refine HPost.trans hstep0 (ckpt_bind hstep0.crash
          (apply_succeed hp0 hl0 rfl hk (Or.inl hst) (Or.inr (Or.inl rfl))) hext
          ((hg.step hstep0) _ hext ⟨_, lookup_upsert_same _ _ _, hk, Or.inr rfl, hU _ _ hu0⟩) ?_ ?_)
        · intro s1 hstep htbl
          refine deliver_post (r' := succRec rt (some ns) false) hstep (by rw [htbl]; exact hU _ _ hu0)
            (by rw [htbl]; exact lookup_upsert_same _ _ _) hk rfl (Or.inl ?_)
          exact (outcomeOf_succRec _ _ _).symm
        · intro en s1 hs1 hcr
          exact ⟨hs1, isCrash_ne hcr⟩
      | some d =>
        simp only []
        have hext := ext_upsert (ctx := ctx) (n := n) (hold (r' := retryRec rt (some ns) none) rfl)
        refine HPost.trans hstep0 (ckpt_bind hstep0.crash
          (apply_retry hp0 hl0 rfl hk (Or.inr rfl) (Or.inl hst)) hext
          ((hg.step hstep0) _ hext ⟨_, lookup_upsert_same _ _ _, hk, Or.inl (Or.inr (Or.inl rfl)), hU _ _ hu0⟩)
          ?_ ?_)
        · intro s1 hs1 _
          exact ⟨hs1, fun v hv => by cases hv⟩
        · intro en s1 hs1 hcr
          exact ⟨hs1, isCrash_ne hcr⟩
    | err e =>
      simp only []
      have hext := ext_upsert (ctx := ctx) (n := n) (hold (r' := failRec rt (some (ErrObj.ofExc e))) rfl)
      refine HPost.trans hstep0 (ckpt_bind hstep0.crash
        (apply_fail hp0 hl0 rfl hk (Or.inl hst) (Or.inr (Or.inl rfl))) hext
        ((hg.step hstep0) _ hext ⟨_, lookup_upsert_same _ _ _, hk, Or.inr rfl, hU _ _ hu0⟩) ?_ ?_)
      · intro s1 hstep htbl
        exact deliver_post (r' := failRec rt (some (ErrObj.ofExc e))) hstep (by rw [htbl]; exact hU _ _ hu0)
          (by rw [htbl]; exact lookup_upsert_same _ _ _) hk rfl
          (Or.inr ⟨e, state, attempt, hcheck, rfl, outcomeOf_failRec _ _⟩)
      · intro en s1 hs1 hcr
        exact ⟨hs1, isCrash_ne hcr⟩

/-- The wait-for-condition handler on a position whose record is absent or an unfinished WFC record. -/
theorem handleWfc_live {G U : Tbl → Prop} {ctx : Pos} {n : Nat} {s : St} (w : WfcSpec)
    (hc : CrashG G s) (hctx : CtxOk ctx s.tbl)
    (hl : lookup s.tbl (ctx ++ [n + 1]) = none ∨
      ∃ rt, lookup s.tbl (ctx ++ [n + 1]) = some rt ∧ rt.kind = .wfc ∧ ActiveSt rt)
    (hU : UpsertStable U (ctx ++ [n + 1])) (hu : U s.tbl) (hg : NodeG G (StepNode U .wfc ctx n) ctx n s) :
    HPost G U ctx n s .wfc (WfcDeliv w) (handleWfc s (ctx ++ [n + 1]) w) := by
  have hp := parentOk_of_ctxOk hctx (n + 1)
  unfold handleWfc
  rcases hl with hl | ⟨rt, hl, hk, hact⟩
  · rw [hl]
    simp only []
    have hext := ext_upsert (ctx := ctx) (n := n) (t := s.tbl) (r' := Backend.startRec .wfc (s.imm (ctx ++ [n + 1])))
      (fun r0 h0 => by rw [hl] at h0; cases h0)
    refine ckpt_bind hc (apply_start_absent (u := { pos := ctx ++ [n + 1], kind := .wfc, action := .start, sync := false }) hp hl rfl) hext
      (hg _ hext ⟨_, lookup_upsert_same _ _ _, by rw [startRec_wfc], Or.inl (Or.inl (by rw [startRec_wfc])),
        hU _ _ hu⟩) ?_ ?_
    · intro s1 hstep htbl
      refine HPost.trans hstep (wfcExecute_ok w _ hstep.crash (hctx.mono hstep.ext.1)
        (by rw [htbl]; exact lookup_upsert_same _ _ _) (by rw [startRec_wfc]) (by rw [startRec_wfc])
        hU (by rw [htbl]; exact hU _ _ hu) (hg.step hstep))
    · intro en s1 hs1 hcr
      exact ⟨hs1, isCrash_ne hcr⟩
  · rw [hl]
    simp only []
    rcases hact with hs | hs | hs
    · simp only [hs, beq_iff_eq, reduceCtorEq, if_false, if_true]
      exact wfcExecute_ok w _ hc hctx hl hk hs hU hu hg
    · simp only [hs, beq_iff_eq, reduceCtorEq, if_false, if_true]
      exact ⟨Step.refl ctx n hc, fun v hv => by cases hv⟩
    · simp only [hs, beq_iff_eq, reduceCtorEq, if_false]
      have hext := ext_upsert (ctx := ctx) (n := n) (t := s.tbl) (r' := restartRec rt)
        (fun r0 h0 => by rw [hl] at h0; cases h0; exact ⟨by rw [hs]; rfl, rfl⟩)
      refine ckpt_bind hc (apply_start_ready (u := { pos := ctx ++ [n + 1], kind := .wfc, action := .start, sync := false }) hp hl rfl hk (Or.inr rfl) hs) hext
        (hg _ hext ⟨_, lookup_upsert_same _ _ _, hk, Or.inl (Or.inl rfl), hU _ _ hu⟩) ?_ ?_
      · intro s1 hstep htbl
        refine HPost.trans hstep (wfcExecute_ok (rt := restartRec rt) w _ hstep.crash (hctx.mono hstep.ext.1)
          (by rw [htbl]; exact lookup_upsert_same _ _ _) hk rfl
          hU (by rw [htbl]; exact hU _ _ hu) (hg.step hstep))
      · intro en s1 hs1 hcr
        exact ⟨hs1, isCrash_ne hcr⟩

theorem handleWfc_done {s : St} {p : Pos} (w : WfcSpec) {r : OpRec} (hl : lookup s.tbl p = some r)
    (hd : Done r = true) : handleWfc s p w = deliverAt s p (outcomeOf r) := by
  unfold handleWfc outcomeOf
  rw [hl]
  simp only []
  unfold Done at hd
  by_cases h1 : r.status = .succeeded
  · simp [h1]
  · have h2 : r.status = .failed := by simpa [h1] using hd
    simp [h2]


/-! ## Handlers that only send a START on a fresh position: wait, invoke, callback -/

/-- Tables such a handler may produce at `(ctx, n)`. -/
def RecNode (U : Tbl → Prop) (ctx : Pos) (n : Nat) (t : Tbl) : Prop :=
  (∃ r, lookup t (ctx ++ [n + 1]) = some r) ∧ U t

def RPost (G U : Tbl → Prop) (ctx : Pos) (n : Nat) (s : St) (D : Outcome → OpRec → Prop) : HRes → Prop
  | .deliver o s1 => Step G ctx n s s1 ∧ U s1.tbl ∧
      ∃ r', lookup s1.tbl (ctx ++ [n + 1]) = some r' ∧ D o r'
  | .stop e s1 => Step G ctx n s s1 ∧ ∀ v, e ≠ .returned v

theorem rdeliver_post {G U ctx n s0 s} {D : Outcome → OpRec → Prop} {o : Outcome} {r' : OpRec}
    (hs : Step G ctx n s0 s) (hu : U s.tbl)
    (hl : lookup s.tbl (ctx ++ [n + 1]) = some r') (hD : D o r') :
    RPost G U ctx n s0 D (deliverAt s (ctx ++ [n + 1]) o) := by
  obtain ⟨s', he, hsame⟩ := deliverAt_same s (ctx ++ [n + 1]) o
  rw [he]
  exact ⟨hs.trans (Step.of_same ctx n hs.crash hsame), by rw [hsame.tbl]; exact hu,
    r', by rw [hsame.tbl]; exact hl, hD⟩

theorem handleWait_some {s : St} {p : Pos} (secs : Nat) {r : OpRec} (hl : lookup s.tbl p = some r) :
    handleWait s p secs =
      if r.status = .succeeded then deliverAt s p (.ok noneVal) else .stop (.suspended (some secs)) s := by
  unfold handleWait
  rw [hl]
  simp only [beq_iff_eq]

theorem handleWait_fresh {G U : Tbl → Prop} {ctx : Pos} {n : Nat} {s : St} (secs : Nat)
    (hc : CrashG G s) (hctx : CtxOk ctx s.tbl) (hl : lookup s.tbl (ctx ++ [n + 1]) = none)
    (hU : UpsertStable U (ctx ++ [n + 1])) (hu : U s.tbl) (hg : NodeG G (RecNode U ctx n) ctx n s) :
    RPost G U ctx n s (fun _ r' => r'.status = .succeeded) (handleWait s (ctx ++ [n + 1]) secs) := by
  have hp := parentOk_of_ctxOk hctx (n + 1)
  unfold handleWait
  rw [hl]
  simp only []
  have hext := ext_upsert (ctx := ctx) (n := n) (t := s.tbl) (r' := Backend.startRec .wait (s.imm (ctx ++ [n + 1])))
    (fun r0 h0 => by rw [hl] at h0; cases h0)
  refine ckpt_bind hc (apply_start_absent (u := { pos := ctx ++ [n + 1], kind := .wait, action := .start, delay := some secs }) hp hl rfl) hext
    (hg _ hext ⟨⟨_, lookup_upsert_same _ _ _⟩, hU _ _ hu⟩) ?_ ?_
  · intro s1 hstep htbl
    have hl1 : lookup s1.tbl (ctx ++ [n + 1]) = some (Backend.startRec .wait (s.imm (ctx ++ [n + 1]))) := by
      rw [htbl]; exact lookup_upsert_same _ _ _
    have hu1 : U s1.tbl := by rw [htbl]; exact hU _ _ hu
    rw [hl1]
    simp only [beq_iff_eq]
    split
    · rename_i hs
      exact rdeliver_post hstep hu1 hl1 hs
    · exact ⟨hstep, fun v hv => by cases hv⟩
  · intro en s1 hs1 hcr
    exact ⟨hs1, isCrash_ne hcr⟩

theorem handleInvoke_some {s : St} {p : Pos} (payload : Val) {r : OpRec} (hl : lookup s.tbl p = some r) :
    handleInvoke s p payload =
      match invOut r with
      | some o => deliverAt s p o
      | none => .stop (.suspended (some 0)) s := by
  unfold handleInvoke
  rw [hl]
  simp only [invokeTerminal_eq]
  cases invOut r <;> rfl

theorem handleInvoke_fresh {G U : Tbl → Prop} {ctx : Pos} {n : Nat} {s : St} (payload : Val)
    (hc : CrashG G s) (hctx : CtxOk ctx s.tbl) (hl : lookup s.tbl (ctx ++ [n + 1]) = none)
    (hU : UpsertStable U (ctx ++ [n + 1])) (hu : U s.tbl) (hg : NodeG G (RecNode U ctx n) ctx n s) :
    RPost G U ctx n s (fun o r' => invOut r' = some o) (handleInvoke s (ctx ++ [n + 1]) payload) := by
  have hp := parentOk_of_ctxOk hctx (n + 1)
  unfold handleInvoke
  rw [hl]
  simp only []
  have hext := ext_upsert (ctx := ctx) (n := n) (t := s.tbl) (r' := Backend.startRec .invoke (s.imm (ctx ++ [n + 1])))
    (fun r0 h0 => by rw [hl] at h0; cases h0)
  refine ckpt_bind hc (apply_start_absent (u := { pos := ctx ++ [n + 1], kind := .invoke, action := .start, payload := some payload }) hp hl rfl) hext
    (hg _ hext ⟨⟨_, lookup_upsert_same _ _ _⟩, hU _ _ hu⟩) ?_ ?_
  · intro s1 hstep htbl
    have hl1 : lookup s1.tbl (ctx ++ [n + 1]) = some (Backend.startRec .invoke (s.imm (ctx ++ [n + 1]))) := by
      rw [htbl]; exact lookup_upsert_same _ _ _
    have hu1 : U s1.tbl := by rw [htbl]; exact hU _ _ hu
    rw [hl1]
    simp only [invokeTerminal_eq]
    cases hio : invOut (Backend.startRec .invoke (s.imm (ctx ++ [n + 1]))) with
    | none => exact ⟨hstep, fun v hv => by cases hv⟩
    | some o => exact rdeliver_post hstep hu1 hl1 hio
  · intro en s1 hs1 hcr
    exact ⟨hs1, isCrash_ne hcr⟩

theorem handleCbNew_some {s : St} {p : Pos} {r : OpRec} (hl : lookup s.tbl p = some r) :
    ∃ s1, handleCbNew s p = .ok s1 ∧ Same s s1 := by
  unfold handleCbNew
  rw [hl]
  exact ⟨_, rfl, (same_emit s _ rfl).trans (same_trackReplay _ _)⟩

theorem handleCbNew_fresh {G U : Tbl → Prop} {ctx : Pos} {n : Nat} {s : St}
    (hc : CrashG G s) (hctx : CtxOk ctx s.tbl) (hl : lookup s.tbl (ctx ++ [n + 1]) = none)
    (hU : UpsertStable U (ctx ++ [n + 1])) (hu : U s.tbl) (hg : NodeG G (RecNode U ctx n) ctx n s) :
    match handleCbNew s (ctx ++ [n + 1]) with
    | .ok s1 => Step G ctx n s s1 ∧ U s1.tbl ∧ ∃ r', lookup s1.tbl (ctx ++ [n + 1]) = some r'
    | .error (e, s1) => Step G ctx n s s1 ∧ ∀ v, e ≠ .returned v := by
  have hp := parentOk_of_ctxOk hctx (n + 1)
  have hext := ext_upsert (ctx := ctx) (n := n) (t := s.tbl) (r' := Backend.startRec .callback (s.imm (ctx ++ [n + 1])))
    (fun r0 h0 => by rw [hl] at h0; cases h0)
  have hck := checkpoint_ok hc (apply_start_absent (u := { pos := ctx ++ [n + 1], kind := .callback, action := .start }) hp hl rfl) hext
    (hg _ hext ⟨⟨_, lookup_upsert_same _ _ _⟩, hU _ _ hu⟩)
  unfold handleCbNew
  rw [hl]
  simp only []
  cases hres : checkpoint s { pos := ctx ++ [n + 1], kind := .callback, action := .start } with
  | error x =>
    obtain ⟨en, s1⟩ := x
    rw [hres] at hck
    exact ⟨hck.1, isCrash_ne hck.2⟩
  | ok s1 =>
    rw [hres] at hck
    obtain ⟨hstep, htbl⟩ := hck
    have hl1 : lookup s1.tbl (ctx ++ [n + 1]) = some (Backend.startRec .callback (s.imm (ctx ++ [n + 1]))) := by
      rw [htbl]; exact lookup_upsert_same _ _ _
    simp only [hl1]
    have hsame : Same s1 (trackReplay (emit s1 (.deliver (ctx ++ [n + 1]) (.ok "cb"))) (ctx ++ [n + 1])) :=
      (same_emit s1 _ rfl).trans (same_trackReplay _ _)
    exact ⟨hstep.trans (Step.of_same ctx n hstep.crash hsame), by rw [hsame.tbl, htbl]; exact hU _ _ hu,
      _, by rw [hsame.tbl]; exact hl1⟩


/-! ## Completed traversals and compatible tables -/

/-- `h` is the position of an operation called earlier: in the context `ctx` among its first `n`
calls, or in an enclosing context before the call that leads to `ctx`. -/
def Past (h : Pos) (ctx : Pos) (n : Nat) : Prop :=
  ∃ c j, h = c ++ [j] ∧ 1 ≤ j ∧ ((c = ctx ∧ j ≤ n) ∨ ∃ m rest, ctx = c ++ m :: rest ∧ j < m)

/-- `t` holds a complete traversal of the fragment `p` (from call counter `n` of context `ctx`) that
returns `v`: every operation on the way has a record that makes its handler deliver at once. -/
inductive Returns : Prog → Pos → Nat → Tbl → Val → Prop
  | ret {v ctx n t} : Returns (.ret v) ctx n t v
  | log {m k ctx n t v} : Returns k ctx n t v → Returns (.log m k) ctx n t v
  | step {sp k ctx n t v r} : lookup t (ctx ++ [n + 1]) = some r → Done r = true →
      Returns (k (outcomeOf r)) ctx (n + 1) t v → Returns (.step sp k) ctx n t v
  | wait {secs k ctx n t v r} : lookup t (ctx ++ [n + 1]) = some r → r.status = .succeeded →
      Returns k ctx (n + 1) t v → Returns (.wait secs k) ctx n t v
  | cbNew {k ctx n t v r} : lookup t (ctx ++ [n + 1]) = some r →
      Returns (k (ctx ++ [n + 1])) ctx (n + 1) t v → Returns (.cbNew k) ctx n t v
  | cbRes {h k ctx n t v r o} : Past h ctx n → lookup t h = some r → cbOut r = some o →
      Returns (k o) ctx n t v → Returns (.cbRes h k) ctx n t v
  | invoke {pl k ctx n t v r o} : lookup t (ctx ++ [n + 1]) = some r → invOut r = some o →
      Returns (k o) ctx (n + 1) t v → Returns (.invoke pl k) ctx n t v
  | wfc {w k ctx n t v r} : lookup t (ctx ++ [n + 1]) = some r → Done r = true →
      Returns (k (outcomeOf r)) ctx (n + 1) t v → Returns (.wfc w k) ctx n t v
  | childDone {c body k ctx n t v r} : lookup t (ctx ++ [n + 1]) = some r → Done r = true →
      (r.status = .succeeded → r.replayChildren = false) →
      Returns (k (outcomeOf r)) ctx (n + 1) t v → Returns (.child c body k) ctx n t v
  | childReplay {c body k ctx n t v r v'} : lookup t (ctx ++ [n + 1]) = some r → r.status = .succeeded →
      r.replayChildren = true → Returns body (ctx ++ [n + 1]) 0 t v' →
      Returns (k (.ok v')) ctx (n + 1) t v → Returns (.child c body k) ctx n t v

theorem Mono.keep {t t' : Tbl} (h : Mono t t') {p : Pos} {r : OpRec} (hl : lookup t p = some r)
    (ht : r.status.terminal = true) : lookup t' p = some r := by
  obtain ⟨r', hl', _, he⟩ := h p r hl
  rw [hl', he ht]

theorem Returns.mono {p : Prog} {ctx : Pos} {n : Nat} {t t' : Tbl} {v : Val} (h : Returns p ctx n t v)
    (hm : Mono t t') : Returns p ctx n t' v := by
  induction h with
  | ret => exact .ret
  | log _ ih => exact .log (ih hm)
  | step hl hd _ ih => exact .step (hm.keep hl (done_terminal hd)) hd (ih hm)
  | wait hl hs _ ih => exact .wait (hm.keep hl (by rw [hs]; rfl)) hs (ih hm)
  | cbNew hl _ ih =>
    obtain ⟨r', hl', _, _⟩ := hm _ _ hl
    exact .cbNew hl' (ih hm)
  | cbRes hp hl ho _ ih => exact .cbRes hp (hm.keep hl (cbOut_terminal ho)) ho (ih hm)
  | invoke hl ho _ ih => exact .invoke (hm.keep hl (invOut_terminal ho)) ho (ih hm)
  | wfc hl hd _ ih => exact .wfc (hm.keep hl (done_terminal hd)) hd (ih hm)
  | childDone hl hd hr _ ih => exact .childDone (hm.keep hl (done_terminal hd)) hd hr (ih hm)
  | childReplay hl hs hr _ _ ih1 ih2 => exact .childReplay (hm.keep hl (by rw [hs]; rfl)) hs hr (ih1 hm) (ih2 hm)

/-- `t` is a table that earlier invocations of the fragment `p`, started with call counter `n` in
context `ctx`, could have left. -/
inductive Compat : Prog → Pos → Nat → Tbl → Prop
  | fresh {p ctx n t} : Untouched ctx n t → Compat p ctx n t
  | log {m k ctx n t} : Compat k ctx n t → Compat (.log m k) ctx n t
  | stepActive {sp k ctx n t r} : lookup t (ctx ++ [n + 1]) = some r → r.kind = .step → ActiveSt r →
      Untouched ctx (n + 1) t → Compat (.step sp k) ctx n t
  | stepDone {sp k ctx n t r} : lookup t (ctx ++ [n + 1]) = some r → Done r = true →
      Compat (k (outcomeOf r)) ctx (n + 1) t → Compat (.step sp k) ctx n t
  | waitPark {secs k ctx n t r} : lookup t (ctx ++ [n + 1]) = some r → r.status ≠ .succeeded →
      Untouched ctx (n + 1) t → Compat (.wait secs k) ctx n t
  | waitDone {secs k ctx n t r} : lookup t (ctx ++ [n + 1]) = some r → r.status = .succeeded →
      Compat k ctx (n + 1) t → Compat (.wait secs k) ctx n t
  | cbNew {k ctx n t r} : lookup t (ctx ++ [n + 1]) = some r →
      Compat (k (ctx ++ [n + 1])) ctx (n + 1) t → Compat (.cbNew k) ctx n t
  | cbResPark {h k ctx n t r} : Past h ctx n → lookup t h = some r → cbOut r = none → Untouched ctx n t →
      Compat (.cbRes h k) ctx n t
  | cbResDone {h k ctx n t r o} : Past h ctx n → lookup t h = some r → cbOut r = some o → Compat (k o) ctx n t →
      Compat (.cbRes h k) ctx n t
  | invokePark {pl k ctx n t r} : lookup t (ctx ++ [n + 1]) = some r → invOut r = none →
      Untouched ctx (n + 1) t → Compat (.invoke pl k) ctx n t
  | invokeDone {pl k ctx n t r o} : lookup t (ctx ++ [n + 1]) = some r → invOut r = some o →
      Compat (k o) ctx (n + 1) t → Compat (.invoke pl k) ctx n t
  | wfcActive {w k ctx n t r} : lookup t (ctx ++ [n + 1]) = some r → r.kind = .wfc → ActiveSt r →
      Untouched ctx (n + 1) t → Compat (.wfc w k) ctx n t
  | wfcDone {w k ctx n t r} : lookup t (ctx ++ [n + 1]) = some r → Done r = true →
      Compat (k (outcomeOf r)) ctx (n + 1) t → Compat (.wfc w k) ctx n t
  | childActive {c body k ctx n t r} : lookup t (ctx ++ [n + 1]) = some r → r.kind = .context →
      r.status = .started → Compat body (ctx ++ [n + 1]) 0 t → Untouched ctx (n + 1) t →
      Compat (.child c body k) ctx n t
  | childDone {c body k ctx n t r} : lookup t (ctx ++ [n + 1]) = some r → Done r = true →
      (r.status = .succeeded → r.replayChildren = false) →
      Compat (k (outcomeOf r)) ctx (n + 1) t → Compat (.child c body k) ctx n t
  | childReplay {c body k ctx n t r v} : lookup t (ctx ++ [n + 1]) = some r → r.status = .succeeded →
      r.replayChildren = true → Returns body (ctx ++ [n + 1]) 0 t v →
      Compat (k (.ok v)) ctx (n + 1) t → Compat (.child c body k) ctx n t

/-- Nothing exists yet: the empty table is compatible with every program. -/
theorem compat_nil (p : Prog) (ctx : Pos) (n : Nat) : Compat p ctx n [] := .fresh (fun _ _ => rfl)

/-! ## Static conditions on programs -/

/-- `p'` can stand in for `p` on replay: every table compatible with `p` is compatible with `p'`,
and every complete traversal of `p` is one of `p'` (with the same result). Equal programs are
similar; so are two programs that differ only in the exception they finally raise. -/
def Sim (p p' : Prog) : Prop :=
  ∀ ctx n t, (Compat p ctx n t → Compat p' ctx n t) ∧ ∀ v, Returns p ctx n t v → Returns p' ctx n t v

theorem Sim.refl (p : Prog) : Sim p p := fun _ _ _ => ⟨id, fun _ => id⟩

theorem Sim.of_eq {p p' : Prog} (h : p = p') : Sim p p' := h ▸ Sim.refl p

theorem Sim.trans {p p' p'' : Prog} (h1 : Sim p p') (h2 : Sim p' p'') : Sim p p'' :=
  fun ctx n t => ⟨fun h => (h2 ctx n t).1 ((h1 ctx n t).1 h), fun v h => (h2 ctx n t).2 v ((h1 ctx n t).2 v h)⟩

/-- Which exception is finally raised does not matter. -/
theorem Sim.raise (e e' : Exc) : Sim (.raise e) (.raise e') := by
  intro ctx n t
  constructor
  · intro h; cases h with | fresh hu => exact .fresh hu
  · intro v h; cases h

/-! Congruence: similar continuations give similar programs. -/

theorem Sim.log {m : String} {k k' : Prog} (h : Sim k k') : Sim (.log m k) (.log m k') := by
  intro ctx n t
  constructor
  · intro hc
    cases hc with
    | fresh hu => exact .fresh hu
    | log hc' => exact .log ((h _ _ _).1 hc')
  · intro v hr
    cases hr with
    | log hr' => exact .log ((h _ _ _).2 v hr')

theorem Sim.step {sp : StepSpec} {k k' : Outcome → Prog} (h : ∀ o, Sim (k o) (k' o)) :
    Sim (.step sp k) (.step sp k') := by
  intro ctx n t
  constructor
  · intro hc
    cases hc with
    | fresh hu => exact .fresh hu
    | stepActive hl hk ha hu => exact .stepActive hl hk ha hu
    | stepDone hl hd hc' => exact .stepDone hl hd ((h _ _ _ _).1 hc')
  · intro v hr
    cases hr with
    | step hl hd hr' => exact .step hl hd ((h _ _ _ _).2 v hr')

theorem Sim.wait {secs : Nat} {k k' : Prog} (h : Sim k k') : Sim (.wait secs k) (.wait secs k') := by
  intro ctx n t
  constructor
  · intro hc
    cases hc with
    | fresh hu => exact .fresh hu
    | waitPark hl hne hu => exact .waitPark hl hne hu
    | waitDone hl hs hc' => exact .waitDone hl hs ((h _ _ _).1 hc')
  · intro v hr
    cases hr with
    | wait hl hs hr' => exact .wait hl hs ((h _ _ _).2 v hr')

theorem Sim.cbNew {k k' : Handle → Prog} (h : ∀ q, Sim (k q) (k' q)) : Sim (.cbNew k) (.cbNew k') := by
  intro ctx n t
  constructor
  · intro hc
    cases hc with
    | fresh hu => exact .fresh hu
    | cbNew hl hc' => exact .cbNew hl ((h _ _ _ _).1 hc')
  · intro v hr
    cases hr with
    | cbNew hl hr' => exact .cbNew hl ((h _ _ _ _).2 v hr')

theorem Sim.cbRes {hd : Handle} {k k' : Outcome → Prog} (h : ∀ o, Sim (k o) (k' o)) :
    Sim (.cbRes hd k) (.cbRes hd k') := by
  intro ctx n t
  constructor
  · intro hc
    cases hc with
    | fresh hu => exact .fresh hu
    | cbResPark hp hl ho hu => exact .cbResPark hp hl ho hu
    | cbResDone hp hl ho hc' => exact .cbResDone hp hl ho ((h _ _ _ _).1 hc')
  · intro v hr
    cases hr with
    | cbRes hp hl ho hr' => exact .cbRes hp hl ho ((h _ _ _ _).2 v hr')

theorem Sim.invoke {pl : Val} {k k' : Outcome → Prog} (h : ∀ o, Sim (k o) (k' o)) :
    Sim (.invoke pl k) (.invoke pl k') := by
  intro ctx n t
  constructor
  · intro hc
    cases hc with
    | fresh hu => exact .fresh hu
    | invokePark hl ho hu => exact .invokePark hl ho hu
    | invokeDone hl ho hc' => exact .invokeDone hl ho ((h _ _ _ _).1 hc')
  · intro v hr
    cases hr with
    | invoke hl ho hr' => exact .invoke hl ho ((h _ _ _ _).2 v hr')

theorem Sim.wfc {w : WfcSpec} {k k' : Outcome → Prog} (h : ∀ o, Sim (k o) (k' o)) :
    Sim (.wfc w k) (.wfc w k') := by
  intro ctx n t
  constructor
  · intro hc
    cases hc with
    | fresh hu => exact .fresh hu
    | wfcActive hl hk ha hu => exact .wfcActive hl hk ha hu
    | wfcDone hl hd hc' => exact .wfcDone hl hd ((h _ _ _ _).1 hc')
  · intro v hr
    cases hr with
    | wfc hl hd hr' => exact .wfc hl hd ((h _ _ _ _).2 v hr')

theorem Sim.child {c : ChildSpec} {body : Prog} {k k' : Outcome → Prog} (h : ∀ o, Sim (k o) (k' o)) :
    Sim (.child c body k) (.child c body k') := by
  intro ctx n t
  constructor
  · intro hc
    cases hc with
    | fresh hu => exact .fresh hu
    | childActive hl hk hs hcb hu => exact .childActive hl hk hs hcb hu
    | childDone hl hd hnr hc' => exact .childDone hl hd hnr ((h _ _ _ _).1 hc')
    | childReplay hl hs hr hrv hc' => exact .childReplay hl hs hr hrv ((h _ _ _ _).1 hc')
  · intro v hr
    cases hr with
    | childDone hl hd hnr hr' => exact .childDone hl hd hnr ((h _ _ _ _).2 v hr')
    | childReplay hl hs hr hrv hr' => exact .childReplay hl hs hr hrv ((h _ _ _ _).2 v hr')

/-- Static well-formedness of a program fragment at `(ctx, n)`:
* callback results are awaited only on handles of earlier operations (`Past`);
* continuations do not distinguish an exception delivered on first execution from the
  `CallableRuntimeError` delivered for the same failure on replay, wherever the SDK delivers the
  original one (wait-for-condition errors — finding F2 —, `InvocationError`s of steps and contexts). -/
inductive Scoped : Prog → Pos → Nat → Prop
  | ret {v ctx n} : Scoped (.ret v) ctx n
  | raise {e ctx n} : Scoped (.raise e) ctx n
  | log {m k ctx n} : Scoped k ctx n → Scoped (.log m k) ctx n
  | step {sp k ctx n} : (∀ o, Scoped (k o) ctx (n + 1)) →
      (∀ e, e.inv = true → ((∃ a, sp.body a = .err e) ∨ (sp.amo = true ∧ e = StepInterrupted (ctx ++ [n + 1]))) →
        Sim (k (.err e)) (k (canonErr e))) →
      Scoped (.step sp k) ctx n
  | wait {secs k ctx n} : Scoped k ctx (n + 1) → Scoped (.wait secs k) ctx n
  | cbNew {k ctx n} : Scoped (k (ctx ++ [n + 1])) ctx (n + 1) → Scoped (.cbNew k) ctx n
  | cbRes {h k ctx n} : Past h ctx n → (∀ o, Scoped (k o) ctx n) → Scoped (.cbRes h k) ctx n
  | invoke {pl k ctx n} : (∀ o, Scoped (k o) ctx (n + 1)) → Scoped (.invoke pl k) ctx n
  | wfc {w k ctx n} : (∀ o, Scoped (k o) ctx (n + 1)) →
      (∀ e st a, w.check st a = .err e → Sim (k (.err e)) (k (canonErr e))) → Scoped (.wfc w k) ctx n
  | child {c body k ctx n} : Scoped body (ctx ++ [n + 1]) 0 → (∀ o, Scoped (k o) ctx (n + 1)) →
      (∀ e, e.inv = true → Sim (k (.err e)) (k (canonErr e))) → Scoped (.child c body k) ctx n

/-- Every earlier operation has a record. -/
def PastOk (ctx : Pos) (n : Nat) (t : Tbl) : Prop := ∀ h, Past h ctx n → ∃ r, lookup t h = some r

theorem PastOk.mono {ctx n t t'} (h : PastOk ctx n t) (hm : Mono t t') : PastOk ctx n t' := by
  intro p hp
  obtain ⟨r, hl⟩ := h p hp
  obtain ⟨r', hl', _⟩ := hm p r hl
  exact ⟨r', hl'⟩

theorem past_succ {h ctx n} (hp : Past h ctx (n + 1)) : Past h ctx n ∨ h = ctx ++ [n + 1] := by
  obtain ⟨c, j, rfl, hj, h | h⟩ := hp
  · obtain ⟨rfl, hle⟩ := h
    by_cases hjn : j = n + 1
    · subst hjn; exact Or.inr rfl
    · exact Or.inl ⟨c, j, rfl, hj, Or.inl ⟨rfl, by omega⟩⟩
  · exact Or.inl ⟨c, j, rfl, hj, Or.inr h⟩

theorem past_child {h ctx n} (hp : Past h (ctx ++ [n + 1]) 0) : Past h ctx n := by
  obtain ⟨c, j, rfl, hj, h | h⟩ := hp
  · omega
  · obtain ⟨m, rest, he, hjm⟩ := h
    rcases List.eq_nil_or_concat rest with rfl | ⟨rest', x, rfl⟩
    · have := List.append_inj' he rfl
      obtain ⟨rfl, h2⟩ := this
      cases h2
      exact ⟨ctx, j, rfl, hj, Or.inl ⟨rfl, by omega⟩⟩
    · have he' : ctx ++ [n + 1] = (c ++ m :: rest') ++ [x] := by simpa using he
      have := List.append_inj' he' rfl
      exact ⟨c, j, rfl, hj, Or.inr ⟨m, rest', this.1, hjm⟩⟩

theorem PastOk.succ {ctx n t r} (h : PastOk ctx n t) (hl : lookup t (ctx ++ [n + 1]) = some r) :
    PastOk ctx (n + 1) t := by
  intro p hp
  rcases past_succ hp with hp | rfl
  · exact h p hp
  · exact ⟨r, hl⟩

theorem PastOk.child {ctx n t} (h : PastOk ctx n t) : PastOk (ctx ++ [n + 1]) 0 t :=
  fun p hp => h p (past_child hp)

theorem pastOk_root (t : Tbl) : PastOk [] 0 t := by
  intro p hp
  obtain ⟨c, j, rfl, hj, h | h⟩ := hp
  · omega
  · obtain ⟨m, rest, he, _⟩ := h
    simp at he


/-! ## Child contexts: before the body -/

theorem childBefore_done {s : St} {p : Pos} {r : OpRec} (hl : lookup s.tbl p = some r) (hd : Done r = true)
    (hr : r.status = .succeeded → r.replayChildren = false) :
    childBefore s p = .inl (deliverAt s p (outcomeOf r)) := by
  unfold childBefore outcomeOf
  rw [hl]
  simp only []
  unfold Done at hd
  by_cases h1 : r.status = .succeeded
  · simp [h1, hr h1]
  · have h2 : r.status = .failed := by simpa [h1] using hd
    simp [h2]

theorem childBefore_replay {s : St} {p : Pos} {r : OpRec} (hl : lookup s.tbl p = some r)
    (hs : r.status = .succeeded) (hr : r.replayChildren = true) :
    childBefore s p = .inr (emit s (.enter p .context 0 none), true) := by
  unfold childBefore
  rw [hl]
  simp [hs, hr]

theorem childBefore_started {s : St} {p : Pos} {r : OpRec} (hl : lookup s.tbl p = some r)
    (hs : r.status = .started) :
    childBefore s p = .inr (emit s (.enter p .context 0 none), false) := by
  unfold childBefore
  rw [hl]
  simp [hs]

/-- On a table holding a complete traversal, the fragment returns at once and sends nothing. -/
theorem run_of_returns {p : Prog} {ctx : Pos} {n : Nat} {t : Tbl} {v : Val} (h : Returns p ctx n t v) :
    ∀ s : St, s.tbl = t → ∃ s', run p ctx n s = (.returned v, s') ∧ Same s s' := by
  induction h with
  | ret => intro s _; exact ⟨s, by simp [run], Same.refl s⟩
  | @log m k ctx n t v _ ih =>
    intro s hs
    obtain ⟨s', h1, h2⟩ := ih (doLog s ctx m) (by rw [(same_doLog s _ _).tbl]; exact hs)
    exact ⟨s', by simp only [run]; exact h1, (same_doLog s _ _).trans h2⟩
  | @step sp k ctx n t v r hl hd _ ih =>
    intro s hs
    subst hs
    obtain ⟨s1, he, hsame⟩ := deliverAt_same s (ctx ++ [n + 1]) (outcomeOf r)
    obtain ⟨s', h1, h2⟩ := ih s1 hsame.tbl
    refine ⟨s', ?_, hsame.trans h2⟩
    simp only [run, handleStep_done _ hl hd, he]; exact h1
  | @wait secs k ctx n t v r hl hst _ ih =>
    intro s hs
    subst hs
    obtain ⟨s1, he, hsame⟩ := deliverAt_same s (ctx ++ [n + 1]) (.ok noneVal)
    obtain ⟨s', h1, h2⟩ := ih s1 hsame.tbl
    refine ⟨s', ?_, hsame.trans h2⟩
    simp only [run, handleWait_some _ hl, hst, if_true, he]; exact h1
  | @cbNew k ctx n t v r hl _ ih =>
    intro s hs
    subst hs
    obtain ⟨s1, he, hsame⟩ := handleCbNew_some hl
    obtain ⟨s', h1, h2⟩ := ih s1 hsame.tbl
    refine ⟨s', ?_, hsame.trans h2⟩
    simp only [run, he]; exact h1
  | @cbRes h k ctx n t v r o _ hl ho _ ih =>
    intro s hs
    subst hs
    have hsame := same_emit s (.deliver h o) rfl
    obtain ⟨s', h1, h2⟩ := ih _ hsame.tbl
    refine ⟨s', ?_, hsame.trans h2⟩
    simp only [run, handleCbRes_some hl, ho]; exact h1
  | @invoke pl k ctx n t v r o hl ho _ ih =>
    intro s hs
    subst hs
    obtain ⟨s1, he, hsame⟩ := deliverAt_same s (ctx ++ [n + 1]) o
    obtain ⟨s', h1, h2⟩ := ih s1 hsame.tbl
    refine ⟨s', ?_, hsame.trans h2⟩
    simp only [run, handleInvoke_some _ hl, ho, he]; exact h1
  | @wfc w k ctx n t v r hl hd _ ih =>
    intro s hs
    subst hs
    obtain ⟨s1, he, hsame⟩ := deliverAt_same s (ctx ++ [n + 1]) (outcomeOf r)
    obtain ⟨s', h1, h2⟩ := ih s1 hsame.tbl
    refine ⟨s', ?_, hsame.trans h2⟩
    simp only [run, handleWfc_done _ hl hd, he]; exact h1
  | @childDone c body k ctx n t v r hl hd hr _ ih =>
    intro s hs
    subst hs
    obtain ⟨s1, he, hsame⟩ := deliverAt_same s (ctx ++ [n + 1]) (outcomeOf r)
    obtain ⟨s', h1, h2⟩ := ih s1 hsame.tbl
    refine ⟨s', ?_, hsame.trans h2⟩
    simp only [run, childBefore_done hl hd hr, he]; exact h1
  | @childReplay c body k ctx n t v r v' hl hst hr _ _ ih1 ih2 =>
    intro s hs
    subst hs
    have hsame0 := same_emit s (.enter (ctx ++ [n + 1]) .context 0 none) rfl
    obtain ⟨s2, hb, hsame2⟩ := ih1 _ hsame0.tbl
    obtain ⟨s3, he, hsame3⟩ := deliverAt_same s2 (ctx ++ [n + 1]) (.ok v')
    have h03 := (hsame0.trans hsame2).trans hsame3
    obtain ⟨s', h1, h2⟩ := ih2 s3 h03.tbl
    refine ⟨s', ?_, h03.trans h2⟩
    simp only [run, childBefore_replay hl hst hr, hb, childAfter, if_true, he]; exact h1


/-! ## Child contexts: START and completion -/

/-- Tables the child-context handler may produce at `(ctx, n)`. -/
def ChildNode (body : Prog) (ctx : Pos) (n : Nat) (t : Tbl) : Prop :=
  ∃ r, lookup t (ctx ++ [n + 1]) = some r ∧ r.kind = .context ∧ Untouched ctx (n + 1) t ∧
    ((r.status = .started ∧ Compat body (ctx ++ [n + 1]) 0 t) ∨
     (Done r = true ∧ (r.status = .succeeded → r.replayChildren = false)) ∨
     (r.status = .succeeded ∧ r.replayChildren = true ∧ ∃ v, Returns body (ctx ++ [n + 1]) 0 t v))

theorem ChildNode.compat {c : ChildSpec} {body : Prog} {k : Outcome → Prog} {ctx : Pos} {n : Nat} {t : Tbl}
    (h : ChildNode body ctx n t) : Compat (.child c body k) ctx n t := by
  obtain ⟨r, hl, hk, hu, h | h | h⟩ := h
  · exact .childActive hl hk h.1 h.2 hu
  · exact .childDone hl h.1 h.2 (.fresh hu)
  · obtain ⟨hs, hr, v, hv⟩ := h
    exact .childReplay hl hs hr hv (.fresh hu)

theorem Untouched.child_upsert {ctx : Pos} {n m : Nat} {t : Tbl} (h : Untouched ctx n t) (r : OpRec) :
    Untouched (ctx ++ [n + 1]) m (Engine.upsert t (ctx ++ [n + 1]) r) := by
  intro p hp
  have hne : p ≠ ctx ++ [n + 1] := fun he => not_inRegion_self _ m (he ▸ hp)
  rw [lookup_upsert_ne t r hne]; exact h.child p hp

theorem childBefore_fresh {G : Tbl → Prop} {body : Prog} {ctx : Pos} {n : Nat} {s : St}
    (hc : CrashG G s) (hctx : CtxOk ctx s.tbl) (hu : Untouched ctx n s.tbl)
    (hg : NodeG G (ChildNode body ctx n) ctx n s) :
    match childBefore s (ctx ++ [n + 1]) with
    | .inl (.deliver _ _) => False
    | .inl (.stop e s1) => Step G ctx n s s1 ∧ ∀ v, e ≠ .returned v
    | .inr (s1, rm) => rm = false ∧ Step G ctx n s s1 ∧
        (∃ rt, lookup s1.tbl (ctx ++ [n + 1]) = some rt ∧ rt.kind = .context ∧ rt.status = .started) ∧
        Untouched (ctx ++ [n + 1]) 0 s1.tbl ∧ Untouched ctx (n + 1) s1.tbl := by
  have hp := parentOk_of_ctxOk hctx (n + 1)
  have hl := hu.self
  have hext := ext_upsert (ctx := ctx) (n := n) (t := s.tbl) (r' := Backend.startRec .context (s.imm (ctx ++ [n + 1])))
    (fun r0 h0 => by rw [hl] at h0; cases h0)
  have hck := checkpoint_ok hc (apply_start_absent (u := { pos := ctx ++ [n + 1], kind := .context, action := .start, sync := false }) hp hl rfl) hext
    (hg _ hext ⟨_, lookup_upsert_same _ _ _, by rw [startRec_context], hu.succ.upsert _,
      Or.inl ⟨by rw [startRec_context], .fresh (hu.child_upsert _)⟩⟩)
  unfold childBefore
  rw [hl]
  simp only []
  cases hres : checkpoint s { pos := ctx ++ [n + 1], kind := .context, action := .start, sync := false } with
  | error x =>
    obtain ⟨en, s1⟩ := x
    rw [hres] at hck
    exact ⟨hck.1, isCrash_ne hck.2⟩
  | ok s1 =>
    rw [hres] at hck
    obtain ⟨hstep, htbl⟩ := hck
    have hsame := same_emit s1 (.enter (ctx ++ [n + 1]) .context 0 none) rfl
    refine ⟨rfl, hstep.trans (Step.of_same ctx n hstep.crash hsame),
      ⟨Backend.startRec .context (s.imm (ctx ++ [n + 1])), ?_, ?_, ?_⟩, ?_, ?_⟩
    · rw [hsame.tbl, htbl]; exact lookup_upsert_same _ _ _
    · rw [startRec_context]
    · rw [startRec_context]
    · rw [hsame.tbl, htbl]; exact hu.child_upsert _
    · rw [hsame.tbl, htbl]; exact hu.succ.upsert _

/-- What the completion of a child context may deliver, relative to the record it leaves. -/
def ChildDeliv (body : Prog) (q : Pos) (t : Tbl) (o : Outcome) (r' : OpRec) : Prop :=
  (Done r' = true ∧ (r'.status = .succeeded → r'.replayChildren = false) ∧
    (o = outcomeOf r' ∨ ∃ ex, ex.inv = true ∧ o = .err ex ∧ outcomeOf r' = canonErr ex)) ∨
  (r'.status = .succeeded ∧ r'.replayChildren = true ∧ ∃ v, o = .ok v ∧ Returns body q 0 t v)

def CPost (G : Tbl → Prop) (body : Prog) (ctx : Pos) (n : Nat) (s : St) : HRes → Prop
  | .deliver o s1 => Step G ctx n s s1 ∧ Untouched ctx (n + 1) s1.tbl ∧
      ∃ r', lookup s1.tbl (ctx ++ [n + 1]) = some r' ∧ ChildDeliv body (ctx ++ [n + 1]) s1.tbl o r'
  | .stop e s1 => Step G ctx n s s1 ∧ ∀ v, e ≠ .returned v

theorem cdeliver_post {G body ctx n s0 s} {o : Outcome} {r' : OpRec}
    (hs : Step G ctx n s0 s) (hu : Untouched ctx (n + 1) s.tbl)
    (hl : lookup s.tbl (ctx ++ [n + 1]) = some r') (hD : ChildDeliv body (ctx ++ [n + 1]) s.tbl o r') :
    CPost G body ctx n s0 (deliverAt s (ctx ++ [n + 1]) o) := by
  obtain ⟨s', he, hsame⟩ := deliverAt_same s (ctx ++ [n + 1]) o
  rw [he]
  exact ⟨hs.trans (Step.of_same ctx n hs.crash hsame), by rw [hsame.tbl]; exact hu,
    r', by rw [hsame.tbl]; exact hl, by rw [hsame.tbl]; exact hD⟩

theorem childAfter_ok {G : Tbl → Prop} {body : Prog} {ctx : Pos} {n : Nat} {s : St} (c : ChildSpec) (e : End)
    {rt : OpRec}
    (hc : CrashG G s) (hctx : CtxOk ctx s.tbl) (hl : lookup s.tbl (ctx ++ [n + 1]) = some rt)
    (hk : rt.kind = .context) (hst : rt.status = .started)
    (hu : Untouched ctx (n + 1) s.tbl) (hg : NodeG G (ChildNode body ctx n) ctx n s)
    (hret : ∀ v, e = .returned v → Returns body (ctx ++ [n + 1]) 0 s.tbl v) :
    CPost G body ctx n s (childAfter s (ctx ++ [n + 1]) c false e) := by
  have hp := parentOk_of_ctxOk hctx (n + 1)
  have hnt : rt.status.terminal = false := by rw [hst]; rfl
  have hold : ∀ {r' : OpRec}, r'.kind = rt.kind → ∀ r0, lookup s.tbl (ctx ++ [n + 1]) = some r0 →
      r0.status.terminal = false ∧ r'.kind = r0.kind := by
    intro r' hr' r0 h0; rw [hl] at h0; cases h0; exact ⟨hnt, hr'⟩
  have herr : ∀ en s1, Step G ctx n s s1 → isCrash en → CPost G body ctx n s (.stop en s1) :=
    fun en s1 hs1 hcr => ⟨hs1, isCrash_ne hcr⟩
  cases e with
  | returned v =>
    have hrv := hret v rfl
    simp only [childAfter, Bool.false_eq_true, if_false]
    by_cases hlarge : c.large v = true
    · simp only [hlarge, if_true]
      have hext := ext_upsert (ctx := ctx) (n := n) (hold (r' := succRec rt (some (c.summary v)) true) rfl)
      have hrv' : Returns body (ctx ++ [n + 1]) 0
          (upsert s.tbl (ctx ++ [n + 1]) (succRec rt (some (c.summary v)) true)) v := hrv.mono hext.1
      refine ckpt_bind hc (apply_succeed hp hl rfl hk (Or.inl hst) (Or.inr (Or.inr rfl))) hext
        (hg _ hext ⟨_, lookup_upsert_same _ _ _, hk, hu.upsert _, Or.inr (Or.inr ⟨rfl, rfl, v, hrv'⟩)⟩) ?_ (herr)
      intro s1 hstep htbl
      exact cdeliver_post (r' := succRec rt (some (c.summary v)) true) hstep (by rw [htbl]; exact hu.upsert _)
        (by rw [htbl]; exact lookup_upsert_same _ _ _) (Or.inr ⟨rfl, rfl, v, rfl, by rw [htbl]; exact hrv'⟩)
    · have hlarge : c.large v = false := by simpa using hlarge
      simp only [hlarge, Bool.false_eq_true, if_false]
      have hext := ext_upsert (ctx := ctx) (n := n) (hold (r' := succRec rt (some v) false) rfl)
      refine ckpt_bind hc (apply_succeed hp hl rfl hk (Or.inl hst) (Or.inr (Or.inr rfl))) hext
        (hg _ hext ⟨_, lookup_upsert_same _ _ _, hk, hu.upsert _, Or.inr (Or.inl ⟨rfl, fun _ => rfl⟩)⟩) ?_ (herr)
      intro s1 hstep htbl
      exact cdeliver_post (r' := succRec rt (some v) false) hstep (by rw [htbl]; exact hu.upsert _)
        (by rw [htbl]; exact lookup_upsert_same _ _ _)
        (Or.inl ⟨rfl, fun _ => rfl, Or.inl (outcomeOf_succRec _ _ _).symm⟩)
  | raised ex =>
    simp only [childAfter]
    have hext := ext_upsert (ctx := ctx) (n := n) (hold (r' := failRec rt (some (ErrObj.ofExc ex))) rfl)
    refine ckpt_bind hc (apply_fail hp hl rfl hk (Or.inl hst) (Or.inr (Or.inr rfl))) hext
      (hg _ hext ⟨_, lookup_upsert_same _ _ _, hk, hu.upsert _,
        Or.inr (Or.inl ⟨rfl, fun h => by simp [failRec] at h⟩)⟩) ?_ (herr)
    intro s1 hstep htbl
    have hl1 : lookup s1.tbl (ctx ++ [n + 1]) = some (failRec rt (some (ErrObj.ofExc ex))) := by
      rw [htbl]; exact lookup_upsert_same _ _ _
    have hu1 : Untouched ctx (n + 1) s1.tbl := by rw [htbl]; exact hu.upsert _
    split
    · rename_i hinv
      exact cdeliver_post hstep hu1 hl1
        (Or.inl ⟨rfl, fun h => by simp [failRec] at h, Or.inr ⟨ex, hinv, rfl, outcomeOf_failRec _ _⟩⟩)
    · exact cdeliver_post hstep hu1 hl1
        (Or.inl ⟨rfl, fun h => by simp [failRec] at h, Or.inl (outcomeOf_failRec _ _).symm⟩)
  | suspended d => exact ⟨Step.refl ctx n hc, fun v hv => by cases hv⟩
  | crashed => exact ⟨Step.refl ctx n hc, fun v hv => by cases hv⟩
  | ckptFailed => exact ⟨Step.refl ctx n hc, fun v hv => by cases hv⟩


/-! ## The induction on programs -/

/-- The statement proved by induction on the program: running the fragment on a compatible table
sends only accepted updates, stays inside its region, keeps every table the backend may be left with
inside `G`, and a returning run leaves a complete traversal. -/
def RunOk (p : Prog) : Prop :=
  ∀ (ctx : Pos) (n : Nat) (s : St) (G : Tbl → Prop), Scoped p ctx n → CrashG G s → CtxOk ctx s.tbl →
    PastOk ctx n s.tbl → Compat p ctx n s.tbl → NodeG G (Compat p ctx n) ctx n s →
    Step G ctx n s (run p ctx n s).2 ∧
    ∀ v, (run p ctx n s).1 = .returned v → Returns p ctx n (run p ctx n s).2.tbl v

theorem Step.same_left {G : Tbl → Prop} {ctx : Pos} {n : Nat} {s s0 s1 : St} (h : Same s s0)
    (hs : Step G ctx n s0 s1) : Step G ctx n s s1 :=
  ⟨hs.crash, by rw [← h.tbl]; exact hs.ext, h.trace.trans hs.trace⟩

theorem Ext.at_self {ctx : Pos} {n : Nat} {t t' : Tbl} (h : Ext ctx (n + 1) t t') :
    lookup t' (ctx ++ [n + 1]) = lookup t (ctx ++ [n + 1]) := h.2 _ (not_inRegion_self_succ ctx n)

/-- The continuation after the operation at `(ctx, n)` has delivered. -/
theorem cont_ok {P kp : Prog} {G : Tbl → Prop} {ctx : Pos} {n : Nat} {s s1 : St} (ih : RunOk kp)
    (hsc : Scoped kp ctx (n + 1)) (hstep : Step G ctx n s s1) (hctx : CtxOk ctx s.tbl)
    (hpast : PastOk ctx n s.tbl) (hrec : ∃ r', lookup s1.tbl (ctx ++ [n + 1]) = some r')
    (hcompat : Compat kp ctx (n + 1) s1.tbl) (hg : NodeG G (Compat P ctx n) ctx n s)
    (hnode : ∀ t', Ext ctx (n + 1) s1.tbl t' → Compat kp ctx (n + 1) t' → Compat P ctx n t')
    (hret : ∀ t' v, Ext ctx (n + 1) s1.tbl t' → Returns kp ctx (n + 1) t' v → Returns P ctx n t' v) :
    Step G ctx n s (run kp ctx (n + 1) s1).2 ∧
    ∀ v, (run kp ctx (n + 1) s1).1 = .returned v → Returns P ctx n (run kp ctx (n + 1) s1).2.tbl v := by
  obtain ⟨r', hl1⟩ := hrec
  have := ih ctx (n + 1) s1 G hsc hstep.crash (hctx.mono hstep.ext.1) ((hpast.mono hstep.ext.1).succ hl1) hcompat
    (fun t' he hc' => hg t' (hstep.ext.trans he.succ) (hnode t' he hc'))
  exact ⟨hstep.trans this.1.succ, fun v hv => hret _ v this.1.ext (this.2 v hv)⟩

/-- The part of a child-context call after `childBefore` decided to run the body. -/
def childTail (c : ChildSpec) (body : Prog) (k : Outcome → Prog) (ctx : Pos) (n : Nat) (s1 : St) (rm : Bool) :
    End × St :=
  match childAfter (run body (ctx ++ [n + 1]) 0 s1).2 (ctx ++ [n + 1]) c rm (run body (ctx ++ [n + 1]) 0 s1).1 with
  | .deliver o s' => run (k o) ctx (n + 1) s'
  | .stop e s' => (e, s')

theorem run_child (c : ChildSpec) (body : Prog) (k : Outcome → Prog) (ctx : Pos) (n : Nat) (s : St) :
    run (.child c body k) ctx n s =
      match childBefore s (ctx ++ [n + 1]) with
      | .inl (.deliver o s') => run (k o) ctx (n + 1) s'
      | .inl (.stop e s') => (e, s')
      | .inr (s1, rm) => childTail c body k ctx n s1 rm := by
  simp only [run, childTail]
  rcases childBefore s (ctx ++ [n + 1]) with (_ | _) | ⟨_, _⟩ <;> rfl

theorem run_ok (p : Prog) : RunOk p := by
  induction p with
  | ret v =>
    intro ctx n s G _ hc _ _ _ _
    simp only [run]
    exact ⟨Step.refl ctx n hc, fun v' hv => by cases hv; exact .ret⟩
  | raise e =>
    intro ctx n s G _ hc _ _ _ _
    simp only [run]
    exact ⟨Step.refl ctx n hc, fun v' hv => by cases hv⟩
  | log m k ih =>
    intro ctx n s G hsc hc hctx hpast hcompat hg
    cases hsc with | log hsk =>
    simp only [run]
    have hsame := same_doLog s ctx m
    have hck : Compat k ctx n s.tbl := by
      cases hcompat with
      | fresh hu => exact .fresh hu
      | log h => exact h
    have := ih ctx n (doLog s ctx m) G hsk (hc.same hsame) hctx hpast hck (fun t' he hc' => hg t' he (.log hc'))
    exact ⟨Step.same_left hsame this.1, fun v hv => .log (this.2 v hv)⟩
  | step sp k ih =>
    intro ctx n s G hsc hc hctx hpast hcompat hg
    cases hsc with | step hsk hstab =>
    simp only [run]
    have hlive : ∀ (_ : lookup s.tbl (ctx ++ [n + 1]) = none ∨
          ∃ rt, lookup s.tbl (ctx ++ [n + 1]) = some rt ∧ rt.kind = .step ∧ ActiveSt rt)
        (_ : Untouched ctx (n + 1) s.tbl),
        Step G ctx n s (match handleStep s (ctx ++ [n + 1]) sp with
          | .deliver o s => run (k o) ctx (n + 1) s
          | .stop e s => (e, s)).2 ∧
        ∀ v, (match handleStep s (ctx ++ [n + 1]) sp with
          | .deliver o s => run (k o) ctx (n + 1) s
          | .stop e s => (e, s)).1 = .returned v →
          Returns (.step sp k) ctx n (match handleStep s (ctx ++ [n + 1]) sp with
          | .deliver o s => run (k o) ctx (n + 1) s
          | .stop e s => (e, s)).2.tbl v := by
      intro hl hu
      have hg' : NodeG G (StepNode (Untouched ctx (n + 1)) .step ctx n) ctx n s := fun t' he hn => hg t' he (by
        obtain ⟨r, hl, hk, ha | hd, hu⟩ := hn
        · exact .stepActive hl hk ha hu
        · exact .stepDone hl hd (.fresh hu))
      have hpost := handleStep_live sp hc hctx hl (upsertStable_untouched ctx n) hu hg'
      cases hres : handleStep s (ctx ++ [n + 1]) sp with
      | stop e s1 =>
        rw [hres] at hpost
        exact ⟨hpost.1, fun v hv => absurd hv (hpost.2 v)⟩
      | deliver o s1 =>
        rw [hres] at hpost
        obtain ⟨hstep, hu1, r', hl1, hk1, hd1, hD⟩ := hpost
        have hsim : Sim (k o) (k (outcomeOf r')) := by
          rcases hD with h | ⟨e, hinv, hsrc, ho, hr⟩
          · rw [h]; exact Sim.refl _
          · rw [ho, hr]; exact hstab e hinv hsrc
        exact cont_ok (P := .step sp k) (ih o) (hsk o) hstep hctx hpast ⟨r', hl1⟩ (.fresh hu1) hg
          (fun t' he hc' => .stepDone (by rw [he.at_self]; exact hl1) hd1 ((hsim _ _ _).1 hc'))
          (fun t' v he hr => .step (by rw [he.at_self]; exact hl1) hd1 ((hsim _ _ _).2 _ hr))
    cases hcompat with
    | fresh hu => exact hlive (Or.inl hu.self) hu.succ
    | stepActive hl hk ha hu => exact hlive (Or.inr ⟨_, hl, hk, ha⟩) hu
    | @stepDone _ _ _ _ _ r hl hd hc' =>
      rw [handleStep_done sp hl hd]
      obtain ⟨s1, he, hsame⟩ := deliverAt_same s (ctx ++ [n + 1]) (outcomeOf r)
      rw [he]
      exact cont_ok (P := .step sp k) (ih _) (hsk _) (Step.of_same ctx n hc hsame) hctx hpast
        ⟨r, by rw [hsame.tbl]; exact hl⟩ (by rw [hsame.tbl]; exact hc') hg
        (fun t' he' hc'' => .stepDone (by rw [he'.at_self, hsame.tbl]; exact hl) hd hc'')
        (fun t' v he' hr => .step (by rw [he'.at_self, hsame.tbl]; exact hl) hd hr)
  | wait secs k ih =>
    intro ctx n s G hsc hc hctx hpast hcompat hg
    cases hsc with | wait hsk =>
    simp only [run]
    cases hcompat with
    | fresh hu =>
      have hg' : NodeG G (RecNode (Untouched ctx (n + 1)) ctx n) ctx n s := fun t' he hn => hg t' he (by
        obtain ⟨⟨r, hl⟩, hu⟩ := hn
        by_cases hs : r.status = .succeeded
        · exact .waitDone hl hs (.fresh hu)
        · exact .waitPark hl hs hu)
      have hpost := handleWait_fresh secs hc hctx hu.self (upsertStable_untouched ctx n) hu.succ hg'
      cases hres : handleWait s (ctx ++ [n + 1]) secs with
      | stop e s1 =>
        rw [hres] at hpost
        exact ⟨hpost.1, fun v hv => absurd hv (hpost.2 v)⟩
      | deliver o s1 =>
        rw [hres] at hpost
        obtain ⟨hstep, hu1, r', hl1, hs1⟩ := hpost
        exact cont_ok (P := .wait secs k) ih hsk hstep hctx hpast ⟨r', hl1⟩ (.fresh hu1) hg
          (fun t' he hc' => .waitDone (by rw [he.at_self]; exact hl1) hs1 hc')
          (fun t' v he hr => .wait (by rw [he.at_self]; exact hl1) hs1 hr)
    | waitPark hl hne hu =>
      rw [handleWait_some secs hl, if_neg hne]
      exact ⟨Step.refl ctx n hc, fun v hv => by cases hv⟩
    | @waitDone _ _ _ _ _ r hl hs hc' =>
      rw [handleWait_some secs hl, if_pos hs]
      obtain ⟨s1, he, hsame⟩ := deliverAt_same s (ctx ++ [n + 1]) (.ok noneVal)
      rw [he]
      exact cont_ok (P := .wait secs k) ih hsk (Step.of_same ctx n hc hsame) hctx hpast
        ⟨r, by rw [hsame.tbl]; exact hl⟩ (by rw [hsame.tbl]; exact hc') hg
        (fun t' he' hc'' => .waitDone (by rw [he'.at_self, hsame.tbl]; exact hl) hs hc'')
        (fun t' v he' hr => .wait (by rw [he'.at_self, hsame.tbl]; exact hl) hs hr)
  | cbNew k ih =>
    intro ctx n s G hsc hc hctx hpast hcompat hg
    cases hsc with | cbNew hsk =>
    simp only [run]
    cases hcompat with
    | fresh hu =>
      have hg' : NodeG G (RecNode (Untouched ctx (n + 1)) ctx n) ctx n s := fun t' he hn => hg t' he (by
        obtain ⟨⟨r, hl⟩, hu⟩ := hn
        exact .cbNew hl (.fresh hu))
      have hpost := handleCbNew_fresh hc hctx hu.self (upsertStable_untouched ctx n) hu.succ hg'
      cases hres : handleCbNew s (ctx ++ [n + 1]) with
      | error x =>
        obtain ⟨e, s1⟩ := x
        rw [hres] at hpost
        exact ⟨hpost.1, fun v hv => absurd hv (hpost.2 v)⟩
      | ok s1 =>
        rw [hres] at hpost
        obtain ⟨hstep, hu1, r', hl1⟩ := hpost
        exact cont_ok (P := .cbNew k) (ih _) hsk hstep hctx hpast ⟨r', hl1⟩ (.fresh hu1) hg
          (fun t' he hc' => .cbNew (by rw [he.at_self]; exact hl1) hc')
          (fun t' v he hr => .cbNew (by rw [he.at_self]; exact hl1) hr)
    | @cbNew _ _ _ _ r hl hc' =>
      obtain ⟨s1, he, hsame⟩ := handleCbNew_some hl
      rw [he]
      exact cont_ok (P := .cbNew k) (ih _) hsk (Step.of_same ctx n hc hsame) hctx hpast
        ⟨r, by rw [hsame.tbl]; exact hl⟩ (by rw [hsame.tbl]; exact hc') hg
        (fun t' he' hc'' => .cbNew (by rw [he'.at_self, hsame.tbl]; exact hl) hc'')
        (fun t' v he' hr => .cbNew (by rw [he'.at_self, hsame.tbl]; exact hl) hr)
  | cbRes h k ih =>
    intro ctx n s G hsc hc hctx hpast hcompat hg
    cases hsc with | cbRes hp hsk =>
    obtain ⟨r, hl⟩ := hpast h hp
    simp only [run, handleCbRes_some hl]
    cases ho : cbOut r with
    | none => exact ⟨Step.refl ctx n hc, fun v hv => by cases hv⟩
    | some o =>
      have hsame := same_emit s (.deliver h o) rfl
      have hck : Compat (k o) ctx n s.tbl := by
        cases hcompat with
        | fresh hu => exact .fresh hu
        | cbResPark _ hl' ho' hu => rw [hl] at hl'; cases hl'; rw [ho] at ho'; cases ho'
        | cbResDone _ hl' ho' hc' => rw [hl] at hl'; cases hl'; rw [ho] at ho'; cases ho'; exact hc'
      have := ih o ctx n (emit s (.deliver h o)) G (hsk o) (hc.same hsame) hctx hpast hck
        (fun t' he hc' => hg t' he (.cbResDone hp (he.1.keep hl (cbOut_terminal ho)) ho hc'))
      exact ⟨Step.same_left hsame this.1,
        fun v hv => .cbRes hp (this.1.ext.1.keep hl (cbOut_terminal ho)) ho (this.2 v hv)⟩
  | invoke pl k ih =>
    intro ctx n s G hsc hc hctx hpast hcompat hg
    cases hsc with | invoke hsk =>
    simp only [run]
    cases hcompat with
    | fresh hu =>
      have hg' : NodeG G (RecNode (Untouched ctx (n + 1)) ctx n) ctx n s := fun t' he hn => hg t' he (by
        obtain ⟨⟨r, hl⟩, hu⟩ := hn
        cases hio : invOut r with
        | none => exact .invokePark hl hio hu
        | some o => exact .invokeDone hl hio (.fresh hu))
      have hpost := handleInvoke_fresh pl hc hctx hu.self (upsertStable_untouched ctx n) hu.succ hg'
      cases hres : handleInvoke s (ctx ++ [n + 1]) pl with
      | stop e s1 =>
        rw [hres] at hpost
        exact ⟨hpost.1, fun v hv => absurd hv (hpost.2 v)⟩
      | deliver o s1 =>
        rw [hres] at hpost
        obtain ⟨hstep, hu1, r', hl1, ho1⟩ := hpost
        exact cont_ok (P := .invoke pl k) (ih o) (hsk o) hstep hctx hpast ⟨r', hl1⟩ (.fresh hu1) hg
          (fun t' he hc' => .invokeDone (by rw [he.at_self]; exact hl1) ho1 hc')
          (fun t' v he hr => .invoke (by rw [he.at_self]; exact hl1) ho1 hr)
    | invokePark hl ho hu =>
      rw [handleInvoke_some pl hl, ho]
      exact ⟨Step.refl ctx n hc, fun v hv => by cases hv⟩
    | @invokeDone _ _ _ _ _ r o hl ho hc' =>
      rw [handleInvoke_some pl hl, ho]
      obtain ⟨s1, he, hsame⟩ := deliverAt_same s (ctx ++ [n + 1]) o
      simp only [he]
      exact cont_ok (P := .invoke pl k) (ih o) (hsk o) (Step.of_same ctx n hc hsame) hctx hpast
        ⟨r, by rw [hsame.tbl]; exact hl⟩ (by rw [hsame.tbl]; exact hc') hg
        (fun t' he' hc'' => .invokeDone (by rw [he'.at_self, hsame.tbl]; exact hl) ho hc'')
        (fun t' v he' hr => .invoke (by rw [he'.at_self, hsame.tbl]; exact hl) ho hr)
  | wfc w k ih =>
    intro ctx n s G hsc hc hctx hpast hcompat hg
    cases hsc with | wfc hsk hstab =>
    simp only [run]
    have hlive : ∀ (_ : lookup s.tbl (ctx ++ [n + 1]) = none ∨
          ∃ rt, lookup s.tbl (ctx ++ [n + 1]) = some rt ∧ rt.kind = .wfc ∧ ActiveSt rt)
        (_ : Untouched ctx (n + 1) s.tbl),
        Step G ctx n s (match handleWfc s (ctx ++ [n + 1]) w with
          | .deliver o s => run (k o) ctx (n + 1) s
          | .stop e s => (e, s)).2 ∧
        ∀ v, (match handleWfc s (ctx ++ [n + 1]) w with
          | .deliver o s => run (k o) ctx (n + 1) s
          | .stop e s => (e, s)).1 = .returned v →
          Returns (.wfc w k) ctx n (match handleWfc s (ctx ++ [n + 1]) w with
          | .deliver o s => run (k o) ctx (n + 1) s
          | .stop e s => (e, s)).2.tbl v := by
      intro hl hu
      have hg' : NodeG G (StepNode (Untouched ctx (n + 1)) .wfc ctx n) ctx n s := fun t' he hn => hg t' he (by
        obtain ⟨r, hl, hk, ha | hd, hu⟩ := hn
        · exact .wfcActive hl hk ha hu
        · exact .wfcDone hl hd (.fresh hu))
      have hpost := handleWfc_live w hc hctx hl (upsertStable_untouched ctx n) hu hg'
      cases hres : handleWfc s (ctx ++ [n + 1]) w with
      | stop e s1 =>
        rw [hres] at hpost
        exact ⟨hpost.1, fun v hv => absurd hv (hpost.2 v)⟩
      | deliver o s1 =>
        rw [hres] at hpost
        obtain ⟨hstep, hu1, r', hl1, hk1, hd1, hD⟩ := hpost
        have hsim : Sim (k o) (k (outcomeOf r')) := by
          rcases hD with h | ⟨e, st, a, hsrc, ho, hr⟩
          · rw [h]; exact Sim.refl _
          · rw [ho, hr]; exact hstab e st a hsrc
        exact cont_ok (P := .wfc w k) (ih o) (hsk o) hstep hctx hpast ⟨r', hl1⟩ (.fresh hu1) hg
          (fun t' he hc' => .wfcDone (by rw [he.at_self]; exact hl1) hd1 ((hsim _ _ _).1 hc'))
          (fun t' v he hr => .wfc (by rw [he.at_self]; exact hl1) hd1 ((hsim _ _ _).2 _ hr))
    cases hcompat with
    | fresh hu => exact hlive (Or.inl hu.self) hu.succ
    | wfcActive hl hk ha hu => exact hlive (Or.inr ⟨_, hl, hk, ha⟩) hu
    | @wfcDone _ _ _ _ _ r hl hd hc' =>
      rw [handleWfc_done w hl hd]
      obtain ⟨s1, he, hsame⟩ := deliverAt_same s (ctx ++ [n + 1]) (outcomeOf r)
      rw [he]
      exact cont_ok (P := .wfc w k) (ih _) (hsk _) (Step.of_same ctx n hc hsame) hctx hpast
        ⟨r, by rw [hsame.tbl]; exact hl⟩ (by rw [hsame.tbl]; exact hc') hg
        (fun t' he' hc'' => .wfcDone (by rw [he'.at_self, hsame.tbl]; exact hl) hd hc'')
        (fun t' v he' hr => .wfc (by rw [he'.at_self, hsame.tbl]; exact hl) hd hr)
  | child c body k ihb ihk =>
    intro ctx n s G hsc hc hctx hpast hcompat hg
    cases hsc with | child hsb hsk hstab =>
    rw [run_child]
    have hgN : NodeG G (ChildNode body ctx n) ctx n s := fun t' he hn => hg t' he hn.compat
    have hcont : ∀ s3 o r', Step G ctx n s s3 → Untouched ctx (n + 1) s3.tbl →
        lookup s3.tbl (ctx ++ [n + 1]) = some r' → ChildDeliv body (ctx ++ [n + 1]) s3.tbl o r' →
        Step G ctx n s (run (k o) ctx (n + 1) s3).2 ∧
        ∀ v, (run (k o) ctx (n + 1) s3).1 = .returned v →
          Returns (.child c body k) ctx n (run (k o) ctx (n + 1) s3).2.tbl v := by
      intro s3 o r' hstep hu3 hl3 hD
      rcases hD with ⟨hd, hnr, hdel⟩ | ⟨hs, hr, v, ho, hrv⟩
      · have hsim : Sim (k o) (k (outcomeOf r')) := by
          rcases hdel with h | ⟨ex, hinv, ho, hr⟩
          · rw [h]; exact Sim.refl _
          · rw [ho, hr]; exact hstab ex hinv
        exact cont_ok (P := .child c body k) (ihk o) (hsk o) hstep hctx hpast ⟨r', hl3⟩ (.fresh hu3) hg
          (fun t' he hc' => .childDone (by rw [he.at_self]; exact hl3) hd hnr ((hsim _ _ _).1 hc'))
          (fun t' v he hr => .childDone (by rw [he.at_self]; exact hl3) hd hnr ((hsim _ _ _).2 _ hr))
      · subst ho
        exact cont_ok (P := .child c body k) (ihk _) (hsk _) hstep hctx hpast ⟨r', hl3⟩ (.fresh hu3) hg
          (fun t' he hc' => .childReplay (by rw [he.at_self]; exact hl3) hs hr (hrv.mono he.1) hc')
          (fun t' v' he hr' => .childReplay (by rw [he.at_self]; exact hl3) hs hr (hrv.mono he.1) hr')
    have hbody : ∀ s1 rt, Step G ctx n s s1 → lookup s1.tbl (ctx ++ [n + 1]) = some rt → rt.kind = .context →
        rt.status = .started → Compat body (ctx ++ [n + 1]) 0 s1.tbl → Untouched ctx (n + 1) s1.tbl →
        Step G ctx n s (childTail c body k ctx n s1 false).2 ∧
        ∀ v, (childTail c body k ctx n s1 false).1 = .returned v →
          Returns (.child c body k) ctx n (childTail c body k ctx n s1 false).2.tbl v := by
      intro s1 rt hstep hl1 hk1 hs1 hcb hu1
      obtain ⟨hstep2, hret2⟩ := ihb (ctx ++ [n + 1]) 0 s1 G hsb hstep.crash (Or.inr ⟨rt, hl1, hk1⟩)
        ((hpast.mono hstep.ext.1).child) hcb
        (fun t' he hc' => hg t' (hstep.ext.trans he.child)
          (.childActive (by rw [he.2 _ (not_inRegion_self _ 0)]; exact hl1) hk1 hs1 hc' (hu1.frame_child he.2)))
      have hstep02 := hstep.trans hstep2.child
      have hpostA := childAfter_ok (body := body) c (run body (ctx ++ [n + 1]) 0 s1).1 hstep2.crash
        (hctx.mono hstep02.ext.1) (by rw [hstep2.ext.2 _ (not_inRegion_self _ 0)]; exact hl1) hk1 hs1
        (hu1.frame_child hstep2.ext.2) (hgN.step hstep02) hret2
      unfold childTail
      cases hres : childAfter (run body (ctx ++ [n + 1]) 0 s1).2 (ctx ++ [n + 1]) c false
          (run body (ctx ++ [n + 1]) 0 s1).1 with
      | stop e s3 =>
        rw [hres] at hpostA
        exact ⟨hstep02.trans hpostA.1, fun v hv => absurd hv (hpostA.2 v)⟩
      | deliver o s3 =>
        rw [hres] at hpostA
        obtain ⟨hstep3, hu3, r', hl3, hD⟩ := hpostA
        exact hcont s3 o r' (hstep02.trans hstep3) hu3 hl3 hD
    cases hcompat with
    | fresh hu =>
      have hpost := childBefore_fresh hc hctx hu hgN
      cases hres : childBefore s (ctx ++ [n + 1]) with
      | inl hr =>
        cases hr with
        | deliver o s1 => rw [hres] at hpost; exact hpost.elim
        | stop e s1 =>
          rw [hres] at hpost
          exact ⟨hpost.1, fun v hv => absurd hv (hpost.2 v)⟩
      | inr x =>
        obtain ⟨s1, rm⟩ := x
        rw [hres] at hpost
        obtain ⟨rfl, hstep, ⟨rt, hl1, hk1, hs1⟩, huq, hu1⟩ := hpost
        exact hbody s1 rt hstep hl1 hk1 hs1 (.fresh huq) hu1
    | childActive hl hk hs hcb hu =>
      rw [childBefore_started hl hs]
      have hsame := same_emit s (.enter (ctx ++ [n + 1]) .context 0 none) rfl
      exact hbody _ _ (Step.of_same ctx n hc hsame) hl hk hs hcb hu
    | @childDone _ _ _ _ _ _ r hl hd hnr hc' =>
      rw [childBefore_done hl hd hnr]
      obtain ⟨s1, he, hsame⟩ := deliverAt_same s (ctx ++ [n + 1]) (outcomeOf r)
      rw [he]
      exact cont_ok (P := .child c body k) (ihk _) (hsk _) (Step.of_same ctx n hc hsame) hctx hpast
        ⟨r, by rw [hsame.tbl]; exact hl⟩ (by rw [hsame.tbl]; exact hc') hg
        (fun t' he' hc'' => .childDone (by rw [he'.at_self, hsame.tbl]; exact hl) hd hnr hc'')
        (fun t' v he' hr => .childDone (by rw [he'.at_self, hsame.tbl]; exact hl) hd hnr hr)
    | @childReplay _ _ _ _ _ _ r v hl hs hr hrv hc' =>
      rw [childBefore_replay hl hs hr]
      have hsame0 := same_emit s (.enter (ctx ++ [n + 1]) .context 0 none) rfl
      obtain ⟨s2, hb, hsame2⟩ := run_of_returns hrv _ hsame0.tbl
      obtain ⟨s3, he, hsame3⟩ := deliverAt_same s2 (ctx ++ [n + 1]) (.ok v)
      have h03 := (hsame0.trans hsame2).trans hsame3
      simp only [childTail, hb, childAfter, if_true, he]
      exact cont_ok (P := .child c body k) (ihk _) (hsk _) (Step.of_same ctx n hc h03) hctx hpast
        ⟨r, by rw [h03.tbl]; exact hl⟩ (by rw [h03.tbl]; exact hc') hg
        (fun t' he' hc'' => .childReplay (by rw [he'.at_self, h03.tbl]; exact hl) hs hr
          (hrv.mono (by rw [← h03.tbl]; exact he'.1)) hc'')
        (fun t' v' he' hr' => .childReplay (by rw [he'.at_self, h03.tbl]; exact hl) hs hr
          (hrv.mono (by rw [← h03.tbl]; exact he'.1)) hr')


/-! ## Backend events (B3) preserve compatibility -/

/-- How timers and external parties may change a record. -/
def EvolveRec (r r' : OpRec) : Prop :=
  r' = r ∨ (r.status.terminal = false ∧ r'.kind = r.kind ∧ r.kind ≠ .context ∧
    ((r.kind = .step ∨ r.kind = .wfc) → r.status = .pending ∧ r'.status = .ready))

def Evolve (t t' : Tbl) : Prop :=
  ∀ p, (lookup t p = none ∧ lookup t' p = none) ∨
    ∃ r r', lookup t p = some r ∧ lookup t' p = some r' ∧ EvolveRec r r'

theorem evolve_upsert {t : Tbl} {pos : Pos} {r r' : OpRec} (hl : lookup t pos = some r)
    (h : r.status.terminal = false ∧ r'.kind = r.kind ∧ r.kind ≠ .context ∧
      ((r.kind = .step ∨ r.kind = .wfc) → r.status = .pending ∧ r'.status = .ready)) :
    Evolve t (upsert t pos r') := by
  intro p
  by_cases hp : p = pos
  · subst hp; exact Or.inr ⟨r, r', hl, lookup_upsert_same _ _ _, Or.inr h⟩
  · rw [lookup_upsert_ne t r' hp]
    cases hq : lookup t p with
    | none => exact Or.inl ⟨rfl, rfl⟩
    | some r0 => exact Or.inr ⟨r0, r0, rfl, rfl, Or.inl rfl⟩

theorem finish_kind (r : OpRec) (o : Backend.Immediate) : (Backend.finish r o).kind = r.kind := by
  cases o <;> rfl

theorem fire_evolve {t t' : Tbl} {ev : Backend.Event} (h : Backend.fire t ev = some t') : Evolve t t' := by
  cases ev with
  | retryReady p =>
    simp only [Backend.fire] at h
    cases hl : lookup t p with
    | none => rw [hl] at h; cases h
    | some r =>
      rw [hl] at h
      simp only [] at h
      split at h
      · rename_i hc
        cases h
        simp only [Bool.and_eq_true, Bool.or_eq_true, beq_iff_eq] at hc
        refine evolve_upsert hl ⟨by rw [hc.2]; rfl, rfl, ?_, fun _ => ⟨hc.2, rfl⟩⟩
        rcases hc.1 with h | h <;> rw [h] <;> simp
      · cases h
  | waitDone p =>
    simp only [Backend.fire] at h
    cases hl : lookup t p with
    | none => rw [hl] at h; cases h
    | some r =>
      rw [hl] at h
      simp only [] at h
      split at h
      · rename_i hc
        cases h
        simp only [Bool.and_eq_true, beq_iff_eq] at hc
        refine evolve_upsert hl ⟨by rw [hc.2]; rfl, rfl, by rw [hc.1]; simp, fun hk => ?_⟩
        rcases hk with hk | hk <;> rw [hc.1] at hk <;> cases hk
      · cases h
  | callbackDone p o =>
    simp only [Backend.fire] at h
    cases hl : lookup t p with
    | none => rw [hl] at h; cases h
    | some r =>
      rw [hl] at h
      simp only [] at h
      split at h
      · rename_i hc
        cases h
        simp only [Bool.and_eq_true, beq_iff_eq] at hc
        refine evolve_upsert hl ⟨by rw [hc.1.2]; rfl, finish_kind r o, by rw [hc.1.1]; simp, fun hk => ?_⟩
        rcases hk with hk | hk <;> rw [hc.1.1] at hk <;> cases hk
      · cases h
  | invokeDone p o =>
    simp only [Backend.fire] at h
    cases hl : lookup t p with
    | none => rw [hl] at h; cases h
    | some r =>
      rw [hl] at h
      simp only [] at h
      split at h
      · rename_i hc
        cases h
        simp only [Bool.and_eq_true, beq_iff_eq] at hc
        refine evolve_upsert hl ⟨by rw [hc.1.2]; rfl, finish_kind r o, by rw [hc.1.1]; simp, fun hk => ?_⟩
        rcases hk with hk | hk <;> rw [hc.1.1] at hk <;> cases hk
      · cases h

theorem Evolve.at {t t' : Tbl} (h : Evolve t t') {p : Pos} {r : OpRec} (hl : lookup t p = some r) :
    ∃ r', lookup t' p = some r' ∧ EvolveRec r r' := by
  rcases h p with ⟨h1, _⟩ | ⟨r0, r', h1, h2, h3⟩
  · rw [hl] at h1; cases h1
  · rw [hl] at h1; cases h1; exact ⟨r', h2, h3⟩

theorem Evolve.keep {t t' : Tbl} (h : Evolve t t') {p : Pos} {r : OpRec} (hl : lookup t p = some r)
    (ht : r.status.terminal = true) : lookup t' p = some r := by
  obtain ⟨r', hl', rfl | ⟨hnt, _⟩⟩ := h.at hl
  · exact hl'
  · rw [hnt] at ht; cases ht

theorem Evolve.mono {t t' : Tbl} (h : Evolve t t') : Mono t t' := by
  intro p r hl
  obtain ⟨r', hl', rfl | ⟨hnt, hk, _⟩⟩ := h.at hl
  · exact ⟨_, hl', rfl, fun _ => rfl⟩
  · exact ⟨r', hl', hk, fun ht => by rw [hnt] at ht; cases ht⟩

theorem Evolve.untouched {t t' : Tbl} (h : Evolve t t') {ctx : Pos} {n : Nat} (hu : Untouched ctx n t) :
    Untouched ctx n t' := by
  intro p hp
  rcases h p with ⟨_, h2⟩ | ⟨r0, r', h1, _⟩
  · exact h2
  · rw [hu p hp] at h1; cases h1

theorem EvolveRec.active {kd : Kind} {r r' : OpRec} (h : EvolveRec r r') (hk : r.kind = kd)
    (hkd : kd = .step ∨ kd = .wfc) (ha : ActiveSt r) : r'.kind = kd ∧ ActiveSt r' := by
  rcases h with rfl | ⟨_, hk', _, hst⟩
  · exact ⟨hk, ha⟩
  · exact ⟨hk'.trans hk, Or.inr (Or.inr (hst (by rw [hk]; exact hkd)).2)⟩

theorem compat_evolve {p : Prog} {ctx : Pos} {n : Nat} {t t' : Tbl} (h : Compat p ctx n t) (he : Evolve t t') :
    Compat p ctx n t' := by
  induction h with
  | fresh hu => exact .fresh (he.untouched hu)
  | log _ ih => exact .log (ih he)
  | stepActive hl hk ha hu =>
    obtain ⟨r', hl', hr⟩ := he.at hl
    obtain ⟨hk', ha'⟩ := hr.active hk (Or.inl rfl) ha
    exact .stepActive hl' hk' ha' (he.untouched hu)
  | stepDone hl hd _ ih => exact .stepDone (he.keep hl (done_terminal hd)) hd (ih he)
  | waitPark hl hne hu =>
    obtain ⟨r', hl', _⟩ := he.at hl
    by_cases hs : r'.status = .succeeded
    · exact .waitDone hl' hs (.fresh (he.untouched hu))
    · exact .waitPark hl' hs (he.untouched hu)
  | waitDone hl hs _ ih => exact .waitDone (he.keep hl (by rw [hs]; rfl)) hs (ih he)
  | cbNew hl _ ih =>
    obtain ⟨r', hl', _⟩ := he.at hl
    exact .cbNew hl' (ih he)
  | cbResPark hp hl ho hu =>
    obtain ⟨r', hl', _⟩ := he.at hl
    cases ho' : cbOut r' with
    | none => exact .cbResPark hp hl' ho' (he.untouched hu)
    | some o => exact .cbResDone hp hl' ho' (.fresh (he.untouched hu))
  | cbResDone hp hl ho _ ih => exact .cbResDone hp (he.keep hl (cbOut_terminal ho)) ho (ih he)
  | invokePark hl ho hu =>
    obtain ⟨r', hl', _⟩ := he.at hl
    cases ho' : invOut r' with
    | none => exact .invokePark hl' ho' (he.untouched hu)
    | some o => exact .invokeDone hl' ho' (.fresh (he.untouched hu))
  | invokeDone hl ho _ ih => exact .invokeDone (he.keep hl (invOut_terminal ho)) ho (ih he)
  | wfcActive hl hk ha hu =>
    obtain ⟨r', hl', hr⟩ := he.at hl
    obtain ⟨hk', ha'⟩ := hr.active hk (Or.inr rfl) ha
    exact .wfcActive hl' hk' ha' (he.untouched hu)
  | wfcDone hl hd _ ih => exact .wfcDone (he.keep hl (done_terminal hd)) hd (ih he)
  | childActive hl hk hs _ hu ih =>
    obtain ⟨r', hl', hr⟩ := he.at hl
    rcases hr with rfl | ⟨_, _, hne, _⟩
    · exact .childActive hl' hk hs (ih he) (he.untouched hu)
    · exact absurd hk hne
  | childDone hl hd hnr _ ih => exact .childDone (he.keep hl (done_terminal hd)) hd hnr (ih he)
  | childReplay hl hs hr hrv _ ih =>
    exact .childReplay (he.keep hl (by rw [hs]; rfl)) hs hr (hrv.mono he.mono) (ih he)

/-! ## The table handed out to an invocation (B6) -/

/-- The record at `a` is a completed context without ReplayChildren: its descendants are omitted. -/
def hides (t : Tbl) (a : Pos) : Bool :=
  match lookup t a with
  | some r => r.kind == .context && r.status.terminal && !r.replayChildren
  | none => false

theorem hidden_eq (t : Tbl) (p : Pos) : Exec.hidden t p = (Exec.ancestors p).any (hides t) := rfl

theorem mem_ancestors {a p : Pos} : a ∈ Exec.ancestors p ↔ ∃ k, 0 < k ∧ k < p.length ∧ a = p.take k := by
  unfold Exec.ancestors
  simp only [List.mem_filterMap, List.mem_range]
  constructor
  · rintro ⟨k, hk, h⟩
    by_cases hk0 : k = 0
    · simp [hk0] at h
    · simp only [hk0, if_false, Option.some.injEq] at h
      exact ⟨k, by omega, hk, h.symm⟩
  · rintro ⟨k, hk0, hk, rfl⟩
    exact ⟨k, hk, by simp [show k ≠ 0 by omega]⟩

/-- No enclosing context of the operations called in `ctx` (including `ctx` itself) hides them. -/
def CtxVis (t : Tbl) (ctx : Pos) : Prop := ∀ k, 0 < k → k ≤ ctx.length → hides t (ctx.take k) = false

theorem hidden_false_of {t : Tbl} {p : Pos} (h : ∀ k, 0 < k → k < p.length → hides t (p.take k) = false) :
    Exec.hidden t p = false := by
  rw [hidden_eq, List.any_eq_false]
  intro a ha
  obtain ⟨k, hk0, hk, rfl⟩ := mem_ancestors.mp ha
  simp [h k hk0 hk]

theorem CtxVis.hidden_child {t : Tbl} {ctx : Pos} (h : CtxVis t ctx) (i : Nat) :
    Exec.hidden t (ctx ++ [i]) = false := by
  apply hidden_false_of
  intro k hk0 hk
  simp only [List.length_append, List.length_cons, List.length_nil] at hk
  rw [List.take_append_of_le_length (by omega)]
  exact h k hk0 (by omega)

theorem CtxVis.child {t : Tbl} {ctx : Pos} (h : CtxVis t ctx) {i : Nat} (hi : hides t (ctx ++ [i]) = false) :
    CtxVis t (ctx ++ [i]) := by
  intro k hk0 hk
  simp only [List.length_append, List.length_cons, List.length_nil] at hk
  by_cases hkl : k ≤ ctx.length
  · rw [List.take_append_of_le_length hkl]; exact h k hk0 hkl
  · have : k = (ctx ++ [i]).length := by simp; omega
    rw [this, List.take_length]; exact hi

theorem CtxVis.past {t : Tbl} {ctx : Pos} (h : CtxVis t ctx) {p : Pos} {n : Nat} (hp : Past p ctx n) :
    Exec.hidden t p = false := by
  obtain ⟨c, j, rfl, _, hc | ⟨m, rest, hc, _⟩⟩ := hp
  · rw [hc.1]; exact h.hidden_child j
  · apply hidden_false_of
    intro k hk0 hk
    simp only [List.length_append, List.length_cons, List.length_nil] at hk
    rw [List.take_append_of_le_length (by omega)]
    have := h k hk0 (by rw [hc]; simp; omega)
    rw [hc, List.take_append_of_le_length (by omega)] at this
    exact this

theorem ctxVis_root (t : Tbl) : CtxVis t [] := by
  intro k hk0 hk
  simp at hk; omega

theorem lookup_filter (t : Tbl) (f : Pos → Bool) (p : Pos) :
    lookup (t.filter (fun e => f e.1)) p = if f p then lookup t p else none := by
  induction t with
  | nil => simp [lookup_nil]
  | cons e t ih =>
    by_cases he : e.1 = p
    · subst he
      by_cases hf : f e.1 = true
      · simp [hf, lookup_cons]
      · have hf' : f e.1 = false := by simpa using hf
        simp [hf', ih]
    · by_cases hf : f e.1 = true
      · simp [hf, lookup_cons, he, ih]
      · have hf' : f e.1 = false := by simpa using hf
        simp [hf', lookup_cons, he, ih]

theorem lookup_visible (t : Tbl) (p : Pos) :
    lookup (Exec.visible t) p = if Exec.hidden t p then none else lookup t p := by
  unfold Exec.visible
  rw [lookup_filter t (fun q => !(Exec.hidden t q)) p]
  cases Exec.hidden t p <;> simp

theorem lookup_visible_of {t : Tbl} {p : Pos} (h : Exec.hidden t p = false) :
    lookup (Exec.visible t) p = lookup t p := by
  rw [lookup_visible, h]; simp

theorem untouched_visible {t : Tbl} {ctx : Pos} {n : Nat} (h : Untouched ctx n t) :
    Untouched ctx n (Exec.visible t) := by
  intro p hp
  rw [lookup_visible]
  split
  · rfl
  · exact h p hp

theorem hides_false_of {t : Tbl} {a : Pos} {r : OpRec} (hl : lookup t a = some r)
    (h : r.status.terminal = false ∨ r.replayChildren = true) : hides t a = false := by
  unfold hides
  rw [hl]
  rcases h with h | h <;> simp [h]

theorem Returns.visible {p : Prog} {ctx : Pos} {n : Nat} {t : Tbl} {v : Val} (h : Returns p ctx n t v)
    (hv : CtxVis t ctx) : Returns p ctx n (Exec.visible t) v := by
  induction h with
  | ret => exact .ret
  | log _ ih => exact .log (ih hv)
  | step hl hd _ ih => exact .step (by rw [lookup_visible_of (hv.hidden_child _)]; exact hl) hd (ih hv)
  | wait hl hs _ ih => exact .wait (by rw [lookup_visible_of (hv.hidden_child _)]; exact hl) hs (ih hv)
  | cbNew hl _ ih => exact .cbNew (by rw [lookup_visible_of (hv.hidden_child _)]; exact hl) (ih hv)
  | cbRes hp hl ho _ ih => exact .cbRes hp (by rw [lookup_visible_of (hv.past hp)]; exact hl) ho (ih hv)
  | invoke hl ho _ ih => exact .invoke (by rw [lookup_visible_of (hv.hidden_child _)]; exact hl) ho (ih hv)
  | wfc hl hd _ ih => exact .wfc (by rw [lookup_visible_of (hv.hidden_child _)]; exact hl) hd (ih hv)
  | childDone hl hd hnr _ ih =>
    exact .childDone (by rw [lookup_visible_of (hv.hidden_child _)]; exact hl) hd hnr (ih hv)
  | childReplay hl hs hr _ _ ih1 ih2 =>
    exact .childReplay (by rw [lookup_visible_of (hv.hidden_child _)]; exact hl) hs hr
      (ih1 (hv.child (hides_false_of hl (Or.inr hr)))) (ih2 hv)

theorem Compat.visible {p : Prog} {ctx : Pos} {n : Nat} {t : Tbl} (h : Compat p ctx n t) (hv : CtxVis t ctx) :
    Compat p ctx n (Exec.visible t) := by
  induction h with
  | fresh hu => exact .fresh (untouched_visible hu)
  | log _ ih => exact .log (ih hv)
  | stepActive hl hk ha hu =>
    exact .stepActive (by rw [lookup_visible_of (hv.hidden_child _)]; exact hl) hk ha (untouched_visible hu)
  | stepDone hl hd _ ih => exact .stepDone (by rw [lookup_visible_of (hv.hidden_child _)]; exact hl) hd (ih hv)
  | waitPark hl hne hu =>
    exact .waitPark (by rw [lookup_visible_of (hv.hidden_child _)]; exact hl) hne (untouched_visible hu)
  | waitDone hl hs _ ih => exact .waitDone (by rw [lookup_visible_of (hv.hidden_child _)]; exact hl) hs (ih hv)
  | cbNew hl _ ih => exact .cbNew (by rw [lookup_visible_of (hv.hidden_child _)]; exact hl) (ih hv)
  | cbResPark hp hl ho hu =>
    exact .cbResPark hp (by rw [lookup_visible_of (hv.past hp)]; exact hl) ho (untouched_visible hu)
  | cbResDone hp hl ho _ ih =>
    exact .cbResDone hp (by rw [lookup_visible_of (hv.past hp)]; exact hl) ho (ih hv)
  | invokePark hl ho hu =>
    exact .invokePark (by rw [lookup_visible_of (hv.hidden_child _)]; exact hl) ho (untouched_visible hu)
  | invokeDone hl ho _ ih =>
    exact .invokeDone (by rw [lookup_visible_of (hv.hidden_child _)]; exact hl) ho (ih hv)
  | wfcActive hl hk ha hu =>
    exact .wfcActive (by rw [lookup_visible_of (hv.hidden_child _)]; exact hl) hk ha (untouched_visible hu)
  | wfcDone hl hd _ ih => exact .wfcDone (by rw [lookup_visible_of (hv.hidden_child _)]; exact hl) hd (ih hv)
  | childActive hl hk hs _ hu ih =>
    exact .childActive (by rw [lookup_visible_of (hv.hidden_child _)]; exact hl) hk hs
      (ih (hv.child (hides_false_of hl (Or.inl (by rw [hs]; rfl))))) (untouched_visible hu)
  | childDone hl hd hnr _ ih =>
    exact .childDone (by rw [lookup_visible_of (hv.hidden_child _)]; exact hl) hd hnr (ih hv)
  | childReplay hl hs hr hrv _ ih =>
    exact .childReplay (by rw [lookup_visible_of (hv.hidden_child _)]; exact hl) hs hr
      (hrv.visible (hv.child (hides_false_of hl (Or.inr hr)))) (ih hv)


/-! ## Whole executions -/

theorem initSt_crashG {G : Tbl → Prop} (t : Tbl) (budget : Nat) (failAt : Option Nat)
    (imm : Pos → Backend.Immediate) (h : G t) : CrashG G (initSt t budget failAt imm) :=
  Or.inr ⟨rfl, fun keep => by cases keep <;> simpa [initSt, applyPrefix] using h⟩

/-- One invocation of a well-formed program on (the visible part of) a compatible table: no update
is rejected, and whatever the backend holds afterwards — for every ending and every `keep` — is
compatible again. -/
theorem invoke_ok {p : Prog} (hsc : Scoped p [] 0) {t : Tbl} (hc : Compat p [] 0 t) (budget : Nat)
    (failAt : Option Nat) (imm : Pos → Backend.Immediate) :
    NoRej (Engine.invoke p (Exec.visible t) budget failAt imm).2.trace ∧
    ∀ keep, Compat p [] 0 (finalTbl (Engine.invoke p (Exec.visible t) budget failAt imm).1
      (Engine.invoke p (Exec.visible t) budget failAt imm).2 keep) := by
  have hv : Compat p [] 0 (Exec.visible t) := hc.visible (ctxVis_root t)
  have h := (run_ok p [] 0 (initSt (Exec.visible t) budget failAt imm) (Compat p [] 0) hsc
    (initSt_crashG _ _ _ _ hv) (Or.inl rfl) (pastOk_root _) hv (fun _ _ h => h)).1
  refine ⟨?_, fun keep => h.crash.final _ keep⟩
  obtain ⟨evs, he, hn⟩ := h.trace
  unfold Engine.invoke
  rw [he]
  simpa [initSt] using hn

theorem runRound_ok {p : Prog} (hsc : Scoped p [] 0) {t : Tbl} (hc : Compat p [] 0 t) (r : Exec.Round) :
    NoRej (Exec.runRound p t r).trace ∧ Compat p [] 0 (Exec.runRound p t r).tbl := by
  cases r with
  | invoke budget failAt keep imm =>
    have h := invoke_ok hsc hc budget failAt (Exec.immOf imm)
    simp only [Exec.runRound]
    exact ⟨h.1, h.2 keep⟩
  | event ev =>
    simp only [Exec.runRound]
    cases hf : Backend.fire t ev with
    | none => exact ⟨by simp [NoRej], hc⟩
    | some t' => exact ⟨by simp [NoRej], compat_evolve hc (fire_evolve hf)⟩

theorem runRounds_ok {p : Prog} (hsc : Scoped p [] 0) (rounds : List Exec.Round) :
    ∀ t, Compat p [] 0 t → ∀ o ∈ Exec.runRounds p t rounds, NoRej o.trace ∧ Compat p [] 0 o.tbl := by
  induction rounds with
  | nil => intro t _ o ho; simp [Exec.runRounds] at ho
  | cons r rs ih =>
    intro t hc o ho
    simp only [Exec.runRounds, List.mem_cons] at ho
    rcases ho with rfl | ho
    · exact runRound_ok hsc hc r
    · exact ih _ (runRound_ok hsc hc r).2 o ho


/-! ## The first invocation: every position is fresh (no condition on the program) -/

/-- The trivial table predicate. -/
def AnyTbl : Tbl → Prop := fun _ => True

theorem crashG_any (s : St) : CrashG AnyTbl s := Or.inl (fun _ => trivial)

theorem nodeG_any (Node : Tbl → Prop) (ctx : Pos) (n : Nat) (s : St) : NodeG AnyTbl Node ctx n s :=
  fun _ _ _ => trivial

def FPost (U : Tbl → Prop) (ctx : Pos) (n : Nat) (s : St) : HRes → Prop
  | .deliver _ s1 => Step AnyTbl ctx n s s1 ∧ U s1.tbl
  | .stop _ s1 => Step AnyTbl ctx n s s1

theorem childAfter_fresh {U : Tbl → Prop} {ctx : Pos} {n : Nat} {s : St} (c : ChildSpec) (e : End) {rt : OpRec}
    (hctx : CtxOk ctx s.tbl) (hl : lookup s.tbl (ctx ++ [n + 1]) = some rt)
    (hk : rt.kind = .context) (hst : rt.status = .started) (hU : UpsertStable U (ctx ++ [n + 1]))
    (hu : U s.tbl) :
    FPost U ctx n s (childAfter s (ctx ++ [n + 1]) c false e) := by
  have hp := parentOk_of_ctxOk hctx (n + 1)
  have hc := crashG_any s
  have hnt : rt.status.terminal = false := by rw [hst]; rfl
  have hold : ∀ {r' : OpRec}, r'.kind = rt.kind → ∀ r0, lookup s.tbl (ctx ++ [n + 1]) = some r0 →
      r0.status.terminal = false ∧ r'.kind = r0.kind := by
    intro r' hr' r0 h0; rw [hl] at h0; cases h0; exact ⟨hnt, hr'⟩
  have hdel : ∀ (s1 : St) (o : Outcome) (r' : OpRec), Step AnyTbl ctx n s s1 →
      s1.tbl = upsert s.tbl (ctx ++ [n + 1]) r' → FPost U ctx n s (deliverAt s1 (ctx ++ [n + 1]) o) := by
    intro s1 o r' hstep htbl
    obtain ⟨s', he, hsame⟩ := deliverAt_same s1 (ctx ++ [n + 1]) o
    rw [he]
    exact ⟨hstep.trans (Step.of_same ctx n hstep.crash hsame), by rw [hsame.tbl, htbl]; exact hU _ _ hu⟩
  cases e with
  | returned v =>
    simp only [childAfter, Bool.false_eq_true, if_false]
    by_cases hlarge : c.large v = true
    · simp only [hlarge, if_true]
      have hext := ext_upsert (ctx := ctx) (n := n) (hold (r' := succRec rt (some (c.summary v)) true) rfl)
      exact ckpt_bind (P := FPost U ctx n s) hc
        (apply_succeed hp hl rfl hk (Or.inl hst) (Or.inr (Or.inr rfl))) hext trivial
        (fun s1 hstep htbl => hdel s1 (.ok v) _ hstep htbl) (fun _ _ hs1 _ => hs1)
    · have hlarge : c.large v = false := by simpa using hlarge
      simp only [hlarge, Bool.false_eq_true, if_false]
      have hext := ext_upsert (ctx := ctx) (n := n) (hold (r' := succRec rt (some v) false) rfl)
      exact ckpt_bind (P := FPost U ctx n s) hc
        (apply_succeed hp hl rfl hk (Or.inl hst) (Or.inr (Or.inr rfl))) hext trivial
        (fun s1 hstep htbl => hdel s1 (.ok v) _ hstep htbl) (fun _ _ hs1 _ => hs1)
  | raised ex =>
    simp only [childAfter]
    have hext := ext_upsert (ctx := ctx) (n := n) (hold (r' := failRec rt (some (ErrObj.ofExc ex))) rfl)
    refine ckpt_bind (P := FPost U ctx n s) hc
      (apply_fail hp hl rfl hk (Or.inl hst) (Or.inr (Or.inr rfl))) hext trivial ?_ (fun _ _ hs1 _ => hs1)
    intro s1 hstep htbl
    by_cases hinv : ex.inv = true
    · rw [if_pos hinv]; exact hdel s1 _ _ hstep htbl
    · rw [if_neg hinv]; exact hdel s1 _ _ hstep htbl
  | suspended d => exact Step.refl ctx n hc
  | crashed => exact Step.refl ctx n hc
  | ckptFailed => exact Step.refl ctx n hc

/-- Running any program on a table in which its whole region is untouched sends only accepted
updates. -/
theorem run_fresh (p : Prog) : ∀ (ctx : Pos) (n : Nat) (s : St), CtxOk ctx s.tbl → Untouched ctx n s.tbl →
    Step AnyTbl ctx n s (run p ctx n s).2 := by
  induction p with
  | ret v => intro ctx n s _ _; simp only [run]; exact Step.refl ctx n (crashG_any s)
  | raise e => intro ctx n s _ _; simp only [run]; exact Step.refl ctx n (crashG_any s)
  | log m k ih =>
    intro ctx n s hctx hu
    simp only [run]
    exact Step.same_left (same_doLog s ctx m) (ih ctx n (doLog s ctx m) hctx hu)
  | step sp k ih =>
    intro ctx n s hctx hu
    simp only [run]
    have hpost := handleStep_live sp (crashG_any s) hctx (Or.inl hu.self) (upsertStable_untouched ctx n) hu.succ
      (nodeG_any _ ctx n s)
    cases hres : handleStep s (ctx ++ [n + 1]) sp with
    | stop e s1 => rw [hres] at hpost; exact hpost.1
    | deliver o s1 =>
      rw [hres] at hpost
      exact hpost.1.trans (ih o ctx (n + 1) s1 (hctx.mono hpost.1.ext.1) hpost.2.1).succ
  | wait secs k ih =>
    intro ctx n s hctx hu
    simp only [run]
    have hpost := handleWait_fresh secs (crashG_any s) hctx hu.self (upsertStable_untouched ctx n) hu.succ (nodeG_any _ ctx n s)
    cases hres : handleWait s (ctx ++ [n + 1]) secs with
    | stop e s1 => rw [hres] at hpost; exact hpost.1
    | deliver o s1 =>
      rw [hres] at hpost
      exact hpost.1.trans (ih ctx (n + 1) s1 (hctx.mono hpost.1.ext.1) hpost.2.1).succ
  | cbNew k ih =>
    intro ctx n s hctx hu
    simp only [run]
    have hpost := handleCbNew_fresh (crashG_any s) hctx hu.self (upsertStable_untouched ctx n) hu.succ (nodeG_any _ ctx n s)
    cases hres : handleCbNew s (ctx ++ [n + 1]) with
    | error x => obtain ⟨e, s1⟩ := x; rw [hres] at hpost; exact hpost.1
    | ok s1 =>
      rw [hres] at hpost
      exact hpost.1.trans (ih _ ctx (n + 1) s1 (hctx.mono hpost.1.ext.1) hpost.2.1).succ
  | cbRes h k ih =>
    intro ctx n s hctx hu
    simp only [run]
    cases hl : lookup s.tbl h with
    | none =>
      simp only [handleCbRes, hl]
      exact Step.same_left (same_emit s _ rfl) (ih _ ctx n _ hctx hu)
    | some r =>
      rw [handleCbRes_some hl]
      cases cbOut r with
      | none => exact Step.refl ctx n (crashG_any s)
      | some o => exact Step.same_left (same_emit s (.deliver h o) rfl) (ih o ctx n _ hctx hu)
  | invoke pl k ih =>
    intro ctx n s hctx hu
    simp only [run]
    have hpost := handleInvoke_fresh pl (crashG_any s) hctx hu.self (upsertStable_untouched ctx n) hu.succ (nodeG_any _ ctx n s)
    cases hres : handleInvoke s (ctx ++ [n + 1]) pl with
    | stop e s1 => rw [hres] at hpost; exact hpost.1
    | deliver o s1 =>
      rw [hres] at hpost
      exact hpost.1.trans (ih o ctx (n + 1) s1 (hctx.mono hpost.1.ext.1) hpost.2.1).succ
  | wfc w k ih =>
    intro ctx n s hctx hu
    simp only [run]
    have hpost := handleWfc_live w (crashG_any s) hctx (Or.inl hu.self) (upsertStable_untouched ctx n) hu.succ
      (nodeG_any _ ctx n s)
    cases hres : handleWfc s (ctx ++ [n + 1]) w with
    | stop e s1 => rw [hres] at hpost; exact hpost.1
    | deliver o s1 =>
      rw [hres] at hpost
      exact hpost.1.trans (ih o ctx (n + 1) s1 (hctx.mono hpost.1.ext.1) hpost.2.1).succ
  | child c body k ihb ihk =>
    intro ctx n s hctx hu
    rw [run_child]
    have hpost := childBefore_fresh (body := body) (crashG_any s) hctx hu (nodeG_any _ ctx n s)
    cases hres : childBefore s (ctx ++ [n + 1]) with
    | inl hr =>
      cases hr with
      | deliver o s1 => rw [hres] at hpost; exact hpost.elim
      | stop e s1 => rw [hres] at hpost; exact hpost.1
    | inr x =>
      obtain ⟨s1, rm⟩ := x
      rw [hres] at hpost
      obtain ⟨rfl, hstep, ⟨rt, hl1, hk1, hs1⟩, huq, hu1⟩ := hpost
      have hstep2 := ihb (ctx ++ [n + 1]) 0 s1 (Or.inr ⟨rt, hl1, hk1⟩) huq
      have hstep02 := hstep.trans hstep2.child
      have hpostA := childAfter_fresh c (run body (ctx ++ [n + 1]) 0 s1).1 (hctx.mono hstep02.ext.1)
        (by rw [hstep2.ext.2 _ (not_inRegion_self _ 0)]; exact hl1) hk1 hs1 (upsertStable_untouched ctx n)
        (hu1.frame_child hstep2.ext.2)
      simp only [childTail]
      cases hresA : childAfter (run body (ctx ++ [n + 1]) 0 s1).2 (ctx ++ [n + 1]) c false
          (run body (ctx ++ [n + 1]) 0 s1).1 with
      | stop e s3 => rw [hresA] at hpostA; exact hstep02.trans hpostA
      | deliver o s3 =>
        rw [hresA] at hpostA
        have h03 := hstep02.trans hpostA.1
        exact h03.trans (ihk o ctx (n + 1) s3 (hctx.mono h03.ext.1) hpostA.2).succ

end EngineCompat
