import DurableModel.EngineSpec
/-!
# Helpers for the multi-invocation theorems (C04, C01X)

Table lemmas (`lookup`/`upsert`/`Backend.apply`/`Backend.fire`/`applyPrefix`/`Exec.visible`), a
"moves" abstraction `Mv` of what one invocation can do to the state, and the generic induction
principle over `run`.  Core Lean only.
-/
namespace EngineExec
open Engine

/-! ## lookup / upsert -/

theorem lookup_nil (p : Pos) : lookup [] p = none := rfl

theorem lookup_cons (e : Pos × OpRec) (t : Tbl) (p : Pos) :
    lookup (e :: t) p = if e.1 = p then some e.2 else lookup t p := by
  unfold lookup
  by_cases h : e.1 = p
  · simp [h]
  · have hb : (e.1 == p) = false := by simpa using h
    simp [hb, h]

theorem lookup_append_single (t : Tbl) (p q : Pos) (r : OpRec) :
    lookup (t ++ [(p, r)]) q = match lookup t q with
      | some x => some x
      | none => if p = q then some r else none := by
  induction t with
  | nil => simp [lookup_cons, lookup_nil]
  | cons e t ih =>
    simp only [List.cons_append, lookup_cons]
    by_cases h : e.1 = q
    · simp [h]
    · simp [h, ih]

theorem lookup_none_of_not_any (t : Tbl) (p : Pos) (h : t.any (fun e => e.1 == p) = false) :
    lookup t p = none := by
  induction t with
  | nil => rfl
  | cons e t ih =>
    simp only [List.any_cons, Bool.or_eq_false_iff] at h
    have h1 : ¬ e.1 = p := by simpa using h.1
    simp [lookup_cons, h1, ih h.2]

theorem lookup_map_replace (t : Tbl) (p q : Pos) (r : OpRec) :
    lookup (t.map (fun e => if e.1 == p then (p, r) else e)) q =
      if p = q then (if t.any (fun e => e.1 == p) then some r else none) else lookup t q := by
  induction t with
  | nil => simp [lookup_nil]
  | cons e t ih =>
    simp only [List.map_cons, lookup_cons, List.any_cons, ih]
    by_cases h1 : e.1 = p
    · subst h1
      by_cases h2 : e.1 = q
      · simp [h2]
      · simp [h2]
    · by_cases h2 : p = q
      · subst h2
        have hb : (e.1 == p) = false := by simpa using h1
        simp only [h1, if_false, if_true, hb, Bool.false_or, Bool.false_eq_true]
      · have hb : (e.1 == p) = false := by simpa using h1
        simp [h2, hb]

theorem lookup_upsert (t : Tbl) (p q : Pos) (r : OpRec) :
    lookup (upsert t p r) q = if p = q then some r else lookup t q := by
  unfold upsert
  by_cases h : t.any (fun e => e.1 == p) = true
  · rw [if_pos h, lookup_map_replace, h]
    simp
  · have h' : t.any (fun e => e.1 == p) = false := Bool.eq_false_iff.2 h
    rw [if_neg h, lookup_append_single]
    by_cases hpq : p = q
    · subst hpq
      simp [lookup_none_of_not_any t p h']
    · simp only [hpq, if_false]
      cases lookup t q <;> rfl

theorem lookup_upsert_self (t : Tbl) (p : Pos) (r : OpRec) : lookup (upsert t p r) p = some r := by
  simp [lookup_upsert]

theorem lookup_upsert_ne (t : Tbl) (p q : Pos) (r : OpRec) (h : p ≠ q) :
    lookup (upsert t p r) q = lookup t q := by
  simp [lookup_upsert, h]

theorem lookup_filter (f : Pos → Bool) (t : Tbl) (p : Pos) :
    lookup (t.filter (fun e => f e.1)) p = if f p then lookup t p else none := by
  induction t with
  | nil => simp [lookup_nil]
  | cons e t ih =>
    by_cases hf : f e.1 = true
    · rw [List.filter_cons_of_pos (by simpa using hf), lookup_cons, lookup_cons, ih]
      by_cases h : e.1 = p
      · subst h; simp [hf]
      · simp [h]
    · rw [List.filter_cons_of_neg (by simpa using hf), lookup_cons, ih]
      by_cases h : e.1 = p
      · subst h; simp [hf]
      · simp [h]


/-! ## Backend.apply / Backend.fire: master case lemmas -/

theorem apply_cases {t : Tbl} {u : Upd} {imm : Backend.Immediate} {t' : Tbl}
    (h : Backend.apply t u imm = some t') :
    ∃ r', t' = upsert t u.pos r' ∧ r'.kind = u.kind ∧
     ((lookup t u.pos = none ∧ u.action = .start ∧ r' = Backend.startRec u.kind imm) ∨
      (∃ r, lookup t u.pos = some r ∧ (r.kind = .step ∨ r.kind = .wfc) ∧ r.status = .ready ∧
          u.action = .start ∧ r' = { r with status := .started }) ∨
      (∃ r, lookup t u.pos = some r ∧ (r.status = .started ∨ r.status = .ready) ∧
          (r.kind = .step ∨ r.kind = .wfc ∨ r.kind = .context) ∧
          u.action = .succeed ∧ r' = { r with status := .succeeded, result := u.payload, error := none,
                                                   replayChildren := u.replayChildren }) ∨
      (∃ r, lookup t u.pos = some r ∧ (r.status = .started ∨ r.status = .ready) ∧
          (r.kind = .step ∨ r.kind = .wfc ∨ r.kind = .context) ∧
          u.action = .fail ∧ r' = { r with status := .failed, error := u.error }) ∨
      (∃ r, lookup t u.pos = some r ∧ (r.status = .started ∨ r.status = .ready) ∧
          (r.kind = .step ∨ r.kind = .wfc) ∧
          u.action = .retry ∧ r' = { r with status := .pending, attempt := r.attempt + 1,
                                                 result := (if u.payload.isSome then u.payload else r.result),
                                                 error := u.error })) := by
  unfold Backend.apply at h
  split at h
  · cases h
  · split at h
    · rename_i hl ha
      cases h
      refine ⟨_, rfl, ?_, Or.inl ⟨hl, ha, rfl⟩⟩
      cases hk : u.kind <;> cases imm <;> simp [Backend.startRec]
    · rename_i r hl ha
      split at h
      · rename_i hc
        cases h
        simp only [Bool.and_eq_true, Bool.or_eq_true, beq_iff_eq] at hc
        exact ⟨_, rfl, hc.2, Or.inr (Or.inl ⟨r, hl, hc.1.1, hc.1.2, ha, rfl⟩)⟩
      · cases h
    · rename_i r hl ha
      split at h
      · rename_i hc
        cases h
        simp only [Bool.and_eq_true, Bool.or_eq_true, beq_iff_eq] at hc
        refine ⟨_, rfl, hc.1.1, Or.inr (Or.inr (Or.inl ⟨r, hl, ?_, ?_, ha, rfl⟩))⟩
        · rcases hc.1.2 with h1 | h1
          · exact Or.inl h1
          · exact Or.inr h1.2
        · rcases hc.2 with (h1 | h1) | h1
          · exact Or.inl h1
          · exact Or.inr (Or.inl h1)
          · exact Or.inr (Or.inr h1)
      · cases h
    · rename_i r hl ha
      split at h
      · rename_i hc
        cases h
        simp only [Bool.and_eq_true, Bool.or_eq_true, beq_iff_eq] at hc
        refine ⟨_, rfl, hc.1.1, Or.inr (Or.inr (Or.inr (Or.inl ⟨r, hl, ?_, ?_, ha, rfl⟩)))⟩
        · rcases hc.1.2 with h1 | h1
          · exact Or.inl h1
          · exact Or.inr h1.2
        · rcases hc.2 with (h1 | h1) | h1
          · exact Or.inl h1
          · exact Or.inr (Or.inl h1)
          · exact Or.inr (Or.inr h1)
      · cases h
    · rename_i r hl ha
      split at h
      · rename_i hc
        cases h
        simp only [Bool.and_eq_true, Bool.or_eq_true, beq_iff_eq] at hc
        exact ⟨_, rfl, hc.1.1, Or.inr (Or.inr (Or.inr (Or.inr ⟨r, hl, hc.2, hc.1.2, ha, rfl⟩)))⟩
      · cases h
    · cases h

theorem fire_cases {t : Tbl} {ev : Backend.Event} {t' : Tbl} (h : Backend.fire t ev = some t') :
    ∃ p r r', lookup t p = some r ∧ t' = upsert t p r' ∧
      (((r.kind = .step ∨ r.kind = .wfc) ∧ r.status = .pending ∧ r' = { r with status := .ready }) ∨
       (r.kind = .wait ∧ r.status = .started ∧ r' = { r with status := .succeeded }) ∨
       (∃ o, (r.kind = .callback ∨ r.kind = .invoke) ∧ r.status = .started ∧ o ≠ Backend.Immediate.none ∧
          r' = Backend.finish r o)) := by
  cases ev with
  | retryReady p =>
    simp only [Backend.fire] at h
    split at h
    · rename_i r hl
      split at h
      · rename_i hc
        cases h
        simp only [Bool.and_eq_true, Bool.or_eq_true, beq_iff_eq] at hc
        exact ⟨p, r, _, hl, rfl, Or.inl ⟨hc.1, hc.2, rfl⟩⟩
      · cases h
    · cases h
  | waitDone p =>
    simp only [Backend.fire] at h
    split at h
    · rename_i r hl
      split at h
      · rename_i hc
        cases h
        simp only [Bool.and_eq_true, beq_iff_eq] at hc
        exact ⟨p, r, _, hl, rfl, Or.inr (Or.inl ⟨hc.1, hc.2, rfl⟩)⟩
      · cases h
    · cases h
  | callbackDone p o =>
    simp only [Backend.fire] at h
    split at h
    · rename_i r hl
      split at h
      · rename_i hc
        cases h
        simp only [Bool.and_eq_true, beq_iff_eq, bne_iff_ne] at hc
        exact ⟨p, r, _, hl, rfl, Or.inr (Or.inr ⟨o, Or.inl hc.1.1, hc.1.2, hc.2, rfl⟩)⟩
      · cases h
    · cases h
  | invokeDone p o =>
    simp only [Backend.fire] at h
    split at h
    · rename_i r hl
      split at h
      · rename_i hc
        cases h
        simp only [Bool.and_eq_true, beq_iff_eq, bne_iff_ne] at hc
        exact ⟨p, r, _, hl, rfl, Or.inr (Or.inr ⟨o, Or.inr hc.1.1, hc.1.2, hc.2, rfl⟩)⟩
      · cases h
    · cases h


/-! ## Moves of one invocation -/

/-- Shape of the updates the engine hands over: asynchronous ones are STARTs of step / wfc /
context (never of a wait / callback / invoke), and only context updates carry ReplayChildren. -/
def Issued (u : Upd) : Prop :=
  (u.sync = false → (u.kind = .step ∨ u.kind = .wfc ∨ u.kind = .context)) ∧
  (u.replayChildren = true → u.kind = .context)

/-- `Mv E s s'`: `s'` is reached from `s` by emitting events satisfying `E`, bookkeeping changes
(budget, replay tracking, call counter) and checkpoint calls. -/
inductive Mv (E : Ev → Prop) : St → St → Prop
  | refl (s : St) : Mv E s s
  | silent {s s1 s2 : St} : s1.tbl = s.tbl → s1.pending = s.pending → s1.syncTbl = s.syncTbl →
      s1.imm = s.imm → s1.trace = s.trace → Mv E s1 s2 → Mv E s s2
  | emit {s s2 : St} (e : Ev) : E e → Mv E (Engine.emit s e) s2 → Mv E s s2
  | async {s s1 s2 : St} (u : Upd) : Issued u → u.sync = false →
      Backend.apply s.tbl u (s.imm u.pos) = some s1.tbl → s1.pending = s.pending ++ [u] →
      s1.syncTbl = s.syncTbl → s1.imm = s.imm → s1.trace = s.trace → Mv E s1 s2 → Mv E s s2
  | asyncRej {s s1 s2 : St} (u : Upd) : Issued u → s1.tbl = s.tbl → s1.pending = s.pending ++ [u] →
      s1.syncTbl = s.syncTbl → s1.imm = s.imm → s1.trace = s.trace → Mv E s1 s2 → Mv E s s2
  | sync {s s1 s2 : St} (u : Upd) : Issued u →
      Backend.apply s.tbl u (s.imm u.pos) = some s1.tbl → s1.syncTbl = s1.tbl → s1.pending = [] →
      s1.imm = s.imm → s1.trace = s.trace → Mv E s1 s2 → Mv E s s2

namespace Mv

theorem trans {E : Ev → Prop} {a b c : St} (h1 : Mv E a b) (h2 : Mv E b c) : Mv E a c := by
  induction h1 with
  | refl => exact h2
  | silent e1 e2 e3 e4 e5 _ ih => exact .silent e1 e2 e3 e4 e5 (ih h2)
  | emit e he _ ih => exact .emit e he (ih h2)
  | async u hu hs ha e2 e3 e4 e5 _ ih => exact .async u hu hs ha e2 e3 e4 e5 (ih h2)
  | asyncRej u hu e1 e2 e3 e4 e5 _ ih => exact .asyncRej u hu e1 e2 e3 e4 e5 (ih h2)
  | sync u hu ha e2 e3 e4 e5 _ ih => exact .sync u hu ha e2 e3 e4 e5 (ih h2)

theorem mono {E E' : Ev → Prop} (hEE : ∀ e, E e → E' e) {a b : St} (h : Mv E a b) : Mv E' a b := by
  induction h with
  | refl => exact .refl _
  | silent e1 e2 e3 e4 e5 _ ih => exact .silent e1 e2 e3 e4 e5 ih
  | emit e he _ ih => exact .emit e (hEE e he) ih
  | async u hu hs ha e2 e3 e4 e5 _ ih => exact .async u hu hs ha e2 e3 e4 e5 ih
  | asyncRej u hu e1 e2 e3 e4 e5 _ ih => exact .asyncRej u hu e1 e2 e3 e4 e5 ih
  | sync u hu ha e2 e3 e4 e5 _ ih => exact .sync u hu ha e2 e3 e4 e5 ih

theorem emit1 {E : Ev → Prop} (s : St) (e : Ev) (he : E e) : Mv E s (Engine.emit s e) :=
  .emit e he (.refl _)

theorem silent1 {E : Ev → Prop} {s s1 : St} (e1 : s1.tbl = s.tbl) (e2 : s1.pending = s.pending)
    (e3 : s1.syncTbl = s.syncTbl) (e4 : s1.imm = s.imm) (e5 : s1.trace = s.trace) : Mv E s s1 :=
  .silent e1 e2 e3 e4 e5 (.refl _)

theorem imm_eq {E : Ev → Prop} {a b : St} (h : Mv E a b) : b.imm = a.imm := by
  induction h with
  | refl => rfl
  | silent _ _ _ e4 _ _ ih => rw [ih, e4]
  | emit e _ _ ih => rw [ih]; rfl
  | async _ _ _ _ _ _ e4 _ _ ih => rw [ih, e4]
  | asyncRej _ _ _ _ _ e4 _ _ ih => rw [ih, e4]
  | sync _ _ _ _ _ e4 _ _ ih => rw [ih, e4]

theorem trace_eq {E : Ev → Prop} {a b : St} (h : Mv E a b) :
    ∃ l, b.trace = a.trace ++ l ∧ ∀ e ∈ l, E e := by
  induction h with
  | refl => exact ⟨[], by simp, by simp⟩
  | silent _ _ _ _ e5 _ ih => obtain ⟨l, h1, h2⟩ := ih; exact ⟨l, by rw [h1, e5], h2⟩
  | @emit s s2 e he _ ih =>
    obtain ⟨l, h1, h2⟩ := ih
    refine ⟨e :: l, by rw [h1]; simp [Engine.emit], ?_⟩
    intro x hx
    rcases List.mem_cons.1 hx with rfl | hx
    · exact he
    · exact h2 x hx
  | async _ _ _ _ _ _ _ e5 _ ih => obtain ⟨l, h1, h2⟩ := ih; exact ⟨l, by rw [h1, e5], h2⟩
  | asyncRej _ _ _ _ _ _ e5 _ ih => obtain ⟨l, h1, h2⟩ := ih; exact ⟨l, by rw [h1, e5], h2⟩
  | sync _ _ _ _ _ _ e5 _ ih => obtain ⟨l, h1, h2⟩ := ih; exact ⟨l, by rw [h1, e5], h2⟩

end Mv

/-- Table predicates preserved by every accepted update of the engine. -/
def StableA (Q : Tbl → Prop) : Prop :=
  ∀ t u imm t', Issued u → Backend.apply t u imm = some t' → Q t → Q t'

/-- Table predicates preserved by every backend event. -/
def StableF (Q : Tbl → Prop) : Prop :=
  ∀ t ev t', Backend.fire t ev = some t' → Q t → Q t'

theorem Mv.stable {E : Ev → Prop} {Q : Tbl → Prop} (hQ : StableA Q) {a b : St} (h : Mv E a b) :
    Q a.tbl ∧ Q a.syncTbl → Q b.tbl ∧ Q b.syncTbl := by
  induction h with
  | refl => exact id
  | silent e1 _ e3 _ _ _ ih => intro h; exact ih (by rw [e1, e3]; exact h)
  | emit e _ _ ih => intro h; exact ih h
  | async u hu _ ha _ e3 _ _ _ ih => intro h; exact ih ⟨hQ _ _ _ _ hu ha h.1, by rw [e3]; exact h.2⟩
  | asyncRej _ _ e1 _ e3 _ _ _ ih => intro h; exact ih (by rw [e1, e3]; exact h)
  | sync u hu ha e2 _ _ _ _ ih =>
    intro h
    have := hQ _ _ _ _ hu ha h.1
    exact ih ⟨this, by rw [e2]; exact this⟩

theorem Mv.pendingIssued {E : Ev → Prop} {a b : St} (h : Mv E a b) :
    (∀ u ∈ a.pending, Issued u) → ∀ u ∈ b.pending, Issued u := by
  induction h with
  | refl => exact id
  | silent _ e2 _ _ _ _ ih => intro h; exact ih (by rw [e2]; exact h)
  | emit e _ _ ih => intro h; exact ih h
  | async u hu _ _ e2 _ _ _ _ ih =>
    intro h; apply ih; rw [e2]; intro x hx
    rcases List.mem_append.1 hx with hx | hx
    · exact h x hx
    · rw [List.mem_singleton.1 hx]; exact hu
  | asyncRej u hu _ e2 _ _ _ _ ih =>
    intro h; apply ih; rw [e2]; intro x hx
    rcases List.mem_append.1 hx with hx | hx
    · exact h x hx
    · rw [List.mem_singleton.1 hx]; exact hu
  | sync _ _ _ _ e3 _ _ _ ih => intro h; apply ih; rw [e3]; intro x hx; cases hx

theorem applyPrefix_stable {Q : Tbl → Prop} (hQ : StableA Q) (imm : Pos → Backend.Immediate) :
    ∀ (l : List Upd) (k : Nat) (t : Tbl), (∀ u ∈ l, Issued u) → Q t → Q (applyPrefix t imm l k) := by
  intro l
  induction l with
  | nil => intro k t _ h; simpa [applyPrefix] using h
  | cons u us ih =>
    intro k t hl h
    cases k with
    | zero => simpa [applyPrefix] using h
    | succ k =>
      simp only [applyPrefix]
      have hus : ∀ x ∈ us, Issued x := fun x hx => hl x (List.mem_cons_of_mem _ hx)
      split
      · rename_i t' ha
        exact ih k t' hus (hQ _ _ _ _ (hl u (List.mem_cons_self ..)) ha h)
      · exact ih k t hus h


/-! ## Primitives of the engine as moves -/

def CkE (u : Upd) (e : Ev) : Prop := e = .upd u ∨ e = .applied u ∨ e = .rejected u

def ckSt : Except (End × St) St → St
  | .ok s => s
  | .error (_, s) => s

theorem tick_eq {s s1 : St} (h : tick s = some s1) : s1 = { s with budget := s.budget - 1 } := by
  unfold tick at h
  split at h
  · cases h
  · cases h; rfl

theorem tick_mv {E : Ev → Prop} {s s1 : St} (h : tick s = some s1) : Mv E s s1 := by
  rw [tick_eq h]
  exact Mv.silent1 rfl rfl rfl rfl rfl

theorem checkpoint_mv {s : St} {u : Upd} (hu : Issued u) : Mv (CkE u) s (ckSt (checkpoint s u)) := by
  unfold checkpoint
  simp only []
  refine .emit (.upd u) (Or.inl rfl) ?_
  split
  · rename_i hs
    have hs' : u.sync = false := by simpa using hs
    split
    · rename_i t ha
      refine .async (s1 := { Engine.emit s (.upd u) with tbl := t, pending := (Engine.emit s (.upd u)).pending ++ [u] })
        u hu hs' ha rfl rfl rfl rfl ?_
      exact Mv.emit1 _ _ (Or.inr (Or.inl rfl))
    · refine .asyncRej (s1 := { Engine.emit s (.upd u) with pending := (Engine.emit s (.upd u)).pending ++ [u] })
        u hu rfl rfl rfl rfl rfl ?_
      exact Mv.emit1 _ _ (Or.inr (Or.inr rfl))
  · split
    · exact .refl _
    · rename_i s1 ht
      refine (tick_mv ht).trans ?_
      split
      · exact Mv.silent1 rfl rfl rfl rfl rfl
      · split
        · refine Mv.trans (Mv.silent1 (s1 := { s1 with syncCalls := s1.syncCalls + 1 }) rfl rfl rfl rfl rfl) ?_
          exact Mv.emit1 _ _ (Or.inr (Or.inr rfl))
        · rename_i t ha
          refine .sync (s1 := { s1 with tbl := t, syncTbl := t, pending := [], syncCalls := s1.syncCalls + 1 })
            u hu ha rfl rfl rfl rfl ?_
          refine .emit (.applied u) (Or.inr (Or.inl rfl)) ?_
          split
          · exact .refl _
          · rename_i s2 ht2
            exact tick_mv ht2

theorem checkpoint_ok_mv {s s' : St} {u : Upd} (hu : Issued u) (h : checkpoint s u = .ok s') :
    Mv (CkE u) s s' := by
  have := checkpoint_mv (s := s) hu
  rw [h] at this; exact this

theorem checkpoint_err_mv {s s' : St} {u : Upd} {en : End} (hu : Issued u)
    (h : checkpoint s u = .error (en, s')) : Mv (CkE u) s s' := by
  have := checkpoint_mv (s := s) hu
  rw [h] at this; exact this

/-- A successful synchronous checkpoint: the update was applied, and the table it produced is both
the current and the durable (synchronously acknowledged) table. -/
theorem checkpoint_ok_sync {s s' : St} {u : Upd} (hs : u.sync = true) (h : checkpoint s u = .ok s') :
    ∃ t', Backend.apply s.tbl u (s.imm u.pos) = some t' ∧ s'.tbl = t' ∧ s'.syncTbl = t' ∧
      s'.pending = [] ∧ s'.imm = s.imm ∧ s'.trace = s.trace ++ [.upd u, .applied u] := by
  unfold checkpoint at h
  simp only [hs, Bool.not_true, Bool.false_eq_true, if_false] at h
  split at h
  · cases h
  · rename_i s1 ht
    have e1 := tick_eq ht
    split at h
    · cases h
    · split at h
      · cases h
      · rename_i t ha
        split at h
        · cases h
        · rename_i s2 ht2
          have e2 := tick_eq ht2
          cases h
          subst e1
          refine ⟨t, ha, ?_⟩
          rw [e2]
          simp [Engine.emit]

theorem trackReplay_mv {E : Ev → Prop} (s : St) (p : Pos) : Mv E s (trackReplay s p) := by
  unfold trackReplay
  split
  · exact .refl _
  · exact Mv.silent1 rfl rfl rfl rfl rfl

theorem deliverAt_mv {E : Ev → Prop} (s : St) (p : Pos) (o : Outcome) (hE : E (.deliver p o)) :
    Mv E s (deliverAt s p o).st := by
  unfold deliverAt
  cases o with
  | ok v => exact (Mv.emit1 s _ hE).trans (trackReplay_mv _ _)
  | err e => exact (Mv.emit1 s _ hE).trans (trackReplay_mv _ _)


/-! ## Handlers as moves -/

/-- Events a handler working at position `c` on an operation of kind `k` may emit. -/
def EvAt (c : Pos) (k : Kind) : Ev → Prop
  | .enter p k' _ _ => p = c ∧ k' = k
  | .upd u => u.pos = c
  | .deliver p _ => p = c
  | _ => True

/-- … when it does not enter a user function. -/
def UpdAt (c : Pos) : Ev → Prop
  | .enter _ _ _ _ => False
  | .upd u => u.pos = c
  | .deliver p _ => p = c
  | _ => True

/-- … when it neither enters a user function nor hands over an update. -/
def QuietE : Ev → Prop
  | .enter _ _ _ _ => False
  | .upd _ => False
  | _ => True

theorem updAt_evAt {c : Pos} {k : Kind} : ∀ e, UpdAt c e → EvAt c k e := by
  intro e h; cases e <;> simp_all [EvAt, UpdAt]

theorem ckE_updAt {u : Upd} {c : Pos} (h : u.pos = c) : ∀ e, CkE u e → UpdAt c e := by
  intro e he
  rcases he with rfl | rfl | rfl <;> simp [UpdAt, h]

theorem evAt_enter (p : Pos) (k : Kind) (a : Nat) (st : Option Val) : EvAt p k (.enter p k a st) :=
  And.intro rfl rfl

macro "issued" : tactic => `(tactic| (constructor <;> intro h <;> simp at h ⊢))

def recAtt : Option OpRec → Nat
  | some r => r.attempt
  | none => 0

theorem retryHandler_mv (s : St) (p : Pos) (spec : StepSpec) (r : Option OpRec) (e : Exc) :
    Mv (UpdAt p) s (retryHandler s p spec r e).st := by
  unfold retryHandler
  simp only []
  split
  · split
    · rename_i hck
      exact (checkpoint_err_mv (by issued) hck).mono (ckE_updAt rfl)
    · rename_i hck
      exact (checkpoint_ok_mv (by issued) hck).mono (ckE_updAt rfl)
  · split
    · rename_i hck
      exact (checkpoint_err_mv (by issued) hck).mono (ckE_updAt rfl)
    · rename_i hck
      have h1 := (checkpoint_ok_mv (by issued) hck).mono (ckE_updAt (c := p) rfl)
      split <;> exact h1.trans (deliverAt_mv _ _ _ rfl)

theorem stepExecute_mv (s : St) (p : Pos) (spec : StepSpec) (r : Option OpRec) :
    Mv (UpdAt p) (Engine.emit s (.enter p .step (recAtt r + 1) none)) (stepExecute s p spec r).st := by
  unfold stepExecute
  cases r <;>
  · simp only [recAtt]
    split
    · exact .refl _
    · rename_i s1 ht
      refine (tick_mv ht).trans ?_
      split
      · split
        · rename_i hck
          exact (checkpoint_err_mv (by issued) hck).mono (ckE_updAt rfl)
        · rename_i hck
          exact ((checkpoint_ok_mv (by issued) hck).mono (ckE_updAt rfl)).trans (deliverAt_mv _ _ _ rfl)
      · exact retryHandler_mv _ _ _ _ _

theorem stepExecute_mv' (s : St) (p : Pos) (spec : StepSpec) (r : Option OpRec) :
    Mv (EvAt p .step) s (stepExecute s p spec r).st :=
  .emit _ (evAt_enter _ _ _ _) ((stepExecute_mv s p spec r).mono updAt_evAt)

theorem handleStep_mv (s : St) (p : Pos) (spec : StepSpec) :
    Mv (EvAt p .step) s (handleStep s p spec).st := by
  unfold handleStep
  split
  · split
    · exact deliverAt_mv _ _ _ rfl
    · split
      · exact deliverAt_mv _ _ _ rfl
      · split
        · exact .refl _
        · split
          · exact (retryHandler_mv _ _ _ _ _).mono updAt_evAt
          · split
            · split
              · rename_i hck
                exact ((checkpoint_err_mv (by issued) hck).mono (ckE_updAt rfl)).mono updAt_evAt
              · rename_i hck
                exact (((checkpoint_ok_mv (by issued) hck).mono (ckE_updAt rfl)).mono updAt_evAt).trans
                  (stepExecute_mv' _ _ _ _)
            · exact stepExecute_mv' _ _ _ _
  · split
    · rename_i hck
      exact ((checkpoint_err_mv (by issued) hck).mono (ckE_updAt rfl)).mono updAt_evAt
    · rename_i hck
      exact (((checkpoint_ok_mv (by issued) hck).mono (ckE_updAt rfl)).mono updAt_evAt).trans
        (stepExecute_mv' _ _ _ _)

theorem handleWait_mv (s : St) (p : Pos) (secs : Nat) : Mv (UpdAt p) s (handleWait s p secs).st := by
  unfold handleWait
  split
  · split
    · exact deliverAt_mv _ _ _ rfl
    · exact .refl _
  · split
    · rename_i hck
      exact (checkpoint_err_mv (by issued) hck).mono (ckE_updAt rfl)
    · rename_i hck
      have h1 := (checkpoint_ok_mv (by issued) hck).mono (ckE_updAt (c := p) rfl)
      split
      · split
        · exact h1.trans (deliverAt_mv _ _ _ rfl)
        · exact h1
      · exact h1

theorem invokeTerminal_mv (s0 s : St) (p : Pos) (r : OpRec) (h0 : Mv (UpdAt p) s0 s) :
    Mv (UpdAt p) s0 ((invokeTerminal s p r).getD (.stop (.suspended (some 0)) s)).st := by
  unfold invokeTerminal
  split
  · simp only [Option.getD_some]; exact h0.trans (deliverAt_mv _ _ _ rfl)
  · split
    · simp only [Option.getD_some]; exact h0.trans (deliverAt_mv _ _ _ rfl)
    · exact h0

theorem handleInvoke_mv (s : St) (p : Pos) (payload : Val) :
    Mv (UpdAt p) s (handleInvoke s p payload).st := by
  unfold handleInvoke
  split
  · exact invokeTerminal_mv _ _ _ _ (.refl _)
  · split
    · rename_i hck
      exact (checkpoint_err_mv (by issued) hck).mono (ckE_updAt rfl)
    · rename_i hck
      have h1 := (checkpoint_ok_mv (by issued) hck).mono (ckE_updAt (c := p) rfl)
      split
      · exact invokeTerminal_mv _ _ _ _ h1
      · exact h1

theorem handleCbNew_mv (s : St) (p : Pos) : Mv (UpdAt p) s (ckSt (handleCbNew s p)) := by
  unfold handleCbNew
  split
  · exact (Mv.emit1 (E := UpdAt p) _ (.deliver p (.ok "cb")) rfl).trans (trackReplay_mv _ _)
  · split
    · rename_i x hck
      obtain ⟨en, sx⟩ := x
      exact (checkpoint_err_mv (by issued) hck).mono (ckE_updAt rfl)
    · rename_i hck
      have h1 := (checkpoint_ok_mv (by issued) hck).mono (ckE_updAt (c := p) rfl)
      split
      · exact h1.trans ((Mv.emit1 (E := UpdAt p) _ (.deliver p (.ok "cb")) rfl).trans (trackReplay_mv _ _))
      · exact h1

theorem handleCbRes_mv (s : St) (h : Handle) : Mv QuietE s (handleCbRes s h).st := by
  unfold handleCbRes
  split
  · exact Mv.emit1 _ _ trivial
  · split
    · exact Mv.emit1 _ _ trivial
    · split
      · exact Mv.emit1 _ _ trivial
      · exact .refl _

def wfcState (w : WfcSpec) : Option OpRec → Val
  | some r => if (r.status == .started || r.status == .ready) then
                (match r.result with | some v => if v == "" then w.init else v | none => w.init)
              else w.init
  | none => w.init

theorem wfcExecute_mv (s : St) (p : Pos) (w : WfcSpec) (r : Option OpRec) :
    Mv (EvAt p .wfc) s (wfcExecute s p w r).st := by
  unfold wfcExecute
  simp only []
  split
  · exact Mv.emit1 _ _ (evAt_enter _ _ _ _)
  · rename_i s1 ht
    refine (Mv.emit1 s _ (evAt_enter _ _ _ _)).trans ((tick_mv ht).trans ?_)
    split
    · split
      · split
        · rename_i hck
          exact ((checkpoint_err_mv (by issued) hck).mono (ckE_updAt rfl)).mono updAt_evAt
        · rename_i hck
          exact (((checkpoint_ok_mv (by issued) hck).mono (ckE_updAt rfl)).mono updAt_evAt).trans
            (deliverAt_mv _ _ _ rfl)
      · split
        · rename_i hck
          exact ((checkpoint_err_mv (by issued) hck).mono (ckE_updAt rfl)).mono updAt_evAt
        · rename_i hck
          exact ((checkpoint_ok_mv (by issued) hck).mono (ckE_updAt rfl)).mono updAt_evAt
    · split
      · rename_i hck
        exact ((checkpoint_err_mv (by issued) hck).mono (ckE_updAt rfl)).mono updAt_evAt
      · rename_i hck
        exact (((checkpoint_ok_mv (by issued) hck).mono (ckE_updAt rfl)).mono updAt_evAt).trans
          (deliverAt_mv _ _ _ rfl)

theorem handleWfc_mv (s : St) (p : Pos) (w : WfcSpec) : Mv (EvAt p .wfc) s (handleWfc s p w).st := by
  unfold handleWfc
  simp only []
  split
  · split
    · exact deliverAt_mv _ _ _ rfl
    · split
      · exact deliverAt_mv _ _ _ rfl
      · split
        · exact .refl _
        · split
          · exact wfcExecute_mv _ _ _ _
          · split
            · rename_i hck
              exact ((checkpoint_err_mv (by issued) hck).mono (ckE_updAt rfl)).mono updAt_evAt
            · rename_i hck
              exact (((checkpoint_ok_mv (by issued) hck).mono (ckE_updAt rfl)).mono updAt_evAt).trans
                (wfcExecute_mv _ _ _ _)
  · split
    · rename_i hck
      exact ((checkpoint_err_mv (by issued) hck).mono (ckE_updAt rfl)).mono updAt_evAt
    · rename_i hck
      exact (((checkpoint_ok_mv (by issued) hck).mono (ckE_updAt rfl)).mono updAt_evAt).trans
        (wfcExecute_mv _ _ _ _)

def cbSt : HRes ⊕ (St × Bool) → St
  | .inl h => h.st
  | .inr (s, _) => s

theorem childBefore_mv (s : St) (p : Pos) : Mv (EvAt p .context) s (cbSt (childBefore s p)) := by
  unfold childBefore
  split
  · split
    · simp only [cbSt]; exact deliverAt_mv _ _ _ rfl
    · split
      · exact Mv.emit1 _ _ (evAt_enter _ _ _ _)
      · split
        · simp only [cbSt]; exact deliverAt_mv _ _ _ rfl
        · exact Mv.emit1 _ _ (evAt_enter _ _ _ _)
  · split
    · rename_i hck
      exact ((checkpoint_err_mv (by issued) hck).mono (ckE_updAt rfl)).mono updAt_evAt
    · rename_i hck
      exact (((checkpoint_ok_mv (by issued) hck).mono (ckE_updAt rfl)).mono updAt_evAt).trans
        (Mv.emit1 _ _ (evAt_enter _ _ _ _))

theorem childAfter_mv (s : St) (p : Pos) (c : ChildSpec) (rm : Bool) (e : End) :
    Mv (UpdAt p) s (childAfter s p c rm e).st := by
  unfold childAfter
  split
  · split
    · exact deliverAt_mv _ _ _ rfl
    · simp only []
      split
      · rename_i hck
        refine (checkpoint_err_mv ?_ hck).mono (ckE_updAt ?_)
        · split <;> issued
        · split <;> rfl
      · rename_i hck
        refine ((checkpoint_ok_mv ?_ hck).mono (ckE_updAt ?_)).trans (deliverAt_mv _ _ _ rfl)
        · split <;> issued
        · split <;> rfl
  · split
    · rename_i hck
      exact (checkpoint_err_mv (by issued) hck).mono (ckE_updAt rfl)
    · rename_i hck
      have h1 := (checkpoint_ok_mv (by issued) hck).mono (ckE_updAt (c := p) rfl)
      split <;> exact h1.trans (deliverAt_mv _ _ _ rfl)
  · exact .refl _

theorem doLog_mv (s : St) (ctx : Pos) (m : String) : Mv QuietE s (doLog s ctx m) :=
  Mv.emit1 _ _ trivial


/-! ## Generic induction over `run` -/

/-- Every `step` node of the program (through every continuation) satisfies `PS`. -/
def AllS (PS : StepSpec → Prop) : Prog → Prop
  | .ret _ => True
  | .raise _ => True
  | .log _ k => AllS PS k
  | .step s k => PS s ∧ ∀ o, AllS PS (k o)
  | .wait _ k => AllS PS k
  | .cbNew k => ∀ h, AllS PS (k h)
  | .cbRes _ k => ∀ o, AllS PS (k o)
  | .invoke _ k => ∀ o, AllS PS (k o)
  | .wfc _ k => ∀ o, AllS PS (k o)
  | .child _ body k => AllS PS body ∧ ∀ o, AllS PS (k o)

theorem allS_true (p : Prog) : AllS (fun _ => True) p := by
  induction p with
  | ret => trivial
  | raise => trivial
  | log _ _ ih => exact ih
  | step _ _ ih => exact ⟨trivial, ih⟩
  | wait _ _ ih => exact ih
  | cbNew _ ih => exact ih
  | cbRes _ _ ih => exact ih
  | invoke _ _ ih => exact ih
  | wfc _ _ ih => exact ih
  | child _ _ _ ihb ihk => exact ⟨ihb, ihk⟩

/-- Every node of the program (through every continuation) satisfies `N`. -/
def AllN (N : Prog → Prop) : Prog → Prop
  | .ret v => N (.ret v)
  | .raise e => N (.raise e)
  | .log m k => N (.log m k) ∧ AllN N k
  | .step s k => N (.step s k) ∧ ∀ o, AllN N (k o)
  | .wait d k => N (.wait d k) ∧ AllN N k
  | .cbNew k => N (.cbNew k) ∧ ∀ h, AllN N (k h)
  | .cbRes h k => N (.cbRes h k) ∧ ∀ o, AllN N (k o)
  | .invoke pl k => N (.invoke pl k) ∧ ∀ o, AllN N (k o)
  | .wfc w k => N (.wfc w k) ∧ ∀ o, AllN N (k o)
  | .child c body k => N (.child c body k) ∧ AllN N body ∧ ∀ o, AllN N (k o)

theorem allN_true (p : Prog) : AllN (fun _ => True) p := by
  induction p with
  | ret => trivial
  | raise => trivial
  | log _ _ ih => exact ⟨trivial, ih⟩
  | step _ _ ih => exact ⟨trivial, ih⟩
  | wait _ _ ih => exact ⟨trivial, ih⟩
  | cbNew _ ih => exact ⟨trivial, ih⟩
  | cbRes _ _ ih => exact ⟨trivial, ih⟩
  | invoke _ _ ih => exact ⟨trivial, ih⟩
  | wfc _ _ ih => exact ⟨trivial, ih⟩
  | child _ _ _ ihb ihk => exact ⟨trivial, ihb, ihk⟩

/-- Node predicate "a step node satisfies `PS`". -/
def stepN (PS : StepSpec → Prop) : Prog → Prop
  | .step s _ => PS s
  | _ => True

theorem allS_allN {PS : StepSpec → Prop} (p : Prog) : AllS PS p → AllN (stepN PS) p := by
  induction p with
  | ret => intro _; trivial
  | raise => intro _; trivial
  | log _ _ ih => intro h; exact ⟨trivial, ih h⟩
  | step _ _ ih => intro h; exact ⟨h.1, fun o => ih o (h.2 o)⟩
  | wait _ _ ih => intro h; exact ⟨trivial, ih h⟩
  | cbNew _ ih => intro h; exact ⟨trivial, fun x => ih x (h x)⟩
  | cbRes _ _ ih => intro h; exact ⟨trivial, fun o => ih o (h o)⟩
  | invoke _ _ ih => intro h; exact ⟨trivial, fun o => ih o (h o)⟩
  | wfc _ _ ih => intro h; exact ⟨trivial, fun o => ih o (h o)⟩
  | child _ _ _ ihb ihk => intro h; exact ⟨trivial, ihb h.1, fun o => ihk o (h.2 o)⟩

/-- What has to be shown about the handlers to conclude about `run`: `Pre ctx s` is a state
invariant relative to the enclosing context, `R` a reflexive-transitive relation between states. -/
structure RunHyps (Pre : Pos → St → Prop) (R : St → St → Prop) (N : Prog → Prop) : Prop where
  refl : ∀ s, R s s
  trans : ∀ {a b c}, R a b → R b c → R a c
  log : ∀ ctx s m, Pre ctx s → R s (doLog s ctx m) ∧ Pre ctx (doLog s ctx m)
  step : ∀ ctx n s spec k, N (.step spec k) → Pre ctx s →
    R s (handleStep s (ctx ++ [n + 1]) spec).st ∧ Pre ctx (handleStep s (ctx ++ [n + 1]) spec).st
  wait : ∀ ctx n s secs k, N (.wait secs k) → Pre ctx s →
    R s (handleWait s (ctx ++ [n + 1]) secs).st ∧ Pre ctx (handleWait s (ctx ++ [n + 1]) secs).st
  cbNew : ∀ ctx n s k, N (.cbNew k) → Pre ctx s →
    R s (ckSt (handleCbNew s (ctx ++ [n + 1]))) ∧ Pre ctx (ckSt (handleCbNew s (ctx ++ [n + 1])))
  cbRes : ∀ ctx s h k, N (.cbRes h k) → Pre ctx s → R s (handleCbRes s h).st ∧ Pre ctx (handleCbRes s h).st
  invoke : ∀ ctx n s pl, Pre ctx s →
    R s (handleInvoke s (ctx ++ [n + 1]) pl).st ∧ Pre ctx (handleInvoke s (ctx ++ [n + 1]) pl).st
  wfc : ∀ ctx n s w, Pre ctx s →
    R s (handleWfc s (ctx ++ [n + 1]) w).st ∧ Pre ctx (handleWfc s (ctx ++ [n + 1]) w).st
  childB : ∀ ctx n s, Pre ctx s →
    R s (cbSt (childBefore s (ctx ++ [n + 1]))) ∧ Pre ctx (cbSt (childBefore s (ctx ++ [n + 1]))) ∧
    (∀ s1 rm, childBefore s (ctx ++ [n + 1]) = .inr (s1, rm) → Pre (ctx ++ [n + 1]) s1)
  childA : ∀ ctx n s0 s c rm e, Pre ctx s0 → Pre (ctx ++ [n + 1]) s →
    R s (childAfter s (ctx ++ [n + 1]) c rm e).st ∧ Pre ctx (childAfter s (ctx ++ [n + 1]) c rm e).st

theorem run_ind {Pre : Pos → St → Prop} {R : St → St → Prop} {N : Prog → Prop}
    (H : RunHyps Pre R N) (p : Prog) :
    AllN N p → ∀ ctx n s, Pre ctx s → R s (run p ctx n s).2 ∧ Pre ctx (run p ctx n s).2 := by
  induction p with
  | ret v => intro _ ctx n s hs; exact ⟨H.refl s, hs⟩
  | raise e => intro _ ctx n s hs; exact ⟨H.refl s, hs⟩
  | log m k ih =>
    intro hp ctx n s hs
    rw [run]
    have h1 := H.log ctx s m hs
    have h2 := ih hp.2 ctx n _ h1.2
    exact ⟨H.trans h1.1 h2.1, h2.2⟩
  | step spec k ih =>
    intro hp ctx n s hs
    rw [run]
    have h1 := H.step ctx n s spec k hp.1 hs
    split
    · rename_i o s1 heq
      rw [heq] at h1
      have h2 := ih o (hp.2 o) ctx (n + 1) s1 h1.2
      exact ⟨H.trans h1.1 h2.1, h2.2⟩
    · rename_i e s1 heq
      rw [heq] at h1
      exact h1
  | wait secs k ih =>
    intro hp ctx n s hs
    rw [run]
    have h1 := H.wait ctx n s secs k hp.1 hs
    split
    · rename_i o s1 heq
      rw [heq] at h1
      have h2 := ih hp.2 ctx (n + 1) s1 h1.2
      exact ⟨H.trans h1.1 h2.1, h2.2⟩
    · rename_i e s1 heq
      rw [heq] at h1
      exact h1
  | cbNew k ih =>
    intro hp ctx n s hs
    rw [run]
    have h1 := H.cbNew ctx n s k hp.1 hs
    split
    · rename_i s1 heq
      rw [heq] at h1
      have h2 := ih (ctx ++ [n + 1]) (hp.2 _) ctx (n + 1) s1 h1.2
      exact ⟨H.trans h1.1 h2.1, h2.2⟩
    · rename_i e s1 heq
      rw [heq] at h1
      exact h1
  | cbRes h k ih =>
    intro hp ctx n s hs
    rw [run]
    have h1 := H.cbRes ctx s h k hp.1 hs
    split
    · rename_i o s1 heq
      rw [heq] at h1
      have h2 := ih o (hp.2 o) ctx n s1 h1.2
      exact ⟨H.trans h1.1 h2.1, h2.2⟩
    · rename_i e s1 heq
      rw [heq] at h1
      exact h1
  | invoke pl k ih =>
    intro hp ctx n s hs
    rw [run]
    have h1 := H.invoke ctx n s pl hs
    split
    · rename_i o s1 heq
      rw [heq] at h1
      have h2 := ih o (hp.2 o) ctx (n + 1) s1 h1.2
      exact ⟨H.trans h1.1 h2.1, h2.2⟩
    · rename_i e s1 heq
      rw [heq] at h1
      exact h1
  | wfc w k ih =>
    intro hp ctx n s hs
    rw [run]
    have h1 := H.wfc ctx n s w hs
    split
    · rename_i o s1 heq
      rw [heq] at h1
      have h2 := ih o (hp.2 o) ctx (n + 1) s1 h1.2
      exact ⟨H.trans h1.1 h2.1, h2.2⟩
    · rename_i e s1 heq
      rw [heq] at h1
      exact h1
  | child c body k ihb ihk =>
    intro hp ctx n s hs
    rw [run]
    have h1 := H.childB ctx n s hs
    split
    · rename_i o s1 heq
      rw [heq] at h1
      have h2 := ihk o (hp.2.2 o) ctx (n + 1) s1 h1.2.1
      exact ⟨H.trans h1.1 h2.1, h2.2⟩
    · rename_i e s1 heq
      rw [heq] at h1
      exact ⟨h1.1, h1.2.1⟩
    · rename_i s1 rm heq
      have hb := ihb hp.2.1 (ctx ++ [n + 1]) 0 s1 (h1.2.2 s1 rm heq)
      rw [heq] at h1
      generalize run body (ctx ++ [n + 1]) 0 s1 = rb at hb ⊢
      obtain ⟨eb, s2⟩ := rb
      simp only at hb ⊢
      have h3 := H.childA ctx n s1 s2 c rm eb h1.2.1 hb.2
      have h13 := H.trans (H.trans h1.1 hb.1) h3.1
      split
      · rename_i o s3 heq3
        rw [heq3] at h3 h13
        have h4 := ihk o (hp.2.2 o) ctx (n + 1) s3 h3.2
        exact ⟨H.trans h13 h4.1, h4.2⟩
      · rename_i e s3 heq3
        rw [heq3] at h3 h13
        exact ⟨h13, h3.2⟩

def AnyE : Ev → Prop := fun _ => True

theorem anyE {E : Ev → Prop} : ∀ e, E e → AnyE e := fun _ _ => trivial

theorem runHyps_mv : RunHyps (fun _ _ => True) (Mv AnyE) (fun _ => True) where
  refl := .refl
  trans := Mv.trans
  log := fun ctx s m _ => ⟨(doLog_mv s ctx m).mono anyE, trivial⟩
  step := fun _ _ _ _ _ _ _ => ⟨(handleStep_mv _ _ _).mono anyE, trivial⟩
  wait := fun _ _ _ _ _ _ _ => ⟨(handleWait_mv _ _ _).mono anyE, trivial⟩
  cbNew := fun _ _ _ _ _ _ => ⟨(handleCbNew_mv _ _).mono anyE, trivial⟩
  cbRes := fun _ _ _ _ _ _ => ⟨(handleCbRes_mv _ _).mono anyE, trivial⟩
  invoke := fun _ _ _ _ _ => ⟨(handleInvoke_mv _ _ _).mono anyE, trivial⟩
  wfc := fun _ _ _ _ _ => ⟨(handleWfc_mv _ _ _).mono anyE, trivial⟩
  childB := fun _ _ _ _ => ⟨(childBefore_mv _ _).mono anyE, trivial, fun _ _ _ => trivial⟩
  childA := fun _ _ _ _ _ _ _ _ _ => ⟨(childAfter_mv _ _ _ _ _).mono anyE, trivial⟩

theorem run_mv (p : Prog) (ctx : Pos) (n : Nat) (s : St) : Mv AnyE s (run p ctx n s).2 :=
  (run_ind runHyps_mv p (allN_true p) ctx n s trivial).1


/-! ## The lifecycle rank of a record; table steps -/

/-- Position of a record in its lifecycle: PENDING(k) < READY(k) < STARTED(k) < terminal(k) ≤
PENDING(k+1) … (`k` = attempts made). -/
def rank (r : OpRec) : Nat :=
  match r.status with
  | .pending => 3 * r.attempt
  | .ready => 3 * r.attempt + 1
  | .started => 3 * r.attempt + 2
  | _ => 3 * r.attempt + 3

/-- … of a table cell: an absent record is below every record. -/
def rankO : Option OpRec → Nat
  | none => 0
  | some r => rank r + 1

/-- One accepted update / one backend event, seen on the table: one cell is (over)written; an
existing record there was not terminal, keeps its kind, and strictly climbs in rank. -/
def TblStep (t t' : Tbl) : Prop :=
  ∃ p r', t' = upsert t p r' ∧
    ∀ r, lookup t p = some r → r'.kind = r.kind ∧ r.status.terminal = false ∧ rank r < rank r'

theorem apply_tblStep_pos {t : Tbl} {u : Upd} {imm : Backend.Immediate} {t' : Tbl}
    (h : Backend.apply t u imm = some t') :
    ∃ r', t' = upsert t u.pos r' ∧
      ∀ r, lookup t u.pos = some r → r'.kind = r.kind ∧ r.status.terminal = false ∧ rank r < rank r' := by
  obtain ⟨r', ht', _, hc⟩ := apply_cases h
  refine ⟨r', ht', ?_⟩
  intro r hr
  rcases hc with ⟨hn, _⟩ | ⟨r0, h0, _, hst, _, rfl⟩ | ⟨r0, h0, hst, _, _, rfl⟩ | ⟨r0, h0, hst, _, _, rfl⟩ |
    ⟨r0, h0, hst, _, _, rfl⟩
  · rw [hn] at hr; cases hr
  · rw [h0] at hr; cases hr
    simp [rank, hst, Status.terminal]
  · rw [h0] at hr; cases hr
    rcases hst with hst | hst <;> simp [rank, hst, Status.terminal]
  · rw [h0] at hr; cases hr
    rcases hst with hst | hst <;> simp [rank, hst, Status.terminal]
  · rw [h0] at hr; cases hr
    rcases hst with hst | hst <;> simp [rank, hst, Status.terminal] <;> omega

theorem apply_tblStep {t : Tbl} {u : Upd} {imm : Backend.Immediate} {t' : Tbl}
    (h : Backend.apply t u imm = some t') : TblStep t t' := by
  obtain ⟨r', ht', hc⟩ := apply_tblStep_pos h
  exact ⟨u.pos, r', ht', hc⟩

theorem fire_tblStep {t : Tbl} {ev : Backend.Event} {t' : Tbl}
    (h : Backend.fire t ev = some t') : TblStep t t' := by
  obtain ⟨p, r0, r', h0, ht', hc⟩ := fire_cases h
  refine ⟨p, r', ht', ?_⟩
  intro r hr
  rw [h0] at hr; cases hr
  rcases hc with ⟨_, hst, rfl⟩ | ⟨_, hst, rfl⟩ | ⟨o, _, hst, ho, rfl⟩
  · simp [rank, hst, Status.terminal]
  · simp [rank, hst, Status.terminal]
  · cases o <;> simp_all [rank, Status.terminal, Backend.finish]

def StableT (Q : Tbl → Prop) : Prop := ∀ t t', TblStep t t' → Q t → Q t'

theorem StableT.toA {Q : Tbl → Prop} (h : StableT Q) : StableA Q :=
  fun _ _ _ _ _ ha hq => h _ _ (apply_tblStep ha) hq

theorem StableT.toF {Q : Tbl → Prop} (h : StableT Q) : StableF Q :=
  fun _ _ _ hf hq => h _ _ (fire_tblStep hf) hq

/-- A terminal record is never changed. -/
theorem stable_frozen (q : Pos) (r : OpRec) (hr : r.status.terminal = true) :
    StableT (fun t => lookup t q = some r) := by
  intro t t' ⟨p, r', ht', hc⟩ hq
  subst ht'
  by_cases hpq : p = q
  · subst hpq
    have := (hc r hq).2.1
    rw [hr] at this; cases this
  · rw [lookup_upsert_ne _ _ _ _ hpq]; exact hq

/-- The rank of a cell never decreases. -/
theorem stable_rank (q : Pos) (n : Nat) : StableT (fun t => n ≤ rankO (lookup t q)) := by
  intro t t' ⟨p, r', ht', hc⟩ hq
  subst ht'
  by_cases hpq : p = q
  · subst hpq
    rw [lookup_upsert_self]
    cases hl : lookup t p with
    | none => rw [hl] at hq; simp only [rankO] at hq ⊢; omega
    | some r =>
      rw [hl] at hq
      have := (hc r hl).2.2
      simp only [rankO] at hq ⊢; omega
  · rw [lookup_upsert_ne _ _ _ _ hpq]; exact hq


/-! ## Invocations and rounds on tables -/

theorem finalTbl_stable {Q : Tbl → Prop} (hQ : StableA Q) (e : End) (s : St) (keep : Nat)
    (hp : ∀ u ∈ s.pending, Issued u) (h : Q s.tbl ∧ Q s.syncTbl) : Q (finalTbl e s keep) := by
  unfold finalTbl
  exact applyPrefix_stable hQ _ _ _ _ hp h.2

theorem invoke_mv (p : Prog) (t : Tbl) (b : Nat) (fa : Option Nat) (imm : Pos → Backend.Immediate) :
    Mv AnyE (initSt t b fa imm) (Engine.invoke p t b fa imm).2 := run_mv p [] 0 _

theorem invoke_stable {Q : Tbl → Prop} (hQ : StableA Q) (p : Prog) (t : Tbl) (b : Nat) (fa : Option Nat)
    (imm : Pos → Backend.Immediate) (keep : Nat) (h : Q t) :
    Q (finalTbl (Engine.invoke p t b fa imm).1 (Engine.invoke p t b fa imm).2 keep) := by
  have hm := invoke_mv p t b fa imm
  refine finalTbl_stable hQ _ _ _ (hm.pendingIssued ?_) (hm.stable hQ ⟨h, h⟩)
  intro u hu; cases hu

theorem runRound_invoke (p : Prog) (t : Tbl) (b : Nat) (fa : Option Nat) (keep : Nat)
    (imm : List (Pos × Backend.Immediate)) :
    Exec.runRound p t (.invoke b fa keep imm) =
      { isInvoke := true,
        ending := some (Engine.invoke p (Exec.visible t) b fa (Exec.immOf imm)).1,
        trace := (Engine.invoke p (Exec.visible t) b fa (Exec.immOf imm)).2.trace,
        tbl := finalTbl (Engine.invoke p (Exec.visible t) b fa (Exec.immOf imm)).1
                 (Engine.invoke p (Exec.visible t) b fa (Exec.immOf imm)).2 keep } := by
  simp only [Exec.runRound]

theorem runRound_event_tbl (p : Prog) (t : Tbl) (ev : Backend.Event) :
    (Exec.runRound p t (.event ev)).tbl = t ∨ Backend.fire t ev = some (Exec.runRound p t (.event ev)).tbl := by
  simp only [Exec.runRound]
  split
  · rename_i t' h; exact Or.inr h
  · exact Or.inl rfl

theorem runRound_event_trace (p : Prog) (t : Tbl) (ev : Backend.Event) :
    (Exec.runRound p t (.event ev)).trace = [] := by
  simp only [Exec.runRound]
  split <;> rfl

/-! ## B6: hidden positions -/

theorem lookup_visible (t : Tbl) (p : Pos) :
    lookup (Exec.visible t) p = if Exec.hidden t p then none else lookup t p := by
  have := lookup_filter (fun q => !(Exec.hidden t q)) t p
  unfold Exec.visible
  rw [this]
  cases Exec.hidden t p <;> simp

theorem mem_ancestors {a p : Pos} :
    a ∈ Exec.ancestors p ↔ ∃ k, 0 < k ∧ k < p.length ∧ a = p.take k := by
  unfold Exec.ancestors
  simp only [List.mem_filterMap, List.mem_range]
  constructor
  · rintro ⟨k, hk, h⟩
    split at h
    · cases h
    · rename_i h0; cases h; exact ⟨k, Nat.pos_of_ne_zero h0, hk, rfl⟩
  · rintro ⟨k, h0, hk, rfl⟩
    refine ⟨k, hk, ?_⟩
    rw [if_neg (by omega)]

theorem ancestors_trans {a b p : Pos} (h1 : a ∈ Exec.ancestors b) (h2 : b ∈ Exec.ancestors p) :
    a ∈ Exec.ancestors p := by
  obtain ⟨j, hj0, hj, rfl⟩ := mem_ancestors.1 h1
  obtain ⟨k, hk0, hk, rfl⟩ := mem_ancestors.1 h2
  rw [List.length_take] at hj
  refine mem_ancestors.2 ⟨j, hj0, by omega, ?_⟩
  rw [List.take_take]
  congr 1
  omega

/-- `anc` hides its descendants: a completed context without ReplayChildren. -/
def Hides (r : OpRec) : Bool := r.kind == .context && r.status.terminal && !r.replayChildren

theorem hidden_iff {t : Tbl} {q : Pos} :
    Exec.hidden t q = true ↔ ∃ anc r, anc ∈ Exec.ancestors q ∧ lookup t anc = some r ∧ Hides r = true := by
  unfold Exec.hidden
  rw [List.any_eq_true]
  constructor
  · rintro ⟨anc, hm, h⟩
    split at h
    · rename_i r hl; exact ⟨anc, r, hm, hl, h⟩
    · cases h
  · rintro ⟨anc, r, hm, hl, h⟩
    refine ⟨anc, hm, ?_⟩
    rw [hl]; exact h

/-- A hidden position has an outermost hiding ancestor, which is itself visible. -/
theorem hidden_outermost (t : Tbl) : ∀ (n : Nat) (q : Pos), q.length = n → Exec.hidden t q = true →
    ∃ anc r, anc ∈ Exec.ancestors q ∧ lookup t anc = some r ∧ Hides r = true ∧ Exec.hidden t anc = false := by
  intro n
  induction n using Nat.strongRecOn with
  | _ n ih =>
    intro q hn hq
    obtain ⟨anc, r, hm, hl, hh⟩ := hidden_iff.1 hq
    cases ha : Exec.hidden t anc with
    | false => exact ⟨anc, r, hm, hl, hh, ha⟩
    | true =>
      obtain ⟨k, _, hk, rfl⟩ := mem_ancestors.1 hm
      have hlen : (q.take k).length < n := by rw [List.length_take]; omega
      obtain ⟨a', r', hm', hl', hh', hv'⟩ := ih _ hlen (q.take k) rfl ha
      exact ⟨a', r', ancestors_trans hm' hm, hl', hh', hv'⟩

theorem hides_terminal {r : OpRec} (h : Hides r = true) : r.status.terminal = true := by
  simp only [Hides, Bool.and_eq_true] at h; exact h.1.2

/-- Once hidden, always hidden (table steps). -/
theorem stable_hidden (q : Pos) : StableT (fun t => Exec.hidden t q = true) := by
  intro t t' hs hq
  obtain ⟨anc, r, hm, hl, hh⟩ := hidden_iff.1 hq
  exact hidden_iff.2 ⟨anc, r, hm, stable_frozen anc r (hides_terminal hh) t t' hs hl, hh⟩


/-! ## Completed operations are not touched again (single invocation) -/

/-- Completed for good: SUCCEEDED / FAILED, and not a context that re-runs its children. -/
def FinRec (r : OpRec) : Prop := Done r = true ∧ (r.status = .succeeded → r.replayChildren = false)

theorem FinRec.terminal {r : OpRec} (h : FinRec r) : r.status.terminal = true := by
  have := h.1
  simp only [Done, Bool.or_eq_true, beq_iff_eq] at this
  rcases this with h | h <;> simp [h, Status.terminal]

theorem done_cases {r : OpRec} (h : Done r = true) : r.status = .succeeded ∨ r.status = .failed := by
  simpa [Done] using h

theorem quietE_deliver (p : Pos) (o : Outcome) : QuietE (.deliver p o) := trivial

theorem handleStep_quiet {s : St} {c : Pos} {r : OpRec} (spec : StepSpec) (hl : lookup s.tbl c = some r)
    (hd : Done r = true) : Mv QuietE s (handleStep s c spec).st := by
  unfold handleStep
  rw [hl]
  rcases done_cases hd with h | h <;> simp only [h, beq_iff_eq, reduceCtorEq, ↓reduceIte] <;>
    exact deliverAt_mv (E := QuietE) _ _ _ trivial

theorem handleWait_quiet {s : St} {c : Pos} {r : OpRec} (secs : Nat) (hl : lookup s.tbl c = some r) :
    Mv QuietE s (handleWait s c secs).st := by
  unfold handleWait
  rw [hl]
  simp only []
  split
  · exact deliverAt_mv _ _ _ trivial
  · exact .refl _

theorem handleInvoke_quiet {s : St} {c : Pos} {r : OpRec} (pl : Val) (hl : lookup s.tbl c = some r) :
    Mv QuietE s (handleInvoke s c pl).st := by
  unfold handleInvoke
  rw [hl]
  simp only [invokeTerminal]
  split
  · simp only [Option.getD_some]; exact deliverAt_mv _ _ _ trivial
  · split
    · simp only [Option.getD_some]; exact deliverAt_mv _ _ _ trivial
    · exact .refl _

theorem handleCbNew_quiet {s : St} {c : Pos} {r : OpRec} (hl : lookup s.tbl c = some r) :
    Mv QuietE s (ckSt (handleCbNew s c)) := by
  unfold handleCbNew
  rw [hl]
  exact (Mv.emit1 (E := QuietE) _ (.deliver c (.ok "cb")) trivial).trans (trackReplay_mv _ _)

theorem handleWfc_quiet {s : St} {c : Pos} {r : OpRec} (w : WfcSpec) (hl : lookup s.tbl c = some r)
    (hd : Done r = true) : Mv QuietE s (handleWfc s c w).st := by
  unfold handleWfc
  simp only []
  rw [hl]
  rcases done_cases hd with h | h <;> simp only [h, beq_iff_eq, reduceCtorEq, ↓reduceIte] <;>
    exact deliverAt_mv (E := QuietE) _ _ _ trivial

theorem childBefore_quiet {s : St} {c : Pos} {r : OpRec} (hl : lookup s.tbl c = some r) (hd : FinRec r) :
    ∃ h, childBefore s c = .inl h ∧ Mv QuietE s h.st := by
  unfold childBefore
  rw [hl]
  rcases done_cases hd.1 with h | h
  · have := hd.2 h
    simp only [h, this]
    exact ⟨_, rfl, deliverAt_mv _ _ _ trivial⟩
  · simp only [h]
    exact ⟨_, rfl, deliverAt_mv _ _ _ trivial⟩

/-- Neither enters a user function at `q` nor hands over an update for `q`. -/
def NT (q : Pos) (e : Ev) : Prop := e.isEnterAt q = false ∧ e.isUpdAt q = false

theorem quietE_nt {q : Pos} : ∀ e, QuietE e → NT q e := by
  intro e h; cases e <;> simp_all [QuietE, NT, Ev.isEnterAt, Ev.isUpdAt]

theorem evAt_nt {c q : Pos} {k : Kind} (h : c ≠ q) : ∀ e, EvAt c k e → NT q e := by
  intro e he
  cases e <;> simp_all [EvAt, NT, Ev.isEnterAt, Ev.isUpdAt]

theorem updAt_nt {c q : Pos} (h : c ≠ q) : ∀ e, UpdAt c e → NT q e :=
  fun e he => evAt_nt (k := .step) h e (updAt_evAt e he)

theorem under_ne {anc q ctx : Pos} {x : Nat} (hq : anc <+: q) (hctx : ¬ anc <+: ctx ∨ q = [])
    (hne : anc ≠ ctx ++ [x]) : ctx ++ [x] ≠ q := by
  intro h
  subst h
  rcases hctx with hctx | hctx
  · rcases List.prefix_concat_iff.1 hq with h | h
    · exact hne h
    · exact hctx h
  · simp at hctx

theorem frozen_mv {E : Ev → Prop} {a b : St} {anc : Pos} {r : OpRec} (hr : r.status.terminal = true)
    (h : Mv E a b) (h1 : lookup a.tbl anc = some r ∧ lookup a.syncTbl anc = some r) :
    lookup b.tbl anc = some r ∧ lookup b.syncTbl anc = some r :=
  h.stable (stable_frozen anc r hr).toA h1

/-- State invariant of `run_noTouch`. -/
def PreNT (anc q : Pos) (r : OpRec) (ctx : Pos) (s : St) : Prop :=
  (lookup s.tbl anc = some r ∧ lookup s.syncTbl anc = some r) ∧ (¬ anc <+: ctx ∨ q = [])

theorem runHyps_noTouch (anc q : Pos) (r : OpRec) (hfin : FinRec r) (hq : anc <+: q) :
    RunHyps (PreNT anc q r) (Mv (NT q)) (fun _ => True) := by
  have hterm := hfin.terminal
  -- generic: a handler at `c = ctx ++ [x]`, quiet when `c = anc`, otherwise working at `c`
  have key : ∀ (ctx : Pos) (x : Nat) (s s' : St) (k : Kind), PreNT anc q r ctx s →
      (lookup s.tbl (ctx ++ [x]) = some r → Mv QuietE s s') → Mv (EvAt (ctx ++ [x]) k) s s' →
      Mv (NT q) s s' ∧ PreNT anc q r ctx s' := by
    intro ctx x s s' k hpre hquiet hat
    have hm : Mv (NT q) s s' := by
      by_cases hc : anc = ctx ++ [x]
      · exact (hquiet (hc ▸ hpre.1.1)).mono quietE_nt
      · exact hat.mono (evAt_nt (under_ne hq hpre.2 hc))
    exact ⟨hm, frozen_mv hterm hm hpre.1, hpre.2⟩
  refine
    { refl := .refl, trans := Mv.trans, log := ?_, step := ?_, wait := ?_, cbNew := ?_, cbRes := ?_,
      invoke := ?_, wfc := ?_, childB := ?_, childA := ?_ }
  · intro ctx s m hpre
    have hm := (doLog_mv s ctx m).mono (quietE_nt (q := q))
    exact ⟨hm, frozen_mv hterm hm hpre.1, hpre.2⟩
  · intro ctx n s spec _ _ hpre
    exact key ctx (n + 1) s _ .step hpre (fun hl => handleStep_quiet spec hl hfin.1) (handleStep_mv _ _ _)
  · intro ctx n s secs _ _ hpre
    exact key ctx (n + 1) s _ .step hpre (fun hl => handleWait_quiet secs hl)
      ((handleWait_mv _ _ _).mono updAt_evAt)
  · intro ctx n s _ _ hpre
    exact key ctx (n + 1) s _ .step hpre (fun hl => handleCbNew_quiet hl)
      ((handleCbNew_mv _ _).mono updAt_evAt)
  · intro ctx s h _ _ hpre
    have hm := (handleCbRes_mv s h).mono (quietE_nt (q := q))
    exact ⟨hm, frozen_mv hterm hm hpre.1, hpre.2⟩
  · intro ctx n s pl hpre
    exact key ctx (n + 1) s _ .step hpre (fun hl => handleInvoke_quiet pl hl)
      ((handleInvoke_mv _ _ _).mono updAt_evAt)
  · intro ctx n s w hpre
    exact key ctx (n + 1) s _ .wfc hpre (fun hl => handleWfc_quiet w hl hfin.1) (handleWfc_mv _ _ _)
  · intro ctx n s hpre
    have h1 := key ctx (n + 1) s (cbSt (childBefore s (ctx ++ [n + 1]))) .context hpre
      (fun hl => by
        obtain ⟨h, he, hm⟩ := childBefore_quiet hl hfin
        rw [he]; exact hm)
      (childBefore_mv _ _)
    refine ⟨h1.1, h1.2, ?_⟩
    intro s1 rm heq
    rw [heq] at h1
    refine ⟨h1.2.1, ?_⟩
    rcases hpre.2 with hctx | hq0
    · left
      intro hpre'
      rcases List.prefix_concat_iff.1 hpre' with h | h
      · obtain ⟨hh, he, _⟩ := childBefore_quiet (h ▸ hpre.1.1) hfin
        rw [he] at heq; cases heq
      · exact hctx h
    · exact Or.inr hq0
  · intro ctx n s0 s c rm e hpre0 hpre
    have hne' : ctx ++ [n + 1] ≠ q := by
      rcases hpre.2 with h | h
      · exact under_ne hq hpre0.2 (fun h' => h (h' ▸ List.prefix_refl _))
      · rw [h]; simp
    have hm := (childAfter_mv s (ctx ++ [n + 1]) c rm e).mono (updAt_nt hne')
    exact ⟨hm, frozen_mv hterm hm hpre.1, hpre0.2⟩

/-- **Single invocation.** If the record at `anc` is completed for good, no position at or below
`anc` is entered or updated by a run whose context is not inside `anc`. -/
theorem run_noTouch (anc q : Pos) (r : OpRec) (hfin : FinRec r) (hq : anc <+: q) (p : Prog)
    (ctx : Pos) (n : Nat) (s : St) (h1 : lookup s.tbl anc = some r) (h2 : lookup s.syncTbl anc = some r)
    (hctx : ¬ anc <+: ctx ∨ q = []) : Mv (NT q) s (run p ctx n s).2 :=
  (run_ind (runHyps_noTouch anc q r hfin hq) p (allN_true p) ctx n s ⟨⟨h1, h2⟩, hctx⟩).1

theorem newEvents_of_trace {s s' : St} {l : List Ev} (h : s'.trace = s.trace ++ l) : newEvents s s' = l := by
  unfold newEvents; rw [h]; exact List.drop_left

theorem mv_noTouch {q : Pos} {s s' : St} (h : Mv (NT q) s s') : noTouch q (newEvents s s') = true := by
  obtain ⟨l, hl, hall⟩ := h.trace_eq
  rw [newEvents_of_trace hl]
  unfold noTouch
  rw [List.all_eq_true]
  intro e he
  have := hall e he
  simp [this.1, this.2]


/-! ## Well-formed tables -/

def badSt (s : Status) : Bool := s == .cancelled || s == .timedOut || s == .stopped

/-- CANCELLED / TIMED_OUT / STOPPED occur only on wait / callback / invoke records, and only
contexts carry ReplayChildren. -/
def RecWf (r : OpRec) : Prop :=
  (badSt r.status = true → r.kind = .wait ∨ r.kind = .callback ∨ r.kind = .invoke) ∧
  (r.replayChildren = true → r.kind = .context)

def WF (t : Tbl) : Prop := ∀ p r, lookup t p = some r → RecWf r

theorem wf_nil : WF [] := by intro p r h; cases h

theorem wf_upsert {t : Tbl} {p : Pos} {r' : OpRec} (h : WF t) (hr : RecWf r') : WF (upsert t p r') := by
  intro q r hl
  rw [lookup_upsert] at hl
  split at hl
  · cases hl; exact hr
  · exact h q r hl

theorem stableA_wf : StableA WF := by
  intro t u imm t' hu ha hwf
  obtain ⟨r', rfl, hk, hc⟩ := apply_cases ha
  refine wf_upsert hwf ?_
  rcases hc with ⟨_, _, rfl⟩ | ⟨r0, h0, _, _, _, rfl⟩ | ⟨r0, h0, _, _, _, rfl⟩ | ⟨r0, h0, _, _, _, rfl⟩ |
    ⟨r0, h0, _, _, _, rfl⟩
  · cases hkk : u.kind <;> cases imm <;> simp [Backend.startRec, RecWf, badSt]
  · exact ⟨by simp [badSt], (hwf _ _ h0).2⟩
  · refine ⟨by simp [badSt], ?_⟩
    intro hrc
    exact hk.trans (hu.2 hrc)
  · exact ⟨by simp [badSt], (hwf _ _ h0).2⟩
  · exact ⟨by simp [badSt], (hwf _ _ h0).2⟩

theorem stableF_wf : StableF WF := by
  intro t ev t' hf hwf
  obtain ⟨p, r0, r', h0, rfl, hc⟩ := fire_cases hf
  refine wf_upsert hwf ?_
  have h00 := hwf _ _ h0
  rcases hc with ⟨_, _, rfl⟩ | ⟨_, _, rfl⟩ | ⟨o, hk, _, _, rfl⟩
  · exact ⟨by simp [badSt], h00.2⟩
  · exact ⟨by simp [badSt], h00.2⟩
  · have hkk : (Backend.finish r0 o).kind = r0.kind := by cases o <;> rfl
    have hrc : (Backend.finish r0 o).replayChildren = r0.replayChildren := by cases o <;> rfl
    refine ⟨fun _ => ?_, ?_⟩
    · rw [hkk]; rcases hk with h | h
      · exact Or.inr (Or.inl h)
      · exact Or.inr (Or.inr h)
    · rw [hkk, hrc]; exact h00.2

theorem wf_visible {t : Tbl} (h : WF t) : WF (Exec.visible t) := by
  intro p r hl
  rw [lookup_visible] at hl
  split at hl
  · cases hl
  · exact h p r hl

theorem round_wf (p : Prog) (t : Tbl) (rd : Exec.Round) (h : WF t) : WF (Exec.runRound p t rd).tbl := by
  cases rd with
  | invoke b fa keep imm =>
    rw [runRound_invoke]
    exact invoke_stable stableA_wf p _ b fa _ keep (wf_visible h)
  | event ev =>
    rcases runRound_event_tbl p t ev with h1 | h1
    · rw [h1]; exact h
    · exact stableF_wf _ _ _ h1 h

theorem hides_finRec {r : OpRec} (hw : RecWf r) (h : Hides r = true) : FinRec r := by
  simp only [Hides, Bool.and_eq_true, beq_iff_eq, Bool.not_eq_true'] at h
  obtain ⟨⟨hk, ht⟩, hrc⟩ := h
  refine ⟨?_, fun _ => hrc⟩
  have hb := hw.1
  cases hs : r.status <;> simp_all [Done, Status.terminal, badSt]

theorem finRec_of_done {r : OpRec} (hw : RecWf r) (hd : Done r = true) (hrc : ReplayCtx r = false) :
    FinRec r := by
  refine ⟨hd, fun hs => ?_⟩
  cases h : r.replayChildren with
  | false => rfl
  | true =>
    have := hw.2 h
    simp [ReplayCtx, this, hs, h] at hrc

/-! ## Rounds -/

theorem runRounds_inv (p : Prog) (Q : Tbl → Prop)
    (hstep : ∀ t rd, Q t → Q (Exec.runRound p t rd).tbl) :
    ∀ (rounds : List Exec.Round) (t : Tbl), Q t → ∀ o ∈ Exec.runRounds p t rounds, Q o.tbl := by
  intro rounds
  induction rounds with
  | nil => intro t _ o ho; cases ho
  | cons rd rs ih =>
    intro t ht o ho
    simp only [Exec.runRounds, List.mem_cons] at ho
    rcases ho with rfl | ho
    · exact hstep t rd ht
    · exact ih _ (hstep t rd ht) o ho

theorem runRounds_mem (p : Prog) (Q : Tbl → Prop)
    (hstep : ∀ t rd, Q t → Q (Exec.runRound p t rd).tbl) :
    ∀ (rounds : List Exec.Round) (t : Tbl), Q t → ∀ o ∈ Exec.runRounds p t rounds,
      ∃ t' rd, Q t' ∧ o = Exec.runRound p t' rd := by
  intro rounds
  induction rounds with
  | nil => intro t _ o ho; cases ho
  | cons rd rs ih =>
    intro t ht o ho
    simp only [Exec.runRounds, List.mem_cons] at ho
    rcases ho with rfl | ho
    · exact ⟨t, rd, ht, rfl⟩
    · exact ih _ (hstep t rd ht) o ho

/-- The backend table after a list of rounds. -/
def tblAfter (p : Prog) (t : Tbl) (rounds : List Exec.Round) : Tbl :=
  rounds.foldl (fun t rd => (Exec.runRound p t rd).tbl) t

theorem tblAfter_append (p : Prog) (t : Tbl) (r1 r2 : List Exec.Round) :
    tblAfter p t (r1 ++ r2) = tblAfter p (tblAfter p t r1) r2 := by
  simp [tblAfter, List.foldl_append]

theorem tblAfter_inv (p : Prog) (Q : Tbl → Prop)
    (hstep : ∀ t rd, Q t → Q (Exec.runRound p t rd).tbl) :
    ∀ (rounds : List Exec.Round) (t : Tbl), Q t → Q (tblAfter p t rounds) := by
  intro rounds
  induction rounds with
  | nil => intro t h; exact h
  | cons rd rs ih => intro t h; exact ih _ (hstep t rd h)

theorem runRounds_append (p : Prog) (t : Tbl) (r1 r2 : List Exec.Round) :
    Exec.runRounds p t (r1 ++ r2) = Exec.runRounds p t r1 ++ Exec.runRounds p (tblAfter p t r1) r2 := by
  induction r1 generalizing t with
  | nil => rfl
  | cons rd rs ih =>
    simp only [List.cons_append, Exec.runRounds, tblAfter, List.foldl_cons]
    rw [ih]; rfl

theorem runRounds_length (p : Prog) (rounds : List Exec.Round) :
    ∀ t, (Exec.runRounds p t rounds).length = rounds.length := by
  induction rounds with
  | nil => intro t; rfl
  | cons rd rs ih => intro t; simp [Exec.runRounds, ih]

/-- A terminal record stays, or its position becomes (and stays) hidden — one round. -/
theorem round_frozen_or_hidden (p : Prog) (q : Pos) (r : OpRec) (hr : r.status.terminal = true)
    (t : Tbl) (rd : Exec.Round) (h : lookup t q = some r ∨ Exec.hidden t q = true) :
    lookup (Exec.runRound p t rd).tbl q = some r ∨ Exec.hidden (Exec.runRound p t rd).tbl q = true := by
  cases rd with
  | event ev =>
    rcases runRound_event_tbl p t ev with h1 | h1
    · rw [h1]; exact h
    · rcases h with h | h
      · exact Or.inl ((stable_frozen q r hr).toF _ _ _ h1 h)
      · exact Or.inr ((stable_hidden q).toF _ _ _ h1 h)
  | invoke b fa keep imm =>
    rw [runRound_invoke]
    simp only []
    cases hh : Exec.hidden t q with
    | true =>
      right
      obtain ⟨anc, r', hm, hl, hhid, hv⟩ := hidden_outermost t _ q rfl hh
      have hvis : lookup (Exec.visible t) anc = some r' := by rw [lookup_visible, hv]; simpa using hl
      have := invoke_stable (stable_frozen anc r' (hides_terminal hhid)).toA p _ b fa (Exec.immOf imm) keep hvis
      exact hidden_iff.2 ⟨anc, r', hm, this, hhid⟩
    | false =>
      left
      rcases h with h | h
      · have hvis : lookup (Exec.visible t) q = some r := by rw [lookup_visible, hh]; simpa using h
        exact invoke_stable (stable_frozen q r hr).toA p _ b fa (Exec.immOf imm) keep hvis
      · rw [hh] at h; cases h

theorem mem_ancestors_prefix {a q : Pos} (h : a ∈ Exec.ancestors q) : a <+: q ∧ a ≠ [] := by
  obtain ⟨k, hk0, hk, rfl⟩ := mem_ancestors.1 h
  refine ⟨List.take_prefix _ _, ?_⟩
  intro h0
  have := congrArg List.length h0
  rw [List.length_take, List.length_nil] at this
  omega

/-- An invocation on the visible part of `t` touches neither a position whose record is completed
for good, nor a hidden position. -/
theorem invoke_noTouch (p : Prog) (t : Tbl) (b : Nat) (fa : Option Nat) (imm : Pos → Backend.Immediate)
    (hwf : WF t) (q : Pos)
    (h : (∃ r, lookup t q = some r ∧ FinRec r) ∨ Exec.hidden t q = true) :
    Mv (NT q) (initSt (Exec.visible t) b fa imm) (Engine.invoke p (Exec.visible t) b fa imm).2 := by
  cases hh : Exec.hidden t q with
  | true =>
    obtain ⟨anc, r', hm, hl, hhid, hv⟩ := hidden_outermost t _ q rfl hh
    have hvis : lookup (Exec.visible t) anc = some r' := by rw [lookup_visible, hv]; simpa using hl
    obtain ⟨hpre, hne⟩ := mem_ancestors_prefix hm
    refine run_noTouch anc q r' (hides_finRec (hwf _ _ hl) hhid) hpre p [] 0 _ hvis hvis (Or.inl ?_)
    intro h0
    exact hne (List.prefix_nil.1 h0)
  | false =>
    rcases h with ⟨r, hl, hfin⟩ | h
    · have hvis : lookup (Exec.visible t) q = some r := by rw [lookup_visible, hh]; simpa using hl
      by_cases hq0 : q = []
      · exact run_noTouch q q r hfin (List.prefix_refl _) p [] 0 _ hvis hvis (Or.inr hq0)
      · refine run_noTouch q q r hfin (List.prefix_refl _) p [] 0 _ hvis hvis (Or.inl ?_)
        intro h0
        exact hq0 (List.prefix_nil.1 h0)
    · rw [hh] at h; cases h

theorem invoke_trace_nil (p : Prog) (t : Tbl) (b : Nat) (fa : Option Nat) (imm : Pos → Backend.Immediate) :
    newEvents (initSt t b fa imm) (Engine.invoke p t b fa imm).2 = (Engine.invoke p t b fa imm).2.trace := by
  simp [newEvents, initSt]


/-! ## C04: at-most-once steps -/

theorem Mv.stable_tbl {E : Ev → Prop} {Q : Tbl → Prop} (hQ : StableA Q) {a b : St} (h : Mv E a b) :
    Q a.tbl → Q b.tbl := by
  induction h with
  | refl => exact id
  | silent e1 _ _ _ _ _ ih => intro h; exact ih (by rw [e1]; exact h)
  | emit e _ _ ih => intro h; exact ih h
  | async u hu _ ha _ _ _ _ _ ih => intro h; exact ih (hQ _ _ _ _ hu ha h)
  | asyncRej _ _ e1 _ _ _ _ _ ih => intro h; exact ih (by rw [e1]; exact h)
  | sync u hu ha _ _ _ _ _ ih => intro h; exact ih (hQ _ _ _ _ hu ha h)

/-- The event "the user function of the step at `q` is entered for attempt `a`". -/
def isEnt (q : Pos) (a : Nat) : Ev → Bool
  | .enter p .step b none => p == q && b == a
  | _ => false

theorem isEnt_eq (q : Pos) (a : Nat) (e : Ev) : isEnt q a e = (e == Ev.enter q .step a none) := by
  cases e with
  | enter p k b st =>
    cases k <;> cases st
    all_goals simp [isEnt]
    by_cases h1 : p = q
    · by_cases h2 : b = a
      · subst h1; subst h2; simp
      · have hb : (b == a) = false := by simpa using h2
        have hr : (Ev.enter p .step b none == Ev.enter q .step a none) = false := by
          rw [beq_eq_false_iff_ne]; intro h; injection h with _ _ h3 _; exact h2 h3
        rw [hb, hr]; simp
    · have hb : (p == q) = false := by simpa using h1
      have hr : (Ev.enter p .step b none == Ev.enter q .step a none) = false := by
        rw [beq_eq_false_iff_ne]; intro h; injection h with h3 _ _ _; exact h1 h3
      rw [hb, hr]; simp
  | _ => simp [isEnt]

def cntE (q : Pos) (a : Nat) (l : List Ev) : Nat := l.countP (isEnt q a)

theorem cntE_append (q : Pos) (a : Nat) (l1 l2 : List Ev) : cntE q a (l1 ++ l2) = cntE q a l1 + cntE q a l2 := by
  simp [cntE]

theorem cntE_zero_of {q : Pos} {a : Nat} {l : List Ev} (h : ∀ e ∈ l, isEnt q a e = false) : cntE q a l = 0 := by
  unfold cntE
  rw [List.countP_eq_zero]
  intro e he
  simp [h e he]

/-- The record is at or beyond "attempt `a` started" in its lifecycle. -/
def past (a : Nat) (r : OpRec) : Bool := r.status.terminal || decide (3 * a ≤ rank r + 1)

def PastT (a : Nat) (q : Pos) (t : Tbl) : Prop := ∃ r, lookup t q = some r ∧ past a r = true

def PastS (a : Nat) (q : Pos) (s : St) : Prop := PastT a q s.tbl ∧ PastT a q s.syncTbl

theorem stable_past (a : Nat) (q : Pos) : StableT (PastT a q) := by
  intro t t' hs ⟨r, hl, hp⟩
  cases ht : r.status.terminal with
  | true => exact ⟨r, stable_frozen q r ht t t' hs hl, hp⟩
  | false =>
    simp only [past, ht, Bool.false_or, decide_eq_true_eq] at hp
    have h1 : rank r + 1 ≤ rankO (lookup t q) := by rw [hl]; exact Nat.le_refl _
    have h2 : rank r + 1 ≤ rankO (lookup t' q) := stable_rank q (rank r + 1) t t' hs h1
    cases hl' : lookup t' q with
    | none => rw [hl'] at h2; simp [rankO] at h2
    | some r' =>
      rw [hl'] at h2
      simp only [rankO] at h2
      refine ⟨r', hl', ?_⟩
      simp only [past, Bool.or_eq_true, decide_eq_true_eq]
      right; omega

def BadAt (q : Pos) (t : Tbl) : Prop := ∃ r, lookup t q = some r ∧ badSt r.status = true

theorem bad_terminal {st : Status} (h : badSt st = true) : st.terminal = true := by
  cases st <;> simp_all [badSt, Status.terminal]

theorem stable_bad (q : Pos) : StableT (BadAt q) := by
  intro t t' hs ⟨r, hl, hb⟩
  exact ⟨r, stable_frozen q r (bad_terminal hb) t t' hs hl, hb⟩

/-- The synchronously acknowledged table and the current table agree on CANCELLED / TIMED_OUT /
STOPPED records at `q` (these are only produced by synchronous STARTs). -/
def Kinv (q : Pos) (s : St) : Prop :=
  ∀ r, badSt r.status = true → (lookup s.tbl q = some r ↔ lookup s.syncTbl q = some r)

theorem apply_async_notbad {t t' : Tbl} {u : Upd} {imm : Backend.Immediate} {q : Pos} {r : OpRec}
    (hu : Issued u) (hs : u.sync = false) (ha : Backend.apply t u imm = some t')
    (hl : lookup t' q = some r) (hb : badSt r.status = true) : lookup t q = some r := by
  obtain ⟨r', rfl, _, hc⟩ := apply_cases ha
  rw [lookup_upsert] at hl
  split at hl
  · cases hl
    exfalso
    have hk := hu.1 hs
    rcases hc with ⟨_, _, rfl⟩ | ⟨r0, _, _, _, _, rfl⟩ | ⟨r0, _, _, _, _, rfl⟩ | ⟨r0, _, _, _, _, rfl⟩ |
      ⟨r0, _, _, _, _, rfl⟩
    · rcases hk with hk | hk | hk <;> simp [hk, Backend.startRec, badSt] at hb
    all_goals simp [badSt] at hb
  · exact hl

theorem Mv.kinv {E : Ev → Prop} {q : Pos} {a b : St} (h : Mv E a b) : Kinv q a → Kinv q b := by
  induction h with
  | refl => exact id
  | silent e1 _ e3 _ _ _ ih => intro h; apply ih; intro r hr; rw [e1, e3]; exact h r hr
  | emit e _ _ ih => intro h; exact ih h
  | @async s s1 s2 u hu hs ha _ e3 _ _ _ ih =>
    intro h; apply ih; intro r hr
    rw [e3]
    constructor
    · intro hl; exact (h r hr).1 (apply_async_notbad hu hs ha hl hr)
    · intro hl
      exact (stable_frozen q r (bad_terminal hr)).toA _ _ _ _ hu ha ((h r hr).2 hl)
  | asyncRej _ _ e1 _ e3 _ _ _ ih => intro h; apply ih; intro r hr; rw [e1, e3]; exact h r hr
  | sync _ _ _ e2 _ _ _ _ ih => intro _; apply ih; intro r _; rw [e2]

/-- What one stretch of an invocation contributes to "attempt `a` of `q` is entered". -/
structure Spec (q : Pos) (a : Nat) (s s' : St) : Prop where
  mv : Mv AnyE s s'
  facts : ¬ BadAt q s'.tbl → ∃ l, s'.trace = s.trace ++ l ∧ cntE q a l ≤ 1 ∧
    (PastS a q s → cntE q a l = 0) ∧ (1 ≤ cntE q a l → PastS a q s')

theorem Spec.refl (q : Pos) (a : Nat) (s : St) : Spec q a s s :=
  ⟨.refl _, fun _ => ⟨[], by simp, by simp [cntE], fun _ => by simp [cntE], fun h => by simp [cntE] at h⟩⟩

theorem pastS_mv {E : Ev → Prop} {a : Nat} {q : Pos} {s s' : St} (h : Mv E s s') : PastS a q s → PastS a q s' :=
  h.stable (stable_past a q).toA

theorem Spec.trans {q : Pos} {a : Nat} {s s1 s2 : St} (h1 : Spec q a s s1) (h2 : Spec q a s1 s2) :
    Spec q a s s2 := by
  refine ⟨h1.mv.trans h2.mv, ?_⟩
  intro hnb
  have hnb1 : ¬ BadAt q s1.tbl := fun hb => hnb (h2.mv.stable_tbl (stable_bad q).toA hb)
  obtain ⟨l1, e1, c1, p1, q1⟩ := h1.facts hnb1
  obtain ⟨l2, e2, c2, p2, q2⟩ := h2.facts hnb
  refine ⟨l1 ++ l2, by rw [e2, e1, List.append_assoc], ?_, ?_, ?_⟩
  · rw [cntE_append]
    by_cases hc : 1 ≤ cntE q a l1
    · have := p2 (q1 hc); omega
    · omega
  · intro hp
    rw [cntE_append, p1 hp, p2 (pastS_mv h1.mv hp)]
  · rw [cntE_append]
    intro hc
    by_cases hc2 : 1 ≤ cntE q a l2
    · exact q2 hc2
    · exact pastS_mv h2.mv (q1 (by omega))

theorem spec_of_mv {E : Ev → Prop} {q : Pos} {a : Nat} {s s' : St} (h : Mv E s s')
    (hE : ∀ e, E e → isEnt q a e = false) : Spec q a s s' := by
  refine ⟨h.mono anyE, fun _ => ?_⟩
  obtain ⟨l, hl, hall⟩ := h.trace_eq
  have h0 : cntE q a l = 0 := cntE_zero_of (fun e he => hE e (hall e he))
  exact ⟨l, hl, by omega, fun _ => h0, fun hc => by omega⟩

theorem updAt_noEnt {c q : Pos} {a : Nat} : ∀ e, UpdAt c e → isEnt q a e = false := by
  intro e h; cases e <;> simp_all [UpdAt, isEnt]

theorem quietE_noEnt {q : Pos} {a : Nat} : ∀ e, QuietE e → isEnt q a e = false := by
  intro e h; cases e <;> simp_all [QuietE, isEnt]

theorem evAt_noEnt_kind {c q : Pos} {a : Nat} {k : Kind} (hk : k ≠ .step) : ∀ e, EvAt c k e → isEnt q a e = false := by
  intro e h
  cases e with
  | enter p k' b st =>
    simp only [EvAt] at h
    obtain ⟨_, rfl⟩ := h
    cases k' <;> simp_all [isEnt]
  | _ => simp [isEnt]

theorem evAt_noEnt_pos {c q : Pos} {a : Nat} {k : Kind} (hc : c ≠ q) : ∀ e, EvAt c k e → isEnt q a e = false := by
  intro e h
  cases e with
  | enter p k' b st =>
    simp only [EvAt] at h
    obtain ⟨rfl, _⟩ := h
    cases k' <;> cases st <;> simp [isEnt, hc]
  | _ => simp [isEnt]

/-- **Handler-level analysis of an at-most-once step** whose record is not CANCELLED / TIMED_OUT /
STOPPED: either the user function is not entered at all, or exactly this happens: a synchronous
START is applied (record: STARTED, attempts as before), then the function is entered once for attempt
`attempts + 1`, then only updates follow. -/
theorem handleStep_amo {s : St} {q : Pos} {spec : StepSpec} (hamo : spec.amo = true)
    (hnb : ∀ r, lookup s.tbl q = some r → badSt r.status = false) :
    Mv (UpdAt q) s (handleStep s q spec).st ∨
    ∃ (s1 : St) (rec : OpRec),
      checkpoint s { pos := q, kind := .step, action := .start, sync := true } = .ok s1 ∧
      lookup s1.tbl q = some rec ∧ rec.status = .started ∧ rec.kind = .step ∧
      (match lookup s.tbl q with
        | none => rec.attempt = 0
        | some r0 => r0.status = .ready ∧ r0.kind = .step ∧ rec.attempt = r0.attempt) ∧
      Mv (UpdAt q) (Engine.emit s1 (.enter q .step (rec.attempt + 1) none)) (handleStep s q spec).st := by
  unfold handleStep
  cases hl : lookup s.tbl q with
  | some r =>
    simp only [hamo, Bool.and_true]
    have hnb' := hnb r hl
    cases hst : r.status
    case succeeded => left; simp only [beq_iff_eq, ↓reduceIte]; exact deliverAt_mv _ _ _ rfl
    case failed => left; simp only [beq_iff_eq, reduceCtorEq, ↓reduceIte]; exact deliverAt_mv _ _ _ rfl
    case pending => left; simp only [beq_iff_eq, reduceCtorEq, ↓reduceIte]; exact .refl _
    case started => left; simp only [beq_iff_eq, reduceCtorEq, ↓reduceIte]; exact retryHandler_mv _ _ _ _ _
    case ready =>
      simp only [beq_iff_eq, reduceCtorEq, ↓reduceIte]
      split
      · rename_i hck
        left
        exact (checkpoint_err_mv (by issued) hck).mono (ckE_updAt rfl)
      · rename_i s1 hck
        right
        obtain ⟨t', ha, ht1, _, _, _, _⟩ := checkpoint_ok_sync rfl hck
        obtain ⟨r', rfl, hk, hc⟩ := apply_cases ha
        have hl1 : lookup s1.tbl q = some r' := by rw [ht1]; exact lookup_upsert_self _ _ _
        simp only [hl] at hc
        rcases hc with ⟨hn, _⟩ | ⟨r0, h0, _, _, _, rfl⟩ | ⟨r0, _, _, _, ha', _⟩ | ⟨r0, _, _, _, ha', _⟩ |
          ⟨r0, _, _, _, ha', _⟩
        · cases hn
        · cases h0
          refine ⟨s1, _, hck, hl1, rfl, hk, ⟨trivial, hk, rfl⟩, ?_⟩
          rw [hl1]
          exact stepExecute_mv s1 q spec (some _)
        all_goals cases ha'
    all_goals simp [hst, badSt] at hnb'
  | none =>
    simp only [hamo, ↓reduceIte]
    split
    · rename_i hck
      left
      exact (checkpoint_err_mv (by issued) hck).mono (ckE_updAt rfl)
    · rename_i s1 hck
      right
      obtain ⟨t', ha, ht1, _, _, _, _⟩ := checkpoint_ok_sync rfl hck
      obtain ⟨r', rfl, hk, hc⟩ := apply_cases ha
      have hl1 : lookup s1.tbl q = some r' := by rw [ht1]; exact lookup_upsert_self _ _ _
      simp only [hl] at hc
      rcases hc with ⟨_, _, rfl⟩ | ⟨r0, h0, _⟩ | ⟨r0, h0, _⟩ | ⟨r0, h0, _⟩ | ⟨r0, h0, _⟩
      · refine ⟨s1, _, hck, hl1, rfl, rfl, rfl, ?_⟩
        rw [hl1]
        exact stepExecute_mv s1 q spec (some _)
      all_goals cases h0


theorem past_started {a : Nat} {r : OpRec} (hst : r.status = .started) (ha : r.attempt + 1 = a) :
    past a r = true := by
  simp only [past, rank, hst, Bool.or_eq_true, decide_eq_true_eq]
  right; omega

theorem past_ready {a : Nat} {r : OpRec} (hst : r.status = .ready) (hp : past a r = true) : a ≤ r.attempt := by
  simp only [past, rank, hst, Status.terminal, Bool.false_or, decide_eq_true_eq] at hp
  omega

theorem spec_handleStep (q : Pos) (a : Nat) (s : St) (c : Pos) (spec : StepSpec) (hamo : spec.amo = true) :
    Spec q a s (handleStep s c spec).st := by
  by_cases hc : c = q
  · subst hc
    refine ⟨(handleStep_mv s c spec).mono anyE, ?_⟩
    intro hnb
    have hnb0 : ∀ r, lookup s.tbl c = some r → badSt r.status = false := by
      intro r hl
      cases hb : badSt r.status with
      | false => rfl
      | true => exact absurd ((handleStep_mv s c spec).stable_tbl (stable_bad c).toA ⟨r, hl, hb⟩) hnb
    rcases handleStep_amo hamo hnb0 with h | ⟨s1, rec, hck, hl1, hst, hk, hmatch, hm⟩
    · exact (spec_of_mv h updAt_noEnt).facts hnb
    · obtain ⟨t', ha, ht1, hs1, _, _, htr⟩ := checkpoint_ok_sync rfl hck
      obtain ⟨l2, hl2, hall2⟩ := hm.trace_eq
      have h0 : cntE c a l2 = 0 := cntE_zero_of (fun e he => updAt_noEnt e (hall2 e he))
      have hcnt : cntE c a ([Ev.upd { pos := c, kind := .step, action := .start, sync := true },
          Ev.applied { pos := c, kind := .step, action := .start, sync := true },
          Ev.enter c .step (rec.attempt + 1) none] ++ l2) = if rec.attempt + 1 = a then 1 else 0 := by
        rw [cntE_append, h0]
        simp [cntE, isEnt, List.countP_cons]
      refine ⟨[Ev.upd { pos := c, kind := .step, action := .start, sync := true },
          Ev.applied { pos := c, kind := .step, action := .start, sync := true },
          Ev.enter c .step (rec.attempt + 1) none] ++ l2, ?_, ?_, ?_, ?_⟩
      · rw [hl2]; simp only [Engine.emit]; rw [htr]; simp only [List.append_assoc, List.cons_append, List.nil_append]
      · rw [hcnt]; split <;> omega
      · intro hp
        rw [hcnt]
        obtain ⟨r0, hl0, hp0⟩ := hp.1
        rw [hl0] at hmatch
        simp only [] at hmatch
        have := past_ready hmatch.1 hp0
        rw [if_neg (by omega)]
      · intro h1
        rw [hcnt] at h1
        have hatt : rec.attempt + 1 = a := by
          by_cases h : rec.attempt + 1 = a
          · exact h
          · rw [if_neg h] at h1; omega
        refine pastS_mv hm ?_
        have hp : PastT a c s1.tbl := ⟨rec, hl1, past_started hst hatt⟩
        exact ⟨hp, by show PastT a c s1.syncTbl; rw [hs1, ← ht1]; exact hp⟩
  · exact spec_of_mv (handleStep_mv s c spec) (evAt_noEnt_pos hc)

/-- All step nodes of the program are at-most-once steps. -/
def AllAmo (p : Prog) : Prop := AllS (fun sp => sp.amo = true) p

theorem runHyps_spec (q : Pos) (a : Nat) :
    RunHyps (fun _ _ => True) (Spec q a) (stepN (fun sp => sp.amo = true)) where
  refl := Spec.refl q a
  trans := Spec.trans
  log := fun ctx s m _ => ⟨spec_of_mv (doLog_mv s ctx m) quietE_noEnt, trivial⟩
  step := fun _ _ s spec _ hamo _ => ⟨spec_handleStep q a s _ spec hamo, trivial⟩
  wait := fun _ _ _ _ _ _ _ => ⟨spec_of_mv (handleWait_mv _ _ _) updAt_noEnt, trivial⟩
  cbNew := fun _ _ _ _ _ _ => ⟨spec_of_mv (handleCbNew_mv _ _) updAt_noEnt, trivial⟩
  cbRes := fun _ _ _ _ _ _ => ⟨spec_of_mv (handleCbRes_mv _ _) quietE_noEnt, trivial⟩
  invoke := fun _ _ _ _ _ => ⟨spec_of_mv (handleInvoke_mv _ _ _) updAt_noEnt, trivial⟩
  wfc := fun _ _ _ _ _ => ⟨spec_of_mv (handleWfc_mv _ _ _) (evAt_noEnt_kind (by decide)), trivial⟩
  childB := fun _ _ _ _ =>
    ⟨spec_of_mv (childBefore_mv _ _) (evAt_noEnt_kind (by decide)), trivial, fun _ _ _ => trivial⟩
  childA := fun _ _ _ _ _ _ _ _ _ => ⟨spec_of_mv (childAfter_mv _ _ _ _ _) updAt_noEnt, trivial⟩

theorem run_spec (q : Pos) (a : Nat) (p : Prog) (hp : AllAmo p) (ctx : Pos) (n : Nat) (s : St) :
    Spec q a s (run p ctx n s).2 :=
  (run_ind (runHyps_spec q a) p (allS_allN p hp) ctx n s trivial).1

/-- Attempt `a` of `q` was already started (or `q` is beyond it, or can no longer be reached). -/
def PastR (a : Nat) (q : Pos) (t : Tbl) : Prop := Exec.hidden t q = true ∨ PastT a q t

theorem round_hidden (p : Prog) (q : Pos) (t : Tbl) (rd : Exec.Round) (hh : Exec.hidden t q = true) :
    Exec.hidden (Exec.runRound p t rd).tbl q = true := by
  cases rd with
  | event ev =>
    rcases runRound_event_tbl p t ev with h1 | h1
    · rw [h1]; exact hh
    · exact (stable_hidden q).toF _ _ _ h1 hh
  | invoke b fa keep imm =>
    rw [runRound_invoke]
    simp only []
    obtain ⟨anc, r', hm, hl, hhid, hv⟩ := hidden_outermost t _ q rfl hh
    have hvis : lookup (Exec.visible t) anc = some r' := by rw [lookup_visible, hv]; simpa using hl
    have := invoke_stable (stable_frozen anc r' (hides_terminal hhid)).toA p _ b fa (Exec.immOf imm) keep hvis
    exact hidden_iff.2 ⟨anc, r', hm, this, hhid⟩

theorem round_stableT' {Q : Tbl → Prop} (hQ : StableT Q) (p : Prog) (q : Pos) (t : Tbl) (rd : Exec.Round)
    (_hh : Exec.hidden t q = false) (h : Q t) (hloc : Q t → Q (Exec.visible t)) :
    Q (Exec.runRound p t rd).tbl := by
  cases rd with
  | event ev =>
    rcases runRound_event_tbl p t ev with h1 | h1
    · rw [h1]; exact h
    · exact hQ.toF _ _ _ h1 h
  | invoke b fa keep imm =>
    rw [runRound_invoke]
    exact invoke_stable hQ.toA p _ b fa (Exec.immOf imm) keep (hloc h)

theorem round_stableT {Q : Tbl → Prop} (hQ : StableT Q) (p : Prog) (q : Pos) (t : Tbl) (rd : Exec.Round)
    (h : Exec.hidden t q = true ∨ Q t) (hloc : ∀ t, Exec.hidden t q = false → Q t → Q (Exec.visible t)) :
    Exec.hidden (Exec.runRound p t rd).tbl q = true ∨ Q (Exec.runRound p t rd).tbl := by
  cases hh : Exec.hidden t q with
  | true => exact Or.inl (round_hidden p q t rd hh)
  | false =>
    right
    rcases h with h | h
    · rw [hh] at h; cases h
    · exact round_stableT' hQ p q t rd hh h (hloc t hh)

theorem pastT_visible {a : Nat} {q : Pos} {t : Tbl} (hh : Exec.hidden t q = false) (h : PastT a q t) :
    PastT a q (Exec.visible t) := by
  obtain ⟨r, hl, hp⟩ := h
  exact ⟨r, by rw [lookup_visible, hh]; simpa using hl, hp⟩

theorem round_pastR (p : Prog) (a : Nat) (q : Pos) (t : Tbl) (rd : Exec.Round) (h : PastR a q t) :
    PastR a q (Exec.runRound p t rd).tbl :=
  round_stableT (stable_past a q) p q t rd h (fun _ hh h => pastT_visible hh h)

theorem nt_noEnt {q : Pos} {a : Nat} : ∀ e, NT q e → isEnt q a e = false := by
  intro e h
  cases e with
  | enter p k b st =>
    have h1 : (p == q) = false := h.1
    cases k <;> cases st <;> simp [isEnt, h1]
  | _ => simp [isEnt]

/-- **One invocation round** of an all-at-most-once program on a well-formed table, provided the
table it leaves has no CANCELLED / TIMED_OUT / STOPPED record at `q`. -/
theorem invoke_spec (p : Prog) (hp : AllAmo p) (t : Tbl) (hwf : WF t) (b : Nat) (fa : Option Nat)
    (imm : Pos → Backend.Immediate) (keep : Nat) (q : Pos) (a : Nat)
    (hnb : ¬ BadAt q (finalTbl (Engine.invoke p (Exec.visible t) b fa imm).1
                        (Engine.invoke p (Exec.visible t) b fa imm).2 keep)) :
    cntE q a (Engine.invoke p (Exec.visible t) b fa imm).2.trace ≤ 1 ∧
    (PastR a q t → cntE q a (Engine.invoke p (Exec.visible t) b fa imm).2.trace = 0) ∧
    (1 ≤ cntE q a (Engine.invoke p (Exec.visible t) b fa imm).2.trace →
      PastR a q (finalTbl (Engine.invoke p (Exec.visible t) b fa imm).1
                        (Engine.invoke p (Exec.visible t) b fa imm).2 keep)) := by
  have hm := invoke_mv p (Exec.visible t) b fa imm
  have hsp : Spec q a (initSt (Exec.visible t) b fa imm) (Engine.invoke p (Exec.visible t) b fa imm).2 :=
    run_spec q a p hp [] 0 _
  generalize hinv : Engine.invoke p (Exec.visible t) b fa imm = res at *
  obtain ⟨e, s'⟩ := res
  simp only [] at *
  have hk : Kinv q s' := hm.kinv (fun r _ => Iff.rfl)
  have hpi : ∀ u ∈ s'.pending, Issued u := hm.pendingIssued (by intro u hu; cases hu)
  have hnb' : ¬ BadAt q s'.tbl := by
    intro ⟨r, hl, hb⟩
    exact hnb (finalTbl_stable (stable_bad q).toA e s' keep hpi ⟨⟨r, hl, hb⟩, ⟨r, (hk r hb).1 hl, hb⟩⟩)
  obtain ⟨l, hl, c1, c2, c3⟩ := hsp.facts hnb'
  have htr : s'.trace = l := by rw [hl]; simp [initSt]
  rw [htr]
  refine ⟨c1, ?_, ?_⟩
  · intro hpast
    cases hh : Exec.hidden t q with
    | true =>
      have hnt := invoke_noTouch p t b fa imm hwf q (Or.inr hh)
      rw [hinv] at hnt
      obtain ⟨l', hl', hall⟩ := hnt.trace_eq
      have : l' = l := by
        have := hl'.symm.trans hl
        exact List.append_cancel_left this
      subst this
      exact cntE_zero_of (fun e he => nt_noEnt e (hall e he))
    | false =>
      rcases hpast with h | h
      · rw [hh] at h; cases h
      · have := pastT_visible hh h
        exact c2 ⟨this, this⟩
  · intro h1
    right
    exact finalTbl_stable (stable_past a q).toA e s' keep hpi (c3 h1)

/-- **All rounds**: at most one entry of attempt `a` of `q` in the whole execution. -/
theorem amo_rounds (p : Prog) (hp : AllAmo p) (q : Pos) (a : Nat) :
    ∀ (rounds : List Exec.Round) (t : Tbl), WF t →
      (∀ o ∈ Exec.runRounds p t rounds, ¬ BadAt q o.tbl) →
      cntE q a ((Exec.runRounds p t rounds).flatMap (·.trace)) ≤ 1 ∧
      (PastR a q t → cntE q a ((Exec.runRounds p t rounds).flatMap (·.trace)) = 0) := by
  intro rounds
  induction rounds with
  | nil => intro t _ _; simp [Exec.runRounds, cntE]
  | cons rd rs ih =>
    intro t hwf hq
    simp only [Exec.runRounds, List.flatMap_cons, cntE_append]
    have hq0 : ¬ BadAt q (Exec.runRound p t rd).tbl := hq _ (by simp [Exec.runRounds])
    have hqs : ∀ o ∈ Exec.runRounds p (Exec.runRound p t rd).tbl rs, ¬ BadAt q o.tbl :=
      fun o ho => hq o (by simp [Exec.runRounds, ho])
    obtain ⟨i1, i2⟩ := ih _ (round_wf p t rd hwf) hqs
    have hpr := round_pastR p a q t rd
    cases rd with
    | event ev =>
      rw [runRound_event_trace]
      simp only [cntE, List.countP_nil, Nat.zero_add] at *
      exact ⟨i1, fun h => i2 (hpr h)⟩
    | invoke b fa keep imm =>
      rw [runRound_invoke] at hq0 i1 i2 hpr ⊢
      simp only [] at hq0 i1 i2 hpr ⊢
      obtain ⟨c1, c2, c3⟩ := invoke_spec p hp t hwf b fa (Exec.immOf imm) keep q a hq0
      refine ⟨?_, fun h => ?_⟩
      · by_cases hc : 1 ≤ cntE q a (Engine.invoke p (Exec.visible t) b fa (Exec.immOf imm)).2.trace
        · have := i2 (c3 hc); omega
        · omega
      · rw [c2 h, i2 (hpr h)]


/-! ## C02X: replay delivers the recorded outcome -/

/-- Quiet, and every delivery is the recorded outcome at `c`. -/
def QD (c : Pos) (r : OpRec) : Ev → Prop
  | .enter _ _ _ _ => False
  | .upd _ => False
  | .deliver p o => p = c ∧ o = outcomeOf r
  | _ => True

theorem outcomeOf_succ {r : OpRec} (h : r.status = .succeeded) : outcomeOf r = .ok (r.result.getD noneVal) := by
  simp [outcomeOf, h]

theorem outcomeOf_fail {r : OpRec} (h : r.status = .failed) : outcomeOf r = .err (callableOf r.error) := by
  simp [outcomeOf, h]

theorem handleStep_qd {s : St} {c : Pos} {r : OpRec} (spec : StepSpec) (hl : lookup s.tbl c = some r)
    (hd : Done r = true) : Mv (QD c r) s (handleStep s c spec).st := by
  unfold handleStep
  rw [hl]
  rcases done_cases hd with h | h <;> simp only [h, beq_iff_eq, reduceCtorEq, ↓reduceIte]
  · exact deliverAt_mv _ _ _ ⟨rfl, (outcomeOf_succ h).symm⟩
  · exact deliverAt_mv _ _ _ ⟨rfl, (outcomeOf_fail h).symm⟩

theorem handleWfc_qd {s : St} {c : Pos} {r : OpRec} (w : WfcSpec) (hl : lookup s.tbl c = some r)
    (hd : Done r = true) : Mv (QD c r) s (handleWfc s c w).st := by
  unfold handleWfc
  simp only []
  rw [hl]
  rcases done_cases hd with h | h <;> simp only [h, beq_iff_eq, reduceCtorEq, ↓reduceIte]
  · exact deliverAt_mv _ _ _ ⟨rfl, (outcomeOf_succ h).symm⟩
  · exact deliverAt_mv _ _ _ ⟨rfl, (outcomeOf_fail h).symm⟩

theorem handleInvoke_qd {s : St} {c : Pos} {r : OpRec} (pl : Val) (hl : lookup s.tbl c = some r)
    (hd : Done r = true) : Mv (QD c r) s (handleInvoke s c pl).st := by
  unfold handleInvoke
  rw [hl]
  simp only [invokeTerminal]
  rcases done_cases hd with h | h
  · simp only [h, beq_iff_eq, ↓reduceIte, Option.getD_some]
    exact deliverAt_mv _ _ _ ⟨rfl, (outcomeOf_succ h).symm⟩
  · simp only [h, beq_iff_eq, reduceCtorEq, ↓reduceIte, Bool.or_eq_true, true_or, Option.getD_some]
    exact deliverAt_mv _ _ _ ⟨rfl, (outcomeOf_fail h).symm⟩

theorem childBefore_qd {s : St} {c : Pos} {r : OpRec} (hl : lookup s.tbl c = some r) (hd : FinRec r) :
    ∃ h, childBefore s c = .inl h ∧ Mv (QD c r) s h.st := by
  unfold childBefore
  rw [hl]
  rcases done_cases hd.1 with h | h
  · have := hd.2 h
    simp only [h, this]
    exact ⟨_, rfl, deliverAt_mv _ _ _ ⟨rfl, (outcomeOf_succ h).symm⟩⟩
  · simp only [h]
    exact ⟨_, rfl, deliverAt_mv _ _ _ ⟨rfl, (outcomeOf_fail h).symm⟩⟩

/-- A delivery at `q` can only come from the completed record `anc = q` and is its recorded outcome. -/
def DE (anc q : Pos) (r : OpRec) : Ev → Prop
  | .deliver p o => p = q → anc = q ∧ o = outcomeOf r
  | _ => True

/-- No `wait`, `create_callback`, `callback.result` node (their handlers deliver a constant / the
callback's own view, not `outcomeOf`). -/
def noWaitCbN : Prog → Prop
  | .wait _ _ => False
  | .cbNew _ => False
  | .cbRes _ _ => False
  | _ => True

theorem runHyps_deliver (anc q : Pos) (r : OpRec) (hfin : FinRec r) (hq : anc <+: q) :
    RunHyps (PreNT anc q r) (Mv (DE anc q r)) noWaitCbN := by
  have hterm := hfin.terminal
  have key : ∀ (ctx : Pos) (x : Nat) (s s' : St) (k : Kind), PreNT anc q r ctx s →
      (lookup s.tbl (ctx ++ [x]) = some r → Mv (QD (ctx ++ [x]) r) s s') → Mv (EvAt (ctx ++ [x]) k) s s' →
      Mv (DE anc q r) s s' ∧ PreNT anc q r ctx s' := by
    intro ctx x s s' k hpre hquiet hat
    have hm : Mv (DE anc q r) s s' := by
      by_cases hc : anc = ctx ++ [x]
      · refine (hquiet (hc ▸ hpre.1.1)).mono ?_
        intro e he
        cases e <;> simp_all [QD, DE]
      · have hne := under_ne hq hpre.2 hc
        refine hat.mono ?_
        intro e he
        cases e with
        | deliver p o =>
          simp only [EvAt] at he
          intro hp; exact absurd (he.symm.trans hp) hne
        | _ => trivial
    exact ⟨hm, frozen_mv hterm hm hpre.1, hpre.2⟩
  refine
    { refl := .refl, trans := Mv.trans, log := ?_, step := ?_, wait := ?_, cbNew := ?_, cbRes := ?_,
      invoke := ?_, wfc := ?_, childB := ?_, childA := ?_ }
  · intro ctx s m hpre
    have hm : Mv (DE anc q r) s (doLog s ctx m) := Mv.emit1 _ _ trivial
    exact ⟨hm, frozen_mv hterm hm hpre.1, hpre.2⟩
  · intro ctx n s spec _ _ hpre
    exact key ctx (n + 1) s _ .step hpre (fun hl => handleStep_qd spec hl hfin.1) (handleStep_mv _ _ _)
  · intro ctx n s secs k hN; exact hN.elim
  · intro ctx n s k hN; exact hN.elim
  · intro ctx s h k hN; exact hN.elim
  · intro ctx n s pl hpre
    exact key ctx (n + 1) s _ .step hpre (fun hl => handleInvoke_qd pl hl hfin.1)
      ((handleInvoke_mv _ _ _).mono updAt_evAt)
  · intro ctx n s w hpre
    exact key ctx (n + 1) s _ .wfc hpre (fun hl => handleWfc_qd w hl hfin.1) (handleWfc_mv _ _ _)
  · intro ctx n s hpre
    have h1 := key ctx (n + 1) s (cbSt (childBefore s (ctx ++ [n + 1]))) .context hpre
      (fun hl => by
        obtain ⟨h, he, hm⟩ := childBefore_qd hl hfin
        rw [he]; exact hm)
      (childBefore_mv _ _)
    refine ⟨h1.1, h1.2, ?_⟩
    intro s1 rm heq
    rw [heq] at h1
    refine ⟨h1.2.1, ?_⟩
    rcases hpre.2 with hctx | hq0
    · left
      intro hpre'
      rcases List.prefix_concat_iff.1 hpre' with h | h
      · obtain ⟨hh, he, _⟩ := childBefore_quiet (h ▸ hpre.1.1) hfin
        rw [he] at heq; cases heq
      · exact hctx h
    · exact Or.inr hq0
  · intro ctx n s0 s c rm e hpre0 hpre
    have hne' : ctx ++ [n + 1] ≠ q := by
      rcases hpre.2 with h | h
      · exact under_ne hq hpre0.2 (fun h' => h (h' ▸ List.prefix_refl _))
      · rw [h]; simp
    have hm : Mv (DE anc q r) s (childAfter s (ctx ++ [n + 1]) c rm e).st := by
      refine (childAfter_mv s (ctx ++ [n + 1]) c rm e).mono ?_
      intro ev he
      cases ev with
      | deliver p o =>
        simp only [UpdAt] at he
        intro hp; exact absurd (he.symm.trans hp) hne'
      | _ => trivial
    exact ⟨hm, frozen_mv hterm hm hpre.1, hpre0.2⟩

theorem run_deliver (anc q : Pos) (r : OpRec) (hfin : FinRec r) (hq : anc <+: q) (p : Prog)
    (hN : AllN noWaitCbN p) (ctx : Pos) (n : Nat) (s : St) (h1 : lookup s.tbl anc = some r)
    (h2 : lookup s.syncTbl anc = some r) (hctx : ¬ anc <+: ctx ∨ q = []) :
    Mv (DE anc q r) s (run p ctx n s).2 :=
  (run_ind (runHyps_deliver anc q r hfin hq) p hN ctx n s ⟨⟨h1, h2⟩, hctx⟩).1

theorem mem_ancestors_ne {a q : Pos} (h : a ∈ Exec.ancestors q) : a ≠ q := by
  obtain ⟨k, hk0, hk, rfl⟩ := mem_ancestors.1 h
  intro h0
  have := congrArg List.length h0
  rw [List.length_take] at this
  omega

/-- One invocation round: every delivery at a position with a completed record is the recorded
outcome; nothing is delivered at a hidden position. -/
theorem invoke_deliver (p : Prog) (hN : AllN noWaitCbN p) (t : Tbl) (b : Nat) (fa : Option Nat)
    (imm : Pos → Backend.Immediate) (hwf : WF t) (q : Pos) (r : OpRec)
    (h : (lookup t q = some r ∧ FinRec r) ∨ Exec.hidden t q = true) (x : Outcome)
    (hx : Ev.deliver q x ∈ (Engine.invoke p (Exec.visible t) b fa imm).2.trace) :
    x = outcomeOf r ∧ Exec.hidden t q = false := by
  have htr : ∀ {E : Ev → Prop}, Mv E (initSt (Exec.visible t) b fa imm) (Engine.invoke p (Exec.visible t) b fa imm).2 →
      E (Ev.deliver q x) := by
    intro E hm
    obtain ⟨l, hl, hall⟩ := hm.trace_eq
    have : (Engine.invoke p (Exec.visible t) b fa imm).2.trace = l := by rw [hl]; simp [initSt]
    exact hall _ (this ▸ hx)
  cases hh : Exec.hidden t q with
  | true =>
    exfalso
    obtain ⟨anc, r', hm, hl, hhid, hv⟩ := hidden_outermost t _ q rfl hh
    have hvis : lookup (Exec.visible t) anc = some r' := by rw [lookup_visible, hv]; simpa using hl
    obtain ⟨hpre, hne⟩ := mem_ancestors_prefix hm
    have := htr (run_deliver anc q r' (hides_finRec (hwf _ _ hl) hhid) hpre p hN [] 0 _ hvis hvis
      (Or.inl (fun h0 => hne (List.prefix_nil.1 h0))))
    exact mem_ancestors_ne hm (this rfl).1
  | false =>
    rcases h with ⟨hl, hfin⟩ | h
    · have hvis : lookup (Exec.visible t) q = some r := by rw [lookup_visible, hh]; simpa using hl
      have hctx : ¬ q <+: [] ∨ q = [] := by
        by_cases hq0 : q = []
        · exact Or.inr hq0
        · exact Or.inl (fun h0 => hq0 (List.prefix_nil.1 h0))
      have := htr (run_deliver q q r hfin (List.prefix_refl _) p hN [] 0 _ hvis hvis hctx)
      exact ⟨(this rfl).2, rfl⟩
    · rw [hh] at h; cases h

end EngineExec
