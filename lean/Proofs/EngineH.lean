import DurableModel.EngineSpec
/-!
# Handler-level lemmas about the replay engine (`DurableModel/Engine.lean`)

Helper lemmas shared by `Props/C12.lean`, `C13`, `C14`, `C16`, `C02`: the table (`lookup`/`upsert`),
the backend automaton (`Backend.apply`, inversion per action), the crash point `tick`, the
checkpoint pipeline `checkpoint` (exact characterisation of the three outcomes ok / crashed /
ckptFailed), trace growth (`Grows`), and the short-circuit / dispatch equations of each handler.
Core Lean only, no induction on `Prog`.
-/
namespace EngineH
open Engine

/-! ## Attempt numbering -/

/-- Number of the attempt about to be made: attempts recorded so far, plus one. -/
def att (r : Option OpRec) : Nat := (r.map (·.attempt)).getD 0 + 1

theorem att_eq (r : Option OpRec) : (match r with | some r => r.attempt | none => 0) + 1 = att r := by
  cases r <;> rfl

@[simp] theorem att_none : att none = 1 := rfl
@[simp] theorem att_some (r : OpRec) : att (some r) = r.attempt + 1 := rfl

/-! ## Table -/

theorem find_map_of_any (t : Tbl) (p : Pos) (r : OpRec) (h : t.any (fun e => e.1 == p) = true) :
    (t.map (fun e => if e.1 == p then (p, r) else e)).find? (fun e => e.1 == p) = some (p, r) := by
  induction t with
  | nil => simp at h
  | cons a t ih =>
    by_cases ha : a.1 == p
    · rw [List.map_cons, if_pos ha, List.find?_cons]
      simp
    · simp only [List.any_cons, ha, Bool.false_or] at h
      rw [List.map_cons, if_neg ha, List.find?_cons, ih h]
      simp only [ha]

theorem lookup_upsert_self (t : Tbl) (p : Pos) (r : OpRec) : lookup (upsert t p r) p = some r := by
  unfold lookup upsert
  split
  · next h => rw [find_map_of_any t p r h]; rfl
  · next h =>
    have hn : t.find? (fun e => e.1 == p) = none := by
      rw [List.find?_eq_none]
      intro x hx hxp
      exact h (List.any_eq_true.mpr ⟨x, hx, hxp⟩)
    simp [List.find?_append, hn]

theorem find_map_ne (t : Tbl) (p q : Pos) (r : OpRec) (h : q ≠ p) :
    (t.map (fun e => if e.1 == p then (p, r) else e)).find? (fun e => e.1 == q) =
      t.find? (fun e => e.1 == q) := by
  have hpq : (p == q) = false := by simpa using fun h' => h h'.symm
  induction t with
  | nil => rfl
  | cons a t ih =>
    by_cases ha : a.1 == p
    · have h1 : a.1 = p := by simpa using ha
      have haq : (a.1 == q) = false := by rw [h1]; exact hpq
      rw [List.map_cons, if_pos ha, List.find?_cons, List.find?_cons, ih]
      simp only [hpq, haq]
    · rw [List.map_cons, if_neg ha, List.find?_cons, List.find?_cons, ih]

theorem lookup_upsert_ne (t : Tbl) (p q : Pos) (r : OpRec) (h : q ≠ p) :
    lookup (upsert t p r) q = lookup t q := by
  have hpq : (p == q) = false := by simpa using fun h' => h h'.symm
  unfold lookup upsert
  split
  · rw [find_map_ne t p q r h]
  · simp [List.find?_append, hpq]

/-! ## Trace growth -/

theorem newEvents_of_trace_eq {s s' : St} {evs : List Ev} (h : s'.trace = s.trace ++ evs) :
    newEvents s s' = evs := by
  simp [newEvents, h]

@[simp] theorem newEvents_self (s : St) : newEvents s s = [] := by simp [newEvents]

/-- `s'` extends the trace of `s` by events that all satisfy `P`. -/
def Grows (P : Ev → Prop) (s s' : St) : Prop := ∃ evs, s'.trace = s.trace ++ evs ∧ ∀ e ∈ evs, P e

theorem Grows.refl (P : Ev → Prop) (s : St) : Grows P s s := ⟨[], by simp, by simp⟩

theorem Grows.of_trace_eq {P : Ev → Prop} {s s' : St} (h : s'.trace = s.trace) : Grows P s s' :=
  ⟨[], by simp [h], by simp⟩

theorem Grows.trans {P : Ev → Prop} {s₁ s₂ s₃ : St} (h₁ : Grows P s₁ s₂) (h₂ : Grows P s₂ s₃) :
    Grows P s₁ s₃ := by
  obtain ⟨e₁, ht₁, hp₁⟩ := h₁
  obtain ⟨e₂, ht₂, hp₂⟩ := h₂
  refine ⟨e₁ ++ e₂, by rw [ht₂, ht₁, List.append_assoc], ?_⟩
  intro e he
  rcases List.mem_append.mp he with h | h
  · exact hp₁ e h
  · exact hp₂ e h

theorem Grows.mono {P Q : Ev → Prop} {s s' : St} (h : Grows P s s') (hpq : ∀ e, P e → Q e) :
    Grows Q s s' := by
  obtain ⟨evs, ht, hp⟩ := h
  exact ⟨evs, ht, fun e he => hpq e (hp e he)⟩

theorem Grows.newEvents {P : Ev → Prop} {s s' : St} (h : Grows P s s') :
    ∀ e ∈ newEvents s s', P e := by
  obtain ⟨evs, ht, hp⟩ := h
  rw [newEvents_of_trace_eq ht]; exact hp

theorem Grows.of_events {P : Ev → Prop} {s s' : St} (evs : List Ev) (h : s'.trace = s.trace ++ evs)
    (hp : ∀ e ∈ evs, P e) : Grows P s s' := ⟨evs, h, hp⟩

theorem Grows.emit {P : Ev → Prop} (s : St) (e : Ev) (h : P e) : Grows P s (emit s e) :=
  ⟨[e], rfl, by simpa using h⟩

/-- If the trace of `s'` is that of `s` followed by `e` and then something growing, `e` is the
first new event. -/
theorem newEvents_cons_of_grows {P : Ev → Prop} {s s' : St} {e : Ev} (h : Grows P (Engine.emit s e) s') :
    ∃ rest, newEvents s s' = e :: rest ∧ ∀ x ∈ rest, P x := by
  obtain ⟨evs, ht, hp⟩ := h
  refine ⟨evs, ?_, hp⟩
  apply newEvents_of_trace_eq
  rw [ht]; simp [Engine.emit]

/-! ## `emit`, `tick`, `trackReplay`, `deliverAt` -/

@[simp] theorem emit_trace (s : St) (e : Ev) : (emit s e).trace = s.trace ++ [e] := rfl
@[simp] theorem emit_tbl (s : St) (e : Ev) : (emit s e).tbl = s.tbl := rfl
@[simp] theorem emit_budget (s : St) (e : Ev) : (emit s e).budget = s.budget := rfl
@[simp] theorem emit_failAt (s : St) (e : Ev) : (emit s e).failAt = s.failAt := rfl
@[simp] theorem emit_syncCalls (s : St) (e : Ev) : (emit s e).syncCalls = s.syncCalls := rfl
@[simp] theorem emit_imm (s : St) (e : Ev) : (emit s e).imm = s.imm := rfl
@[simp] theorem emit_pending (s : St) (e : Ev) : (emit s e).pending = s.pending := rfl
@[simp] theorem emit_syncTbl (s : St) (e : Ev) : (emit s e).syncTbl = s.syncTbl := rfl

/-- The state after a crash point that is passed. -/
def ticked (s : St) : St := { s with budget := s.budget - 1 }

@[simp] theorem ticked_trace (s : St) : (ticked s).trace = s.trace := rfl
@[simp] theorem ticked_tbl (s : St) : (ticked s).tbl = s.tbl := rfl
@[simp] theorem ticked_budget (s : St) : (ticked s).budget = s.budget - 1 := rfl
@[simp] theorem ticked_failAt (s : St) : (ticked s).failAt = s.failAt := rfl
@[simp] theorem ticked_syncCalls (s : St) : (ticked s).syncCalls = s.syncCalls := rfl
@[simp] theorem ticked_imm (s : St) : (ticked s).imm = s.imm := rfl

theorem tick_eq (s : St) : tick s = if s.budget = 0 then none else some (ticked s) := rfl

theorem tick_pos {s : St} (h : 1 ≤ s.budget) : tick s = some (ticked s) := by
  rw [tick_eq, if_neg (by omega)]

theorem tick_zero {s : St} (h : s.budget = 0) : tick s = none := by
  rw [tick_eq, if_pos h]

theorem tick_some {s s' : St} (h : tick s = some s') : 1 ≤ s.budget ∧ s' = ticked s := by
  rw [tick_eq] at h
  split at h
  · cases h
  · exact ⟨by omega, by cases h; rfl⟩

@[simp] theorem trackReplay_trace (s : St) (p : Pos) : (trackReplay s p).trace = s.trace := by
  unfold trackReplay; split <;> rfl

@[simp] theorem trackReplay_tbl (s : St) (p : Pos) : (trackReplay s p).tbl = s.tbl := by
  unfold trackReplay; split <;> rfl

/-- `deliverAt` always delivers exactly the outcome it is given. -/
theorem deliverAt_eq (s : St) (p : Pos) (o : Outcome) :
    ∃ s', deliverAt s p o = .deliver o s' ∧ s'.trace = s.trace ++ [.deliver p o] ∧ s'.tbl = s.tbl := by
  cases o with
  | ok v => exact ⟨_, rfl, by simp, by simp⟩
  | err e => exact ⟨_, rfl, by simp, by simp⟩

@[simp] theorem deliverAt_st_trace (s : St) (p : Pos) (o : Outcome) :
    (deliverAt s p o).st.trace = s.trace ++ [.deliver p o] := by
  obtain ⟨s', h, ht, _⟩ := deliverAt_eq s p o
  rw [h]; exact ht

@[simp] theorem deliverAt_st_tbl (s : St) (p : Pos) (o : Outcome) :
    (deliverAt s p o).st.tbl = s.tbl := by
  obtain ⟨s', h, _, ht⟩ := deliverAt_eq s p o
  rw [h]; exact ht

theorem deliverAt_newEvents (s : St) (p : Pos) (o : Outcome) :
    newEvents s (deliverAt s p o).st = [.deliver p o] :=
  newEvents_of_trace_eq (deliverAt_st_trace s p o)

theorem deliverAt_grows {P : Ev → Prop} (s : St) (p : Pos) (o : Outcome) (h : P (.deliver p o)) :
    Grows P s (deliverAt s p o).st :=
  ⟨[.deliver p o], deliverAt_st_trace s p o, by simpa using h⟩

theorem deliverAt_ne_stop (s : St) (p : Pos) (o : Outcome) (en : End) (s' : St) :
    deliverAt s p o ≠ .stop en s' := by
  cases o <;> simp [deliverAt]

/-! ## Backend automaton: inversion per action -/

theorem apply_parentOk {t : Tbl} {u : Upd} {imm : Backend.Immediate} {t' : Tbl}
    (h : Backend.apply t u imm = some t') : Backend.parentOk t u.pos = true := by
  unfold Backend.apply at h
  split at h
  · cases h
  · next hp => simpa using hp

/-- START of an absent record creates `startRec`. -/
theorem apply_start_absent {t : Tbl} {u : Upd} {imm : Backend.Immediate}
    (hl : lookup t u.pos = none) (ha : u.action = .start) (hp : Backend.parentOk t u.pos = true) :
    Backend.apply t u imm = some (upsert t u.pos (Backend.startRec u.kind imm)) := by
  unfold Backend.apply
  simp [hp, hl, ha]

theorem apply_start_absent_inv {t : Tbl} {u : Upd} {imm : Backend.Immediate} {t' : Tbl}
    (hl : lookup t u.pos = none) (ha : u.action = .start) (h : Backend.apply t u imm = some t') :
    t' = upsert t u.pos (Backend.startRec u.kind imm) := by
  rw [apply_start_absent hl ha (apply_parentOk h)] at h
  cases h; rfl

/-- START of an existing record is accepted only for a READY step / wait_for_condition. -/
theorem apply_start_present_inv {t : Tbl} {u : Upd} {imm : Backend.Immediate} {t' : Tbl} {r : OpRec}
    (hl : lookup t u.pos = some r) (ha : u.action = .start) (h : Backend.apply t u imm = some t') :
    (r.kind = .step ∨ r.kind = .wfc) ∧ r.status = .ready ∧ r.kind = u.kind ∧
      t' = upsert t u.pos { r with status := .started } := by
  unfold Backend.apply at h
  simp only [hl, ha] at h
  split at h
  · cases h
  · split at h
    · next hc =>
      cases h
      simp only [Bool.and_eq_true, Bool.or_eq_true, beq_iff_eq] at hc
      exact ⟨hc.1.1, hc.1.2, hc.2, rfl⟩
    · cases h

/-- A running record: what SUCCEED / FAIL require. -/
def Running (r : OpRec) : Prop :=
  (r.status = .started ∨ ((r.kind = .step ∨ r.kind = .wfc) ∧ r.status = .ready)) ∧
  (r.kind = .step ∨ r.kind = .wfc ∨ r.kind = .context)

/-- SUCCEED is accepted only for a running step / wait_for_condition / context of the same kind. -/
theorem apply_succeed_inv {t : Tbl} {u : Upd} {imm : Backend.Immediate} {t' : Tbl}
    (ha : u.action = .succeed) (h : Backend.apply t u imm = some t') :
    ∃ r, lookup t u.pos = some r ∧ r.kind = u.kind ∧ Running r ∧
      t' = upsert t u.pos { r with status := .succeeded, result := u.payload, error := none,
                                   replayChildren := u.replayChildren } := by
  unfold Backend.apply at h
  cases hl : lookup t u.pos with
  | none => simp [hl, ha] at h
  | some r =>
    simp only [hl, ha] at h
    split at h
    · cases h
    · split at h
      · next hc =>
        cases h
        simp only [Bool.and_eq_true, Bool.or_eq_true, beq_iff_eq] at hc
        exact ⟨r, rfl, hc.1.1, ⟨hc.1.2, by simpa [or_assoc] using hc.2⟩, rfl⟩
      · cases h

/-- FAIL is accepted only for a running step / wait_for_condition / context of the same kind. -/
theorem apply_fail_inv {t : Tbl} {u : Upd} {imm : Backend.Immediate} {t' : Tbl}
    (ha : u.action = .fail) (h : Backend.apply t u imm = some t') :
    ∃ r, lookup t u.pos = some r ∧ r.kind = u.kind ∧ Running r ∧
      t' = upsert t u.pos { r with status := .failed, error := u.error } := by
  unfold Backend.apply at h
  cases hl : lookup t u.pos with
  | none => simp [hl, ha] at h
  | some r =>
    simp only [hl, ha] at h
    split at h
    · cases h
    · split at h
      · next hc =>
        cases h
        simp only [Bool.and_eq_true, Bool.or_eq_true, beq_iff_eq] at hc
        exact ⟨r, rfl, hc.1.1, ⟨hc.1.2, by simpa [or_assoc] using hc.2⟩, rfl⟩
      · cases h

/-- RETRY is accepted only for a STARTED / READY step or wait_for_condition; it makes the record
PENDING, counts the attempt, keeps the previous result unless a payload is given. -/
theorem apply_retry_inv {t : Tbl} {u : Upd} {imm : Backend.Immediate} {t' : Tbl}
    (ha : u.action = .retry) (h : Backend.apply t u imm = some t') :
    ∃ r, lookup t u.pos = some r ∧ r.kind = u.kind ∧ (r.kind = .step ∨ r.kind = .wfc) ∧
      (r.status = .started ∨ r.status = .ready) ∧
      t' = upsert t u.pos { r with status := .pending, attempt := r.attempt + 1,
                                   result := (if u.payload.isSome then u.payload else r.result),
                                   error := u.error } := by
  unfold Backend.apply at h
  cases hl : lookup t u.pos with
  | none => simp [hl, ha] at h
  | some r =>
    simp only [hl, ha] at h
    split at h
    · cases h
    · split at h
      · next hc =>
        cases h
        simp only [Bool.and_eq_true, Bool.or_eq_true, beq_iff_eq] at hc
        exact ⟨r, rfl, hc.1.1, hc.1.2, hc.2, rfl⟩
      · cases h

/-- Forward versions (used by the non-vacuity examples and the compositions). -/
theorem apply_retry_of {t : Tbl} {u : Upd} {imm : Backend.Immediate} {r : OpRec}
    (hl : lookup t u.pos = some r) (ha : u.action = .retry) (hp : Backend.parentOk t u.pos = true)
    (hk : r.kind = u.kind) (hk' : r.kind = .step ∨ r.kind = .wfc)
    (hs : r.status = .started ∨ r.status = .ready) :
    Backend.apply t u imm = some (upsert t u.pos
      { r with status := .pending, attempt := r.attempt + 1,
               result := (if u.payload.isSome then u.payload else r.result), error := u.error }) := by
  unfold Backend.apply
  simp only [hp, hl, ha]
  have : (r.kind == u.kind && (r.kind == Kind.step || r.kind == Kind.wfc) &&
      (r.status == Status.started || r.status == Status.ready)) = true := by
    simp only [Bool.and_eq_true, Bool.or_eq_true, beq_iff_eq]; exact ⟨⟨hk, hk'⟩, hs⟩
  simp [this]

/-! ## `checkpoint` -/

/-- State after a synchronous checkpoint call that the backend accepted, with no crash. -/
def ckOk (s : St) (u : Upd) (t' : Tbl) : St :=
  { s with tbl := t', syncTbl := t', pending := [], trace := s.trace ++ [.upd u, .applied u],
           budget := s.budget - 2, syncCalls := s.syncCalls + 1 }

@[simp] theorem ckOk_tbl (s : St) (u : Upd) (t' : Tbl) : (ckOk s u t').tbl = t' := rfl
@[simp] theorem ckOk_syncTbl (s : St) (u : Upd) (t' : Tbl) : (ckOk s u t').syncTbl = t' := rfl
@[simp] theorem ckOk_pending (s : St) (u : Upd) (t' : Tbl) : (ckOk s u t').pending = [] := rfl
@[simp] theorem ckOk_trace (s : St) (u : Upd) (t' : Tbl) :
    (ckOk s u t').trace = s.trace ++ [.upd u, .applied u] := rfl
@[simp] theorem ckOk_budget (s : St) (u : Upd) (t' : Tbl) : (ckOk s u t').budget = s.budget - 2 := rfl
@[simp] theorem ckOk_syncCalls (s : St) (u : Upd) (t' : Tbl) :
    (ckOk s u t').syncCalls = s.syncCalls + 1 := rfl
@[simp] theorem ckOk_failAt (s : St) (u : Upd) (t' : Tbl) : (ckOk s u t').failAt = s.failAt := rfl
@[simp] theorem ckOk_imm (s : St) (u : Upd) (t' : Tbl) : (ckOk s u t').imm = s.imm := rfl
@[simp] theorem ckOk_replaying (s : St) (u : Upd) (t' : Tbl) : (ckOk s u t').replaying = s.replaying := rfl
@[simp] theorem ckOk_visited (s : St) (u : Upd) (t' : Tbl) : (ckOk s u t').visited = s.visited := rfl

/-- **Exact behaviour of a synchronous checkpoint**: crash before the call; injected fault; backend
rejection; crash after the call was applied; success. -/
theorem checkpoint_sync_eq (s : St) (u : Upd) (hs : u.sync = true) :
    checkpoint s u =
      if s.budget = 0 then .error (.crashed, emit s (.upd u))
      else if s.failAt = some s.syncCalls then
        .error (.ckptFailed, { ticked (emit s (.upd u)) with syncCalls := s.syncCalls + 1 })
      else match Backend.apply s.tbl u (s.imm u.pos) with
        | none => .error (.ckptFailed,
            emit { ticked (emit s (.upd u)) with syncCalls := s.syncCalls + 1 } (.rejected u))
        | some t =>
          if s.budget = 1 then
            .error (.crashed, emit { ticked (emit s (.upd u)) with
              tbl := t, syncTbl := t, pending := [], syncCalls := s.syncCalls + 1 } (.applied u))
          else .ok (ckOk s u t) := by
  unfold checkpoint
  simp only [hs, Bool.not_true, Bool.false_eq_true, if_false]
  rw [tick_eq]
  simp only [emit_budget]
  by_cases hb : s.budget = 0
  · simp [hb]
  · simp only [hb, if_false]
    by_cases hf : s.failAt = some s.syncCalls
    · simp [hf, ticked, emit]
    · simp only [ticked_failAt, emit_failAt, ticked_syncCalls, emit_syncCalls, hf, if_false,
        ticked_tbl, emit_tbl, ticked_imm, emit_imm]
      cases Backend.apply s.tbl u (s.imm u.pos) with
      | none => rfl
      | some t =>
        simp only [tick_eq]
        by_cases hb1 : s.budget = 1
        · simp [hb1, emit, ticked]
        · have : ¬ (s.budget - 1 = 0) := by omega
          simp only [emit_budget, ticked_budget, this, hb1, if_false]
          congr 1
          simp only [ckOk, ticked, emit]
          congr 1
          simp


/-- **`checkpoint_sync_ok`** (equational form): in the crash-free (`2 ≤ budget`: one crash point
before and one after the call), fault-free case a synchronous update the backend accepts yields
exactly `ckOk`. -/
theorem checkpoint_sync_ok {s : St} {u : Upd} {t' : Tbl} (hs : u.sync = true) (hb : 2 ≤ s.budget)
    (hf : s.failAt ≠ some s.syncCalls) (ha : Backend.apply s.tbl u (s.imm u.pos) = some t') :
    checkpoint s u = .ok (ckOk s u t') := by
  rw [checkpoint_sync_eq s u hs, if_neg (by omega), if_neg hf, ha]
  simp only
  rw [if_neg (by omega)]

/-- **`checkpoint_ok`** (the requested field-wise form). -/
theorem checkpoint_ok {s s' : St} {u : Upd} {t' : Tbl} (hs : u.sync = true) (hb : 2 ≤ s.budget)
    (hf : s.failAt ≠ some s.syncCalls) (ha : Backend.apply s.tbl u (s.imm u.pos) = some t')
    (h : checkpoint s u = .ok s') :
    s'.tbl = t' ∧ s'.syncTbl = t' ∧ s'.pending = [] ∧ s'.trace = s.trace ++ [.upd u, .applied u] ∧
    s'.budget = s.budget - 2 ∧ s'.syncCalls = s.syncCalls + 1 ∧ s'.failAt = s.failAt ∧
    s'.imm = s.imm ∧ s'.replaying = s.replaying ∧ s'.visited = s.visited := by
  rw [checkpoint_sync_ok hs hb hf ha] at h
  cases h
  exact ⟨rfl, rfl, rfl, rfl, rfl, rfl, rfl, rfl, rfl, rfl⟩

/-- Variant with `failAt = none`. -/
theorem checkpoint_ok' {s s' : St} {u : Upd} {t' : Tbl} (hs : u.sync = true) (hb : 2 ≤ s.budget)
    (hf : s.failAt = none) (ha : Backend.apply s.tbl u (s.imm u.pos) = some t')
    (h : checkpoint s u = .ok s') :
    s'.tbl = t' ∧ s'.syncTbl = t' ∧ s'.pending = [] ∧ s'.trace = s.trace ++ [.upd u, .applied u] ∧
    s'.budget = s.budget - 2 ∧ s'.syncCalls = s.syncCalls + 1 := by
  have := checkpoint_ok hs hb (by simp [hf]) ha h
  exact ⟨this.1, this.2.1, this.2.2.1, this.2.2.2.1, this.2.2.2.2.1, this.2.2.2.2.2.1⟩

/-- Converse: a synchronous checkpoint returns normally **only** in that case. -/
theorem checkpoint_sync_ok_inv {s s' : St} {u : Upd} (hs : u.sync = true)
    (h : checkpoint s u = .ok s') :
    2 ≤ s.budget ∧ s.failAt ≠ some s.syncCalls ∧
      ∃ t', Backend.apply s.tbl u (s.imm u.pos) = some t' ∧ s' = ckOk s u t' := by
  rw [checkpoint_sync_eq s u hs] at h
  split at h
  · cases h
  · split at h
    · cases h
    · split at h
      · cases h
      · next t ht =>
        split at h
        · cases h
        · cases h
          exact ⟨by omega, by assumption, t, ht, rfl⟩

/-- A synchronous checkpoint that does not return ends the invocation as crashed or ckptFailed;
the trace got `upd u`, possibly followed by `applied u` (crash after the call) or `rejected u`. -/
theorem checkpoint_sync_error {s s' : St} {u : Upd} {en : End} (hs : u.sync = true)
    (h : checkpoint s u = .error (en, s')) :
    (en = .crashed ∧ s'.trace = s.trace ++ [.upd u]) ∨
    (en = .ckptFailed ∧ s'.trace = s.trace ++ [.upd u]) ∨
    (en = .ckptFailed ∧ s'.trace = s.trace ++ [.upd u, .rejected u]) ∨
    (en = .crashed ∧ s'.trace = s.trace ++ [.upd u, .applied u]) := by
  rw [checkpoint_sync_eq s u hs] at h
  split at h
  · cases h; exact .inl ⟨rfl, rfl⟩
  · split at h
    · cases h; exact .inr (.inl ⟨rfl, rfl⟩)
    · split at h
      · cases h; exact .inr (.inr (.inl ⟨rfl, by simp [ticked]⟩))
      · split at h
        · cases h; exact .inr (.inr (.inr ⟨rfl, by simp [ticked]⟩))
        · cases h

/-- State after an asynchronous checkpoint (never fails, never crashes; a rejection is only seen
by the background thread). -/
def ckAsync (s : St) (u : Upd) : St :=
  match Backend.apply s.tbl u (s.imm u.pos) with
  | some t => { s with tbl := t, pending := s.pending ++ [u], trace := s.trace ++ [.upd u, .applied u] }
  | none => { s with pending := s.pending ++ [u], trace := s.trace ++ [.upd u, .rejected u] }

theorem checkpoint_async (s : St) (u : Upd) (hs : u.sync = false) :
    checkpoint s u = .ok (ckAsync s u) := by
  unfold checkpoint ckAsync
  simp only [hs, Bool.not_false, if_true, emit_tbl, emit_imm]
  cases Backend.apply s.tbl u (s.imm u.pos) <;> simp [emit]

theorem ckAsync_trace (s : St) (u : Upd) :
    (ckAsync s u).trace = s.trace ++ [.upd u, .applied u] ∨
    (ckAsync s u).trace = s.trace ++ [.upd u, .rejected u] := by
  unfold ckAsync
  cases Backend.apply s.tbl u (s.imm u.pos) <;> simp

theorem ckAsync_trace_of_apply {s : St} {u : Upd} {t : Tbl}
    (h : Backend.apply s.tbl u (s.imm u.pos) = some t) :
    (ckAsync s u).trace = s.trace ++ [.upd u, .applied u] ∧ (ckAsync s u).tbl = t := by
  unfold ckAsync; rw [h]; exact ⟨rfl, rfl⟩

@[simp] theorem ckAsync_budget (s : St) (u : Upd) : (ckAsync s u).budget = s.budget := by
  unfold ckAsync; split <;> rfl
@[simp] theorem ckAsync_failAt (s : St) (u : Upd) : (ckAsync s u).failAt = s.failAt := by
  unfold ckAsync; split <;> rfl
@[simp] theorem ckAsync_syncCalls (s : St) (u : Upd) : (ckAsync s u).syncCalls = s.syncCalls := by
  unfold ckAsync; split <;> rfl
@[simp] theorem ckAsync_imm (s : St) (u : Upd) : (ckAsync s u).imm = s.imm := by
  unfold ckAsync; split <;> rfl

/-- Whatever happens, a checkpoint call only appends `upd u`, then possibly `applied u` or
`rejected u`; and if it does not return, the invocation ends crashed or ckptFailed. -/
theorem checkpoint_grows {P : Ev → Prop} (s : St) (u : Upd) (hu : P (.upd u)) (ha : P (.applied u))
    (hr : P (.rejected u)) :
    match checkpoint s u with
    | .ok s' => Grows P s s'
    | .error (en, s') => Grows P s s' ∧ (en = .crashed ∨ en = .ckptFailed) := by
  cases hs : u.sync with
  | false =>
    rw [checkpoint_async s u hs]
    rcases ckAsync_trace s u with h | h
    · exact ⟨_, h, by simp [hu, ha]⟩
    · exact ⟨_, h, by simp [hu, hr]⟩
  | true =>
    cases hc : checkpoint s u with
    | ok s' =>
      obtain ⟨_, _, t', _, rfl⟩ := checkpoint_sync_ok_inv hs hc
      exact ⟨_, rfl, by simp [hu, ha]⟩
    | error x =>
      obtain ⟨en, s'⟩ := x
      rcases checkpoint_sync_error hs hc with ⟨rfl, h⟩ | ⟨rfl, h⟩ | ⟨rfl, h⟩ | ⟨rfl, h⟩
      · exact ⟨⟨_, h, by simp [hu]⟩, .inl rfl⟩
      · exact ⟨⟨_, h, by simp [hu]⟩, .inr rfl⟩
      · exact ⟨⟨_, h, by simp [hu, hr]⟩, .inr rfl⟩
      · exact ⟨⟨_, h, by simp [hu, ha]⟩, .inl rfl⟩

/-! ## The updates the handlers send -/

/-- RETRY of a step that failed with `e`, strategy delay `d` (clamped to ≥ 1 s); synchronous. -/
abbrev stepRetryUpd (p : Pos) (e : Exc) (d : Nat) : Upd :=
  { pos := p, kind := .step, action := .retry, error := some (ErrObj.ofExc e), delay := some (max 1 d) }
/-- FAIL of a step with error `e`; synchronous. -/
abbrev stepFailUpd (p : Pos) (e : Exc) : Upd :=
  { pos := p, kind := .step, action := .fail, error := some (ErrObj.ofExc e) }
/-- SUCCEED of a step with result `v`; synchronous. -/
abbrev stepSucceedUpd (p : Pos) (v : Val) : Upd :=
  { pos := p, kind := .step, action := .succeed, payload := some v }
/-- START of a step (synchronous iff at-most-once). -/
abbrev stepStartUpd (p : Pos) (sync : Bool) : Upd :=
  { pos := p, kind := .step, action := .start, sync := sync }
/-- RETRY (continue polling) of a wait_for_condition with new state `ns`; synchronous. -/
abbrev wfcRetryUpd (p : Pos) (ns : Val) (d : Nat) : Upd :=
  { pos := p, kind := .wfc, action := .retry, payload := some ns, delay := some (max 1 d) }
abbrev wfcSucceedUpd (p : Pos) (ns : Val) : Upd :=
  { pos := p, kind := .wfc, action := .succeed, payload := some ns }
abbrev wfcFailUpd (p : Pos) (e : Exc) : Upd :=
  { pos := p, kind := .wfc, action := .fail, error := some (ErrObj.ofExc e) }
/-- START of a wait_for_condition; asynchronous. -/
abbrev wfcStartUpd (p : Pos) : Upd := { pos := p, kind := .wfc, action := .start, sync := false }

/-! ## Unfolding equations (attempt numbering made explicit) -/

theorem retryHandler_eq (s : St) (p : Pos) (spec : StepSpec) (r : Option OpRec) (e : Exc) :
    retryHandler s p spec r e =
      match spec.strategy e (att r) with
      | some d =>
        (match checkpoint s (stepRetryUpd p e d) with
         | .error (en, s) => .stop en s
         | .ok s => .stop (.suspended (some (max 1 d))) s)
      | none =>
        (match checkpoint s (stepFailUpd p e) with
         | .error (en, s) => .stop en s
         | .ok s => if e.inv then deliverAt s p (.err e) else deliverAt s p (.err (ErrObj.ofExc e).toCallable)) := by
  cases r <;> rfl

theorem stepExecute_eq (s : St) (p : Pos) (spec : StepSpec) (r : Option OpRec) :
    stepExecute s p spec r =
      match tick (emit s (.enter p .step (att r) none)) with
      | none => .stop .crashed (emit s (.enter p .step (att r) none))
      | some s₁ =>
        match spec.body (att r) with
        | .ok v =>
          (match checkpoint s₁ (stepSucceedUpd p v) with
           | .error (en, s) => .stop en s
           | .ok s => deliverAt s p (.ok v))
        | .err e => retryHandler s₁ p spec r e := by
  cases r <;> rfl

/-- The state handed to the check function of a wait_for_condition whose record is `r`. -/
def pollState (w : WfcSpec) (r : Option OpRec) : Val :=
  match r with
  | some r => if (r.status == .started || r.status == .ready) then
                (match r.result with | some v => if v == "" then w.init else v | none => w.init)
              else w.init
  | none => w.init

theorem wfcExecute_eq (s : St) (p : Pos) (w : WfcSpec) (r : Option OpRec) :
    wfcExecute s p w r =
      match tick (emit s (.enter p .wfc (att r) (some (pollState w r)))) with
      | none => .stop .crashed (emit s (.enter p .wfc (att r) (some (pollState w r))))
      | some s₁ =>
        match w.check (pollState w r) (att r) with
        | .ok ns =>
          (match w.decide ns (att r) with
           | none =>
             (match checkpoint s₁ (wfcSucceedUpd p ns) with
              | .error (en, s) => .stop en s
              | .ok s => deliverAt s p (.ok ns))
           | some d =>
             (match checkpoint s₁ (wfcRetryUpd p ns d) with
              | .error (en, s) => .stop en s
              | .ok s => .stop (.suspended (some d)) s))
        | .err e =>
          (match checkpoint s₁ (wfcFailUpd p e) with
           | .error (en, s) => .stop en s
           | .ok s => deliverAt s p (.err e)) := by
  cases r <;> rfl

/-! ## Short-circuits on completed / pending records (C01-style) -/

theorem handleStep_done {s : St} {p : Pos} {r : OpRec} (spec : StepSpec) (hl : lookup s.tbl p = some r)
    (hd : Done r = true) : handleStep s p spec = deliverAt s p (outcomeOf r) := by
  unfold handleStep outcomeOf
  simp only [hl]
  by_cases h1 : r.status = .succeeded
  · simp [h1]
  · have h2 : r.status = .failed := by simpa [Done, h1] using hd
    simp [h2]

theorem handleWfc_done {s : St} {p : Pos} {r : OpRec} (w : WfcSpec) (hl : lookup s.tbl p = some r)
    (hd : Done r = true) : handleWfc s p w = deliverAt s p (outcomeOf r) := by
  unfold handleWfc outcomeOf
  simp only [hl]
  by_cases h1 : r.status = .succeeded
  · simp [h1]
  · have h2 : r.status = .failed := by simpa [Done, h1] using hd
    simp [h2]

theorem handleStep_pending {s : St} {p : Pos} {r : OpRec} (spec : StepSpec)
    (hl : lookup s.tbl p = some r) (hp : r.status = .pending) :
    handleStep s p spec = .stop (.suspended (some 0)) s := by
  unfold handleStep
  simp [hl, hp]

theorem handleWfc_pending {s : St} {p : Pos} {r : OpRec} (w : WfcSpec)
    (hl : lookup s.tbl p = some r) (hp : r.status = .pending) :
    handleWfc s p w = .stop (.suspended (some 0)) s := by
  unfold handleWfc
  simp [hl, hp]

/-! ## Which events a handler can emit: the RETRY updates -/

/-- A user function is entered. -/
def isEnter : Ev → Bool
  | .enter _ _ _ _ => true
  | _ => false

/-- An operation call returns / raises to user code. -/
def isDeliver : Ev → Bool
  | .deliver _ _ => true
  | _ => false

/-- An update is handed to the checkpoint pipeline. -/
def isUpd : Ev → Bool
  | .upd _ => true
  | _ => false

/-- Every event except a RETRY update. -/
def NotRetryUpd (ev : Ev) : Prop := ∀ u, ev = .upd u → u.action ≠ .retry

theorem notRetryUpd_enter (p k a st) : NotRetryUpd (.enter p k a st) := by intro u h; cases h
theorem notRetryUpd_deliver (p o) : NotRetryUpd (.deliver p o) := by intro u h; cases h
theorem notRetryUpd_applied (u) : NotRetryUpd (.applied u) := by intro u h; cases h
theorem notRetryUpd_rejected (u) : NotRetryUpd (.rejected u) := by intro u h; cases h
theorem notRetryUpd_upd {u : Upd} (h : u.action ≠ .retry) : NotRetryUpd (.upd u) := by
  intro u' h'; cases h'; exact h

/-- Events of `retryHandler`: only its RETRY update (present only if the strategy said `some d`,
consulted at `att r`) is constrained. -/
theorem retryHandler_grows {P : Ev → Prop} (s : St) (p : Pos) (spec : StepSpec) (r : Option OpRec)
    (e : Exc) (hP : ∀ ev, isEnter ev = false → NotRetryUpd ev → P ev)
    (hR : ∀ d, spec.strategy e (att r) = some d → P (.upd (stepRetryUpd p e d))) :
    Grows P s (retryHandler s p spec r e).st := by
  rw [retryHandler_eq]
  split
  · next d hd =>
    have hg := checkpoint_grows (P := P) s (stepRetryUpd p e d) (hR d hd)
      (hP _ rfl (notRetryUpd_applied _)) (hP _ rfl (notRetryUpd_rejected _))
    split
    · next en s' hc => rw [hc] at hg; exact hg.1
    · next s' hc => rw [hc] at hg; exact hg
  · next hd =>
    have hg := checkpoint_grows (P := P) s (stepFailUpd p e)
      (hP _ rfl (notRetryUpd_upd (by simp))) (hP _ rfl (notRetryUpd_applied _)) (hP _ rfl (notRetryUpd_rejected _))
    split
    · next en s' hc => rw [hc] at hg; exact hg.1
    · next s' hc =>
      rw [hc] at hg
      split <;> exact hg.trans (deliverAt_grows _ _ _ (hP _ rfl (notRetryUpd_deliver _ _)))

/-- Events of `stepExecute` after its `enter`: no further `enter`; a RETRY update only if the body
failed and the strategy (consulted at `att r`) said `some d`. -/
theorem stepExecute_grows_after {P : Ev → Prop} (s : St) (p : Pos) (spec : StepSpec) (r : Option OpRec)
    (hP : ∀ ev, isEnter ev = false → NotRetryUpd ev → P ev)
    (hR : ∀ e d, spec.body (att r) = .err e → spec.strategy e (att r) = some d →
      P (.upd (stepRetryUpd p e d))) :
    Grows P (emit s (.enter p .step (att r) none)) (stepExecute s p spec r).st := by
  rw [stepExecute_eq]
  have h0 : Grows P (emit s (.enter p .step (att r) none)) (emit s (.enter p .step (att r) none)) :=
    Grows.refl _ _
  split
  · exact h0
  · next s₁ ht =>
    obtain ⟨_, rfl⟩ := tick_some ht
    have h1 : Grows P (emit s (.enter p .step (att r) none))
        (ticked (emit s (.enter p .step (att r) none))) :=
      h0.trans (Grows.of_trace_eq rfl)
    split
    · next v hv =>
      have hg := checkpoint_grows (P := P) (ticked (emit s (.enter p .step (att r) none)))
        (stepSucceedUpd p v) (hP _ rfl (notRetryUpd_upd (by simp))) (hP _ rfl (notRetryUpd_applied _))
        (hP _ rfl (notRetryUpd_rejected _))
      split
      · next en s' hc => rw [hc] at hg; exact h1.trans hg.1
      · next s' hc =>
        rw [hc] at hg
        exact (h1.trans hg).trans (deliverAt_grows _ _ _ (hP _ rfl (notRetryUpd_deliver _ _)))
    · next e he =>
      exact h1.trans (retryHandler_grows _ p spec r e hP (fun d hd => hR e d he hd))

theorem stepExecute_grows {P : Ev → Prop} (s : St) (p : Pos) (spec : StepSpec) (r : Option OpRec)
    (hP : ∀ ev, isEnter ev = false → NotRetryUpd ev → P ev)
    (hE : P (.enter p .step (att r) none))
    (hR : ∀ e d, spec.body (att r) = .err e → spec.strategy e (att r) = some d →
      P (.upd (stepRetryUpd p e d))) :
    Grows P s (stepExecute s p spec r).st :=
  (Grows.emit s _ hE).trans (stepExecute_grows_after s p spec r hP hR)

/-- In every path of `handleStep` the record handed to `execute` carries the attempt count of the
record in the table the handler started from. -/
theorem handleStep_grows {P : Ev → Prop} (s : St) (p : Pos) (spec : StepSpec)
    (hP : ∀ ev, isEnter ev = false → NotRetryUpd ev → P ev)
    (hE : P (.enter p .step (att (lookup s.tbl p)) none))
    (hR : ∀ e d, spec.strategy e (att (lookup s.tbl p)) = some d → P (.upd (stepRetryUpd p e d))) :
    Grows P s (handleStep s p spec).st := by
  unfold handleStep
  split
  · next r hl =>
    rw [hl] at hR hE
    split
    · exact deliverAt_grows _ _ _ (hP _ rfl (notRetryUpd_deliver _ _))
    split
    · exact deliverAt_grows _ _ _ (hP _ rfl (notRetryUpd_deliver _ _))
    split
    · exact Grows.refl _ _
    split
    · exact retryHandler_grows s p spec (some r) _ hP (fun d hd => hR _ d hd)
    split
    · have hg := checkpoint_grows (P := P) s (stepStartUpd p true)
        (hP _ rfl (notRetryUpd_upd (by simp))) (hP _ rfl (notRetryUpd_applied _)) (hP _ rfl (notRetryUpd_rejected _))
      split
      · next en s' hc => rw [hc] at hg; exact hg.1
      · next s' hc =>
        rw [hc] at hg
        obtain ⟨_, _, t', ha, rfl⟩ := checkpoint_sync_ok_inv rfl hc
        obtain ⟨_, _, _, rfl⟩ := apply_start_present_inv (u := stepStartUpd p true) hl rfl ha
        have hl' : lookup (ckOk s (stepStartUpd p true)
            (upsert s.tbl p { r with status := .started })).tbl p = some { r with status := .started } :=
          lookup_upsert_self _ _ _
        rw [hl']
        exact hg.trans (stepExecute_grows _ p spec _ hP hE (fun e d _ hd => hR e d hd))
    · exact stepExecute_grows s p spec (some r) hP hE (fun e d _ hd => hR e d hd)
  · next hl =>
    rw [hl] at hR hE
    have hg := checkpoint_grows (P := P) s (stepStartUpd p spec.amo)
      (hP _ rfl (notRetryUpd_upd (by simp))) (hP _ rfl (notRetryUpd_applied _)) (hP _ rfl (notRetryUpd_rejected _))
    split
    · next en s' hc => rw [hc] at hg; exact hg.1
    · next s' hc =>
      rw [hc] at hg
      cases hamo : spec.amo with
      | false =>
        simp only [Bool.false_eq_true, if_false]
        exact hg.trans (stepExecute_grows _ p spec none hP hE (fun e d _ hd => hR e d hd))
      | true =>
        simp only [if_true]
        rw [hamo] at hc
        obtain ⟨_, _, t', ha, rfl⟩ := checkpoint_sync_ok_inv rfl hc
        have := apply_start_absent_inv (u := stepStartUpd p true) hl rfl ha
        subst this
        have hl' : lookup (ckOk s (stepStartUpd p true)
            (upsert s.tbl p (Backend.startRec .step (s.imm p)))).tbl p =
              some (Backend.startRec .step (s.imm p)) := lookup_upsert_self _ _ _
        rw [hl']
        exact hg.trans (stepExecute_grows _ p spec _ hP hE (fun e d _ hd => hR e d hd))

theorem wfcExecute_grows_after {P : Ev → Prop} (s : St) (p : Pos) (w : WfcSpec) (r : Option OpRec)
    (hP : ∀ ev, isEnter ev = false → NotRetryUpd ev → P ev)
    (hR : ∀ ns d, w.check (pollState w r) (att r) = .ok ns → w.decide ns (att r) = some d →
      P (.upd (wfcRetryUpd p ns d))) :
    Grows P (emit s (.enter p .wfc (att r) (some (pollState w r)))) (wfcExecute s p w r).st := by
  rw [wfcExecute_eq]
  have h0 : Grows P (emit s (.enter p .wfc (att r) (some (pollState w r))))
      (emit s (.enter p .wfc (att r) (some (pollState w r)))) := Grows.refl _ _
  split
  · exact h0
  · next s₁ ht =>
    obtain ⟨_, rfl⟩ := tick_some ht
    have h1 : Grows P (emit s (.enter p .wfc (att r) (some (pollState w r))))
        (ticked (emit s (.enter p .wfc (att r) (some (pollState w r))))) :=
      h0.trans (Grows.of_trace_eq rfl)
    split
    · next ns hns =>
      split
      · have hg := checkpoint_grows (P := P) (ticked (emit s (.enter p .wfc (att r) (some (pollState w r)))))
          (wfcSucceedUpd p ns) (hP _ rfl (notRetryUpd_upd (by simp))) (hP _ rfl (notRetryUpd_applied _))
          (hP _ rfl (notRetryUpd_rejected _))
        split
        · next en s' hc => rw [hc] at hg; exact h1.trans hg.1
        · next s' hc =>
          rw [hc] at hg
          exact (h1.trans hg).trans (deliverAt_grows _ _ _ (hP _ rfl (notRetryUpd_deliver _ _)))
      · next d hd =>
        have hg := checkpoint_grows (P := P) (ticked (emit s (.enter p .wfc (att r) (some (pollState w r)))))
          (wfcRetryUpd p ns d) (hR ns d hns hd) (hP _ rfl (notRetryUpd_applied _))
          (hP _ rfl (notRetryUpd_rejected _))
        split
        · next en s' hc => rw [hc] at hg; exact h1.trans hg.1
        · next s' hc => rw [hc] at hg; exact h1.trans hg
    · next e he =>
      have hg := checkpoint_grows (P := P) (ticked (emit s (.enter p .wfc (att r) (some (pollState w r)))))
        (wfcFailUpd p e) (hP _ rfl (notRetryUpd_upd (by simp))) (hP _ rfl (notRetryUpd_applied _))
        (hP _ rfl (notRetryUpd_rejected _))
      split
      · next en s' hc => rw [hc] at hg; exact h1.trans hg.1
      · next s' hc =>
        rw [hc] at hg
        exact (h1.trans hg).trans (deliverAt_grows _ _ _ (hP _ rfl (notRetryUpd_deliver _ _)))

theorem wfcExecute_grows {P : Ev → Prop} (s : St) (p : Pos) (w : WfcSpec) (r : Option OpRec)
    (hP : ∀ ev, isEnter ev = false → NotRetryUpd ev → P ev)
    (hE : P (.enter p .wfc (att r) (some (pollState w r))))
    (hR : ∀ ns d, w.check (pollState w r) (att r) = .ok ns → w.decide ns (att r) = some d →
      P (.upd (wfcRetryUpd p ns d))) :
    Grows P s (wfcExecute s p w r).st :=
  (Grows.emit s _ hE).trans (wfcExecute_grows_after s p w r hP hR)

/-- `handleWfc` always hands `execute` the record it found in the table. -/
theorem handleWfc_grows {P : Ev → Prop} (s : St) (p : Pos) (w : WfcSpec)
    (hP : ∀ ev, isEnter ev = false → NotRetryUpd ev → P ev)
    (hE : P (.enter p .wfc (att (lookup s.tbl p)) (some (pollState w (lookup s.tbl p)))))
    (hR : ∀ ns d, w.check (pollState w (lookup s.tbl p)) (att (lookup s.tbl p)) = .ok ns →
      w.decide ns (att (lookup s.tbl p)) = some d → P (.upd (wfcRetryUpd p ns d))) :
    Grows P s (handleWfc s p w).st := by
  have hstart : Grows P s (ckAsync s (wfcStartUpd p)) := by
    have hg := checkpoint_grows (P := P) s (wfcStartUpd p)
      (hP _ rfl (notRetryUpd_upd (by simp))) (hP _ rfl (notRetryUpd_applied _)) (hP _ rfl (notRetryUpd_rejected _))
    rw [checkpoint_async s _ rfl] at hg
    exact hg
  unfold handleWfc
  simp only [checkpoint_async s (wfcStartUpd p) rfl]
  split
  · next r hl =>
    split
    · exact deliverAt_grows _ _ _ (hP _ rfl (notRetryUpd_deliver _ _))
    split
    · exact deliverAt_grows _ _ _ (hP _ rfl (notRetryUpd_deliver _ _))
    split
    · exact Grows.refl _ _
    split
    · exact wfcExecute_grows s p w _ hP hE hR
    · exact hstart.trans (wfcExecute_grows _ p w _ hP hE hR)
  · exact hstart.trans (wfcExecute_grows _ p w _ hP hE hR)

/-! ## Dispatch equations -/

theorem handleWfc_started {s : St} {p : Pos} {r : OpRec} (w : WfcSpec)
    (hl : lookup s.tbl p = some r) (hs : r.status = .started) :
    handleWfc s p w = wfcExecute s p w (some r) := by
  unfold handleWfc
  simp [hl, hs]

theorem handleWfc_ready {s : St} {p : Pos} {r : OpRec} (w : WfcSpec)
    (hl : lookup s.tbl p = some r) (hs : r.status = .ready) :
    handleWfc s p w = wfcExecute (ckAsync s (wfcStartUpd p)) p w (some r) := by
  unfold handleWfc
  simp [hl, hs, checkpoint_async s (wfcStartUpd p) rfl]

theorem handleWfc_absent {s : St} {p : Pos} (w : WfcSpec) (hl : lookup s.tbl p = none) :
    handleWfc s p w = wfcExecute (ckAsync s (wfcStartUpd p)) p w none := by
  unfold handleWfc
  simp [hl, checkpoint_async s (wfcStartUpd p) rfl]

/-- At-least-once step whose record is STARTED or READY: the function is (re-)executed at once. -/
theorem handleStep_run_alo {s : St} {p : Pos} {r : OpRec} (spec : StepSpec)
    (hl : lookup s.tbl p = some r) (hs : r.status = .started ∨ r.status = .ready)
    (hamo : spec.amo = false) : handleStep s p spec = stepExecute s p spec (some r) := by
  unfold handleStep
  rcases hs with hs | hs <;> simp [hl, hs, hamo]

theorem handleStep_absent_alo {s : St} {p : Pos} (spec : StepSpec)
    (hl : lookup s.tbl p = none) (hamo : spec.amo = false) :
    handleStep s p spec = stepExecute (ckAsync s (stepStartUpd p false)) p spec none := by
  unfold handleStep
  simp [hl, hamo, checkpoint_async s (stepStartUpd p false) rfl]

/-- At-most-once step found STARTED: it was interrupted; the retry handler gets StepInterruptedError. -/
theorem handleStep_interrupted {s : St} {p : Pos} {r : OpRec} (spec : StepSpec)
    (hl : lookup s.tbl p = some r) (hs : r.status = .started) (hamo : spec.amo = true) :
    handleStep s p spec = retryHandler s p spec (some r) (StepInterrupted p) := by
  unfold handleStep
  simp [hl, hs, hamo]

/-! ## The retry timer (B3) -/

/-- The retry timer fires exactly on a PENDING step / wait_for_condition and makes it READY,
leaving attempt count, result and error untouched. -/
theorem fire_retryReady {t : Tbl} {p : Pos} {r : OpRec} (hl : lookup t p = some r)
    (hk : r.kind = .step ∨ r.kind = .wfc) (hs : r.status = .pending) :
    Backend.fire t (.retryReady p) = some (upsert t p { r with status := .ready }) ∧
    lookup (upsert t p { r with status := .ready }) p = some { r with status := .ready } := by
  refine ⟨?_, lookup_upsert_self _ _ _⟩
  unfold Backend.fire
  simp only [hl]
  rcases hk with hk | hk <;> simp [hk, hs]

theorem fire_retryReady_inv {t t' : Tbl} {p : Pos} (h : Backend.fire t (.retryReady p) = some t') :
    ∃ r, lookup t p = some r ∧ (r.kind = .step ∨ r.kind = .wfc) ∧ r.status = .pending ∧
      t' = upsert t p { r with status := .ready } := by
  unfold Backend.fire at h
  cases hl : lookup t p with
  | none => simp [hl] at h
  | some r =>
    simp only [hl] at h
    split at h
    · next hc =>
      cases h
      simp only [Bool.and_eq_true, Bool.or_eq_true, beq_iff_eq] at hc
      exact ⟨r, rfl, hc.1, hc.2, rfl⟩
    · cases h

/-! ## Child contexts -/

/-- SUCCEED of a context whose result is too large: only the summary, and ReplayChildren. -/
abbrev ctxSummaryUpd (p : Pos) (summary : Val) : Upd :=
  { pos := p, kind := .context, action := .succeed, payload := some summary, replayChildren := true }
/-- SUCCEED of a context with its full result. -/
abbrev ctxFullUpd (p : Pos) (v : Val) : Upd :=
  { pos := p, kind := .context, action := .succeed, payload := some v }
/-- FAIL of a context. -/
abbrev ctxFailUpd (p : Pos) (ex : Exc) : Upd :=
  { pos := p, kind := .context, action := .fail, error := some (ErrObj.ofExc ex) }
/-- START of a context; asynchronous. -/
abbrev ctxStartUpd (p : Pos) : Upd := { pos := p, kind := .context, action := .start, sync := false }

theorem childAfter_returned_large (s : St) (p : Pos) (c : ChildSpec) (v : Val) (h : c.large v = true) :
    childAfter s p c false (.returned v) =
      match checkpoint s (ctxSummaryUpd p (c.summary v)) with
      | .error (en, s) => .stop en s
      | .ok s => deliverAt s p (.ok v) := by
  simp only [childAfter, h, Bool.false_eq_true, if_true, if_false]
  rfl

theorem childAfter_returned_small (s : St) (p : Pos) (c : ChildSpec) (v : Val) (h : c.large v = false) :
    childAfter s p c false (.returned v) =
      match checkpoint s (ctxFullUpd p v) with
      | .error (en, s) => .stop en s
      | .ok s => deliverAt s p (.ok v) := by
  simp only [childAfter, h, Bool.false_eq_true, if_false]
  rfl

theorem childAfter_raised (s : St) (p : Pos) (c : ChildSpec) (m : Bool) (ex : Exc) :
    childAfter s p c m (.raised ex) =
      match checkpoint s (ctxFailUpd p ex) with
      | .error (en, s) => .stop en s
      | .ok s => if ex.inv then deliverAt s p (.err ex) else deliverAt s p (.err (ErrObj.ofExc ex).toCallable) :=
  rfl

theorem childAfter_replay (s : St) (p : Pos) (c : ChildSpec) (v : Val) :
    childAfter s p c true (.returned v) = deliverAt s p (.ok v) := rfl

/-- A context completed with its full result (or failed) is short-circuited (C01-style). -/
theorem childBefore_done {s : St} {p : Pos} {r : OpRec} (hl : lookup s.tbl p = some r)
    (hd : Done r = true) (hrc : r.replayChildren = false) :
    childBefore s p = .inl (deliverAt s p (outcomeOf r)) := by
  unfold childBefore outcomeOf
  simp only [hl]
  by_cases h1 : r.status = .succeeded
  · simp [h1, hrc]
  · have h2 : r.status = .failed := by simpa [Done, h1] using hd
    simp [h2]

/-- A context completed with a summary only is re-entered in replay mode: nothing is sent. -/
theorem childBefore_replay {s : St} {p : Pos} {r : OpRec} (hl : lookup s.tbl p = some r)
    (hs : r.status = .succeeded) (hrc : r.replayChildren = true) :
    childBefore s p = .inr (emit s (.enter p .context 0 none), true) := by
  unfold childBefore
  simp [hl, hs, hrc]

end EngineH
