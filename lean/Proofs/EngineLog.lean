import DurableModel.EngineSpec
import Proofs.EngineRun
import Proofs.EngineExec
/-!
# Helpers for C17 — the replay status that drives the context logger

The only fields of `Engine.St` the logger depends on are `replaying` and `visited`.  They are
written in exactly two ways: `initSt` and `trackReplay`; and `trackReplay s p` is only ever called
right after `deliver p _` was emitted (`deliverAt`, `handleCbNew`).  `handleCbRes` emits a `deliver`
*without* tracking.

`Lm P s l s'` ("logger moves") abstracts what one invocation does to these fields: `s'` is reached
from `s` by appending exactly the events `l`, where each event is

* a *plain* event (neither `deliver` nor `logged`): `replaying`/`visited` untouched;
* a *tracking delivery*: `deliver p o` followed by `trackReplay · p`;
* an *untracked delivery* `deliver h o` at a handle `h` satisfying `P` (`Callback.result`);
* a log call, emitted with flag `!replaying`;

interleaved with *quiet* moves that keep `replaying`, `visited`, `trace` and change the table only
in ways that keep terminal records (and key-uniqueness).  Every handler is such a move
(`lme_handle*`), hence every `run` (`run_lm`), and all C17 statements are proved by induction on
`Lm`, peeling the first event.  Core Lean only.
-/
set_option linter.unusedSimpArgs false
set_option linter.unusedVariables false

namespace EngineLog
open Engine

/-! ## Tables: keys, completed positions -/

/-- The keys of a table, in order. -/
def keys (t : Tbl) : List Pos := t.map Prod.fst

/-- The positions `trackReplay` regards as completed: those of *entries* with a terminal status. -/
def completed (t : Tbl) : List Pos := (t.filter (fun e => e.2.status.terminal)).map Prod.fst

theorem mem_completed {t : Tbl} {q : Pos} :
    q ∈ completed t ↔ ∃ r, (q, r) ∈ t ∧ r.status.terminal = true := by
  unfold completed
  constructor
  · intro h
    obtain ⟨e, he, rfl⟩ := List.mem_map.1 h
    obtain ⟨h1, h2⟩ := List.mem_filter.1 he
    exact ⟨e.2, h1, h2⟩
  · rintro ⟨r, h1, h2⟩
    exact List.mem_map.2 ⟨(q, r), List.mem_filter.2 ⟨h1, h2⟩, rfl⟩

theorem mem_of_lookup {t : Tbl} {q : Pos} {r : OpRec} (h : lookup t q = some r) : (q, r) ∈ t := by
  induction t with
  | nil => cases h
  | cons e t ih =>
    obtain ⟨a, b⟩ := e
    rw [EngineRun.lookup_cons] at h
    split at h
    · rename_i he
      cases h
      simp only at he
      subst he
      exact List.mem_cons_self ..
    · exact List.mem_cons_of_mem _ (ih h)

/-- With unique keys, membership and `lookup` coincide. -/
theorem lookup_of_mem {t : Tbl} (hn : (keys t).Nodup) {q : Pos} {r : OpRec} (h : (q, r) ∈ t) :
    lookup t q = some r := by
  induction t with
  | nil => cases h
  | cons e t ih =>
    obtain ⟨a, b⟩ := e
    simp only [keys, List.map_cons, List.nodup_cons] at hn
    rw [EngineRun.lookup_cons]
    rcases List.mem_cons.1 h with h | h
    · cases h; simp
    · have hne : a ≠ q := by
        intro ha
        subst ha
        exact hn.1 (List.mem_map.2 ⟨(a, r), h, rfl⟩)
      simp only [hne, if_false]
      exact ih hn.2 h

theorem keys_upsert (t : Tbl) (p : Pos) (r : OpRec) :
    keys (upsert t p r) = if t.any (fun e => e.1 == p) then keys t else keys t ++ [p] := by
  unfold upsert keys
  split
  · rw [List.map_map]
    apply List.map_congr_left
    intro e _
    by_cases h : e.1 = p <;> simp [h]
  · simp

theorem nodup_upsert {t : Tbl} {p : Pos} {r : OpRec} (h : (keys t).Nodup) : (keys (upsert t p r)).Nodup := by
  rw [keys_upsert]
  split
  · exact h
  · rename_i hany
    have hp : p ∉ keys t := by
      intro hp
      obtain ⟨e, he, rfl⟩ := List.mem_map.1 hp
      exact hany (List.any_eq_true.2 ⟨e, he, by simp⟩)
    refine List.nodup_append.2 ⟨h, by simp, ?_⟩
    intro a ha b hb
    rw [List.mem_singleton.1 hb]
    intro hab
    exact hp (hab ▸ ha)

/-- What every table change of an invocation guarantees: terminal records are kept as they are,
and keys stay unique. -/
structure Keeps (t t' : Tbl) : Prop where
  term : ∀ q r, lookup t q = some r → r.status.terminal = true → lookup t' q = some r
  nodup : (keys t).Nodup → (keys t').Nodup

theorem Keeps.refl (t : Tbl) : Keeps t t := ⟨fun _ _ h _ => h, id⟩

theorem Keeps.trans {a b c : Tbl} (h1 : Keeps a b) (h2 : Keeps b c) : Keeps a c :=
  ⟨fun q r hl ht => h2.term q r (h1.term q r hl ht) ht, fun h => h2.nodup (h1.nodup h)⟩

theorem keeps_apply {t t' : Tbl} {u : Upd} {imm : Backend.Immediate}
    (h : Backend.apply t u imm = some t') : Keeps t t' := by
  refine ⟨fun q r hl ht => EngineRun.apply_terminal h hl ht, fun hn => ?_⟩
  obtain ⟨r', _, rfl⟩ := EngineRun.apply_some h
  exact nodup_upsert hn

/-! ## `trackReplay` -/

theorem trackReplay_of_not_replaying {s : St} {p : Pos} (h : s.replaying = false) : trackReplay s p = s := by
  unfold trackReplay
  simp [h]

theorem trackReplay_visited {s : St} {p : Pos} (h : s.replaying = true) :
    (trackReplay s p).visited = s.visited ++ [p] := by
  unfold trackReplay
  simp [h]

theorem trackReplay_replaying {s : St} {p : Pos} (h : s.replaying = true) :
    (trackReplay s p).replaying = !((completed s.tbl).all (fun q => (s.visited ++ [p]).contains q)) := by
  unfold trackReplay completed
  simp [h]

/-- While replaying, `trackReplay s p` leaves REPLAY iff every completed position has been visited
(`p` included). -/
theorem trackReplay_new_iff {s : St} {p : Pos} (h : s.replaying = true) :
    (trackReplay s p).replaying = false ↔ ∀ q ∈ completed s.tbl, q ∈ s.visited ++ [p] := by
  rw [trackReplay_replaying h]
  simp only [Bool.not_eq_false', List.all_eq_true, List.contains_iff_mem]

theorem trackReplay_stays_iff {s : St} {p : Pos} (h : s.replaying = true) :
    (trackReplay s p).replaying = true ↔ ∃ q ∈ completed s.tbl, q ∉ s.visited ++ [p] := by
  constructor
  · intro h1
    apply Classical.byContradiction
    intro hne
    have : (trackReplay s p).replaying = false := (trackReplay_new_iff h).2 (by
      intro q hq
      apply Classical.byContradiction
      intro hq'
      exact hne ⟨q, hq, hq'⟩)
    rw [h1] at this
    cases this
  · rintro ⟨q, hq, hq'⟩
    cases h1 : (trackReplay s p).replaying with
    | true => rfl
    | false => exact absurd ((trackReplay_new_iff h).1 h1 q hq) hq'

/-- `replaying` is never switched back on. -/
theorem trackReplay_replaying_false {s : St} {p : Pos} (h : s.replaying = false) :
    (trackReplay s p).replaying = false := by
  rw [trackReplay_of_not_replaying h]; exact h

/-- A terminal record at an unvisited position other than `p` keeps the engine in REPLAY. -/
theorem trackReplay_stays {s : St} {p q : Pos} {r : OpRec} (hr : s.replaying = true)
    (hl : lookup s.tbl q = some r) (ht : r.status.terminal = true) (hv : q ∉ s.visited) (hpq : p ≠ q) :
    (trackReplay s p).replaying = true ∧ q ∉ (trackReplay s p).visited := by
  have hq : q ∉ s.visited ++ [p] := by
    simp only [List.mem_append, List.mem_singleton, not_or]
    exact ⟨hv, fun h => hpq h.symm⟩
  refine ⟨(trackReplay_stays_iff hr).2 ⟨q, mem_completed.2 ⟨r, mem_of_lookup hl, ht⟩, hq⟩, ?_⟩
  rw [trackReplay_visited hr]
  exact hq

/-! ## Logger moves -/

/-- Neither a delivery nor a log line. -/
def Plain : Ev → Prop
  | .deliver _ _ => False
  | .logged _ _ _ => False
  | _ => True

/-- `Lm P s l s'`: see the module comment.  `P` says at which handles an *untracked* delivery
(`Callback.result`) may occur. -/
inductive Lm (P : Pos → Prop) : St → List Ev → St → Prop
  | refl (s : St) : Lm P s [] s
  | quiet {s s1 s2 : St} {l : List Ev} : s1.replaying = s.replaying → s1.visited = s.visited →
      s1.trace = s.trace → Keeps s.tbl s1.tbl → Lm P s1 l s2 → Lm P s l s2
  | ev {s s2 : St} {l : List Ev} (e : Ev) : Plain e → Lm P (emit s e) l s2 → Lm P s (e :: l) s2
  | track {s s2 : St} {l : List Ev} (p : Pos) (o : Outcome) :
      Lm P (trackReplay (emit s (.deliver p o)) p) l s2 → Lm P s (.deliver p o :: l) s2
  | untracked {s s2 : St} {l : List Ev} (h : Pos) (o : Outcome) : P h →
      Lm P (emit s (.deliver h o)) l s2 → Lm P s (.deliver h o :: l) s2
  | log {s s2 : St} {l : List Ev} (c : Pos) (m : String) :
      Lm P (doLog s c m) l s2 → Lm P s (.logged c m (!s.replaying) :: l) s2

namespace Lm

theorem trans {P : Pos → Prop} {a b c : St} {l1 l2 : List Ev} (h1 : Lm P a l1 b) (h2 : Lm P b l2 c) :
    Lm P a (l1 ++ l2) c := by
  induction h1 with
  | refl => exact h2
  | quiet e1 e2 e3 k _ ih => exact .quiet e1 e2 e3 k (ih h2)
  | ev e he _ ih => exact .ev e he (ih h2)
  | track p o _ ih => exact .track p o (ih h2)
  | untracked h o hP _ ih => exact .untracked h o hP (ih h2)
  | log c m _ ih => exact .log c m (ih h2)

theorem mono {P P' : Pos → Prop} (hPP : ∀ h, P h → P' h) {a b : St} {l : List Ev} (h : Lm P a l b) :
    Lm P' a l b := by
  induction h with
  | refl => exact .refl _
  | quiet e1 e2 e3 k _ ih => exact .quiet e1 e2 e3 k ih
  | ev e he _ ih => exact .ev e he ih
  | track p o _ ih => exact .track p o ih
  | untracked h o hP _ ih => exact .untracked h o (hPP h hP) ih
  | log c m _ ih => exact .log c m ih

/-- The events of a move are exactly what it appends to the trace. -/
theorem trace {P : Pos → Prop} {a b : St} {l : List Ev} (h : Lm P a l b) : b.trace = a.trace ++ l := by
  induction h with
  | refl => simp
  | quiet _ _ e3 _ _ ih => rw [ih, e3]
  | ev e _ _ ih => rw [ih]; simp [emit]
  | track p o _ ih => rw [ih]; simp [emit]
  | untracked h o _ _ ih => rw [ih]; simp [emit]
  | log c m _ ih => rw [ih]; simp [doLog, emit]

theorem keeps {P : Pos → Prop} {a b : St} {l : List Ev} (h : Lm P a l b) : Keeps a.tbl b.tbl := by
  induction h with
  | refl => exact Keeps.refl _
  | quiet _ _ _ k _ ih => exact k.trans ih
  | ev e _ _ ih => exact ih
  | track p o _ ih => simpa using ih
  | untracked h o _ _ ih => exact ih
  | log c m _ ih => exact ih

end Lm

/-- Some move leads from `s` to `s'`. -/
def Lme (P : Pos → Prop) (s s' : St) : Prop := ∃ l, Lm P s l s'

theorem Lme.refl {P : Pos → Prop} (s : St) : Lme P s s := ⟨[], .refl s⟩

theorem Lme.trans {P : Pos → Prop} {a b c : St} (h1 : Lme P a b) (h2 : Lme P b c) : Lme P a c := by
  obtain ⟨l1, h1⟩ := h1
  obtain ⟨l2, h2⟩ := h2
  exact ⟨l1 ++ l2, h1.trans h2⟩

section prims
variable {P : Pos → Prop} {s0 s s' : St}

theorem lme_emit {e : Ev} (h : Lme P s0 s) (he : Plain e) : Lme P s0 (emit s e) :=
  h.trans ⟨[e], .ev e he (.refl _)⟩

theorem lme_deliver {p : Pos} {o : Outcome} (h : Lme P s0 s) :
    Lme P s0 (trackReplay (emit s (.deliver p o)) p) :=
  h.trans ⟨[.deliver p o], .track p o (.refl _)⟩

theorem lme_untracked {hd : Pos} {o : Outcome} (hP : P hd) (h : Lme P s0 s) :
    Lme P s0 (emit s (.deliver hd o)) :=
  h.trans ⟨[.deliver hd o], .untracked hd o hP (.refl _)⟩

theorem lme_log {c : Pos} {m : String} (h : Lme P s0 s) : Lme P s0 (doLog s c m) :=
  h.trans ⟨[.logged c m (!s.replaying)], .log c m (.refl _)⟩

theorem lme_quiet {s1 : St} (h : Lme P s0 s) (e1 : s1.replaying = s.replaying) (e2 : s1.visited = s.visited)
    (e3 : s1.trace = s.trace) (k : Keeps s.tbl s1.tbl) : Lme P s0 s1 :=
  h.trans ⟨[], .quiet e1 e2 e3 k (.refl _)⟩

theorem lme_tick (h : Lme P s0 s) (ht : tick s = some s') : Lme P s0 s' := by
  rw [EngineRun.tick_some ht]
  exact lme_quiet h rfl rfl rfl (Keeps.refl _)

theorem lme_ckOk {u : Upd} (hc : EngineRun.CkOk s u s') : Lme P s s' := by
  cases hc with
  | asyncApplied t hs ha =>
    exact ⟨[.upd u, .applied u],
      .quiet (s1 := { s with tbl := t, pending := s.pending ++ [u] }) rfl rfl rfl (keeps_apply ha)
        (.ev _ trivial (.ev _ trivial (.refl _)))⟩
  | asyncRejected hs ha =>
    exact ⟨[.upd u, .rejected u],
      .quiet (s1 := { s with pending := s.pending ++ [u] }) rfl rfl rfl (Keeps.refl _)
        (.ev _ trivial (.ev _ trivial (.refl _)))⟩
  | syncApplied t hs hf ha =>
    exact ⟨[.upd u, .applied u],
      .quiet (s1 := { s with tbl := t, syncTbl := t, pending := [], syncCalls := s.syncCalls + 1,
                             budget := s.budget - 1 - 1 }) rfl rfl rfl (keeps_apply ha)
        (.ev _ trivial (.ev _ trivial (.refl _)))⟩

theorem lme_ckErr {u : Upd} {e : End} (hc : EngineRun.CkErr s u e s') : Lme P s s' := by
  cases hc with
  | crashBefore hs => exact ⟨[.upd u], .ev _ trivial (.refl _)⟩
  | fault hs hf =>
    exact ⟨[.upd u],
      .quiet (s1 := { s with budget := s.budget - 1, syncCalls := s.syncCalls + 1 }) rfl rfl rfl (Keeps.refl _)
        (.ev _ trivial (.refl _))⟩
  | rejected hs hf ha =>
    exact ⟨[.upd u, .rejected u],
      .quiet (s1 := { s with budget := s.budget - 1, syncCalls := s.syncCalls + 1 }) rfl rfl rfl (Keeps.refl _)
        (.ev _ trivial (.ev _ trivial (.refl _)))⟩
  | crashAfter t hs hf ha =>
    exact ⟨[.upd u, .applied u],
      .quiet (s1 := { s with tbl := t, syncTbl := t, pending := [], syncCalls := s.syncCalls + 1,
                             budget := s.budget - 1 }) rfl rfl rfl (keeps_apply ha)
        (.ev _ trivial (.ev _ trivial (.refl _)))⟩

theorem lme_ck_ok {u : Upd} (h : Lme P s0 s) (hc : checkpoint s u = .ok s') : Lme P s0 s' := by
  have := EngineRun.checkpoint_spec s u
  rw [hc] at this
  exact h.trans (lme_ckOk this)

theorem lme_ck_err {u : Upd} {e : End} (h : Lme P s0 s) (hc : checkpoint s u = .error (e, s')) :
    Lme P s0 s' := by
  have := EngineRun.checkpoint_spec s u
  rw [hc] at this
  exact h.trans (lme_ckErr this)

theorem lme_deliverAt {p : Pos} {o : Outcome} (h : Lme P s0 s) : Lme P s0 (deliverAt s p o).st := by
  unfold deliverAt
  split <;> exact lme_deliver h

end prims

/-! ## Handlers as logger moves -/

section handlers
open EngineRun (st_deliver st_stop)
variable {P : Pos → Prop} {s0 s : St}

syntax "lm_close1" : tactic
macro_rules | `(tactic| lm_close1) => `(tactic| first
  | assumption
  | (refine lme_deliverAt ?_; lm_close1)
  | (refine lme_deliver ?_; lm_close1)
  | (refine lme_emit ?_ trivial; lm_close1)
  | (refine lme_tick ?_ ‹_›; lm_close1)
  | (refine lme_ck_ok ?_ ‹_›; lm_close1)
  | (refine lme_ck_err ?_ ‹_›; lm_close1))

theorem lme_retryHandler {p spec r e} (h : Lme P s0 s) : Lme P s0 (retryHandler s p spec r e).st := by
  unfold retryHandler
  dsimp only
  repeat' split
  all_goals try simp only [st_deliver, st_stop]
  all_goals lm_close1

theorem lme_stepExecute {p spec r} (h : Lme P s0 s) : Lme P s0 (stepExecute s p spec r).st := by
  unfold stepExecute
  dsimp only
  repeat' split
  all_goals try simp only [st_deliver, st_stop]
  all_goals first | lm_close1 | (refine lme_retryHandler ?_; lm_close1)

theorem lme_wfcExecute {p w r} (h : Lme P s0 s) : Lme P s0 (wfcExecute s p w r).st := by
  unfold wfcExecute
  dsimp only
  repeat' split
  all_goals try simp only [st_deliver, st_stop]
  all_goals lm_close1

syntax "lm_close" : tactic
macro_rules | `(tactic| lm_close) => `(tactic| first
  | assumption
  | (refine lme_deliverAt ?_; lm_close)
  | (refine lme_retryHandler ?_; lm_close)
  | (refine lme_stepExecute ?_; lm_close)
  | (refine lme_wfcExecute ?_; lm_close)
  | (refine lme_deliver ?_; lm_close)
  | (refine lme_emit ?_ trivial; lm_close)
  | (refine lme_tick ?_ ‹_›; lm_close)
  | (refine lme_ck_ok ?_ ‹_›; lm_close)
  | (refine lme_ck_err ?_ ‹_›; lm_close))

theorem lme_handleStep {p spec} (h : Lme P s0 s) : Lme P s0 (handleStep s p spec).st := by
  unfold handleStep
  repeat' split
  all_goals try simp only [st_deliver, st_stop]
  all_goals lm_close

theorem lme_handleWait {p secs} (h : Lme P s0 s) : Lme P s0 (handleWait s p secs).st := by
  unfold handleWait
  repeat' split
  all_goals try simp only [st_deliver, st_stop]
  all_goals lm_close

theorem lme_handleInvoke {p v} (h : Lme P s0 s) : Lme P s0 (handleInvoke s p v).st := by
  unfold handleInvoke invokeTerminal
  repeat' split
  all_goals try simp only [st_deliver, st_stop, Option.getD]
  all_goals lm_close

theorem lme_handleWfc {p w} (h : Lme P s0 s) : Lme P s0 (handleWfc s p w).st := by
  unfold handleWfc
  dsimp only
  repeat' split
  all_goals try simp only [st_deliver, st_stop]
  all_goals lm_close

/-- `Callback.result` on handle `hd`: its delivery is *not* tracked, so `P hd` is required. -/
theorem lme_handleCbRes {hd} (hP : P hd) (h : Lme P s0 s) : Lme P s0 (handleCbRes s hd).st := by
  unfold handleCbRes
  dsimp only
  repeat' split
  all_goals try simp only [st_deliver, st_stop]
  all_goals first | assumption | exact lme_untracked hP h

theorem lme_handleCbNew {p} (h : Lme P s0 s) : Lme P s0 (EngineExec.ckSt (handleCbNew s p)) := by
  unfold handleCbNew
  repeat' split
  all_goals try simp only [EngineExec.ckSt]
  all_goals lm_close

theorem lme_childBefore {p} (h : Lme P s0 s) : Lme P s0 (EngineExec.cbSt (childBefore s p)) := by
  unfold childBefore
  repeat' split
  all_goals try simp only [EngineExec.cbSt, st_deliver, st_stop]
  all_goals lm_close

theorem lme_childAfter {p c m e} (h : Lme P s0 s) : Lme P s0 (childAfter s p c m e).st := by
  unfold childAfter
  dsimp only
  repeat' split
  all_goals try simp only [st_deliver, st_stop]
  all_goals lm_close

end handlers

/-! ## Programs: where `Callback.result` is called -/

/-- Node predicate: a `cbRes` node's handle satisfies `P`. -/
def cbN (P : Pos → Prop) : Prog → Prop
  | .cbRes h _ => P h
  | _ => True

/-- Every `Callback.result` node of the program (through every continuation) is on a handle
satisfying `P`. -/
def CbHandles (P : Pos → Prop) : Prog → Prop
  | .ret _ => True
  | .raise _ => True
  | .log _ k => CbHandles P k
  | .step _ k => ∀ o, CbHandles P (k o)
  | .wait _ k => CbHandles P k
  | .cbNew k => ∀ h, CbHandles P (k h)
  | .cbRes h k => P h ∧ ∀ o, CbHandles P (k o)
  | .invoke _ k => ∀ o, CbHandles P (k o)
  | .wfc _ k => ∀ o, CbHandles P (k o)
  | .child _ body k => CbHandles P body ∧ ∀ o, CbHandles P (k o)

/-- The program never calls `Callback.result`. -/
def NoCbRes (p : Prog) : Prop := CbHandles (fun _ => False) p

theorem cbHandles_true (p : Prog) : CbHandles (fun _ => True) p := by
  induction p with
  | ret => trivial
  | raise => trivial
  | log _ _ ih => exact ih
  | step _ _ ih => exact ih
  | wait _ _ ih => exact ih
  | cbNew _ ih => exact ih
  | cbRes _ _ ih => exact ⟨trivial, ih⟩
  | invoke _ _ ih => exact ih
  | wfc _ _ ih => exact ih
  | child _ _ _ ihb ihk => exact ⟨ihb, ihk⟩

theorem cbHandles_allN {P : Pos → Prop} (p : Prog) : CbHandles P p → EngineExec.AllN (cbN P) p := by
  induction p with
  | ret => intro _; trivial
  | raise => intro _; trivial
  | log _ _ ih => intro h; exact ⟨trivial, ih h⟩
  | step _ _ ih => intro h; exact ⟨trivial, fun o => ih o (h o)⟩
  | wait _ _ ih => intro h; exact ⟨trivial, ih h⟩
  | cbNew _ ih => intro h; exact ⟨trivial, fun x => ih x (h x)⟩
  | cbRes _ _ ih => intro h; exact ⟨h.1, fun o => ih o (h.2 o)⟩
  | invoke _ _ ih => intro h; exact ⟨trivial, fun o => ih o (h o)⟩
  | wfc _ _ ih => intro h; exact ⟨trivial, fun o => ih o (h o)⟩
  | child _ _ _ ihb ihk => intro h; exact ⟨trivial, ihb h.1, fun o => ihk o (h.2 o)⟩

theorem runHyps_lm (P : Pos → Prop) : EngineExec.RunHyps (fun _ _ => True) (Lme P) (cbN P) where
  refl := Lme.refl
  trans := Lme.trans
  log := fun _ s _ _ => ⟨lme_log (Lme.refl s), trivial⟩
  step := fun _ _ s _ _ _ _ => ⟨lme_handleStep (Lme.refl s), trivial⟩
  wait := fun _ _ s _ _ _ _ => ⟨lme_handleWait (Lme.refl s), trivial⟩
  cbNew := fun _ _ s _ _ _ => ⟨lme_handleCbNew (Lme.refl s), trivial⟩
  cbRes := fun _ s _ _ hN _ => ⟨lme_handleCbRes hN (Lme.refl s), trivial⟩
  invoke := fun _ _ s _ _ => ⟨lme_handleInvoke (Lme.refl s), trivial⟩
  wfc := fun _ _ s _ _ => ⟨lme_handleWfc (Lme.refl s), trivial⟩
  childB := fun _ _ s _ => ⟨lme_childBefore (Lme.refl s), trivial, fun _ _ _ => trivial⟩
  childA := fun _ _ _ s _ _ _ _ _ => ⟨lme_childAfter (Lme.refl s), trivial⟩

/-- **Every run is a logger move** whose untracked deliveries are at handles allowed by `P`. -/
theorem run_lm {P : Pos → Prop} (p : Prog) (hp : CbHandles P p) (ctx : Pos) (n : Nat) (s : St) :
    ∃ l, Lm P s l (run p ctx n s).2 :=
  (EngineExec.run_ind (runHyps_lm P) p (cbHandles_allN p hp) ctx n s trivial).1

theorem run_lm_any (p : Prog) (ctx : Pos) (n : Nat) (s : St) :
    ∃ l, Lm (fun _ => True) s l (run p ctx n s).2 :=
  run_lm p (cbHandles_true p) ctx n s

/-! ## What logger moves imply for the flags of log lines -/

/-- Every log line among the events carries flag `b`. -/
def AllFlag (b : Bool) (l : List Ev) : Prop := ∀ c m e, Ev.logged c m e ∈ l → e = b

theorem allFlag_nil (b : Bool) : AllFlag b [] := by intro c m e h; cases h

theorem allFlag_cons_plain {b : Bool} {x : Ev} {l : List Ev} (hx : ∀ c m e, x ≠ .logged c m e)
    (h : AllFlag b l) : AllFlag b (x :: l) := by
  intro c m e he
  rcases List.mem_cons.1 he with he | he
  · exact absurd he.symm (hx c m e)
  · exact h c m e he

theorem plain_ne_logged {x : Ev} (hx : Plain x) (c : Pos) (m : String) (e : Bool) : x ≠ .logged c m e := by
  intro h; subst h; exact hx

theorem plain_ne_deliver {x : Ev} (hx : Plain x) (q : Pos) (o : Outcome) : x ≠ .deliver q o := by
  intro h; subst h; exact hx

/-- **Once NEW, always NEW**: from a state that is not replaying, the move ends not replaying and
every log line is emitted. -/
theorem Lm.stays_new {P : Pos → Prop} {s s' : St} {l : List Ev} (h : Lm P s l s') :
    s.replaying = false → s'.replaying = false ∧ AllFlag true l := by
  induction h with
  | refl => intro h; exact ⟨h, allFlag_nil _⟩
  | quiet e1 _ _ _ _ ih => intro h; exact ih (e1.trans h)
  | ev e he _ ih =>
    intro h
    obtain ⟨h1, h2⟩ := ih h
    exact ⟨h1, allFlag_cons_plain (plain_ne_logged he) h2⟩
  | @track s s2 l p o _ ih =>
    intro h
    obtain ⟨h1, h2⟩ := ih (trackReplay_replaying_false (s := emit s (.deliver p o)) h)
    exact ⟨h1, allFlag_cons_plain (by intro c m e hh; cases hh) h2⟩
  | untracked hd o _ _ ih =>
    intro h
    obtain ⟨h1, h2⟩ := ih h
    exact ⟨h1, allFlag_cons_plain (by intro c m e hh; cases hh) h2⟩
  | log c m _ ih =>
    intro h
    obtain ⟨h1, h2⟩ := ih h
    refine ⟨h1, ?_⟩
    intro c' m' e' he
    rcases List.mem_cons.1 he with he | he
    · cases he; simp [h]
    · exact h2 c' m' e' he

/-- **No silent line after an emitted one.** -/
theorem Lm.mono_flags {P : Pos → Prop} {s s' : St} {l : List Ev} (h : Lm P s l s') :
    ∀ pre c m post, l = pre ++ Ev.logged c m true :: post → AllFlag true post := by
  induction h with
  | refl => intro pre c m post hl; cases pre <;> cases hl
  | quiet _ _ _ _ _ ih => exact ih
  | ev e he _ ih =>
    intro pre c m post hl
    cases pre with
    | nil => cases hl; exact absurd he id
    | cons y pre' => injection hl with _ hl; exact ih pre' c m post hl
  | track p o _ ih =>
    intro pre c m post hl
    cases pre with
    | nil => cases hl
    | cons y pre' => injection hl with _ hl; exact ih pre' c m post hl
  | untracked hd o _ _ ih =>
    intro pre c m post hl
    cases pre with
    | nil => cases hl
    | cons y pre' => injection hl with _ hl; exact ih pre' c m post hl
  | @log s s2 l c0 m0 hrest ih =>
    intro pre c m post hl
    cases pre with
    | nil =>
      injection hl with h1 h2
      injection h1 with _ _ h3
      have hr : s.replaying = false := by simpa using h3
      subst h2
      exact (hrest.stays_new hr).2
    | cons y pre' => injection hl with _ hl; exact ih pre' c m post hl

/-- **Silent until the first delivery at a completed position.**  If the move starts in REPLAY with
a terminal record at an unvisited position `q`, every log line before the first `deliver q _` is
suppressed. -/
theorem Lm.silent_before {P : Pos → Prop} {s s' : St} {l : List Ev} (h : Lm P s l s') {q : Pos} {r : OpRec}
    (ht : r.status.terminal = true) :
    s.replaying = true → q ∉ s.visited → lookup s.tbl q = some r →
    ∀ pre c m e post, l = pre ++ Ev.logged c m e :: post → (∀ o, Ev.deliver q o ∉ pre) → e = false := by
  induction h with
  | refl => intro _ _ _ pre c m e post hl; cases pre <;> cases hl
  | quiet e1 e2 _ k _ ih =>
    intro hr hv hl
    exact ih (e1.trans hr) (e2 ▸ hv) (k.term q r hl ht)
  | ev x hx _ ih =>
    intro hr hv hl pre c m e post hdec hpre
    cases pre with
    | nil => cases hdec; exact absurd hx id
    | cons y pre' =>
      injection hdec with _ hdec
      exact ih hr hv hl pre' c m e post hdec (fun o ho => hpre o (List.mem_cons_of_mem _ ho))
  | @track s s2 l p o _ ih =>
    intro hr hv hl pre c m e post hdec hpre
    cases pre with
    | nil => cases hdec
    | cons y pre' =>
      injection hdec with hy hdec
      have hpq : p ≠ q := by
        intro hpq
        subst hpq
        exact hpre o (hy ▸ List.mem_cons_self ..)
      obtain ⟨h1, h2⟩ := trackReplay_stays (s := emit s (.deliver p o)) hr hl ht hv hpq
      exact ih h1 h2 (by simpa using hl) pre' c m e post hdec
        (fun o ho => hpre o (List.mem_cons_of_mem _ ho))
  | untracked hd o _ _ ih =>
    intro hr hv hl pre c m e post hdec hpre
    cases pre with
    | nil => cases hdec
    | cons y pre' =>
      injection hdec with _ hdec
      exact ih hr hv hl pre' c m e post hdec (fun o ho => hpre o (List.mem_cons_of_mem _ ho))
  | @log s s2 l c0 m0 _ ih =>
    intro hr hv hl pre c m e post hdec hpre
    cases pre with
    | nil =>
      injection hdec with h1 _
      injection h1 with _ _ h3
      rw [← h3, hr]; rfl
    | cons y pre' =>
      injection hdec with _ hdec
      exact ih hr hv hl pre' c m e post hdec (fun o ho => hpre o (List.mem_cons_of_mem _ ho))

/-- **Audible once every completed position has been delivered (tracked).**  The move starts in
REPLAY on a table with unique keys.  If, before a log call, every position that is terminal in the
*final* table (hence every position terminal at any earlier moment) has either been visited already
or received a delivery at a position outside `P` (so a tracked one), and at least one tracked
delivery occurred, the line is emitted. -/
theorem Lm.audible_core {P : Pos → Prop} {s s' : St} {l : List Ev} (h : Lm P s l s') :
    s.replaying = true → (keys s.tbl).Nodup →
    ∀ pre c m e post, l = pre ++ Ev.logged c m e :: post →
    (∀ q r, lookup s'.tbl q = some r → r.status.terminal = true →
      q ∈ s.visited ∨ (¬ P q ∧ ∃ o, Ev.deliver q o ∈ pre)) →
    (∃ q o, Ev.deliver q o ∈ pre ∧ ¬ P q) → e = true := by
  induction h with
  | refl => intro _ _ pre c m e post hl; cases pre <;> cases hl
  | quiet e1 e2 _ k _ ih =>
    intro hr hn pre c m e post hdec H1 H2
    exact ih (e1.trans hr) (k.nodup hn) pre c m e post hdec (by rw [e2]; exact H1) H2
  | ev x hx _ ih =>
    intro hr hn pre c m e post hdec H1 H2
    cases pre with
    | nil => cases hdec; exact absurd hx id
    | cons y pre' =>
      injection hdec with hy hdec
      subst hy
      refine ih hr hn pre' c m e post hdec ?_ ?_
      · intro q r hl ht
        rcases H1 q r hl ht with h | ⟨hP, o, ho⟩
        · exact Or.inl h
        · rcases List.mem_cons.1 ho with ho | ho
          · exact absurd ho.symm (plain_ne_deliver hx q o)
          · exact Or.inr ⟨hP, o, ho⟩
      · obtain ⟨q, o, ho, hP⟩ := H2
        rcases List.mem_cons.1 ho with ho | ho
        · exact absurd ho.symm (plain_ne_deliver hx q o)
        · exact ⟨q, o, ho, hP⟩
  | @track s s2 l p o hrest ih =>
    intro hr hn pre c m e post hdec H1 H2
    cases pre with
    | nil => cases hdec
    | cons y pre' =>
      injection hdec with hy hdec
      subst hy
      cases hr1 : (trackReplay (emit s (.deliver p o)) p).replaying with
      | false =>
        exact (hrest.stays_new hr1).2 c m e (by rw [hdec]; simp)
      | true =>
        have hvis : (trackReplay (emit s (.deliver p o)) p).visited = s.visited ++ [p] :=
          trackReplay_visited (s := emit s (.deliver p o)) hr
        obtain ⟨q0, hq0, hq0v⟩ := (trackReplay_stays_iff (s := emit s (.deliver p o)) hr).1 hr1
        obtain ⟨r0, hmem, ht0⟩ := mem_completed.1 hq0
        have hl0 : lookup s.tbl q0 = some r0 := lookup_of_mem hn hmem
        have hl0' : lookup s2.tbl q0 = some r0 := hrest.keeps.term q0 r0 (by simpa using hl0) ht0
        have hq0v' : q0 ∉ s.visited ∧ q0 ≠ p := by
          have : q0 ∉ s.visited ++ [p] := hq0v
          simpa [List.mem_append, not_or] using this
        refine ih hr1 (by simpa using hn) pre' c m e post hdec ?_ ?_
        · intro q r hl ht
          rw [hvis]
          rcases H1 q r hl ht with h | ⟨hP, o', ho⟩
          · exact Or.inl (List.mem_append_left _ h)
          · rcases List.mem_cons.1 ho with ho | ho
            · cases ho; exact Or.inl (by simp)
            · exact Or.inr ⟨hP, o', ho⟩
        · rcases H1 q0 r0 hl0' ht0 with h | ⟨hP, o', ho⟩
          · exact absurd h hq0v'.1
          · rcases List.mem_cons.1 ho with ho | ho
            · cases ho; exact absurd rfl hq0v'.2
            · exact ⟨q0, o', ho, hP⟩
  | untracked hd o hPd _ ih =>
    intro hr hn pre c m e post hdec H1 H2
    cases pre with
    | nil => cases hdec
    | cons y pre' =>
      injection hdec with hy hdec
      subst hy
      refine ih hr hn pre' c m e post hdec ?_ ?_
      · intro q r hl ht
        rcases H1 q r hl ht with h | ⟨hP, o', ho⟩
        · exact Or.inl h
        · rcases List.mem_cons.1 ho with ho | ho
          · cases ho; exact absurd hPd hP
          · exact Or.inr ⟨hP, o', ho⟩
      · obtain ⟨q, o', ho, hP⟩ := H2
        rcases List.mem_cons.1 ho with ho | ho
        · cases ho; exact absurd hPd hP
        · exact ⟨q, o', ho, hP⟩
  | @log s s2 l c0 m0 _ ih =>
    intro hr hn pre c m e post hdec H1 H2
    cases pre with
    | nil =>
      obtain ⟨q, o, ho, _⟩ := H2
      cases ho
    | cons y pre' =>
      injection hdec with hy hdec
      subst hy
      refine ih hr hn pre' c m e post hdec ?_ ?_
      · intro q r hl ht
        rcases H1 q r hl ht with h | ⟨hP, o, ho⟩
        · exact Or.inl h
        · rcases List.mem_cons.1 ho with ho | ho
          · cases ho
          · exact Or.inr ⟨hP, o, ho⟩
      · obtain ⟨q, o, ho, hP⟩ := H2
        rcases List.mem_cons.1 ho with ho | ho
        · cases ho
        · exact ⟨q, o, ho, hP⟩

/-- `audible_core` without assuming the start state replays (if it does not, `stays_new` applies). -/
theorem Lm.audible {P : Pos → Prop} {s s' : St} {l : List Ev} (h : Lm P s l s')
    (hn : (keys s.tbl).Nodup) (pre : List Ev) (c : Pos) (m : String) (e : Bool) (post : List Ev)
    (hdec : l = pre ++ Ev.logged c m e :: post)
    (H1 : ∀ q r, lookup s'.tbl q = some r → r.status.terminal = true →
      q ∈ s.visited ∨ (¬ P q ∧ ∃ o, Ev.deliver q o ∈ pre))
    (H2 : ∃ q o, Ev.deliver q o ∈ pre ∧ ¬ P q) : e = true := by
  cases hr : s.replaying with
  | false => exact (h.stays_new hr).2 c m e (by rw [hdec]; simp)
  | true => exact h.audible_core hr hn pre c m e post hdec H1 H2

/-- Key-uniqueness is preserved by every run. -/
theorem run_nodup (p : Prog) (ctx : Pos) (n : Nat) (s : St) (h : (keys s.tbl).Nodup) :
    (keys (run p ctx n s).2.tbl).Nodup := by
  obtain ⟨l, hl⟩ := run_lm_any p ctx n s
  exact hl.keeps.nodup h

/-! ## Position-aware handler moves: new terminal records are delivered at once

The flat relation `Lm` forgets where handlers begin and end.  For the statement "once every
operation that was complete *before the invocation* has been passed, log lines are emitted" one
more fact is needed: a record that becomes terminal *during* the invocation is delivered (tracked)
before user code runs again.  `Pm p s s'` = a handler working at position `p` went from `s` to `s'`
without delivering: only plain events, `replaying`/`visited` untouched, table changed at `p` only.
`Hd p s s'` = such a move followed by the tracked delivery at `p`. -/

structure Pm (p : Pos) (s s' : St) : Prop where
  replaying : s'.replaying = s.replaying
  visited : s'.visited = s.visited
  trace : ∃ l, s'.trace = s.trace ++ l ∧ ∀ e ∈ l, Plain e
  keeps : Keeps s.tbl s'.tbl
  loc : ∀ q, q ≠ p → lookup s'.tbl q = lookup s.tbl q

theorem Pm.refl (p : Pos) (s : St) : Pm p s s :=
  ⟨rfl, rfl, ⟨[], by simp, by simp⟩, Keeps.refl _, fun _ _ => rfl⟩

theorem Pm.trans {p : Pos} {a b c : St} (h1 : Pm p a b) (h2 : Pm p b c) : Pm p a c := by
  obtain ⟨l1, t1, a1⟩ := h1.trace
  obtain ⟨l2, t2, a2⟩ := h2.trace
  refine ⟨h2.replaying.trans h1.replaying, h2.visited.trans h1.visited,
    ⟨l1 ++ l2, by rw [t2, t1, List.append_assoc], ?_⟩, h1.keeps.trans h2.keeps,
    fun q hq => (h2.loc q hq).trans (h1.loc q hq)⟩
  intro e he
  rcases List.mem_append.1 he with h | h
  · exact a1 e h
  · exact a2 e h

/-- A handler move ending in the tracked delivery at its position. -/
def Hd (p : Pos) (s s' : St) : Prop :=
  ∃ s1 o, Pm p s s1 ∧ s' = trackReplay (emit s1 (.deliver p o)) p

/-- The invocation (or a child body) ended by user code returning / raising. -/
def IsUser : End → Prop
  | .returned _ => True
  | .raised _ => True
  | _ => False

/-- Post-condition of a handler at `p`: it delivers (tracked) at `p`, or stops after touching only
`p`; the (dead) branches that stop with `InvalidStateError` found no record at `p`. -/
def HPost (p : Pos) (s0 : St) : HRes → Prop
  | .deliver _ s' => Hd p s0 s'
  | .stop e s' => Pm p s0 s' ∧ (IsUser e → lookup s'.tbl p = none)

def HPostE (p : Pos) (s0 : St) : Except (End × St) St → Prop
  | .ok s' => Hd p s0 s'
  | .error (e, s') => Pm p s0 s' ∧ (IsUser e → lookup s'.tbl p = none)

/-- For `childBefore`: when the body is to be run, no record became terminal. -/
def HPostC (p : Pos) (s0 : St) : HRes ⊕ (St × Bool) → Prop
  | .inl h => HPost p s0 h
  | .inr (s', _) => Pm p s0 s' ∧
      ∀ r, lookup s'.tbl p = some r → r.status.terminal = true → lookup s0.tbl p = some r

@[simp] theorem HPost_deliver {p s0 o s} : HPost p s0 (.deliver o s) = Hd p s0 s := rfl
@[simp] theorem HPost_stop {p s0 e s} :
    HPost p s0 (.stop e s) = (Pm p s0 s ∧ (IsUser e → lookup s.tbl p = none)) := rfl
@[simp] theorem HPostE_ok {p s0 s} : HPostE p s0 (.ok s) = Hd p s0 s := rfl
@[simp] theorem HPostE_error {p s0 e s} :
    HPostE p s0 (.error (e, s)) = (Pm p s0 s ∧ (IsUser e → lookup s.tbl p = none)) := rfl
@[simp] theorem HPostC_inl {p s0 h} : HPostC p s0 (.inl h) = HPost p s0 h := rfl
@[simp] theorem HPostC_inr {p s0 s b} : HPostC p s0 (.inr (s, b)) =
    (Pm p s0 s ∧ ∀ r, lookup s.tbl p = some r → r.status.terminal = true → lookup s0.tbl p = some r) := rfl

section pprims
variable {p : Pos} {s0 s s' : St}

theorem pm_emit {e : Ev} (h : Pm p s0 s) (he : Plain e) : Pm p s0 (emit s e) :=
  h.trans ⟨rfl, rfl, ⟨[e], rfl, by simpa using he⟩, Keeps.refl _, fun _ _ => rfl⟩

theorem pm_tick (h : Pm p s0 s) (ht : tick s = some s') : Pm p s0 s' := by
  rw [EngineRun.tick_some ht]
  exact h.trans ⟨rfl, rfl, ⟨[], by simp, by simp⟩, Keeps.refl _, fun _ _ => rfl⟩

theorem pm_ckOk {u : Upd} (hc : EngineRun.CkOk s u s') : Pm u.pos s s' := by
  cases hc with
  | asyncApplied t hs ha =>
    exact ⟨rfl, rfl, ⟨[.upd u, .applied u], by simp, by simp [Plain]⟩, keeps_apply ha,
      fun q hq => EngineRun.apply_lookup_ne ha (Ne.symm hq)⟩
  | asyncRejected hs ha =>
    exact ⟨rfl, rfl, ⟨[.upd u, .rejected u], by simp, by simp [Plain]⟩, Keeps.refl _, fun _ _ => rfl⟩
  | syncApplied t hs hf ha =>
    exact ⟨rfl, rfl, ⟨[.upd u, .applied u], by simp, by simp [Plain]⟩, keeps_apply ha,
      fun q hq => EngineRun.apply_lookup_ne ha (Ne.symm hq)⟩

theorem pm_ckErr {u : Upd} {e : End} (hc : EngineRun.CkErr s u e s') : Pm u.pos s s' := by
  cases hc with
  | crashBefore hs => exact ⟨rfl, rfl, ⟨[.upd u], by simp, by simp [Plain]⟩, Keeps.refl _, fun _ _ => rfl⟩
  | fault hs hf => exact ⟨rfl, rfl, ⟨[.upd u], by simp, by simp [Plain]⟩, Keeps.refl _, fun _ _ => rfl⟩
  | rejected hs hf ha =>
    exact ⟨rfl, rfl, ⟨[.upd u, .rejected u], by simp, by simp [Plain]⟩, Keeps.refl _, fun _ _ => rfl⟩
  | crashAfter t hs hf ha =>
    exact ⟨rfl, rfl, ⟨[.upd u, .applied u], by simp, by simp [Plain]⟩, keeps_apply ha,
      fun q hq => EngineRun.apply_lookup_ne ha (Ne.symm hq)⟩

theorem ckErr_not_user {u : Upd} {e : End} (hc : EngineRun.CkErr s u e s') : ¬ IsUser e := by
  cases hc <;> exact id

theorem pm_ck_ok {u : Upd} (h : Pm p s0 s) (hc : checkpoint s u = .ok s') (hu : u.pos = p) : Pm p s0 s' := by
  have := EngineRun.checkpoint_spec s u
  rw [hc] at this
  exact h.trans (hu ▸ pm_ckOk this)

theorem pm_ck_err {u : Upd} {e : End} (h : Pm p s0 s) (hc : checkpoint s u = .error (e, s'))
    (hu : u.pos = p) : Pm p s0 s' := by
  have := EngineRun.checkpoint_spec s u
  rw [hc] at this
  exact h.trans (hu ▸ pm_ckErr this)

theorem ck_err_not_user {u : Upd} {e : End} (hc : checkpoint s u = .error (e, s')) : ¬ IsUser e := by
  have := EngineRun.checkpoint_spec s u
  rw [hc] at this
  exact ckErr_not_user this

theorem hd_deliver {o : Outcome} (h : Pm p s0 s) : Hd p s0 (trackReplay (emit s (.deliver p o)) p) :=
  ⟨s, o, h, rfl⟩

theorem hp_deliverAt {o : Outcome} (h : Pm p s0 s) : HPost p s0 (deliverAt s p o) := by
  unfold deliverAt
  split <;> exact hd_deliver h

end pprims

syntax "pm_close" : tactic
macro_rules | `(tactic| pm_close) => `(tactic| first
  | assumption
  | (refine pm_emit ?_ trivial; pm_close)
  | (refine pm_tick ?_ ‹_›; pm_close)
  | (refine pm_ck_ok ?_ ‹_› (by first | rfl | (split <;> rfl)); pm_close)
  | (refine pm_ck_err ?_ ‹_› (by first | rfl | (split <;> rfl)); pm_close))

/-- closes `IsUser e → lookup s.tbl p = none` -/
syntax "nu_close" : tactic
macro_rules | `(tactic| nu_close) => `(tactic| first
  | (intro hu; exact absurd hu (ck_err_not_user ‹_›))
  | (intro hu; exact hu.elim)
  | (intro _; assumption))

syntax "hp_close1" : tactic
macro_rules | `(tactic| hp_close1) => `(tactic| first
  | (refine hp_deliverAt ?_; pm_close)
  | (refine hd_deliver ?_; pm_close)
  | (refine ⟨?_, ?_⟩ <;> first | pm_close | nu_close))

section phandlers
variable {p : Pos} {s0 s : St}

theorem hp_retryHandler {spec r e} (h : Pm p s0 s) : HPost p s0 (retryHandler s p spec r e) := by
  unfold retryHandler
  dsimp only
  repeat' split
  all_goals try simp only [HPost_deliver, HPost_stop]
  all_goals hp_close1

theorem hp_stepExecute {spec r} (h : Pm p s0 s) : HPost p s0 (stepExecute s p spec r) := by
  unfold stepExecute
  dsimp only
  repeat' split
  all_goals try simp only [HPost_deliver, HPost_stop]
  all_goals first | hp_close1 | (refine hp_retryHandler ?_; pm_close)

theorem hp_wfcExecute {w r} (h : Pm p s0 s) : HPost p s0 (wfcExecute s p w r) := by
  unfold wfcExecute
  dsimp only
  repeat' split
  all_goals try simp only [HPost_deliver, HPost_stop]
  all_goals hp_close1

syntax "hp_close" : tactic
macro_rules | `(tactic| hp_close) => `(tactic| first
  | (refine hp_deliverAt ?_; pm_close)
  | (refine hp_retryHandler ?_; pm_close)
  | (refine hp_stepExecute ?_; pm_close)
  | (refine hp_wfcExecute ?_; pm_close)
  | (refine hd_deliver ?_; pm_close)
  | (refine ⟨?_, ?_⟩ <;> first | pm_close | nu_close))

theorem hp_handleStep {spec} (h : Pm p s0 s) : HPost p s0 (handleStep s p spec) := by
  unfold handleStep
  repeat' split
  all_goals try simp only [HPost_deliver, HPost_stop]
  all_goals hp_close

theorem hp_handleWait {secs} (h : Pm p s0 s) : HPost p s0 (handleWait s p secs) := by
  unfold handleWait
  repeat' split
  all_goals try simp only [HPost_deliver, HPost_stop]
  all_goals hp_close

theorem hp_handleInvoke {v} (h : Pm p s0 s) : HPost p s0 (handleInvoke s p v) := by
  unfold handleInvoke invokeTerminal
  repeat' split
  all_goals try simp only [HPost_deliver, HPost_stop, Option.getD]
  all_goals hp_close

theorem hp_handleWfc {w} (h : Pm p s0 s) : HPost p s0 (handleWfc s p w) := by
  unfold handleWfc
  dsimp only
  repeat' split
  all_goals try simp only [HPost_deliver, HPost_stop]
  all_goals hp_close

theorem hp_handleCbNew (h : Pm p s0 s) : HPostE p s0 (handleCbNew s p) := by
  unfold handleCbNew
  repeat' split
  all_goals try simp only [HPostE_ok, HPostE_error]
  all_goals hp_close

theorem hp_childAfter {c m e} (h : Pm p s0 s) (he : IsUser e) : HPost p s0 (childAfter s p c m e) := by
  unfold childAfter
  dsimp only
  repeat' split
  all_goals try simp only [HPost_deliver, HPost_stop]
  all_goals first | hp_close | skip
  all_goals (rename_i h1 h2; cases e <;> first | exact absurd rfl (h1 _) | exact absurd rfl (h2 _) | exact False.elim he)

end phandlers

/-- A START of a child context that the backend accepted creates a STARTED record. -/
theorem ck_ok_ctx_start {s s' : St} {p : Pos} (hl : lookup s.tbl p = none)
    (hc : checkpoint s { pos := p, kind := .context, action := .start, sync := false } = .ok s') :
    ∀ r, lookup s'.tbl p = some r → r.status.terminal = true → lookup s.tbl p = some r := by
  have := EngineRun.checkpoint_spec s { pos := p, kind := .context, action := .start, sync := false }
  rw [hc] at this
  cases this with
  | asyncApplied t hs ha =>
    obtain ⟨r', h1, h2⟩ := EngineRun.apply_some ha
    intro r hr ht
    simp only at h1 h2 hr
    rw [hl] at h1
    have : r' = { kind := .context, status := .started } := by
      simp only [EngineRun.newRec] at h1
      cases h1
      unfold Backend.startRec
      split <;> first | rfl | simp_all
    subst this
    rw [h2, EngineRun.lookup_upsert_self] at hr
    cases hr
    cases ht
  | asyncRejected hs ha => intro r hr; simp only at hr; rw [hl] at hr; cases hr
  | syncApplied t hs hf ha => cases hs

theorem hp_childBefore {p : Pos} {s : St} : HPostC p s (childBefore s p) := by
  unfold childBefore
  split
  · rename_i r hl
    repeat' split
    all_goals try simp only [HPostC_inl, HPostC_inr, HPost_deliver, HPost_stop]
    all_goals first
      | (refine hp_deliverAt ?_; exact Pm.refl _ _)
      | exact ⟨pm_emit (Pm.refl _ _) trivial, fun r hr _ => hr⟩
  · rename_i hl
    split
    · rename_i en s' hc
      simp only [HPostC_inl, HPost_stop]
      exact ⟨pm_ck_err (Pm.refl _ _) hc rfl, fun hu => absurd hu (ck_err_not_user hc)⟩
    · rename_i s' hc
      simp only [HPostC_inr]
      exact ⟨pm_emit (pm_ck_ok (Pm.refl _ _) hc rfl) trivial, fun r hr ht => ck_ok_ctx_start (s' := s') hl hc r hr ht⟩

/-- `Callback.result`: at most an (untracked) delivery at the handle; nothing else changes. -/
theorem handleCbRes_spec (s : St) (hd : Pos) :
    EngineRun.Post (fun s' => ∃ o, s' = emit s (.deliver hd o)) (fun e s' => s' = s ∧ ¬ IsUser e)
      (handleCbRes s hd) := by
  unfold handleCbRes
  dsimp only
  repeat' split
  all_goals try simp only [EngineRun.Post_deliver, EngineRun.Post_stop]
  all_goals first | exact ⟨_, rfl⟩ | exact ⟨rfl, id⟩ | exact ⟨trivial, id⟩ | exact id

/-! ## Induction over `run` with a predicate on `Callback.result` handles -/

open EngineRun (Post PostE PostC) in
/-- `EngineRun.run_ind` for programs whose `Callback.result` handles satisfy `P`. -/
theorem run_indP (P : Pos → Prop) (I : St → Prop) (Q : End → St → Prop)
    (hret : ∀ s v, I s → Q (.returned v) s)
    (hraise : ∀ s e, I s → Q (.raised e) s)
    (hlog : ∀ s ctx m, I s → I (doLog s ctx m))
    (hstep : ∀ s p spec, I s → Post I Q (handleStep s p spec))
    (hwait : ∀ s p secs, I s → Post I Q (handleWait s p secs))
    (hcbNew : ∀ s p, I s → PostE I Q (handleCbNew s p))
    (hcbRes : ∀ s h, P h → I s → Post I Q (handleCbRes s h))
    (hinvoke : ∀ s p v, I s → Post I Q (handleInvoke s p v))
    (hwfc : ∀ s p w, I s → Post I Q (handleWfc s p w))
    (hchildB : ∀ s p, I s → PostC I Q (childBefore s p))
    (hchildA : ∀ s1 s2 s p c m e body, I s1 → childBefore s1 p = .inr (s2, m) →
      run body p 0 s2 = (e, s) → Q e s → Post I Q (childAfter s p c m e)) :
    ∀ (p : Prog), CbHandles P p → ∀ (ctx : Pos) (n : Nat) (s : St), I s →
      Q (run p ctx n s).1 (run p ctx n s).2 := by
  intro p
  induction p with
  | ret v => intro _ ctx n s hs; simpa [run] using hret s v hs
  | raise e => intro _ ctx n s hs; simpa [run] using hraise s e hs
  | log m k ih => intro hp ctx n s hs; simp only [run]; exact ih hp _ _ _ (hlog s ctx m hs)
  | step spec k ih =>
    intro hp ctx n s hs
    have h := hstep s (ctx ++ [n + 1]) spec hs
    simp only [run]
    split
    · rename_i o s' heq; rw [heq] at h; exact ih o (hp o) _ _ _ h
    · rename_i e s' heq; rw [heq] at h; exact h
  | wait secs k ih =>
    intro hp ctx n s hs
    have h := hwait s (ctx ++ [n + 1]) secs hs
    simp only [run]
    split
    · rename_i o s' heq; rw [heq] at h; exact ih hp _ _ _ h
    · rename_i e s' heq; rw [heq] at h; exact h
  | cbNew k ih =>
    intro hp ctx n s hs
    have h := hcbNew s (ctx ++ [n + 1]) hs
    simp only [run]
    split
    · rename_i s' heq; rw [heq] at h; exact ih _ (hp _) _ _ _ h
    · rename_i e s' heq; rw [heq] at h; exact h
  | cbRes hd k ih =>
    intro hp ctx n s hs
    have h := hcbRes s hd hp.1 hs
    simp only [run]
    split
    · rename_i o s' heq; rw [heq] at h; exact ih o (hp.2 o) _ _ _ h
    · rename_i e s' heq; rw [heq] at h; exact h
  | invoke payload k ih =>
    intro hp ctx n s hs
    have h := hinvoke s (ctx ++ [n + 1]) payload hs
    simp only [run]
    split
    · rename_i o s' heq; rw [heq] at h; exact ih o (hp o) _ _ _ h
    · rename_i e s' heq; rw [heq] at h; exact h
  | wfc w k ih =>
    intro hp ctx n s hs
    have h := hwfc s (ctx ++ [n + 1]) w hs
    simp only [run]
    split
    · rename_i o s' heq; rw [heq] at h; exact ih o (hp o) _ _ _ h
    · rename_i e s' heq; rw [heq] at h; exact h
  | child c body k ihb ihk =>
    intro hp ctx n s hs
    have h := hchildB s (ctx ++ [n + 1]) hs
    simp only [run]
    split
    · rename_i o s' heq; rw [heq] at h; exact ihk o (hp.2 o) _ _ _ h
    · rename_i e s' heq; rw [heq] at h; exact h
    · rename_i s' m heq
      rw [heq] at h
      have hb := ihb hp.1 (ctx ++ [n + 1]) 0 s' h
      have ha := hchildA s s' (run body (ctx ++ [n + 1]) 0 s').2 (ctx ++ [n + 1]) c m
        (run body (ctx ++ [n + 1]) 0 s').1 body hs heq rfl hb
      split
      · rename_i o s'' heq2; rw [heq2] at ha; exact ihk o (hp.2 o) _ _ _ ha
      · rename_i e s'' heq2; rw [heq2] at ha; exact ha

/-! ## The user-code invariant and the audibility claim -/

/-- Holds whenever control is in user code.  `t0` is the table the invocation started from.
* `settled`: while replaying, every terminal record is one of `t0` or has been visited — what became
  terminal during the invocation was delivered (tracked) at once;
* `tracked`: while replaying, every tracked delivery of the trace is in `visited`;
* `behind`: while replaying after some tracked delivery, a terminal record is still unvisited
  (otherwise that delivery's `trackReplay` would have left REPLAY). -/
structure Inv (P : Pos → Prop) (t0 : Tbl) (s : St) : Prop where
  nodup : (keys s.tbl).Nodup
  settled : s.replaying = true → ∀ q r, lookup s.tbl q = some r → r.status.terminal = true →
    lookup t0 q = some r ∨ q ∈ s.visited
  tracked : s.replaying = true → ∀ q o, Ev.deliver q o ∈ s.trace → ¬ P q → q ∈ s.visited
  behind : s.replaying = true → (∃ q o, Ev.deliver q o ∈ s.trace ∧ ¬ P q) →
    ∃ q0 r0, lookup s.tbl q0 = some r0 ∧ r0.status.terminal = true ∧ q0 ∉ s.visited

/-- The claim about a trace: a log line preceded by a (tracked) delivery at every position that
was terminal in `t0`, and by at least one tracked delivery, is emitted. -/
def Aud (P : Pos → Prop) (t0 : Tbl) (tr : List Ev) : Prop :=
  ∀ pre c m e post, tr = pre ++ Ev.logged c m e :: post →
    (∀ q r, lookup t0 q = some r → r.status.terminal = true → ¬ P q ∧ ∃ o, Ev.deliver q o ∈ pre) →
    (∃ q o, Ev.deliver q o ∈ pre ∧ ¬ P q) → e = true

theorem snoc_decomp {α : Type} {l pre post : List α} {x y : α} (h : l ++ [x] = pre ++ y :: post) :
    (post = [] ∧ l = pre ∧ x = y) ∨ ∃ post', post = post' ++ [x] ∧ l = pre ++ y :: post' := by
  induction pre generalizing l with
  | nil =>
    cases l with
    | nil => simp at h; exact Or.inl ⟨h.2, rfl, h.1⟩
    | cons a l' =>
      simp only [List.cons_append, List.nil_append, List.cons.injEq] at h
      exact Or.inr ⟨l', h.2.symm, by simp [h.1]⟩
  | cons b pre' ih =>
    cases l with
    | nil => simp at h
    | cons a l' =>
      simp only [List.cons_append, List.cons.injEq] at h
      rcases ih h.2 with ⟨h1, h2, h3⟩ | ⟨post', h1, h2⟩
      · exact Or.inl ⟨h1, by rw [h.1, h2], h3⟩
      · exact Or.inr ⟨post', h1, by rw [h.1, h2]; rfl⟩

theorem aud_nil (P : Pos → Prop) (t0 : Tbl) : Aud P t0 [] := by
  intro pre c m e post h; cases pre <;> cases h

theorem aud_snoc {P : Pos → Prop} {t0 : Tbl} {tr : List Ev} {x : Ev} (h : Aud P t0 tr)
    (hx : ∀ c m e, x ≠ .logged c m e) : Aud P t0 (tr ++ [x]) := by
  intro pre c m e post hdec H1 H2
  rcases snoc_decomp hdec with ⟨_, _, h3⟩ | ⟨post', _, h2⟩
  · exact absurd h3 (hx c m e)
  · exact h pre c m e post' h2 H1 H2

theorem aud_append {P : Pos → Prop} {t0 : Tbl} {tr l : List Ev} (h : Aud P t0 tr)
    (hl : ∀ x ∈ l, ∀ c m e, x ≠ .logged c m e) : Aud P t0 (tr ++ l) := by
  induction l generalizing tr with
  | nil => simpa using h
  | cons x l ih =>
    have : tr ++ x :: l = (tr ++ [x]) ++ l := by simp
    rw [this]
    exact ih (aud_snoc h (hl x (List.mem_cons_self ..))) (fun y hy => hl y (List.mem_cons_of_mem _ hy))

theorem pm_aud {P : Pos → Prop} {t0 : Tbl} {p : Pos} {s s' : St} (h : Pm p s s') (ha : Aud P t0 s.trace) :
    Aud P t0 s'.trace := by
  obtain ⟨l, h1, h2⟩ := h.trace
  rw [h1]
  exact aud_append ha (fun x hx c m e => plain_ne_logged (h2 x hx) c m e)

theorem hd_aud {P : Pos → Prop} {t0 : Tbl} {p : Pos} {s s' : St} (h : Hd p s s') (ha : Aud P t0 s.trace) :
    Aud P t0 s'.trace := by
  obtain ⟨s1, o, hpm, rfl⟩ := h
  simp only [EngineRun.trackReplay_trace, EngineRun.emit_trace]
  exact aud_snoc (pm_aud hpm ha) (by intro c m e hh; cases hh)

/-- A non-delivering handler move that creates no terminal record at its position keeps `Inv`. -/
theorem pm_inv {P : Pos → Prop} {t0 : Tbl} {p : Pos} {s s' : St} (h : Pm p s s')
    (hp : ∀ r, lookup s'.tbl p = some r → r.status.terminal = true → lookup s.tbl p = some r)
    (hi : Inv P t0 s) : Inv P t0 s' := by
  obtain ⟨l, h1, h2⟩ := h.trace
  have hold : ∀ q r, lookup s'.tbl q = some r → r.status.terminal = true → lookup s.tbl q = some r := by
    intro q r hl ht
    by_cases hq : q = p
    · subst hq; exact hp r hl ht
    · rw [← h.loc q hq]; exact hl
  have hdel : ∀ q o, Ev.deliver q o ∈ s'.trace → Ev.deliver q o ∈ s.trace := by
    intro q o hm
    rw [h1] at hm
    rcases List.mem_append.1 hm with hm | hm
    · exact hm
    · exact absurd rfl (plain_ne_deliver (h2 _ hm) q o)
  refine ⟨h.keeps.nodup hi.nodup, ?_, ?_, ?_⟩
  · intro hr q r hl ht
    rw [h.visited]
    exact hi.settled (h.replaying ▸ hr) q r (hold q r hl ht) ht
  · intro hr q o hm hP
    rw [h.visited]
    exact hi.tracked (h.replaying ▸ hr) q o (hdel q o hm) hP
  · intro hr ⟨q, o, hm, hP⟩
    obtain ⟨q0, r0, hl0, ht0, hv0⟩ := hi.behind (h.replaying ▸ hr) ⟨q, o, hdel q o hm, hP⟩
    exact ⟨q0, r0, h.keeps.term q0 r0 hl0 ht0, ht0, by rw [h.visited]; exact hv0⟩

/-- A handler move ending in its tracked delivery keeps `Inv`. -/
theorem hd_inv {P : Pos → Prop} {t0 : Tbl} {p : Pos} {s s' : St} (h : Hd p s s') (hi : Inv P t0 s) :
    Inv P t0 s' := by
  obtain ⟨s1, o, hpm, rfl⟩ := h
  obtain ⟨l, h1, h2⟩ := hpm.trace
  have hnd : (keys s1.tbl).Nodup := hpm.keeps.nodup hi.nodup
  cases hr1 : s1.replaying with
  | false =>
    have hr' : (trackReplay (emit s1 (.deliver p o)) p).replaying = false :=
      trackReplay_replaying_false (s := emit s1 (.deliver p o)) hr1
    refine ⟨by simpa using hnd, ?_, ?_, ?_⟩ <;> intro hr <;> rw [hr'] at hr <;> cases hr
  | true =>
    have hrs : s.replaying = true := hpm.replaying ▸ hr1
    have hvis : (trackReplay (emit s1 (.deliver p o)) p).visited = s.visited ++ [p] := by
      rw [trackReplay_visited (s := emit s1 (.deliver p o)) hr1]
      show s1.visited ++ [p] = _
      rw [hpm.visited]
    refine ⟨by simpa using hnd, ?_, ?_, ?_⟩
    · intro _ q r hl ht
      rw [hvis]
      have hl' : lookup s1.tbl q = some r := by simpa using hl
      by_cases hq : q = p
      · exact Or.inr (by simp [hq])
      · rw [hpm.loc q hq] at hl'
        rcases hi.settled hrs q r hl' ht with h | h
        · exact Or.inl h
        · exact Or.inr (List.mem_append_left _ h)
    · intro _ q o' hm hP
      rw [hvis]
      simp only [EngineRun.trackReplay_trace, EngineRun.emit_trace, h1] at hm
      rcases List.mem_append.1 hm with hm | hm
      · rcases List.mem_append.1 hm with hm | hm
        · exact List.mem_append_left _ (hi.tracked hrs q o' hm hP)
        · exact absurd rfl (plain_ne_deliver (h2 _ hm) q o')
      · have := List.mem_singleton.1 hm
        cases this
        simp
    · intro hr _
      obtain ⟨q0, hq0, hq0v⟩ := (trackReplay_stays_iff (s := emit s1 (.deliver p o)) hr1).1 hr
      obtain ⟨r0, hmem, ht0⟩ := mem_completed.1 hq0
      refine ⟨q0, r0, ?_, ht0, ?_⟩
      · simpa using lookup_of_mem hnd hmem
      · rw [hvis]
        have : q0 ∉ s1.visited ++ [p] := hq0v
        rw [hpm.visited] at this
        exact this

theorem log_inv {P : Pos → Prop} {t0 : Tbl} {s : St} (c : Pos) (m : String) (hi : Inv P t0 s) :
    Inv P t0 (doLog s c m) := by
  have hdel : ∀ q o, Ev.deliver q o ∈ (doLog s c m).trace → Ev.deliver q o ∈ s.trace := by
    intro q o hm
    simp only [doLog, EngineRun.emit_trace] at hm
    rcases List.mem_append.1 hm with hm | hm
    · exact hm
    · have := List.mem_singleton.1 hm; cases this
  exact ⟨hi.nodup, hi.settled, fun hr q o hm hP => hi.tracked hr q o (hdel q o hm) hP,
    fun hr ⟨q, o, hm, hP⟩ => hi.behind hr ⟨q, o, hdel q o hm, hP⟩⟩

/-- **The key step**: a log call made in user code satisfies the audibility claim. -/
theorem log_aud {P : Pos → Prop} {t0 : Tbl} {s : St} (c : Pos) (m : String) (hi : Inv P t0 s)
    (ha : Aud P t0 s.trace) : Aud P t0 (doLog s c m).trace := by
  intro pre c' m' e post hdec H1 H2
  simp only [doLog, EngineRun.emit_trace] at hdec
  rcases snoc_decomp hdec with ⟨_, hpre, h3⟩ | ⟨post', _, h2⟩
  · injection h3 with _ _ h3
    subst hpre
    cases hr : s.replaying with
    | false => rw [← h3, hr]; rfl
    | true =>
      obtain ⟨q0, r0, hl0, ht0, hv0⟩ := hi.behind hr H2
      rcases hi.settled hr q0 r0 hl0 ht0 with h | h
      · obtain ⟨hP, o, ho⟩ := H1 q0 r0 h ht0
        exact absurd (hi.tracked hr q0 o ho hP) hv0
      · exact absurd h hv0
  · exact ha pre c' m' e post' h2 H1 H2

theorem cbRes_inv {P : Pos → Prop} {t0 : Tbl} {s : St} {hd : Pos} {o : Outcome} (hP : P hd)
    (hi : Inv P t0 s) : Inv P t0 (emit s (.deliver hd o)) := by
  have hdel : ∀ q o', Ev.deliver q o' ∈ (emit s (.deliver hd o)).trace → ¬ P q → Ev.deliver q o' ∈ s.trace := by
    intro q o' hm hPq
    simp only [EngineRun.emit_trace] at hm
    rcases List.mem_append.1 hm with hm | hm
    · exact hm
    · have := List.mem_singleton.1 hm; cases this; exact absurd hP hPq
  exact ⟨hi.nodup, hi.settled, fun hr q o' hm hPq => hi.tracked hr q o' (hdel q o' hm hPq) hPq,
    fun hr ⟨q, o', hm, hPq⟩ => hi.behind hr ⟨q, o', hdel q o' hm hPq, hPq⟩⟩

/-- The invariant of user code and the post-condition of ends used in `run_aud`. -/
def AI (P : Pos → Prop) (t0 : Tbl) (s : St) : Prop := Inv P t0 s ∧ Aud P t0 s.trace
def AQ (P : Pos → Prop) (t0 : Tbl) (e : End) (s : St) : Prop := Aud P t0 s.trace ∧ (IsUser e → Inv P t0 s)

theorem ai_of_hpost {P : Pos → Prop} {t0 : Tbl} {p : Pos} {s : St} {h : HRes} (hi : AI P t0 s)
    (hp : HPost p s h) : EngineRun.Post (AI P t0) (AQ P t0) h := by
  cases h with
  | deliver o s' => exact ⟨hd_inv hp hi.1, hd_aud hp hi.2⟩
  | stop e s' =>
    obtain ⟨hpm, hu⟩ := hp
    exact ⟨pm_aud hpm hi.2, fun he => pm_inv hpm (fun r hr => by rw [hu he] at hr; cases hr) hi.1⟩

theorem ai_of_hpostE {P : Pos → Prop} {t0 : Tbl} {p : Pos} {s : St} {h : Except (End × St) St}
    (hi : AI P t0 s) (hp : HPostE p s h) : EngineRun.PostE (AI P t0) (AQ P t0) h := by
  rcases h with ⟨e, s'⟩ | s'
  · obtain ⟨hpm, hu⟩ := hp
    exact ⟨pm_aud hpm hi.2, fun he => pm_inv hpm (fun r hr => by rw [hu he] at hr; cases hr) hi.1⟩
  · exact ⟨hd_inv hp hi.1, hd_aud hp hi.2⟩

/-- **Audibility for every run**: from a user-code state satisfying the invariant, the whole trace
of the run satisfies `Aud`. -/
theorem run_aud (P : Pos → Prop) (t0 : Tbl) (p : Prog) (hp : CbHandles P p) (ctx : Pos) (n : Nat)
    (s : St) (hi : Inv P t0 s) (ha : Aud P t0 s.trace) : Aud P t0 (run p ctx n s).2.trace := by
  refine (run_indP P (AI P t0) (AQ P t0) ?_ ?_ ?_ ?_ ?_ ?_ ?_ ?_ ?_ ?_ ?_ p hp ctx n s ⟨hi, ha⟩).1
  · intro s v h; exact ⟨h.2, fun _ => h.1⟩
  · intro s e h; exact ⟨h.2, fun _ => h.1⟩
  · intro s c m h; exact ⟨log_inv c m h.1, log_aud c m h.1 h.2⟩
  · intro s p spec h; exact ai_of_hpost h (hp_handleStep (Pm.refl p s))
  · intro s p secs h; exact ai_of_hpost h (hp_handleWait (Pm.refl p s))
  · intro s p h; exact ai_of_hpostE h (hp_handleCbNew (Pm.refl p s))
  · intro s hd hP h
    have := handleCbRes_spec s hd
    cases hres : handleCbRes s hd with
    | deliver o s' =>
      rw [hres] at this
      obtain ⟨o', rfl⟩ := this
      exact ⟨cbRes_inv hP h.1, aud_snoc h.2 (by intro c m e hh; cases hh)⟩
    | stop e s' =>
      rw [hres] at this
      obtain ⟨rfl, hne⟩ := this
      exact ⟨h.2, fun he => absurd he hne⟩
  · intro s p v h; exact ai_of_hpost h (hp_handleInvoke (Pm.refl p s))
  · intro s p w h; exact ai_of_hpost h (hp_handleWfc (Pm.refl p s))
  · intro s p h
    have hc := hp_childBefore (p := p) (s := s)
    cases hres : childBefore s p with
    | inl hh => rw [hres] at hc; exact ai_of_hpost h hc
    | inr x =>
      obtain ⟨s', b⟩ := x
      rw [hres] at hc
      exact ⟨pm_inv hc.1 hc.2 h.1, pm_aud hc.1 h.2⟩
  · intro s1 s2 s p c m e body _ _ _ hq
    by_cases he : IsUser e
    · exact ai_of_hpost ⟨hq.2 he, hq.1⟩ (hp_childAfter (Pm.refl p s) he)
    · have : childAfter s p c m e = .stop e s := by
        cases e <;> first | rfl | exact absurd trivial he
      rw [this]
      exact ⟨hq.1, fun h => absurd h he⟩

theorem inv_init (P : Pos → Prop) (t : Tbl) (hn : (keys t).Nodup) (budget : Nat) (failAt : Option Nat)
    (imm : Pos → Backend.Immediate) : Inv P t (initSt t budget failAt imm) :=
  ⟨hn, fun _ q r hl _ => Or.inl hl, fun _ q o hm => (by cases hm), fun _ ⟨q, o, hm, _⟩ => (by cases hm)⟩

/-! ## Log lines carry the position of the enclosing context -/

/-- From `s` to `s'` only events were appended, and every log line among them was issued by a
context at or below `ctx`. -/
def LogsUnder (ctx : Pos) (s s' : St) : Prop :=
  ∃ l, s'.trace = s.trace ++ l ∧ ∀ c m e, Ev.logged c m e ∈ l → ctx <+: c

theorem LogsUnder.refl (ctx : Pos) (s : St) : LogsUnder ctx s s :=
  ⟨[], by simp, fun c m e h => by cases h⟩

theorem LogsUnder.trans {ctx : Pos} {a b c : St} (h1 : LogsUnder ctx a b) (h2 : LogsUnder ctx b c) :
    LogsUnder ctx a c := by
  obtain ⟨l1, t1, a1⟩ := h1
  obtain ⟨l2, t2, a2⟩ := h2
  refine ⟨l1 ++ l2, by rw [t2, t1, List.append_assoc], ?_⟩
  intro c m e h
  rcases List.mem_append.1 h with h | h
  · exact a1 c m e h
  · exact a2 c m e h

theorem LogsUnder.weaken {ctx : Pos} {k : Nat} {a b : St} (h : LogsUnder (ctx ++ [k]) a b) :
    LogsUnder ctx a b := by
  obtain ⟨l, t, al⟩ := h
  exact ⟨l, t, fun c m e hm => (List.prefix_append ctx [k]).trans (al c m e hm)⟩

theorem logsUnder_of_pm {ctx p : Pos} {s s' : St} (h : Pm p s s') : LogsUnder ctx s s' := by
  obtain ⟨l, t, al⟩ := h.trace
  exact ⟨l, t, fun c m e hm => absurd rfl (plain_ne_logged (al _ hm) c m e)⟩

theorem logsUnder_of_hd {ctx p : Pos} {s s' : St} (h : Hd p s s') : LogsUnder ctx s s' := by
  obtain ⟨s1, o, hpm, rfl⟩ := h
  refine (logsUnder_of_pm hpm).trans ⟨[.deliver p o], by simp, ?_⟩
  intro c m e hm
  have := List.mem_singleton.1 hm
  cases this

theorem logsUnder_of_hpost {ctx p : Pos} {s : St} {h : HRes} (hp : HPost p s h) : LogsUnder ctx s h.st := by
  cases h with
  | deliver o s' => exact logsUnder_of_hd hp
  | stop e s' => exact logsUnder_of_pm hp.1

/-- **Every log line of a run is issued by the enclosing context or one of its descendants.** -/
theorem run_logsUnder (p : Prog) : ∀ (ctx : Pos) (n : Nat) (s : St), LogsUnder ctx s (run p ctx n s).2 := by
  induction p with
  | ret v => intro ctx n s; exact LogsUnder.refl _ _
  | raise e => intro ctx n s; exact LogsUnder.refl _ _
  | log m k ih =>
    intro ctx n s
    simp only [run]
    refine LogsUnder.trans ⟨[.logged ctx m (!s.replaying)], rfl, ?_⟩ (ih ctx n _)
    intro c m' e hm
    have := List.mem_singleton.1 hm
    cases this
    exact List.prefix_refl _
  | step spec k ih =>
    intro ctx n s
    have h := logsUnder_of_hpost (ctx := ctx) (hp_handleStep (spec := spec) (Pm.refl (ctx ++ [n + 1]) s))
    simp only [run]
    split
    · rename_i o s' heq; rw [heq] at h; exact h.trans (ih o _ _ _)
    · rename_i e s' heq; rw [heq] at h; exact h
  | wait secs k ih =>
    intro ctx n s
    have h := logsUnder_of_hpost (ctx := ctx) (hp_handleWait (secs := secs) (Pm.refl (ctx ++ [n + 1]) s))
    simp only [run]
    split
    · rename_i o s' heq; rw [heq] at h; exact h.trans (ih _ _ _)
    · rename_i e s' heq; rw [heq] at h; exact h
  | cbNew k ih =>
    intro ctx n s
    have h := hp_handleCbNew (Pm.refl (ctx ++ [n + 1]) s)
    simp only [run]
    split
    · rename_i s' heq; rw [heq] at h; exact (logsUnder_of_hd h).trans (ih _ _ _ _)
    · rename_i e s' heq; rw [heq] at h; exact logsUnder_of_pm h.1
  | cbRes hd k ih =>
    intro ctx n s
    have h := handleCbRes_spec s hd
    simp only [run]
    split
    · rename_i o s' heq
      rw [heq] at h
      obtain ⟨o', rfl⟩ := h
      refine LogsUnder.trans ⟨[.deliver hd o'], rfl, ?_⟩ (ih o _ _ _)
      intro c m e hm
      have := List.mem_singleton.1 hm
      cases this
    · rename_i e s' heq
      rw [heq] at h
      obtain ⟨rfl, _⟩ := h
      exact LogsUnder.refl _ _
  | invoke payload k ih =>
    intro ctx n s
    have h := logsUnder_of_hpost (ctx := ctx) (hp_handleInvoke (v := payload) (Pm.refl (ctx ++ [n + 1]) s))
    simp only [run]
    split
    · rename_i o s' heq; rw [heq] at h; exact h.trans (ih o _ _ _)
    · rename_i e s' heq; rw [heq] at h; exact h
  | wfc w k ih =>
    intro ctx n s
    have h := logsUnder_of_hpost (ctx := ctx) (hp_handleWfc (w := w) (Pm.refl (ctx ++ [n + 1]) s))
    simp only [run]
    split
    · rename_i o s' heq; rw [heq] at h; exact h.trans (ih o _ _ _)
    · rename_i e s' heq; rw [heq] at h; exact h
  | child c body k ihb ihk =>
    intro ctx n s
    have h := hp_childBefore (p := ctx ++ [n + 1]) (s := s)
    simp only [run]
    split
    · rename_i o s' heq
      rw [heq] at h
      exact (logsUnder_of_hpost (ctx := ctx) (p := ctx ++ [n + 1]) (s := s) (h := .deliver o s') h).trans (ihk o _ _ _)
    · rename_i e s' heq
      rw [heq] at h
      exact logsUnder_of_hpost (ctx := ctx) (p := ctx ++ [n + 1]) (s := s) (h := .stop e s') h
    · rename_i s' m heq
      rw [heq] at h
      have h1 : LogsUnder ctx s s' := logsUnder_of_pm h.1
      have hb : LogsUnder ctx s' (run body (ctx ++ [n + 1]) 0 s').2 := (ihb (ctx ++ [n + 1]) 0 s').weaken
      have ha : LogsUnder ctx (run body (ctx ++ [n + 1]) 0 s').2
          (childAfter (run body (ctx ++ [n + 1]) 0 s').2 (ctx ++ [n + 1]) c m
            (run body (ctx ++ [n + 1]) 0 s').1).st := by
        by_cases he : IsUser (run body (ctx ++ [n + 1]) 0 s').1
        · exact logsUnder_of_hpost (hp_childAfter (Pm.refl _ _) he)
        · have : childAfter (run body (ctx ++ [n + 1]) 0 s').2 (ctx ++ [n + 1]) c m
              (run body (ctx ++ [n + 1]) 0 s').1
              = .stop (run body (ctx ++ [n + 1]) 0 s').1 (run body (ctx ++ [n + 1]) 0 s').2 := by
            generalize (run body (ctx ++ [n + 1]) 0 s').1 = e at he
            cases e <;> first | rfl | exact absurd trivial he
          rw [this]
          exact LogsUnder.refl _ _
      have h3 := (h1.trans hb).trans ha
      split
      · rename_i o s'' heq2; rw [heq2] at h3; exact h3.trans (ihk o _ _ _)
      · rename_i e s'' heq2; rw [heq2] at h3; exact h3

/-! ## Lists: from decompositions to indices -/

theorem decomp_of_getElem? {α : Type} {l : List α} {i : Nat} {x : α} (h : l[i]? = some x) :
    l = l.take i ++ x :: l.drop (i + 1) := by
  induction l generalizing i with
  | nil => simp at h
  | cons a l ih =>
    cases i with
    | zero => simp at h; simp [h]
    | succ i =>
      simp only [List.getElem?_cons_succ] at h
      simp only [List.take_succ_cons, List.drop_succ_cons, List.cons_append]
      rw [← ih h]

theorem mem_drop_of_getElem? {α : Type} {l : List α} {i j : Nat} {y : α} (hij : i < j) (h : l[j]? = some y) :
    y ∈ l.drop (i + 1) := by
  have : (l.drop (i + 1))[j - (i + 1)]? = some y := by
    rw [List.getElem?_drop]
    have : i + 1 + (j - (i + 1)) = j := by omega
    rw [this]; exact h
  exact List.mem_of_getElem? this

theorem mem_take_of_getElem? {α : Type} {l : List α} {i j : Nat} {y : α} (hij : j < i) (h : l[j]? = some y) :
    y ∈ l.take i := by
  have : (l.take i)[j]? = some y := by
    rw [List.getElem?_take]; simp [hij, h]
  exact List.mem_of_getElem? this

end EngineLog
