import DurableModel.Ident
