import DurableModel.Ident
import DurableModel.Lock
import DurableModel.Batcher
import DurableModel.Serdes
