import DurableModel.Ident
import DurableModel.Lock
import DurableModel.Batcher
import DurableModel.Serdes
import DurableModel.Policy
import DurableModel.Strategy
import DurableModel.Outcome
