import Lean.Data.Json
import DurableModel
import DriverLib.Glue
/-!
Line-protocol driver: one JSON case per input line, one JSON answer per output line.
The JSON glue (this file and DriverLib/*) is trusted; everything it calls is the model.
-/
open Lean

def dispatch (j : Json) : Json :=
  match j.getObjValAs? String "c" with
  | .ok c => DriverLib.handle c j
  | .error _ => Json.mkObj [("error", "no-component")]

partial def loop (h : IO.FS.Stream) (out : IO.FS.Stream) : IO Unit := do
  let line ← h.getLine
  if line.isEmpty then return ()
  match Json.parse line with
  | .ok j => out.putStrLn ((dispatch j).compress)
  | .error e => out.putStrLn (Json.compress (Json.mkObj [("error", Json.str ("parse: " ++ e))]))
  out.flush
  loop h out

def main : IO Unit := do
  loop (← IO.getStdin) (← IO.getStdout)
