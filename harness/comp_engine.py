"""Engine-level component shared by C01-C04, C07, C11-C14, C16, C17: random Script workflows run to
completion on the real SDK over several invocations (crashes, checkpoint faults, backend events,
paginated histories), compared with the Lean engine model, plus per-property oracles evaluated on
the implementation's own traces."""
from __future__ import annotations

import json
import random

from harness import engine_exec as E
from harness.backend import TERMINAL

ORACLE_PROP = {}


def oracle(prop):
    def deco(f):
        ORACLE_PROP[f.__name__] = prop
        f.prop = prop
        return f
    return deco


def terminal_at_start(inv):
    return {tuple(r["pos"]): r for r in inv["start_tbl"] if r["status"] in TERMINAL}


def outcome_of_record(r):
    """What a call at this position must deliver according to the recorded outcome."""
    k, st = r["kind"], r["status"]
    if st == "SUCCEEDED":
        return {"ok": r["result"] if r["result"] is not None else "None"} if k != "wait" else {"ok": "None"}
    if k == "callback":
        m = (r["error"] or {}).get("message") or "Callback failed"
        return {"err": {"cls": "CallbackError", "msg": m, "etype": None}}
    e = r["error"]
    if e is None:
        return {"err": {"cls": "CallableRuntimeError", "msg": "Unknown error. No ErrorObject exists on the Checkpoint Operation.", "etype": None}}
    return {"err": {"cls": "CallableRuntimeError", "msg": e.get("message") if e.get("message") is not None else "None", "etype": e.get("type")}}


@oracle("C01")
def o_no_reentry(ex, V):
    """A position terminal in the history handed to an invocation is not entered nor updated again,
    and delivers the recorded outcome (replay-children contexts: body re-traversed, nothing sent)."""
    for k, inv in enumerate(ex["invs"]):
        term = terminal_at_start(inv)
        for ev in inv["trace"]:
            if ev[0] == "enter":
                r = term.get(tuple(ev[1]))
                if r is not None and not (r["kind"] == "context" and r["replayChildren"]):
                    V("C01.reentered_completed_operation", {"inv": k, "pos": ev[1], "record": r})
            elif ev[0] == "upd":
                p = ev[1]["pos"]
                if p is not None and tuple(p) in term:
                    V("C01.update_for_completed_operation", {"inv": k, "update": ev[1]})
                for q in term:
                    r = term[q]
                    if p is not None and r["kind"] == "context" and r["replayChildren"] and tuple(p[: len(q)]) == q and len(p) > len(q):
                        V("C01.update_under_replayed_context", {"inv": k, "update": ev[1]})
            elif ev[0] == "deliver":
                r = term.get(tuple(ev[1]))
                if r is not None and not (r["kind"] == "context" and r["replayChildren"]) and ev[2] != {"ok": "cb"}:
                    want = outcome_of_record(r)
                    got = ev[2]
                    if r["kind"] in ("step", "wfc", "context", "invoke") and "err" in want and "err" in got and r["kind"] != "callback":
                        if (got["err"]["cls"], got["err"]["msg"], got["err"]["etype"]) != (want["err"]["cls"], want["err"]["msg"], want["err"]["etype"]):
                            # StepInterruptedError / InvocationError re-raise paths only occur when the op completes in this run
                            V("C01.delivered_differs_from_record", {"inv": k, "pos": ev[1], "got": got, "want": want})
                    elif got != want:
                        V("C01.delivered_differs_from_record", {"inv": k, "pos": ev[1], "got": got, "want": want})
        # same invocation: after a terminal update for pos, no later enter at pos
        done = set()
        for ev in inv["trace"]:
            if ev[0] == "upd" and ev[1]["action"] in ("SUCCEED", "FAIL") and ev[1]["pos"] is not None:
                done.add(tuple(ev[1]["pos"]))
            elif ev[0] == "enter" and tuple(ev[1]) in done:
                V("C01.reentered_in_same_invocation", {"inv": k, "pos": ev[1]})


@oracle("C02")
def o_replay_transparent(ex, V):
    """Every later delivery at a position equals the first delivery made after the operation completed."""
    first = {}
    for k, inv in enumerate(ex["invs"]):
        for ev in inv["trace"]:
            if ev[0] != "deliver":
                continue
            p = (tuple(ev[1]), ev[2] == {"ok": "cb"} or str(ev[2].get("ok", "")).startswith("cb?"))
            if p in first:
                if "err" in first[p][1] and first[p][1]["err"]["cls"] == "StepInterruptedError":
                    continue  # invocation-level error: the property's proviso (user code lets it propagate)
                if first[p][1] != ev[2]:
                    V("C02.observation_changed_on_replay", {"pos": ev[1], "first": {"inv": first[p][0], "outcome": first[p][1]},
                                                          "later": {"inv": k, "outcome": ev[2]}})
            else:
                first[p] = (k, ev[2])


@oracle("C08")
def o_ids(ex, V):
    """One id per position and one position per id over the whole execution; every update of an operation carries
    the id of the enclosing context as its parent (none at top level)."""
    id_of, pos_of = {}, {}
    for k, inv in enumerate(ex["invs"]):
        for ev in inv["raw_trace"]:
            if ev[0] != "upd" or ev[1].get("pos") is None:
                continue
            u = ev[1]
            p_ = tuple(u["pos"])
            if id_of.setdefault(p_, u["id"]) != u["id"]:
                V("C08.one_position_two_ids", {"inv": k, "pos": list(p_), "ids": [id_of[p_], u["id"]]})
            if pos_of.setdefault(u["id"], p_) != p_:
                V("C08.one_id_two_positions", {"inv": k, "id": u["id"], "positions": [list(pos_of[u["id"]]), list(p_)]})
    for k, inv in enumerate(ex["invs"]):
        for ev in inv["raw_trace"]:
            if ev[0] != "upd" or ev[1].get("pos") is None:
                continue
            u = ev[1]
            p_ = tuple(u["pos"])
            want = id_of.get(p_[:-1]) if len(p_) > 1 else None
            if len(p_) > 1 and want is None:
                continue
            if (u.get("parent") or None) != want:
                V("C08.parent_link_is_not_the_enclosing_context", {"inv": k, "pos": list(p_), "action": u["action"], "type": u["type"],
                                                                   "parent_sent": u.get("parent"), "enclosing_context_id": want})


@oracle("C03")
def o_write_ahead(ex, V):
    """An outcome is delivered only when the backend holds the terminal record (status read from the backend at
    the instant of delivery); PENDING only when a parking record is held; success only with every observed
    outcome recorded."""
    for k, inv in enumerate(ex["invs"]):
        for ev in inv["raw_trace"]:
            if ev[0] == "deliver" and ev[2] != {"ok": "cb"} and not str(ev[2].get("ok", "")).startswith("cb?"):
                st = ev[3] if len(ev) > 3 else None
                if st not in TERMINAL:
                    V("C03.delivered_without_terminal_record", {"inv": k, "pos": ev[1], "outcome": ev[2], "backend_status": st})
        if inv["end"]["end"] == "suspended" and not inv["enabled_after"]:
            V("C03.pending_without_parking_record", {"inv": k, "table": inv["tbl"]})
        if inv["end"]["end"] == "suspended":
            # every retry / wait / callback / invoke record this invocation wrote before parking must be held by the
            # backend when PENDING is reported (a non-blocking or abandoned write would leave nothing to wake it)
            start = {tuple(r["pos"]): r for r in inv["start_tbl"]}
            end = {tuple(r["pos"]): r for r in inv["tbl"]}
            retries = {}

            def under_finished_context(p_):   # the table hides what lies under a completed context
                return any((end.get(p_[:i]) or {}).get("status") in TERMINAL for i in range(1, len(p_)))
            for ev in inv["raw_trace"]:
                if ev[0] == "upd" and ev[1].get("pos") is not None:
                    u = ev[1]
                    p_ = tuple(u["pos"])
                    if under_finished_context(p_):
                        continue
                    if u["action"] == "RETRY":
                        retries[p_] = retries.get(p_, 0) + 1
                    elif u["action"] == "START" and u["type"] in ("WAIT", "CALLBACK", "CHAINED_INVOKE") and p_ not in end:
                        V("C03.pending_but_parking_record_not_held", {"inv": k, "pos": list(p_), "update": [u["type"], u["action"]]})
            for p_, n in retries.items():
                a0 = (start.get(p_) or {}).get("attempt", 0)
                a1 = (end.get(p_) or {}).get("attempt", -1)
                if a1 < a0 + n:
                    V("C03.pending_but_retry_record_not_held", {"inv": k, "pos": list(p_), "retries_written": n, "attempt_at_start": a0,
                                                                 "attempt_held_by_backend": a1})


@oracle("C04")
def o_amo(ex, V):
    amo = set()

    def walk(stmts, ctx):
        n = 0
        for st in stmts:
            if st["op"] in ("step", "wait", "cbnew", "invoke", "wfc", "child"):
                n += 1
                if st["op"] == "step" and st.get("amo"):
                    amo.add(tuple(ctx + [n]))
                if st["op"] == "child":
                    walk(st["body"], ctx + [n])
    walk(ex["script"], [])
    seen = {}
    for k, inv in enumerate(ex["invs"]):
        for ev in inv["trace"]:
            if ev[0] == "enter" and ev[2] == "step" and tuple(ev[1]) in amo:
                key = (tuple(ev[1]), ev[3])
                seen.setdefault(key, []).append(k)
    for (p, a), ks in seen.items():
        if len(ks) > 1:
            V("C04.amo_attempt_entered_twice", {"pos": list(p), "attempt": a, "invocations": ks})


def _amo_positions(script):
    amo = set()

    def walk(stmts, ctx):
        n = 0
        for st in stmts:
            if st["op"] in ("step", "wait", "cbnew", "invoke", "wfc", "child"):
                n += 1
                if st["op"] == "step" and st.get("amo"):
                    amo.add(tuple(ctx + [n]))
                if st["op"] == "child":
                    walk(st["body"], ctx + [n])
    walk(script, [])
    return amo


@oracle("C04")
def o_amo_start_recorded(ex, V):
    """The start of an attempt is durably recorded before the function is entered: at the instant an at-most-once
    step function is entered the backend holds the step as STARTED with the attempt count of this attempt."""
    amo = _amo_positions(ex["script"])
    for k, inv in enumerate(ex["invs"]):
        for ev in inv["raw_trace"]:
            if ev[0] == "enter" and ev[2] == "step" and tuple(ev[1]) in amo and len(ev) > 5:
                rec = ev[5]
                if rec is None or rec[0] != "STARTED" or (rec[1] or 0) != ev[3] - 1:
                    V("C04.amo_entered_without_recorded_start", {"inv": k, "pos": ev[1], "attempt": ev[3], "backend_record": rec})


@oracle("C06")
def o_fail_stop(ex, V):
    """After a failed checkpoint call: no further API call, nothing delivered that the backend does not hold, the
    invocation ends and never with SUCCEEDED or PENDING."""
    amo = _amo_positions(ex["script"])
    for k, inv in enumerate(ex["invs"]):
        bad = [i for i, (t, us, o) in enumerate(inv["calls"]) if o == "fault"]
        if not bad:
            continue
        for ev in inv["raw_trace"]:
            if ev[0] == "enter" and ev[2] == "step" and tuple(ev[1]) in amo and len(ev) > 5:
                rec = ev[5]
                if rec is None or rec[0] != "STARTED" or (rec[1] or 0) != ev[3] - 1:
                    V("C06.amo_entered_without_recorded_start", {"inv": k, "pos": ev[1], "attempt": ev[3], "backend_record": rec})
        if bad[0] != len(inv["calls"]) - 1:
            V("C06.api_call_after_failed_call", {"inv": k, "calls": [(us, o) for t, us, o in inv["calls"]]})
        if inv["end"]["end"] in ("returned", "suspended"):
            sync_flags = (inv.get("calls_sync") or [[]] * (bad[0] + 1))[bad[0]]
            V("C06.success_or_pending_after_checkpoint_failure",
              {"inv": k, "end": inv["end"], "failed_call": inv["calls"][bad[0]][1],
               # the failed call carried only non-blocking updates (nobody was waiting for it) and it was the last call
               "async_only": bool(sync_flags) and not any(sync_flags) and bad[0] == len(inv["calls"]) - 1})
        if inv["end"]["end"] == "hung" or inv.get("limit"):
            V("C06.invocation_hangs_after_checkpoint_failure", {"inv": k, "end": inv["end"]})
        for ev in inv["raw_trace"]:
            if ev[0] == "deliver" and ev[2] != {"ok": "cb"} and not str(ev[2].get("ok", "")).startswith("cb?"):
                st = ev[3] if len(ev) > 3 else None
                if st not in TERMINAL:
                    V("C06.delivered_without_terminal_record", {"inv": k, "pos": ev[1], "outcome": ev[2], "backend_status": st})


@oracle("C07")
def o_suspension(ex, V):
    for k, inv in enumerate(ex["invs"]):
        if inv["end"]["end"] == "hung" or inv.get("limit"):
            V("C07.invocation_never_ends", {"inv": k, "end": inv["end"]})
        if inv.get("stuck"):
            V("C07.pending_with_nothing_armed", {"inv": k, "table": inv["tbl"]})
    if not ex["finished"] and len(ex["invs"]) >= 40:
        V("C07.execution_does_not_terminate", {"invocations": len(ex["invs"]), "last_end": ex["invs"][-1]["end"]})


@oracle("C11")
def o_valid_history(ex, V):
    for k, inv in enumerate(ex["invs"]):
        for rej in inv["rejections"]:
            V("C11.backend_rejected_update", {"inv": k, "rejection": rej})
        # execution-level record at most once and last
        n_exec = 0
        for t, us, o in inv["calls"]:
            for name, action in us:
                if name is None and action in ("SUCCEED", "FAIL"):
                    n_exec += 1
        if n_exec > 1:
            V("C11.execution_record_twice", {"inv": k})


@oracle("C12")
def o_step_retries(ex, V):
    """The function is entered with attempt = recorded retries + 1; every RETRY carries a delay >= 1; the number
    of RETRY records never exceeds max attempts - 1; a declined failure is recorded (FAIL) before it is raised."""
    specs = {}

    def walk(stmts, ctx):
        n = 0
        for st in stmts:
            if st["op"] in ("step", "wait", "cbnew", "invoke", "wfc", "child"):
                n += 1
                if st["op"] == "step":
                    specs[tuple(ctx + [n])] = st
                if st["op"] == "child":
                    walk(st["body"], ctx + [n])
    walk(ex["script"], [])
    for k, inv in enumerate(ex["invs"]):
        start = {tuple(r["pos"]): r for r in inv["start_tbl"]}
        for ev in inv["trace"]:
            if ev[0] == "enter" and ev[2] == "step":
                p = tuple(ev[1])
                want = (start[p]["attempt"] if p in start else 0) + 1
                if ev[3] != want:
                    V("C12.attempt_numbering", {"inv": k, "pos": ev[1], "attempt": ev[3], "recorded_retries": want - 1})
            elif ev[0] == "upd" and ev[1]["kind"] == "step" and ev[1]["action"] == "RETRY":
                if (ev[1]["delay"] or 0) < 1:
                    V("C12.retry_delay_below_one", {"update": ev[1]})
        for ev in inv["raw_trace"]:
            # a failure reaches the caller only after its FAIL record is held by the backend
            if ev[0] == "deliver" and "err" in ev[2] and tuple(ev[1]) in specs and len(ev) > 3 and ev[3] != "FAILED":
                V("C12.failure_raised_before_fail_record", {"inv": k, "pos": ev[1], "error": ev[2]["err"], "backend_status": ev[3]})
        for r in inv["tbl"]:
            sp = specs.get(tuple(r["pos"]))
            if sp is not None and r["kind"] == "step":
                mx = (sp.get("retry") or {"max": 1})["max"]
                if r["attempt"] > max(mx - 1, 0):
                    V("C12.more_retries_than_max_attempts", {"pos": r["pos"], "retries": r["attempt"], "max_attempts": mx})


@oracle("C13")
def o_wfc_state(ex, V):
    """poll n+1 receives what the last *recorded* poll returned; attempts increase by one."""
    recorded = {}  # pos -> (attempt, state) of the last accepted RETRY
    specs = {}

    def walk(stmts, ctx):
        n = 0
        for st in stmts:
            if st["op"] in ("step", "wait", "cbnew", "invoke", "wfc", "child"):
                n += 1
                if st["op"] == "wfc":
                    specs[tuple(ctx + [n])] = st
                if st["op"] == "child":
                    walk(st["body"], ctx + [n])
    walk(ex["script"], [])
    ended_in_error = set()
    for k, inv in enumerate(ex["invs"]):
        tblpos = {tuple(r["pos"]): r for r in inv["start_tbl"]}
        returned = {}       # pos -> token the check function returned in the poll just made
        failed = set()
        for ev in inv["trace"]:
            if ev[0] == "enter" and ev[2] == "wfc" and tuple(ev[1]) in specs:
                ck = specs[tuple(ev[1])]["check"]
                o = ck[min((ev[3] or 1) - 1, len(ck) - 1)]
                returned[tuple(ev[1])] = o.get("ok")
            elif ev[0] == "upd" and ev[1]["kind"] == "wfc" and ev[1]["action"] in ("RETRY", "SUCCEED") and tuple(ev[1]["pos"]) in returned:
                want = returned.pop(tuple(ev[1]["pos"]))
                if specs[tuple(ev[1]["pos"])].get("cserdes"):
                    continue    # a user-supplied text format: judged by o_custom_serdes on the states actually handed over
                if want is not None and ev[1]["payload"] != want:
                    # the state recorded for the next poll / as the result is the one the check returned, exactly
                    V("C13.recorded_state_is_not_the_returned_state", {"inv": k, "pos": ev[1]["pos"], "returned": want, "recorded": ev[1]["payload"],
                                                                        "action": ev[1]["action"]})
            elif ev[0] == "upd" and ev[1]["kind"] == "wfc" and ev[1]["action"] == "FAIL" and tuple(ev[1]["pos"]) in returned:
                want = returned.pop(tuple(ev[1]["pos"]))
                if want is not None and want != "!set" and not specs[tuple(ev[1]["pos"])].get("fragile"):
                    # the check function returned a state and the strategy answered stop/continue: the poll is recorded as
                    # SUCCEED or RETRY - a FAIL record claims a failure the check function never had
                    V("C13.condition_failed_although_check_returned", {"inv": k, "pos": ev[1]["pos"], "returned": want, "error": ev[1].get("error")})
        for ev in inv["trace"]:
            if ev[0] == "deliver" and "err" in ev[2] and tuple(ev[1]) in specs:
                ended_in_error.add(tuple(ev[1]))
            elif ev[0] == "enter" and ev[2] == "wfc" and tuple(ev[1]) in ended_in_error:
                # a wait_for_condition call that raised to user code is finished: it is never polled again
                V("C13.condition_polled_again_after_it_failed", {"inv": k, "pos": ev[1], "attempt": ev[3]})
        for ev in inv["trace"]:
            if ev[0] == "enter" and ev[2] == "wfc":
                p = tuple(ev[1])
                r = tblpos.get(p)
                if r is not None and r["status"] in ("READY", "STARTED") and r["attempt"] >= 1:
                    if ev[3] != r["attempt"] + 1:
                        V("C13.poll_number", {"pos": ev[1], "attempt": ev[3], "recorded_retries": r["attempt"]})
                    if r["result"] not in (None, "", "e") and ev[4] != r["result"] and not (specs.get(p) or {}).get("cserdes"):
                        V("C13.state_not_threaded", {"pos": ev[1], "received": ev[4], "recorded": r["result"]})
            elif ev[0] == "upd" and ev[1]["kind"] == "wfc" and ev[1]["action"] == "RETRY":
                if (ev[1]["delay"] or 0) < 1:
                    V("C13.continue_delay_below_one", {"update": ev[1]})


@oracle("C13")
def o_custom_serdes(ex, V):
    """Scripts whose single wait_for_condition uses a user-supplied serializer (flag `cserdes`, no crashes): poll n+1
    is handed exactly what poll n returned, the first poll the initial state; polls are numbered 1..k."""
    top = ex["script"][0] if ex["script"] else {}
    w = top["body"][0] if top.get("op") == "child" and top.get("body") else top
    if not (w.get("op") == "wfc" and w.get("cserdes")):
        return
    toks = [o.get("ok") for o in w["check"]]
    polls = [ev for inv in ex["invs"] for ev in inv["trace"] if ev[0] == "enter" and ev[2] == "wfc"]
    for ev in polls:
        a = ev[3] or 1
        want = w["init"] if a < 2 else toks[min(a - 2, len(toks) - 1)]
        if ev[4] != want:
            V("C13.state_not_threaded", {"poll": a, "received": ev[4], "previous_poll_returned": want})
    if [ev[3] for ev in polls] != list(range(1, len(polls) + 1)) or (ex["finished"] and len(polls) != len(toks)):
        V("C13.poll_number", {"polls": [ev[3] for ev in polls], "expected": len(toks)})


def last_call(inv):
    calls = [ev for ev in inv["raw_trace"] if ev[0] in ("call", "deliver")]
    return calls[-1] if calls and calls[-1][0] == "call" else None


@oracle("C01")
def o_completed_yields(ex, V):
    """A call at a position whose record is already terminal yields the recorded outcome - it does not suspend."""
    for k, inv in enumerate(ex["invs"]):
        lc = last_call(inv)
        if inv["end"]["end"] == "suspended" and lc is not None and lc[3] in TERMINAL and lc[1] != "cbres":
            V("C01.suspended_on_completed_operation", {"inv": k, "op": lc[1], "pos": lc[2], "status": lc[3]})


@oracle("C14")
def o_callbacks(ex, V):
    for k, inv in enumerate(ex["invs"]):
        lc = last_call(inv)
        if inv["end"]["end"] == "suspended" and lc is not None and lc[1] in ("cbres", "invoke") and lc[3] in TERMINAL:
            V("C14.suspends_on_completed_callback_or_invoke", {"inv": k, "op": lc[1], "pos": lc[2], "status": lc[3]})
        for ev in inv["trace"]:
            if ev[0] == "deliver" and isinstance(ev[2].get("ok"), str) and ev[2]["ok"].startswith("cb?"):
                V("C14.callback_id_changed", {"inv": k, "pos": ev[1], "got": ev[2]["ok"]})
    kinds = {tuple(p): op for p, op in E.static_positions(ex["script"])}
    # the START of a callback / chained invoke is applied at most once per execution
    applied = {}
    for k, inv in enumerate(ex["invs"]):
        for t, us, o in inv["calls"]:
            for name, action in us:
                if action == "START" and name and name.startswith("p:"):
                    pos = tuple(int(x) for x in name[2:].split("."))
                    if kinds.get(pos) in ("cbnew", "invoke"):
                        if pos in applied and o != "ok":
                            # sent again (and refused by the backend) for an operation that was already started
                            V("C14.start_sent_again", {"pos": list(pos), "op": kinds[pos], "inv": k, "first_applied_in": applied[pos][0], "outcome": o})
                        if o == "ok":
                            applied.setdefault(pos, []).append(k)
    for pos, ks in applied.items():
        if len(ks) > 1:
            V("C14.start_applied_twice", {"pos": list(pos), "op": kinds[pos], "invocations": ks})
    # result() / invoke() hand back exactly what the backend holds for the callback / chained invoke
    kinds = {tuple(p): op for p, op in E.static_positions(ex["script"])}
    for k, inv in enumerate(ex["invs"]):
        held = {tuple(r["pos"]): r for r in inv["tbl"]}
        for ev in inv["trace"]:
            r = held.get(tuple(ev[1])) if ev[0] == "deliver" else None
            if r is None or ev[2] == {"ok": "cb"} or kinds.get(tuple(ev[1])) not in ("cbnew", "invoke") or r["status"] not in TERMINAL:
                continue
            if r["status"] == "SUCCEEDED":
                want = {"ok": "None" if r["result"] is None else r["result"]}
                if ev[2] != want:
                    V("C14.result_is_not_the_delivered_payload", {"inv": k, "pos": ev[1], "held_by_backend": r, "returned": ev[2]})
            elif "err" not in ev[2]:
                V("C14.failed_callback_or_invoke_returned_normally", {"inv": k, "pos": ev[1], "held_by_backend": r, "returned": ev[2]})


@oracle("C17")
def o_logger(ex, V):
    """Silent for log calls that precede (in program order) an operation that had completed before this invocation
    began; audible once execution has passed the last such operation; first invocation: everything; records carry
    the execution ARN and the enclosing context's id."""
    for k, inv in enumerate(ex["invs"]):
        term = terminal_at_start(inv)
        raw = inv["raw_trace"]
        last = None
        from_cbres = False
        for i, ev in enumerate(raw):
            if ev[0] == "call":
                from_cbres = ev[1] == "cbres"
            # Callback.result() is the second program point of the callback operation: the operation's position
            # in program order is its create_callback call, so result() deliveries do not move the boundary
            if ev[0] == "deliver":
                if tuple(ev[1]) in term and not from_cbres:
                    last = i
                from_cbres = False      # the flag concerns only the delivery made by that result() call
        emitted = [m for m, _ in inv["logs"]]
        eset = set(emitted)
        for i, ev in enumerate(raw):
            if ev[0] != "logcall":
                continue
            msg = ev[2]
            if not inv["start_tbl"]:
                if msg not in eset:
                    V("C17.first_invocation_log_suppressed", {"inv": k, "msg": msg})
            elif last is not None and i < last:
                if msg in eset:
                    V("C17.replayed_log_emitted", {"inv": k, "msg": msg, "page_size": inv["plan"].get("page_size"),
                                                   "first_page_ops": 1 + (len(inv["start_tbl"]) if not inv["plan"].get("page_size") else max(0, inv["plan"]["page_size"] - 1))})
            elif last is not None and i > last:
                if msg not in eset:
                    caught = [e[1] for e in raw[:i] if e[0] == "deliver" and "err" in e[2]]
                    V("C17.new_log_suppressed", {"inv": k, "msg": msg, "errors_delivered_before": caught})
        for m, extra in inv["logs"]:
            if extra.get("executionArn") != "arn:exec":
                V("C17.missing_execution_arn", {"inv": k, "msg": m, "extra": extra})
        # parentId of the enclosing context
        for i, ev in enumerate(raw):
            if ev[0] == "logcall" and ev[1]:
                rec = [x for m, x in inv["logs"] if m == ev[2]]
                if rec and not rec[0].get("parentId"):
                    V("C17.missing_parent_id", {"inv": k, "msg": ev[2], "ctx": ev[1], "extra": rec[0]})


@oracle("C16")
def o_large(ex, V):
    """Oversized child results stay out of checkpoints (summary + ReplayChildren); an oversized final result is
    recorded as the execution result before the invocation reports an empty payload."""
    lim = ex["limits"].get("ckpt_limit")
    for k, inv in enumerate(ex["invs"]):
        for ev in inv["raw_trace"]:
            if ev[0] == "upd" and ev[1]["type"] == "CONTEXT" and ev[1]["action"] == "SUCCEED":
                pl = ev[1]["payload"] or ""
                if lim is not None and len(pl) > lim:
                    V("C16.oversized_payload_checkpointed", {"inv": k, "pos": ev[1]["pos"], "size": len(pl), "limit": lim})
                if ev[1]["replayChildren"] and lim is not None and False:
                    pass
        out = inv.get("out_raw")
        rl = ex["limits"].get("resp_limit")
        if out is not None and rl is not None and out.get("Status") == "SUCCEEDED":
            if out.get("Result") == "":
                er = inv.get("exec_result")
                if not er or er.get("action") != "SUCCEED" or not er.get("payload"):
                    V("C16.large_result_not_recorded_before_empty_response", {"inv": k, "exec_result": er})
            elif len((out.get("Result") or "").encode("utf-8")) > rl:
                V("C16.response_exceeds_limit", {"inv": k, "size_bytes": len(out["Result"].encode("utf-8")), "size_chars": len(out["Result"]), "limit": rl})
        if out is not None and rl is not None and out.get("Status") == "FAILED":
            msg = ((out.get("Error") or {}).get("ErrorMessage") or "")
            if len(msg.encode("utf-8")) > rl:
                # the error alone is over the response limit: it has to be recorded as the execution's result instead
                V("C16.error_response_exceeds_limit", {"inv": k, "message_bytes": len(msg.encode("utf-8")), "limit": rl,
                                                       "error_type": (out.get("Error") or {}).get("ErrorType")})
            elif not out.get("Error"):
                er = inv.get("exec_result")
                if not er or er.get("action") != "FAIL" or not er.get("error"):
                    V("C16.large_error_not_recorded_before_empty_response", {"inv": k, "exec_result": er})


@oracle("C16")
def o_large_replay_equal(ex, V):
    """Every replay of a context recorded with ReplayChildren rebuilds an equal result."""
    first = {}
    rc = set()
    for k, inv in enumerate(ex["invs"]):
        for r in inv["start_tbl"]:
            if r["kind"] == "context" and r["replayChildren"] and r["status"] == "SUCCEEDED":
                rc.add(tuple(r["pos"]))
        for ev in inv["trace"]:
            if ev[0] == "deliver":
                p = tuple(ev[1])
                if p in first and p in rc and first[p][1] != ev[2]:
                    V("C16.replayed_result_differs", {"pos": ev[1], "first": {"inv": first[p][0], "outcome": first[p][1]},
                                                      "later": {"inv": k, "outcome": ev[2]}})
                first.setdefault(p, (k, ev[2]))


ALL_ORACLES = [o_large, o_large_replay_equal, o_completed_yields, o_no_reentry, o_replay_transparent, o_write_ahead, o_amo, o_amo_start_recorded, o_fail_stop, o_suspension, o_valid_history, o_step_retries,
               o_wfc_state, o_custom_serdes, o_callbacks, o_logger, o_ids]


def run_oracles(ctx, ex, component, only_prop=None):
    case = {"script": ex["script"], "plans": ex["plans"], "events": ex["events"], "seed": ex["seed"], "limits": ex["limits"]}
    for f in ALL_ORACLES:
        if only_prop is not None and f.prop != only_prop:
            continue

        def V(name, detail, f=f):
            ctx.violate(name, case, detail, component, kind="history")
        f(ex, V)


def stats(ctx, ex):
    n_inv = len(ex["invs"])
    ctx.count(f"invocations={min(n_inv, 6)}")
    for inv in ex["invs"]:
        ctx.count("end=" + inv["end"]["end"])
        if inv["plan"].get("crash_tick") is not None:
            ctx.count("plan=crash")
        if inv["plan"].get("fail_sync_call") is not None:
            ctx.count("plan=fault")
        if inv["plan"].get("page_size"):
            ctx.count("plan=paged")

    def walk(stmts):
        for st in stmts:
            ctx.count("op=" + st["op"])
            if st["op"] == "child":
                walk(st["body"])
    walk(ex["script"])


def nontrivial(ex):
    replayed = 0
    for inv in ex["invs"][1:]:
        term = terminal_at_start(inv)
        replayed += sum(1 for ev in inv["trace"] if ev[0] == "deliver" and tuple(ev[1]) in term)
    return len(ex["invs"]) >= 2 and replayed >= 1


def one(ctx, script, seed, prop, component="engine", crash_p=0.25, fault_p=0.1, plans=None, events=None, limits=None):
    ex = E.run_execution(script, seed, crash_p=crash_p, fault_p=fault_p, plans=plans, events=events, limits=limits)
    run_oracles(ctx, ex, component, only_prop=prop)
    E.compare(ctx, ex, component)
    key = (json.dumps(script, sort_keys=True), json.dumps(ex["plans"], sort_keys=True), json.dumps(ex["events"], sort_keys=True, default=str))
    ctx.case(key if nontrivial(ex) else None)
    stats(ctx, ex)
    if len(ctx.samples) < 2:
        ctx.sample({"script": script, "plans": ex["plans"], "events": ex["events"],
                    "ends": [inv["end"] for inv in ex["invs"]], "first_trace": ex["invs"][0]["trace"][:8]})
    return ex


def run(ctx, prop, n_quick=500, n_thorough=10000, crash_p=0.25, fault_p=0.1, corpus=()):
    for entry in corpus:
        script, seed = entry[0], entry[1]
        one(ctx, script, seed, prop, component="engine.corpus", crash_p=crash_p, fault_p=fault_p,
            events=entry[2] if len(entry) > 2 else None)
    for i in range(ctx.scale(n_quick, n_thorough)):
        script = E.gen_script(ctx.rng, focus=prop if i % 2 else None)
        one(ctx, script, ctx.rng.randrange(1 << 30), prop, crash_p=crash_p, fault_p=fault_p)


def run_fault(ctx, prop="C06"):
    """Invocation-level fail-stop on sequential workflows: two thirds with the modelled fault (k-th synchronous call
    fails; compared with the engine model), one third with a fault on an arbitrary API call (judged by the oracles)."""
    for i in range(ctx.scale(150, 3000)):
        script = E.gen_script(ctx.rng, focus="C04" if i % 2 else None)
        if i % 3 == 2:
            saved, ctx.driver = ctx.driver, None
            E.ANY_CALL_FAULTS = 0.6
            try:
                ex = one(ctx, script, ctx.rng.randrange(1 << 30), prop, component="engine.fault.any_call", crash_p=0.0, fault_p=0.0)
            finally:
                E.ANY_CALL_FAULTS = 0.0
                ctx.driver = saved
        else:
            ex = one(ctx, script, ctx.rng.randrange(1 << 30), prop, component="engine.fault", crash_p=0.0, fault_p=0.5)
        if any(o == "fault" for inv in ex["invs"] for t, us, o in inv["calls"]):
            ctx.count("engine.fault_fired")


def search(ctx, prop, n=600):
    # targeted first: the scripts on which model and implementation disagreed, under many other plans/schedules
    targets = []
    for d in getattr(ctx, "disagreements", []):
        c = d.get("case") if isinstance(d, dict) else None
        if isinstance(c, dict) and "script" in c and c["script"] not in [t[0] for t in targets]:
            targets.append((c["script"], c.get("limits")))
    saved, ctx.driver = ctx.driver, None
    try:
        def catching(stmts):
            out = []
            for st in stmts:
                st = dict(st)
                if "catch" in st:
                    st["catch"] = True
                if st.get("op") == "child":
                    st["body"] = catching(st["body"])
                out.append(st)
            return out
        variants = []
        for script, limits in targets[:8]:
            variants.append((script, limits))
            # the same program with every error caught and one more suspension appended: what a first completion
            # delivered then becomes observable again on a replay
            for v in (catching(script), [dict(st, catch=True) if "catch" in st else st for st in script]):
                v = v + [{"op": "wait", "secs": 1}]
                if len(v) <= 14 and v not in [x[0] for x in variants]:
                    variants.append((v, limits))
        for script, limits in variants:
            for j in range(45):
                E.ANY_CALL_FAULTS = 0.5 if j % 3 == 2 else 0.0
                try:
                    one(ctx, script, ctx.rng.randrange(1 << 30), prop, component="engine.search.targeted", limits=limits,
                        crash_p=0.2 if j % 3 == 1 else 0.0, fault_p=0.3 if j % 3 == 0 else 0.0)
                finally:
                    E.ANY_CALL_FAULTS = 0.0
        for i in range(n):
            script = E.gen_script(ctx.rng, focus=prop if i % 2 else None)
            one(ctx, script, ctx.rng.randrange(1 << 30), prop, component="engine.search")
            if ctx.violations:
                break
    finally:
        ctx.driver = saved


def replay(ctx, rec, prop):
    case = rec["case"]
    if rec.get("component") in ("engine.custom_serdes", "engine.rejected_invoke", "engine.nested_fail"):
        # oracle-only scenarios (user-supplied serializers, rejected payloads are not in the model): replayed on the
        # real code and judged by the oracles alone, as in the run that recorded them
        ex = E.run_execution(case["script"], case.get("seed", 0), crash_p=0.0, fault_p=0.0, plans=case.get("plans"),
                             events=case.get("events"), limits=case.get("limits"))
        run_oracles(ctx, ex, rec["component"], only_prop=prop)
        return
    one(ctx, case["script"], case.get("seed", 0), prop, component="engine.replay", plans=case.get("plans"),
        events=case.get("events"), limits=case.get("limits"))


# ------------------------------------------------------------------------------------ per-property parameters
PARAMS = {
    "C04": {"crash_p": 0.45, "fault_p": 0.05},
    "C03": {"crash_p": 0.2, "fault_p": 0.25},
    "C07": {"crash_p": 0.1, "fault_p": 0.0},
}

RULES = {
    "C01": "non-trivial = >= 2 invocations in which >= 1 terminal operation is replayed",
    "C02": "non-trivial = >= 2 invocations in which >= 1 terminal operation is replayed",
    "C03": "non-trivial = >= 2 invocations with a replayed operation (every run has synchronous checkpoints racing with the consumer thread under a seeded schedule)",
    "C04": "non-trivial = executions with >= 2 invocations and a replayed operation; at-most-once steps with retries and in-body crashes are over-sampled",
    "C07": "non-trivial = executions with >= 2 invocations (>= 1 PENDING) and a replayed operation",
    "C11": "non-trivial = >= 2 invocations in which >= 1 terminal operation is replayed",
    "C12": "non-trivial = >= 2 invocations in which >= 1 terminal operation is replayed",
    "C13": "non-trivial = >= 2 invocations in which >= 1 terminal operation is replayed",
    "C14": "non-trivial = >= 2 invocations in which >= 1 terminal operation is replayed",
    "C16": "non-trivial = >= 2 invocations in which >= 1 terminal operation is replayed",
    "C17": "non-trivial = >= 2 invocations in which >= 1 terminal operation is replayed",
}


def meta(prop):
    return {
        "rule": "seeded random Script workflows (<= 12 operations: step/wait/callback/invoke/wait_for_condition/child context/log, "
                "nesting <= 2, outcome tables per attempt, try/except per call) x per-invocation plans (crash at tick k, checkpoint "
                "fault at sync call k of 3 kinds, immediate completions, page size) x backend event orders, run to completion on the "
                "real SDK under the deterministic scheduler; " + RULES.get(prop, "") + "; distinct by (script, plans, events)",
        "trusted_base": [
            "T3 backend contract B1-B7 (harness/backend.py mirrors Engine.Backend; the real service is not available)",
            "T4 threading primitives as implemented by the simulator; T7 user code is deterministic (outcome tables)",
            "harness/engine_sim.py: Script interpreter and event capture (create_checkpoint wrapper, user-function hooks)",
            "payloads are identified with values (C15) in the model; the harness maps serialized payloads back to tokens",
        ],
        "assumptions": ["sequential programs (map/parallel are covered by the executor component)",
                        "values come from a pool inside the serializer's exact round-trip domain"],
    }


def extra(ctx, prop):
    """Property-specific additional components."""
    if prop == "C16":
        # oversized FINAL results: the wrapper must checkpoint them as the execution result
        for i in range(ctx.scale(60, 1500)):
            script = E.gen_script(ctx.rng, focus="C16")
            script = [st for st in script if st["op"] != "raise"] + [{"op": "pad", "n": ctx.rng.choice([10, 60, 150, 400])}]
            one(ctx, script, ctx.rng.randrange(1 << 30), prop, component="engine.large_final", crash_p=0.0, fault_p=0.0,
                limits={"ckpt_limit": 200, "resp_limit": ctx.rng.choice([100, 149, 150, 151, 1000])})
        # the same with non-ASCII results (limits are byte limits); judged by the oracles only: the model's payloads are ASCII
        for i in range(ctx.scale(40, 800)):
            script = [st for st in E.gen_script(ctx.rng, focus="C16") if st["op"] not in ("raise", "pad")]
            script = script[:4] + [{"op": "pad", "n": ctx.rng.choice([10, 40, 60, 150]), "ch": ctx.rng.choice(["€", "é", "日"])}]
            ex = E.run_execution(script, ctx.rng.randrange(1 << 30), crash_p=0.0, fault_p=0.0,
                                 limits={"ckpt_limit": 2000, "resp_limit": ctx.rng.choice([100, 150, 200])})
            run_oracles(ctx, ex, "engine.large_final.nonascii", only_prop=prop)
            ctx.case((json.dumps(script, sort_keys=True), json.dumps(ex["plans"], sort_keys=True)) if ex["finished"] else None)
            ctx.count("large_final.nonascii")
    if prop in ("C16", "C18"):
        # an oversized ERROR ends the execution: raised by handler code itself, or the recorded error of a failed durable
        # operation that the handler lets escape (live in the invocation that recorded it, and replayed in a later one)
        for i in range(ctx.scale(30, 600)):
            big = "y" * ctx.rng.choice([200, 400])
            fail = {"op": "step", "body": [{"err": {"cls": "Boom", "msg": big}}], "amo": False, "retry": {"max": 1, "delays": [], "noretry": []}, "catch": False}
            kind = ctx.rng.randrange(3)
            if kind == 0:
                script = [fail]
            elif kind == 1:
                script = [dict(fail, catch=True), {"op": "wait", "secs": 1}, dict(fail, catch=False)]     # the same position cannot repeat: second fails live
            else:
                script = [{"op": "wait", "secs": 1}, {"op": "child", "body": [fail], "limit": 2000, "summary": "", "catch": False}]
            ex = E.run_execution(script, ctx.rng.randrange(1 << 30), crash_p=0.0, fault_p=0.0,
                                 limits={"ckpt_limit": 2000, "resp_limit": ctx.rng.choice([100, 150])})
            run_oracles(ctx, ex, "engine.large_error", only_prop="C16")
            ctx.case((json.dumps(script, sort_keys=True), json.dumps(ex["plans"], sort_keys=True)) if ex["finished"] else None)
            ctx.count("large_error")
    if prop in ("C04", "C01"):
        # recorded results that can no longer be deserialized in a later invocation (format change between deploys):
        # the execution may fail, but a completed step - at-most-once in particular - is never run again
        for i in range(ctx.scale(30, 600)):
            amo = ctx.rng.random() < 0.7
            script = [{"op": "step", "body": [{"ok": ctx.rng.choice(["s", "i5", "d"])}], "amo": amo, "fragile": True,
                       "retry": {"max": ctx.rng.choice([1, 3]), "delays": [1], "noretry": []}, "catch": ctx.rng.random() < 0.5},
                      {"op": "wait", "secs": 1},
                      {"op": "step", "body": [{"ok": "t"}], "amo": False, "retry": {"max": 1, "delays": [], "noretry": []}, "catch": True}]
            if ctx.rng.random() < 0.4:
                script = [{"op": "child", "body": script[:1], "limit": 200, "summary": "", "catch": ctx.rng.random() < 0.5}] + script[1:]
            ex = E.run_execution(script, ctx.rng.randrange(1 << 30), crash_p=0.0, fault_p=0.0)
            # only the re-execution oracles apply: what is delivered here is the deserialization failure, by construction
            case_ = {"script": ex["script"], "plans": ex["plans"], "events": ex["events"], "seed": ex["seed"], "limits": ex["limits"]}
            for f_ in (o_no_reentry, o_amo):
                if f_.prop == prop:
                    f_(ex, lambda name, detail: ctx.violate(name, case_, detail, "engine.unreadable_record", kind="history")
                       if name != "C01.delivered_differs_from_record" else None)
            ctx.case((json.dumps(script, sort_keys=True), json.dumps(ex["plans"], sort_keys=True)) if len(ex["invs"]) >= 2 else None)
            ctx.count("step.unreadable_record")
    if prop == "C13":
        # a poll whose returned state cannot be serialized fails the call durably (oracle-only: not in the model)
        for i in range(ctx.scale(30, 600)):
            k = ctx.rng.randrange(1, 4)
            checks = [{"ok": ctx.rng.choice(["s", "i5", "t"])} for _ in range(k - 1)] + [{"ok": "!set"}]
            script = [{"op": "wfc", "init": "s", "check": checks, "decide": [ctx.rng.choice([1, 2])] * (k - 1) + [None], "catch": True},
                      {"op": "wait", "secs": 1}, {"op": "step", "body": [{"ok": "s"}], "amo": False,
                                                   "retry": {"max": 1, "delays": [], "noretry": []}, "catch": True}]
            if ctx.rng.random() < 0.5:
                script = [{"op": "child", "body": script[:1], "limit": 200, "summary": "", "catch": True}] + script[1:]
            ex = E.run_execution(script, ctx.rng.randrange(1 << 30), crash_p=0.0, fault_p=0.0)
            run_oracles(ctx, ex, "engine.unserializable_state", only_prop=prop)
            ctx.case((json.dumps(script, sort_keys=True), json.dumps(ex["plans"], sort_keys=True)) if len(ex["invs"]) >= 2 else None)
            ctx.count("wfc.unserializable")
    if prop in ("C04", "C12"):
        # an execution woken for another reason (a callback completes) while a retry is still pending - close to its due
        # time: the step is not attempted before the backend has made it READY and its START is recorded
        for i in range(ctx.scale(20, 400)):
            amo = ctx.rng.random() < 0.8
            d = ctx.rng.choice([0, 1, 1, 3])
            st_ = {"op": "step", "body": [{"err": {"cls": "Flaky", "msg": "f"}}, {"ok": "s"}], "amo": amo,
                   "retry": {"max": 3, "delays": [d], "noretry": []}, "catch": True}
            script = [{"op": "cbnew", "slot": 0}, st_, {"op": "cbres", "slot": 0, "catch": True}]
            if ctx.rng.random() < 0.3:
                script = script + [{"op": "step", "body": [{"ok": "t"}], "amo": False, "retry": {"max": 1, "delays": [], "noretry": []}, "catch": True}]
            plans = [{"imm": [], "page_size": ctx.rng.choice([None, 1])} for _ in range(8)]
            if ctx.rng.random() < 0.5:
                plans[2]["crash_tick"] = ctx.rng.randrange(0, 4)     # the attempt made once the retry is ready dies
            events = [[("callbackDone", [1], {"k": "succeeded", "v": "R:ok"})], [("retryReady", [2], None)], [("retryReady", [2], None)],
                      [("retryReady", [2], None)], [], [], [], []]
            one(ctx, script, ctx.rng.randrange(1 << 30), prop, component="engine.early_wakeup", plans=plans, events=events)
            ctx.count("early_wakeup")
    if prop in ("C08", "C01", "C11"):
        # a call that is rejected before anything is recorded (an invoke whose payload the serializer refuses, caught by
        # user code) still occupies its position: what follows keeps its identity in every later invocation
        # (oracle-only: rejected payloads are not in the model)
        for i in range(ctx.scale(30, 600)):
            step = lambda tok: {"op": "step", "body": [{"ok": tok}], "amo": False, "retry": {"max": 1, "delays": [], "noretry": []}, "catch": True}  # noqa: E731
            bad = {"op": "invoke", "payload": "!set", "catch": True}
            pre = [step("s")] if ctx.rng.random() < 0.4 else []
            script = pre + [bad, step("i5"), {"op": "wait", "secs": 1}, step("t")]
            if ctx.rng.random() < 0.4:
                script = script + [{"op": "wait", "secs": 1}, step("s")]
            if ctx.rng.random() < 0.4:
                script = [{"op": "child", "body": script[:len(pre) + 2], "limit": 200, "summary": "", "catch": True}] + script[len(pre) + 2:]
            ex = E.run_execution(script, ctx.rng.randrange(1 << 30), crash_p=0.0, fault_p=0.0)
            run_oracles(ctx, ex, "engine.rejected_invoke", only_prop=prop)
            ctx.case((json.dumps(script, sort_keys=True), json.dumps(ex["plans"], sort_keys=True)) if len(ex["invs"]) >= 2 else None)
            ctx.count("invoke.rejected_payload")
    if prop == "C08":
        # nested contexts that fail: the FAIL of an inner context names the enclosing context as its parent, like its START
        # (seeded C08-8; judged by the oracles alone)
        for i in range(ctx.scale(12, 120)):
            bad = {"op": "step", "body": [{"err": {"cls": "Boom", "msg": "x"}}], "amo": False,
                   "retry": {"max": 1, "delays": [], "noretry": []}, "catch": False}
            ok = {"op": "step", "body": [{"ok": ctx.rng.choice(["s", "i5", "t"])}], "amo": False,
                  "retry": {"max": 1, "delays": [], "noretry": []}, "catch": True}
            inner = {"op": "child", "body": ([ok] if i % 2 else []) + [bad], "limit": 200, "summary": "", "catch": bool(i % 3)}
            script = [{"op": "child", "body": ([ok] if i % 4 < 2 else []) + [inner], "limit": 200, "summary": "", "catch": True}, ok]
            ex = E.run_execution(script, ctx.rng.randrange(1 << 30), crash_p=0.0, fault_p=0.0, max_inv=4)
            run_oracles(ctx, ex, "engine.nested_fail", only_prop=prop)
            ctx.case(json.dumps(script, sort_keys=True))
            ctx.count("context.nested_fail")
    if prop == "C13":
        # a user-supplied serializer with its own format: poll n+1 receives exactly what poll n returned, over several
        # invocations (oracle-only; judged on the states the check function was actually handed)
        for i in range(ctx.scale(25, 500)):
            k = ctx.rng.randrange(2, 5)
            toks = [ctx.rng.choice(["s", "i5", "t", "d", "lst", "dto", "uni"]) for _ in range(k)]
            script = [{"op": "wfc", "init": ctx.rng.choice(["z", "s"]), "check": [{"ok": t_} for t_ in toks],
                       "decide": [ctx.rng.choice([1, 2])] * (k - 1) + [None], "catch": True, "cserdes": True}]
            if i % 4 == 3:
                # the empty text state through a serializer that writes text as it is: empty recorded payloads
                script[0].update({"init": "e", "check": [{"ok": "e"}] * k, "cserdes": "raw"})
            if ctx.rng.random() < 0.5:
                script = [{"op": "child", "body": script, "limit": 2000, "summary": "", "catch": True}]
            ex = E.run_execution(script, ctx.rng.randrange(1 << 30), crash_p=0.0, fault_p=0.0)
            run_oracles(ctx, ex, "engine.custom_serdes", only_prop=prop)
            ctx.case((json.dumps(script, sort_keys=True), json.dumps(ex["plans"], sort_keys=True)) if len(ex["invs"]) >= 2 else None)
            ctx.count("wfc.custom_serdes")
    if prop == "C12":
        from harness import comp_strategy
        comp_strategy.run(ctx)
