"""Pure part of C09: ExecutionCounters / BatchResult.from_items vs Policy.lean, exhaustive on a small
grid plus a boundary grid where float and exact arithmetic could differ; the policy itself is also
evaluated directly on the implementation with exact rationals."""
from __future__ import annotations

from fractions import Fraction

PCTS = [None, 0, 10, 25, 33, 50, Fraction(25, 2), Fraction(665, 10), 100]


def mk_executor(n, cfg):
    from aws_durable_execution_sdk_python.concurrency.executor import ConcurrentExecutor
    from aws_durable_execution_sdk_python.concurrency.models import Executable
    from aws_durable_execution_sdk_python.lambda_service import OperationSubType

    class E(ConcurrentExecutor):
        def execute_item(self, child_context, executable):
            return None

    return E([Executable(i, None) for i in range(n)], None, cfg, OperationSubType.MAP, OperationSubType.MAP_ITERATION, "x-", None)


def impl_eval(n, s, f, mn, cnt, pct):
    from aws_durable_execution_sdk_python.concurrency.models import BatchItem, BatchItemStatus, BatchResult
    from aws_durable_execution_sdk_python.config import CompletionConfig

    p = None if pct is None else (int(pct) if Fraction(pct).denominator == 1 else float(pct))
    cfg = CompletionConfig(min_successful=mn, tolerated_failure_count=cnt, tolerated_failure_percentage=p)
    ex = mk_executor(n, cfg)
    ex.counters.success_count = s
    ex.counters.failure_count = f
    items = ([BatchItem(i, BatchItemStatus.SUCCEEDED, 1) for i in range(s)]
             + [BatchItem(s + i, BatchItemStatus.FAILED) for i in range(f)]
             + [BatchItem(s + f + i, BatchItemStatus.STARTED) for i in range(n - s - f)])
    br = BatchResult.from_items(items, cfg)
    return {"shouldComplete": ex.counters.should_complete(), "shouldContinue": ex.counters.should_continue(),
            "isComplete": ex.counters.is_complete(), "reason": br.completion_reason.value}


def exact_policy(n, s, f, mn, cnt, pct):
    """The property's policy with exact arithmetic (independent of the SDK and of the Lean model)."""
    min_eff = mn if mn else n
    no_tol = cnt is None and pct is None
    exceeded = (no_tol and f > 0) or (cnt is not None and f > cnt) or (pct is not None and n > 0 and Fraction(f * 100, n) > Fraction(pct))
    return (s + f == n) or (s >= min_eff) or exceeded, exceeded


def query(n, s, f, mn, cnt, pct):
    q = {"c": "policy.decide", "s": s, "f": f, "n": n}
    if mn is not None:
        q["min"] = mn
    if cnt is not None:
        q["count"] = cnt
    if pct is not None:
        fr = Fraction(pct)
        q["pctNum"], q["pctDen"] = fr.numerator, fr.denominator
    return q


def check_cases(ctx, cases, component):
    qs = [query(*c) for c in cases]
    answers = ctx.driver.ask_many(qs) if ctx.driver and ctx.driver.ok else [None] * len(qs)
    for c, q, a in zip(cases, qs, answers):
        n, s, f, mn, cnt, pct = c
        impl = impl_eval(*c)
        case = {"n": n, "s": s, "f": f, "min": mn, "count": cnt, "pct": None if pct is None else str(pct)}
        want, exceeded = exact_policy(*c)
        decided_early = impl["shouldComplete"] and s + f < n
        ctx.case((tuple(case.items())) if (mn is not None or cnt is not None or pct is not None) and decided_early else None)
        ctx.count("criteria=" + "".join(x for x, v in (("m", mn), ("c", cnt), ("p", pct)) if v is not None))
        # oracle 1: decision iff policy (exact)
        if impl["shouldComplete"] != want:
            ctx.violate("C09.decision_matches_policy", case, {"impl": impl["shouldComplete"], "policy": want}, component)
        # oracle 2: reported reason consistent with statuses + policy at decision states
        if impl["shouldComplete"]:
            r = impl["reason"]
            ok = True
            if r == "ALL_COMPLETED" and s + f != n:
                ok = False
            if r == "MIN_SUCCESSFUL_REACHED" and not (mn is not None and s >= mn and s + f != n):
                ok = False
            if r == "FAILURE_TOLERANCE_EXCEEDED" and not exceeded:
                ok = False
            if not ok:
                ctx.violate("C09.reason_consistent", case, {"reason": r, "statuses": {"succeeded": s, "failed": f, "started": n - s - f}}, component)
        if a is not None:
            got = {k: a.get(k) for k in ("shouldComplete", "shouldContinue", "isComplete", "reason")}
            if got != impl:
                ctx.disagree(component, case, impl, got, "counters/classifier differ from Policy.lean")
            else:
                ctx.traces_validated += 1
    if cases:
        ctx.sample({"case": dict(zip(("n", "s", "f", "min", "count", "pct"), [str(x) for x in cases[len(cases) // 2]]))}, limit=2)


def reason_cases(ctx, cases, component):
    """The classifier on its own: BatchResult._get_completion_reason(f, s, completed, total, cfg) vs Policy.reason,
    with counts that need not add up (completed != s + f: the method is static and takes them separately) and with
    completion_config None.  Domain of C09_reason_failure_iff / _no_failure / _min_sound / _failure_stable."""
    from aws_durable_execution_sdk_python.concurrency.models import BatchResult
    from aws_durable_execution_sdk_python.config import CompletionConfig

    qs = []
    for (n, s, f, comp, mn, cnt, pct, nocfg) in cases:
        q = query(n, s, f, mn, cnt, pct)
        q["c"] = "policy.reason"
        q["completed"] = comp
        q["noCfg"] = nocfg
        qs.append(q)
    answers = ctx.driver.ask_many(qs) if ctx.driver and ctx.driver.ok else [None] * len(qs)
    for c, a in zip(cases, answers):
        n, s, f, comp, mn, cnt, pct, nocfg = c
        cfg = None if nocfg else CompletionConfig(min_successful=mn, tolerated_failure_count=cnt,
                                                  tolerated_failure_percentage=None if pct is None else int(pct))
        r = BatchResult._get_completion_reason(failure_count=f, success_count=s, completed_count=comp,
                                               total_count=n, completion_config=cfg).value
        case = {"n": n, "s": s, "f": f, "completed": comp, "min": mn, "count": cnt,
                "pct": None if pct is None else str(pct), "noCfg": nocfg}
        ctx.case(tuple(case.items()) if r != "ALL_COMPLETED" else None)
        ctx.count("classifier=" + r)
        # oracle (independent of SDK and model): no failed item => never FAILURE_TOLERANCE_EXCEEDED;
        # MIN_SUCCESSFUL_REACHED only with a configured minimum that was met and unfinished items
        if nocfg and f > 0 and r != "FAILURE_TOLERANCE_EXCEEDED":
            # no configuration = no tolerance: the executor stops at the first failure, so must the reported reason
            ctx.violate("C09.reason_consistent", case, {"reason": r, "policy": "fail-fast without configuration"}, component)
        if (r == "FAILURE_TOLERANCE_EXCEEDED" and f == 0) or \
           (r == "MIN_SUCCESSFUL_REACHED" and (nocfg or mn is None or s < mn or comp == n)):
            ctx.violate("C09.reason_consistent", case, {"reason": r}, component)
        if a is not None:
            if a.get("reason") != r:
                ctx.disagree(component, case, {"reason": r}, {"reason": a.get("reason")}, "classifier differs from Policy.reason")
            else:
                ctx.traces_validated += 1


def reason_grid(nmax):
    for n in range(0, nmax + 1):
        for s in range(0, n + 1):
            for f in range(0, n + 1):
                for comp in range(0, n + 1):
                    yield (n, s, f, comp, None, None, None, True)
                    for mn in [None] + list(range(0, n + 2)):
                        for cnt in [None, 0, 1, n]:
                            for pct in (None, 0, 34, 50, 100):
                                yield (n, s, f, comp, mn, cnt, pct, False)


def grid(nmax):
    for n in range(0, nmax + 1):
        for s in range(0, n + 1):
            for f in range(0, n - s + 1):
                for mn in [None] + list(range(0, n + 2)):
                    for cnt in [None] + list(range(0, n + 1)):
                        for pct in PCTS:
                            yield (n, s, f, mn, cnt, pct)


def boundary(rng, k):
    """states exactly on a percentage boundary (f*100 == pct*n), where float evaluation is delicate."""
    out = []
    while len(out) < k:
        n = rng.choice([3, 7, 9, 12, 25, 40, 100, 200, 300, 700, 1000])
        pct = rng.randrange(0, 101)
        if (pct * n) % 100:
            continue
        f = pct * n // 100
        for df in (0, 1):
            if f + df <= n:
                s = rng.randrange(0, n - f - df + 1)
                out.append((n, s, f + df, rng.choice([None, None, 1, n]), None, pct))
    return out


def run(ctx, component="policy"):
    cases = list(grid(4 if not ctx.thorough else 7))
    check_cases(ctx, cases, component)
    if ctx.thorough:
        ctx.notes.append("policy grid n<=7 enumerated completely")
    else:
        ctx.notes.append("policy grid n<=4 enumerated completely")
    check_cases(ctx, boundary(ctx.rng, ctx.scale(300, 5000)), component + ".boundary")
    reason_cases(ctx, list(reason_grid(3 if not ctx.thorough else 5)), component + ".classifier")


def search(ctx):
    saved, ctx.driver = ctx.driver, None
    try:
        check_cases(ctx, list(grid(6)), "policy.search")
        check_cases(ctx, boundary(ctx.rng, 5000), "policy.search.boundary")
        reason_cases(ctx, list(reason_grid(4)), "policy.search.classifier")
    finally:
        ctx.driver = saved


def replay_case(ctx, case):
    pct = None if case.get("pct") in (None, "None") else Fraction(case["pct"])
    if "completed" in case:
        reason_cases(ctx, [(case["n"], case["s"], case["f"], case["completed"], case.get("min"), case.get("count"),
                            pct, bool(case.get("noCfg")))], "policy.replay.classifier")
        return
    check_cases(ctx, [(case["n"], case["s"], case["f"], case.get("min"), case.get("count"), pct)], "policy.replay")
