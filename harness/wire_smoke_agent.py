"""Fidelity check: real SDK codecs vs. the Lean Wire model (via the line-protocol driver)."""
import dataclasses, datetime, enum, json, os, random, subprocess, sys

from aws_durable_execution_sdk_python import lambda_service as ls
from aws_durable_execution_sdk_python import execution as ex

UTC = datetime.timezone.utc
EPOCH = datetime.datetime(1970, 1, 1, tzinfo=UTC)
DRIVER = "/tmp/w20/lean/.lake/build/bin/driver"
N = int(os.environ.get("N", "300"))
rnd = random.Random(int(os.environ.get("SEED", "20")))


def micros(dt):
    return (dt - EPOCH) // datetime.timedelta(microseconds=1)


class IllTyped(Exception):
    pass


def obj_json(o):
    """Model-object JSON encoding (snake_case attribute names). Raises IllTyped if a field holds a
    value outside its declared type (the only reachable case: an int in a datetime field)."""
    if o is None:
        return None
    if dataclasses.is_dataclass(o):
        out = {}
        for f in dataclasses.fields(o):
            v = getattr(o, f.name)
            if f.name.endswith("_timestamp"):
                if v is None:
                    out[f.name] = None
                elif isinstance(v, datetime.datetime):
                    out[f.name] = micros(v)
                else:
                    raise IllTyped(f"{f.name}={v!r}")
            else:
                out[f.name] = obj_json(v)
        return out
    if isinstance(o, enum.Enum):
        return o.value
    if isinstance(o, list):
        return [obj_json(x) for x in o]
    if isinstance(o, (str, bool, int)):
        return o
    raise IllTyped(repr(o))


def dv_json(v):
    """DV output encoding used by the driver."""
    if v is None:
        return None
    if isinstance(v, bool):
        return v
    if isinstance(v, str):
        return v
    if isinstance(v, int):
        return {"$i": v}
    if isinstance(v, datetime.datetime):
        return {"$ts": micros(v)}
    if isinstance(v, list):
        return [dv_json(x) for x in v]
    if isinstance(v, dict):
        return {"$o": [[k, dv_json(x)] for k, x in v.items()]}
    raise TypeError(repr(v))


outcomes = {"ok": 0, "ill-typed": 0, "raised": 0}
ill_examples = {}


def back(f):
    """Model-object JSON of f(); None when Python raises or builds an ill-typed object (model: none)."""
    try:
        r = obj_json(f())
        outcomes["ok"] += 1
        return r
    except IllTyped as e:
        outcomes["ill-typed"] += 1
        ill_examples.setdefault(str(e)[:40], 0)
        ill_examples[str(e)[:40]] += 1
        return None
    except Exception:  # Python raised: model says none
        outcomes["raised"] += 1
        return None


# ---------------------------------------------------------------- generators
STRS = ["", "a", "x y", "{}", "0", "null", "é é", 'q"uote\\', "Error", "line\nbreak"]


def s():
    return rnd.choice(STRS)


def opt(f, p=0.5):
    return f() if rnd.random() < p else None


float_bad = 0
float_tried = 0


def ts():
    """Any timezone-aware instant.  Half of the draws are exact milliseconds (incl. 0, +-1 ms), half
    have a sub-millisecond part (incl. instants inside epoch millisecond 0 and pre-epoch ones).
    `to_unix_millis` is exact integer floor division now, so nothing is rejected any more; we still
    count the draws on which Python would disagree with exact arithmetic (expected: 0):
      - to_unix_millis(dt) != floor(micros / 1000)
      - from_unix_millis(ms) is not exactly ms * 1000 microseconds (the remaining float step)."""
    global float_bad, float_tried
    if rnd.random() < 0.5:
        k = rnd.choice([0, 0, 1, -1, 999, 1000, rnd.randint(-10**12, 4 * 10**12),
                        rnd.randint(1_600_000_000_000, 1_900_000_000_000),
                        rnd.randint(2_147_483_648_000, 4 * 10**12)])
        m = k * 1000
    else:
        m = rnd.choice([1, 999, 1001, -1, -999, rnd.randint(0, 4 * 10**15),
                        rnd.randint(-10**15, 4 * 10**15),
                        rnd.randint(1_600_000_000_000_000, 1_900_000_000_000_000)])
    dt = EPOCH + datetime.timedelta(microseconds=m)
    float_tried += 1
    ms = ls.TimestampConverter.to_unix_millis(dt)
    if not (micros(dt) == m and ms == m // 1000
            and micros(ls.TimestampConverter.from_unix_millis(ms)) == ms * 1000):
        float_bad += 1
    return dt


def err():
    r = rnd.random()
    if r < 0.3:
        return ls.ErrorObject(None, None, None, None)
    if r < 0.4:
        return ls.ErrorObject(None, None, None, [])
    if r < 0.5:
        return ls.ErrorObject("", None, None, None)
    return ls.ErrorObject(opt(s), opt(s), opt(s), opt(lambda: [s() for _ in range(rnd.randint(0, 3))]))


def i():
    return rnd.choice([0, 1, -1, 3, 31622400, rnd.randint(-10**6, 10**12)])


def update():
    return ls.OperationUpdate(
        operation_id=s(), operation_type=rnd.choice(list(ls.OperationType)),
        action=rnd.choice(list(ls.OperationAction)), parent_id=opt(s), name=opt(s),
        sub_type=opt(lambda: rnd.choice(list(ls.OperationSubType))), payload=opt(s), error=opt(err),
        context_options=opt(lambda: ls.ContextOptions(rnd.random() < 0.5)),
        step_options=opt(lambda: ls.StepOptions(i())), wait_options=opt(lambda: ls.WaitOptions(i())),
        callback_options=opt(lambda: ls.CallbackOptions(i(), i())),
        chained_invoke_options=opt(lambda: ls.ChainedInvokeOptions(s(), opt(s))))


def operation(p=0.4):
    return ls.Operation(
        operation_id=s(), operation_type=rnd.choice(list(ls.OperationType)),
        status=rnd.choice(list(ls.OperationStatus)), parent_id=opt(s), name=opt(s),
        start_timestamp=opt(ts), end_timestamp=opt(ts),
        sub_type=opt(lambda: rnd.choice(list(ls.OperationSubType))),
        execution_details=opt(lambda: ls.ExecutionDetails(opt(s)), p),
        context_details=opt(lambda: ls.ContextDetails(rnd.random() < 0.5, opt(s), opt(err, 0.3)), p),
        step_details=opt(lambda: ls.StepDetails(i(), opt(ts), opt(s), opt(err)), p),
        wait_details=opt(lambda: ls.WaitDetails(opt(ts)), p),
        callback_details=opt(lambda: ls.CallbackDetails(s(), opt(s), opt(err)), p),
        chained_invoke_details=opt(lambda: ls.ChainedInvokeDetails(opt(s), opt(err)), p))


def inv_input():
    n = rnd.choice([0, 1, 2, 5])
    return ex.DurableExecutionInvocationInput(
        durable_execution_arn=s(), checkpoint_token=s(),
        initial_execution_state=ex.InitialExecutionState([operation() for _ in range(n)], s()))


def output():
    return ex.DurableExecutionInvocationOutput(
        status=rnd.choice(list(ex.InvocationStatus)), result=opt(s), error=opt(err))


# ---------------------------------------------------------------- cases
cases = []  # (command, object, expected dict)
for _ in range(N):
    u = update()
    cases.append(("wire.update", u, {
        "dict": dv_json(u.to_dict()),
        "back": back(lambda: ls.OperationUpdate.from_dict(u.to_dict()))}))
for j in range(N):
    o = operation(0.15 if j % 3 == 0 else 0.5)
    cases.append(("wire.operation", o, {
        "dict": dv_json(o.to_dict()),
        "back": back(lambda: ls.Operation.from_dict(o.to_dict())),
        "jdict": dv_json(o.to_json_dict()),
        "jback": back(lambda: ls.Operation.from_json_dict(o.to_json_dict()))}))
for _ in range(N):
    x = inv_input()
    cases.append(("wire.input", x, {
        "dict": dv_json(x.to_dict()),
        "back": back(lambda: ex.DurableExecutionInvocationInput.from_dict(x.to_dict())),
        "jdict": dv_json(x.to_json_dict()),
        "jback": back(lambda: ex.DurableExecutionInvocationInput.from_json_dict(x.to_json_dict()))}))
for _ in range(N):
    x = output()
    cases.append(("wire.output", x, {
        "dict": dv_json(x.to_dict()),
        "back": back(lambda: ex.DurableExecutionInvocationOutput.from_dict(x.to_dict()))}))

lines = "".join(json.dumps({"c": c, "obj": obj_json(o)}) + "\n" for c, o, _ in cases)
res = subprocess.run([DRIVER], input=lines.encode(), capture_output=True, timeout=120)
answers = [json.loads(l) for l in res.stdout.decode().split("\n") if l]
assert len(answers) == len(cases), (len(answers), len(cases), res.stderr[:500])

diffs = 0
stats = {}
for (c, o, exp), got in zip(cases, answers):
    for k, v in exp.items():
        key = f"{c}:{k}"
        st = stats.setdefault(key, [0, 0, 0])  # compared, diffs, of which expected null
        st[0] += 1
        if v is None:
            st[2] += 1
        if got.get(k, "<missing>") != v:
            diffs += 1
            st[1] += 1
            if diffs <= 5:
                print("DIFF", key, "\n  obj ", json.dumps(obj_json(o)), "\n  py  ", json.dumps(v),
                      "\n  lean", json.dumps(got.get(k, "<missing>")))
for k, (n, d, nul) in sorted(stats.items()):
    print(f"{k:22s} compared={n:4d} diffs={d:3d} (python result null/ill-typed/raised: {nul})")
print(f"timestamps drawn: {float_tried}, of which Python disagrees with exact integer arithmetic (would have been rejected before the fix; NOT rejected now): {float_bad}")
print(f"TOTAL DIFFS: {diffs}")

print(f"python decode outcomes: {outcomes}; ill-typed fields seen: {ill_examples}")

# ---------------------------------------------------------------- exactness hunt
# to_unix_millis is integer floor division for aware datetimes: both counts must be 0 everywhere.
to_ms, from_ms = ls.TimestampConverter.to_unix_millis, ls.TimestampConverter.from_unix_millis
hunt_bad = 0
for lo, hi, label in [(0, 10**12, "1970..2001"), (10**12, 1_099_511_627_776, "2001..2004-11"),
                      (1_099_511_627_776, 2_147_483_648_000, "2004-11..2038-01-19"),
                      (2_147_483_648_000, 4 * 10**12, "2038-01-19..2096"), (-10**12, 0, "1938..1970")]:
    bad = []
    for _ in range(20000):
        k = rnd.randint(lo, hi)
        dt = from_ms(k)
        if micros(dt) != k * 1000 or to_ms(dt) != k:
            bad.append((k, micros(dt), to_ms(dt)))
    hunt_bad += len(bad)
    print(f"hunt A [{label}]: exact-millisecond k with from_unix_millis inexact or "
          f"to_unix_millis(from_unix_millis(k)) != k: {len(bad)}/20000 {bad[:2]}")
for lo, hi, label in [(0, 4 * 10**15, "post-epoch"), (-10**15, 0, "pre-epoch")]:
    bad = []
    for _ in range(20000):
        m = rnd.randint(lo, hi)
        dt = EPOCH + datetime.timedelta(microseconds=m)
        if to_ms(dt) != m // 1000:
            bad.append((m, to_ms(dt), m // 1000))
    hunt_bad += len(bad)
    print(f"hunt B [{label}]: arbitrary-microsecond instants with to_unix_millis != floor(micros/1000): "
          f"{len(bad)}/20000 (micros, python, floor) {bad[:2]}")
print(f"HUNT MISMATCHES: {hunt_bad}")
sys.exit(1 if (diffs or hunt_bad or float_bad) else 0)
