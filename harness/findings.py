"""Known findings: each open entry of known_findings.json names a matcher below, a predicate on
the (minimised) failing case.  A violation is downgraded to KNOWN-FINDING only if the matcher of
an *open* entry of the same property accepts it; `fixed` entries match nothing."""
from __future__ import annotations

MATCHERS = {}


def matcher(name):
    def deco(f):
        MATCHERS[name] = f
        return f
    return deco


def match(prop: str, violation: dict, known: list[dict]):
    for k in known:
        if k.get("status") != "open" or k.get("property") != prop:
            continue
        m = MATCHERS.get(k.get("matcher", ""))
        if m is None:
            continue
        try:
            if m(violation):
                return k
        except Exception:
            continue
    return None


def _has_nonstr_key(m) -> bool:
    if not isinstance(m, dict):
        return False
    k = m.get("k")
    if k == "dict":
        return any(kk.get("k") in ("kint", "kbool", "knone", "kfloat") for kk, _ in m["kvs"]) or any(
            _has_nonstr_key(x) for _, x in m["kvs"])
    if k in ("list", "tuple"):
        return any(_has_nonstr_key(x) for x in m["xs"])
    if k == "batch":
        return any(_has_nonstr_key(it[2]) for it in m["items"])
    return False


@matcher("F9_nonstr_dict_key")
def _f9(v):
    return v["oracle"] == "C15.roundtrip_exact" and _has_nonstr_key(v["case"].get("value"))


@matcher("F7_min_successful_failfast_reason")
def _f7(v):
    c = v["case"] if "min" in v["case"] else v["detail"]
    return (v["oracle"] == "C09.reason_consistent" and c.get("min") is not None and c.get("count") is None
            and c.get("pct") in (None, "None") and c.get("f", 0) > 0 and v["detail"].get("reason") == "ALL_COMPLETED")


@matcher("F15_empty_or_allnone_dropped")
def _f15(v):
    return v["oracle"] == "C20.roundtrip_not_equal" and v["detail"].get("finding") in (
        "allnone_error_dropped", "empty_wait_details_dropped", "empty_chained_details_dropped")


def _has_epoch_ms0(o):
    if isinstance(o, dict):
        for k, x in o.items():
            if k.endswith("_timestamp") and isinstance(x, int) and 0 <= x < 1000:
                return True
            if _has_epoch_ms0(x):
                return True
    if isinstance(o, list):
        return any(_has_epoch_ms0(x) for x in o)
    return False


@matcher("F20_epoch_ms0_not_converted")
def _f20(v):
    return v["oracle"] == "C20.roundtrip_failed_or_ill_typed" and v["case"].get("variant") == "jback" and _has_epoch_ms0(v["case"].get("obj"))


def _script_has_failing_wfc(script):
    for st in script:
        if st["op"] == "wfc" and any("err" in o for o in st["check"]):
            return True
        if st["op"] == "child" and _script_has_failing_wfc(st["body"]):
            return True
    return False


def _f2_rewrite(s):
    import re
    return re.sub(r"E:([A-Za-z]+):([^:|]*):-", lambda m: m.group(0) if m.group(1) in ("CallableRuntimeError", "CallbackError", "StepInterruptedError", "ExecutionError")
                  else f"E:CallableRuntimeError:{m.group(2)}:{m.group(1)}", s)


@matcher("F2_wfc_first_failure_reraises_original")
def _f2(v):
    if v["oracle"] not in ("C02.observation_changed_on_replay", "C02.final_outcome_depends_on_interruptions", "C16.replayed_result_differs"):
        return False
    if not _script_has_failing_wfc(v["case"].get("script", [])):
        return False
    d = v["detail"]
    a, b = d.get("first", {}).get("outcome"), d.get("later", {}).get("outcome")
    if a is None or b is None:
        return False
    if "err" in a and "err" in b:
        same_type = b["err"]["etype"] == a["err"]["cls"] or (v["oracle"] == "C02.final_outcome_depends_on_interruptions" and b["err"]["etype"] is None)
        return b["err"]["cls"] == "CallableRuntimeError" and a["err"]["cls"] != "CallableRuntimeError" and same_type and b["err"]["msg"] == a["err"]["msg"]
    if "ok" in a and "ok" in b and isinstance(a["ok"], str) and isinstance(b["ok"], str):
        # observations are '|'-joined per statement; nested/long ones appear as digests (prefix + '#' + length).  The only
        # admissible difference is, per component, the error of a failing wait_for_condition in its two forms.
        pa, pb = a["ok"].split("|"), b["ok"].split("|")
        if len(pa) == len(pb) and pa != pb:
            def pair_ok(x, y):
                if x == y or _f2_rewrite(x) == y or (v["oracle"] == "C02.final_outcome_depends_on_interruptions" and _f2_rewrite(y) == x):
                    return True
                return ("#" in x and "#" in y and x.startswith("E:") and y.startswith("E:")
                        and (x.startswith("E:Ca") != y.startswith("E:Ca")))     # digests keep 4-8 leading characters
            if all(pair_ok(x, y) for x, y in zip(pa, pb)):
                return True
        if _f2_rewrite(a["ok"]) == b["ok"] or _f2_rewrite(a["ok"])[:8] == b["ok"][:8] and "#" in b["ok"]:
            return True
        # long observations are compared as digests (first 8 characters + length): the error of the failing condition leads
        if "#" in a["ok"] and "#" in b["ok"] and a["ok"].startswith("E:") and b["ok"].startswith("E:") and (
                a["ok"].startswith("E:Ca") != b["ok"].startswith("E:Ca")):
            return True
        # final outcomes of two runs of the same program: which of them last saw the failing wait_for_condition on its
        # first execution (original exception) rather than on a replay depends on where the interruptions fell
        return v["oracle"] == "C02.final_outcome_depends_on_interruptions" and _f2_rewrite(b["ok"]) == a["ok"]
    return False


@matcher("F12a_replay_status_from_first_page_only")
def _f12a(v):
    return v["oracle"] == "C17.replayed_log_emitted" and v["detail"].get("first_page_ops") == 1


@matcher("F12b_track_replay_skipped_when_operation_raises")
def _f12b(v):
    return v["oracle"] == "C17.new_log_suppressed" and bool(v["detail"].get("errors_delivered_before"))


@matcher("F2_path_divergence_rejected_update")
def _f2c(v):
    return v["oracle"] == "C11.backend_rejected_update" and _script_has_failing_wfc(v["case"].get("script", [])) and "program" in v["case"]


@matcher("F24_large_batch_straggler_replay")
def _f24(v):
    """Early-completed map/parallel whose (oversized) result was stored as a summary: a branch reported STARTED at
    decision time recorded its own terminal outcome before the batch's completion record; the replay rebuilds the
    result from the children and reports that branch SUCCEEDED/FAILED (and may change the completion reason).  Every
    other item must be unchanged."""
    if not v["oracle"].endswith(".replayed_batch_result_differs"):
        return False
    if not (v["case"].get("scenario") or {}).get("ckpt_limit"):
        return False
    a, b = v["detail"]["first"]["items"], v["detail"]["later"]["items"]
    if len(a) != len(b):
        return False
    changed = [(x, y) for x, y in zip(a, b) if x != y]
    return bool(changed) and all(x[1] == "STARTED" and y[1] in ("SUCCEEDED", "FAILED") and x[0] == y[0] for x, y in changed)


@matcher("F28_async_checkpoint_failure_then_suspend")
def _f28(v):
    """A call carrying only NON-BLOCKING updates (e.g. the START of a child context) fails, it is the last call of the
    invocation, and the handler then suspends without another synchronous checkpoint (Callback.result() of a callback
    started earlier): the wrapper's `except SuspendExecution` returns PENDING without looking at the failure."""
    d = v.get("detail") or {}
    return (v["oracle"] == "C06.success_or_pending_after_checkpoint_failure" and (d.get("end") or {}).get("end") == "suspended"
            and d.get("async_only") is True)
