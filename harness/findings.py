"""Known findings: each open entry of known_findings.json names a matcher below, a predicate on
the (minimised) failing case.  A violation is downgraded to KNOWN-FINDING only if the matcher of
an *open* entry of the same property accepts it; `fixed` entries match nothing."""
from __future__ import annotations

MATCHERS = {}


def matcher(name):
    def deco(f):
        MATCHERS[name] = f
        return f
    return deco


def match(prop: str, violation: dict, known: list[dict]):
    for k in known:
        if k.get("status") != "open" or k.get("property") != prop:
            continue
        m = MATCHERS.get(k.get("matcher", ""))
        if m is None:
            continue
        try:
            if m(violation):
                return k
        except Exception:
            continue
    return None
