"""C08 — operation identity.  Correspondence: Ident.pre (model) + real blake2b == the id the real
DurableContext computes; oracle: ids collected from real contexts are a function of the position,
injective, and parent links name the enclosing context."""
from __future__ import annotations

import hashlib
import json

META = {
    "rule": "random structural positions (depth 1-6, indices 0-3000 incl. 0, multi-digit and boundary values); "
            "a case is non-trivial when depth >= 2; distinct by path. Ids are produced by real DurableContext "
            "objects chained with create_child_context and by the real OrderedCounter.",
    "trusted_base": [
        "T5 blake2b treated as an injective, never-empty hash: hypothesis of C08_injective (collision resistance is not proved)",
        "python str(int) == Nat.toDigits 10 (tested on every case)",
    ],
    "assumptions": ["positions are call indices / branch indices as produced by the SDK's per-context counters"],
}


def H(s: str) -> str:
    return hashlib.blake2b(s.encode()).hexdigest()[:64]


def _mk_root():
    from aws_durable_execution_sdk_python.context import DurableContext, ExecutionContext
    from aws_durable_execution_sdk_python.state import ExecutionState

    st = ExecutionState("arn:test", "tok", {}, service_client=None)
    return DurableContext(state=st, execution_context=ExecutionContext("arn:test"))


def impl_ids(path):
    """ids of every prefix of `path`, computed by real contexts."""
    ctx = _mk_root()
    out = []
    for n in path:
        i = ctx._create_step_id_for_logical_step(n)
        out.append((ctx._parent_id, i))
        ctx = ctx.create_child_context(i)
    return out


def gen_path(rng):
    depth = rng.choice([1, 1, 2, 2, 3, 3, 4, 5, 6])
    pool = [0, 1, 2, 3, 9, 10, 11, 19, 99, 100, 101, 999, 1000, 2999]
    return [rng.choice(pool) if rng.random() < 0.7 else rng.randrange(0, 3000) for _ in range(depth)]


def check_paths(ctx, paths, component="ident"):
    table = {}
    queries = []
    meta = []
    for path in paths:
        ids = impl_ids(path)
        for k, (par, i) in enumerate(ids):
            pos = tuple(path[: k + 1])
            prev = table.get(pos)
            if prev is not None and prev != (par, i):
                ctx.violate("C08.function_of_position", {"path": list(pos)}, {"first": prev, "second": (par, i)}, component)
            table[pos] = (par, i)
            queries.append({"c": "ident.pre", "parent": par, "n": path[k]})
            meta.append((pos, par, i))
        ctx.case(tuple(path) if len(path) >= 2 else None)
        ctx.count(f"depth={len(path)}")
        ctx.sample({"path": path, "id": ids[-1][1][:16] + "...", "parent": (ids[-1][0] or "")[:16]})
    answers = ctx.driver.ask_many(queries) if ctx.driver and ctx.driver.ok else [None] * len(queries)
    for q, a, (pos, par, i) in zip(queries, answers, meta):
        if a is None:
            continue
        if "pre" not in a or H(a["pre"]) != i:
            ctx.disagree(component, q, i, a, "impl id != blake2b(model pre-image)")
        else:
            ctx.traces_validated += 1
    # oracle: injectivity + parent link, on the implementation alone
    rev = {}
    for pos, (par, i) in table.items():
        if i in rev and rev[i] != pos:
            ctx.violate("C08.collision", {"paths": [list(rev[i]), list(pos)]}, {"id": i}, component)
        rev[i] = pos
        want_parent = table[pos[:-1]][1] if len(pos) > 1 else None
        if par != want_parent:
            ctx.violate("C08.parent_link", {"path": list(pos)}, {"parent": par, "expected": want_parent}, component)
    return table


def check_cross_process(ctx, prop="C08", component="ident.process"):
    """The id of a position is the same in every PROCESS: invocations of one execution run in different sandboxes, and
    Python salts `hash()` of strings per interpreter.  Two fresh interpreters with different hash seeds compute the ids of
    the same paths; they must agree with each other and with this process."""
    import os
    import subprocess
    import sys as _sys
    paths = [[1], [2, 1], [1, 1, 3], [3, 2, 1, 2], [10, 1]]
    code = ("import json,sys\n"
            "from harness.props.C08 import impl_ids\n"
            "print(json.dumps([impl_ids(p) for p in json.loads(sys.argv[1])]))\n")
    outs = []
    for hs in ("11", "12"):
        env = dict(os.environ, PYTHONHASHSEED=hs, PYTHONPATH=os.pathsep.join(p_ for p_ in _sys.path if p_))
        r = subprocess.run([_sys.executable, "-c", code, json.dumps(paths)], capture_output=True, text=True, timeout=120, env=env)
        if r.returncode != 0:
            ctx.disagree(component, {"paths": paths, "hashseed": hs}, r.stderr[-300:], None, "child interpreter failed")
            return
        outs.append(json.loads(r.stdout))
    here = [[list(x) for x in impl_ids(p_)] for p_ in paths]
    ctx.case(("cross-process",))
    ctx.count("ident.cross_process")
    for p_, a, b, c in zip(paths, outs[0], outs[1], here):
        if a != b or a != c:
            ctx.violate(f"{prop}.operation_id_differs_between_processes", {"path": p_, "hashseeds": [11, 12]},
                        {"seed11": a[-1], "seed12": b[-1], "this_process": c[-1]}, component)


def check_same_callable_parallel(ctx, component="ident.same_callable"):
    """`parallel([f, f, f])`: branch identity is the POSITION in the list, not the callable."""
    from harness.backend import FakeBackend
    from harness.engine_sim import run_invocation

    for k in (2, 3):
        def handler(event, context, k=k):
            def worker(c):
                return c.step(lambda s_: 1, name="w")
            fns = [worker] * k
            return context.parallel(fns, name="p:1").succeeded().__len__() if False else len(context.parallel(fns, name="p:1").all)
        backend = FakeBackend()
        run_invocation(handler, backend, {"imm": []}, seed=ctx.rng.randrange(1 << 30))
        ups = [u for t, us, o in backend.calls if o == "ok" for u in us]
        branches = {u["id"]: u for u in ups if u["type"] == "CONTEXT" and u["name"] != "p:1" and u["action"] == "START"}
        steps = [u for u in ups if u["type"] == "STEP" and u["action"] == "START"]
        ctx.case(("same-callable", k))
        ctx.count("ident.same_callable")
        if len(branches) != k or len({u["id"] for u in steps}) != k or any(u["parent"] not in branches for u in steps) \
                or len({u["parent"] for u in steps}) != k:
            ctx.violate("C08.positions_share_an_id", {"program": f"parallel([worker] * {k})"},
                        {"branch_ids": sorted(x[:8] for x in branches), "branch_names": sorted(str(b["name"]) for b in branches.values()),
                         "step_ids": sorted(u["id"][:8] for u in steps)}, component)


def check_counter(ctx, n):
    """The per-context counter hands out 1..n; ids equal the ids of logical steps 1..n."""
    root = _mk_root()
    got = [root._create_step_id() for _ in range(n)]
    want = [root._create_step_id_for_logical_step(k) for k in range(1, n + 1)]
    ctx.case(None)
    if got != want:
        ctx.violate("C08.counter_sequence", {"n": n}, {"got": got[:3], "want": want[:3]}, "ident.counter")
    child = root.create_child_context(got[0])
    got2 = [child._create_step_id() for _ in range(3)]
    want2 = [child._create_step_id_for_logical_step(k) for k in range(1, 4)]
    if got2 != want2:
        ctx.violate("C08.fresh_counter_per_context", {"n": 3}, {"got": got2, "want": want2}, "ident.counter")


def check_fresh_context_concurrent(ctx, n):
    """Two or three threads start the first operations of a FRESH context at the same time (the context's call counter is
    documented as thread-safe).  Every source line of context.py / threading.py is a scheduling point here."""
    from harness.sim import Sim, patched
    for it in range(n):
        seed = ctx.rng.randrange(1 << 30)
        sim = Sim(seed=seed, policy="pct" if seed % 3 == 0 else "random", max_points=20000, wall_limit=20)
        sim.line_points = lambda code: code.co_filename.endswith(("aws_durable_execution_sdk_python/context.py",
                                                                  "aws_durable_execution_sdk_python/threading.py"))
        k = ctx.rng.choice([2, 2, 3])
        got = {}
        with patched(sim):
            root = _mk_root()
            child = root.create_child_context(root._create_step_id())

            def worker(j):
                def f():
                    got[j] = child._create_step_id()
                return f

            def main():
                ths = [sim.Thread(target=worker(j), name=f"w{j}") for j in range(k)]
                for t in ths:
                    t.start()
                for t in ths:
                    t.join()
            sim.stop_when_main_done = False
            sim.run(main)
            want = sorted(child._create_step_id_for_logical_step(j) for j in range(1, k + 1))
        ctx.case(("fresh", seed))
        ctx.count("ident.fresh_concurrent")
        if sim.hung or sim.limit_hit:
            ctx.violate("C08.counter_wedged", {"threads": k, "seed": seed, "decisions": list(sim.decisions)}, {"hung": sim.hung}, "ident.fresh", kind="schedule")
        elif sorted(got.values()) != want:
            ctx.violate("C08.concurrent_first_operations_share_an_id", {"threads": k, "seed": seed, "decisions": list(sim.decisions)},
                        {"got": sorted(got.values()), "want": want}, "ident.fresh", kind="schedule")


def run(ctx):
    check_cross_process(ctx)
    check_same_callable_parallel(ctx)
    check_fresh_context_concurrent(ctx, ctx.scale(120, 3000))
    n = ctx.scale(400, 8000)
    paths = [gen_path(ctx.rng) for _ in range(n)]
    # small exhaustive scope first
    paths = [[a] for a in range(0, 12)] + [[a, b] for a in range(0, 6) for b in range(0, 6)] + paths
    check_paths(ctx, paths)
    check_counter(ctx, 25)
    # decimal vs str
    qs = [{"c": "ident.decimal", "n": k} for k in list(range(0, 120)) + [ctx.rng.randrange(0, 10**12) for _ in range(200)]]
    if ctx.driver and ctx.driver.ok:
        for q, a in zip(qs, ctx.driver.ask_many(qs)):
            ctx.evaluations += 1
            if a.get("s") != str(q["n"]):
                ctx.disagree("ident.decimal", q, str(q["n"]), a)
    # whole executions of map/parallel: the id of a position is the same in every run of a branch (in-process
    # re-submission by the timer, replay in a later invocation) and no id serves two positions
    from harness import comp_executor
    comp_executor.run_prop(ctx, "C08", n_quick=80, n_thorough=2000)
    # the same with line-level scheduling points inside the id-deriving functions (shared executor context)
    for i in range(ctx.scale(80, 2000)):
        sc = comp_executor.gen_scenario0(ctx.rng, zero_p=0.0)
        sc["fine"] = True
        comp_executor.one(ctx, "C08", sc, ctx.rng.randrange(1 << 30), component="executor.fine")
    # sequential workflows over several invocations: ids and parent links of every update actually sent
    # (retries, failures, replays), compared with the engine model as well
    from harness import comp_engine
    comp_engine.run(ctx, "C08", n_quick=150, n_thorough=3000)
    comp_engine.extra(ctx, "C08")


def search(ctx):
    paths = [gen_path(ctx.rng) for _ in range(20000)]
    saved = ctx.driver
    ctx.driver = None
    try:
        check_paths(ctx, paths, component="ident.search")
    finally:
        ctx.driver = saved


def replay(ctx, rec):
    case = rec["case"]
    if "blocks" in (case.get("scenario") or {}):
        from harness import comp_executor
        comp_executor.replay(ctx, rec, "C08")
        return
    if "script" in case:
        from harness import comp_engine
        comp_engine.replay(ctx, rec, "C08")
        return
    if "hashseeds" in case:
        check_cross_process(ctx)
    elif "program" in case:
        check_same_callable_parallel(ctx)
    elif "paths" in case:
        check_paths(ctx, case["paths"])
    elif "path" in case:
        check_paths(ctx, [case["path"]])
    elif "n" in case:
        check_counter(ctx, case["n"])
