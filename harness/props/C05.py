"""C05 — checkpoint stream.  The real ExecutionState batcher runs under the deterministic simulator
with 1-4 producer threads; its primitive events are mapped to the model's actions and replayed
through Batcher.step (trace inclusion), the API call log and per-caller outcomes are compared, and
the property is evaluated directly on the real call log."""
from __future__ import annotations

from harness import batcher_sim as B

META = {
    "rule": "scenarios = (limits {150..100000 B, 1..10 ops, window 0..1 s}) x 1-4 producers x 1-4 updates each "
            "(sizes incl. oversize, sync/async, empty checkpoints) x seeded schedules; non-trivial = >= 2 successful API "
            "calls and a batch with >= 2 updates or the overflow queue used; distinct by (scenario, decisions)",
    "trusted_base": [
        "T4 queue.Queue/Event/Lock atomicity and wake-up (implemented by the simulator shims)",
        "harness/batcher_sim.derive_actions: mapping of primitive events of state.py to model actions",
        "time is abstracted in the model (the batching window may end at any moment); the simulator's virtual clock picks one timing per schedule",
    ],
    "assumptions": ["max_batch_operations >= 1", "liveness is claimed while stop_checkpointing has not been signalled with a synchronous caller pending"],
}

# past failures / witnesses, always run first
CORPUS = [
    # F3 (fixed): oversize sync update behind a non-empty batch
    {"cfg": {"maxBytes": 300, "maxOps": 10, "window": 0.3},
     "producers": [[{"pad": 5, "sync": False, "empty": False}, {"pad": 1000, "sync": True, "empty": False},
                    {"pad": 5, "sync": False, "empty": False}]], "fault": None, "stop": "end"},
    {"cfg": {"maxBytes": 300, "maxOps": 2, "window": 1.0},
     "producers": [[{"pad": 5, "sync": False, "empty": False}], [{"pad": 1200, "sync": True, "empty": False}],
                   [{"pad": 200, "sync": True, "empty": False}, {"pad": 250, "sync": True, "empty": False}]], "fault": None, "stop": "end"},
]


def one(ctx, sc, seed, schedule=None, component="batcher", prop="C05"):
    res = B.run_scenario(sc, schedule=schedule, seed=seed)
    B.oracles(ctx, prop, sc, res, component)
    ok = B.compare(ctx, sc, res, component)
    nt = B.nontrivial_c05(sc, res) if prop == "C05" else B.nontrivial_c06(sc, res)
    ctx.case((repr(sc), tuple(res["decisions"])) if nt else None)
    ctx.count(f"producers={len(sc['producers'])}")
    ctx.count(f"calls={min(len(res['calls']), 5)}")
    for a in res["acts"]:
        if a[0] in ("drainTake", "drainPutBack", "apiFail", "apiFailAfterApply", "failMainOne", "failOvOne"):
            ctx.count("act:" + a[0])
    ctx.sample({"scenario": sc, "calls": res["calls"][:4], "acts": [a[0] for a in res["acts"]][:30]}, limit=3)
    return res


def run(ctx):
    for sc in CORPUS:
        for seed in range(ctx.scale(6, 60)):
            one(ctx, sc, seed, component="batcher.corpus")
    for i in range(ctx.scale(1200, 12000)):
        sc = B.gen_scenario(ctx.rng, with_fault=False)
        one(ctx, sc, ctx.rng.randrange(1 << 30))
    # last sentence of C05 ("released ... or with the failure - and never blocks forever"): a share of
    # fault plans (the full fault exploration is C06's)
    for i in range(ctx.scale(300, 3000)):
        sc = B.gen_scenario(ctx.rng, with_fault=True)
        one(ctx, sc, ctx.rng.randrange(1 << 30), component="batcher.fault")


def search(ctx):
    saved, ctx.driver = ctx.driver, None
    try:
        for i in range(1500):
            sc = B.gen_scenario(ctx.rng, with_fault=False)
            one(ctx, sc, ctx.rng.randrange(1 << 30), component="batcher.search")
            if ctx.violations:
                break
    finally:
        ctx.driver = saved


def replay(ctx, rec):
    case = rec["case"]
    one(ctx, case["scenario"], 0, schedule=case.get("decisions"), component="batcher.replay")
