"""C10 — nothing is recorded under a context after that context has completed.

Two components:
  * orphan filter: the locked section of ExecutionState.create_checkpoint + _mark_orphans, run on random update
    sequences (forests, re-parenting, cycles in recorded links, unknown/falsy parents, repeated completions)
    and compared with the Lean model Orphan.step (accepted flags, _parent_done, _completed_contexts);
    the C10 oracle is evaluated on the implementation for the *well-formed* sequences the SDK itself produces
    (every id always announces the same parent, parents first) - the hypotheses of C10_nothing_after_completion_wellformed;
  * executor: map/parallel with early completion on the real SDK under the simulator; nothing from a descendant
    is handed over / reaches the backend after the completion record of its context, and no user function of a
    step starts in an orphaned branch after that record (harness/comp_executor.py).
"""
from __future__ import annotations

import json

from harness import comp_executor

META = {
    "rule": "orphan filter: seeded update sequences over 3-10 ids (85% forest-shaped, 6% re-parented, cycles/self loops in recorded links, "
            "unknown and falsy parents, repeated completions, RETRY); non-trivial = at least one completion accepted and at least one "
            "update rejected afterwards; executor: map/parallel scenarios with min_successful/tolerance early completion, blocking "
            "and sleeping branches, seeded schedules; distinct by (sequence) / (scenario, seed)",
    "trusted_base": ["T4 threading primitives as implemented by the simulator (executor component)",
                     "T3 backend contract B1-B7 (harness/backend.py)",
                     "the orphan-filter component calls create_checkpoint(is_sync=False) with no background thread: only the locked section runs"],
    "assumptions": ["operation ids are opaque; the harness maps them to numbers",
                    "the C10 oracle on the filter is evaluated on well-formed sequences (stable parents, parent-first); arbitrary "
                    "sequences are compared with the model only (C10_nothing_after_completion_full is false, witnesses ce1-ce3)"],
}


def sid(n):
    return f"op-{n}"


def gen(rng, wellformed):
    n = rng.randint(3, 10)
    ids = list(range(1, n + 1))
    parent = {i: (rng.choice([None] + ids[: i - 1]) if i > 1 and rng.random() < 0.85 else None) for i in ids}
    typ = {}
    for i in ids:
        has_child = any(parent[k] == i for k in ids)
        typ[i] = "CONTEXT" if has_child or rng.random() < 0.3 else "STEP"
    recorded = {}
    mode = rng.random()
    for i in ids:
        if rng.random() < (0.0 if mode < 0.3 else 0.45):
            p = parent[i]
            if not wellformed and rng.random() < 0.08:
                p = rng.choice(ids + [None, 77])
            recorded[i] = (p, typ[i])
    if wellformed:
        # loaded histories are parent-closed: a recorded operation's ancestors are recorded too
        for i in sorted(recorded, reverse=True):
            p = parent[i]
            while p is not None and p not in recorded:
                recorded[p] = (parent[p], typ[p])
                p = parent[p]
    updates = []
    announced = set(recorded)
    for _ in range(rng.randint(5, 22)):
        i = rng.choice(ids)
        p = parent[i]
        if wellformed:
            if p is not None and p not in announced:
                i, p = p, parent[p]            # parents first
                if p is not None and p not in announced:
                    continue
        else:
            r = rng.random()
            if r < 0.06:
                p = rng.choice(ids)
            elif r < 0.10:
                p = None
            elif r < 0.13:
                p = 90 + rng.randint(0, 2)
            elif r < 0.15:
                p = ""
        t = typ[i] if wellformed or rng.random() < 0.93 else rng.choice(["CONTEXT", "STEP"])
        a = rng.choice(["START", "SUCCEED", "FAIL", "SUCCEED"] + (["RETRY"] if t == "STEP" else []))
        announced.add(i)
        updates.append((i, p, t, a))
    return recorded, updates


def run_python(recorded, updates):
    from aws_durable_execution_sdk_python.exceptions import OrphanedChildException
    from aws_durable_execution_sdk_python.lambda_service import Operation, OperationAction, OperationStatus, OperationType, OperationUpdate
    from aws_durable_execution_sdk_python.state import ExecutionState

    ops = {}
    for i, (p, t) in recorded.items():
        ops[sid(i)] = Operation(operation_id=sid(i), operation_type=OperationType[t], status=OperationStatus.STARTED,
                                parent_id=None if p is None else sid(p))
    # the filter does not depend on whether the invocation is still replaying its history: half of the cases run in
    # REPLAY mode (a later invocation), chosen by the case itself so that a replay file reproduces it
    from aws_durable_execution_sdk_python.state import ReplayStatus
    st = ExecutionState("arn", "tok", ops, service_client=None,
                        replay_status=ReplayStatus.REPLAY if (len(updates) + len(recorded)) % 2 else ReplayStatus.NEW)
    acc = []
    for i, p, t, a in updates:
        pid = None if p is None else ("" if p == "" else sid(p))
        u = OperationUpdate(operation_id=sid(i), operation_type=OperationType[t], action=OperationAction[a], parent_id=pid)
        try:
            st.create_checkpoint(u, is_sync=False)
            acc.append(True)
        except OrphanedChildException:
            acc.append(False)
    num = lambda s: int(s.split("-")[1])  # noqa: E731
    queued = st._checkpoint_queue.qsize()  # noqa: SLF001
    return {"accepted": acc, "done": sorted(num(x) for x in st._parent_done),  # noqa: SLF001
            "completed": sorted(num(x) for x in st._completed_contexts), "queued": queued}  # noqa: SLF001


def to_case(recorded, updates):
    return {"c": "orphan.run", "recorded": [[p, i] for i, (p, _) in recorded.items() if p is not None],
            "updates": [{"id": i, "parent": None if (p is None or p == "") else p, "ctx": t == "CONTEXT",
                         "completes": a in ("SUCCEED", "FAIL")} for i, p, t, a in updates]}


def oracle(ctx, recorded, updates, res, component):
    """C10 on the implementation: after an accepted completion of context c, no update of a (strict) descendant of c
    - in the tree known at that update - is accepted."""
    links = {(p, i) for i, (p, _) in recorded.items() if p is not None}
    dead = []            # contexts with an accepted completion
    for k, ((i, p, t, a), ok) in enumerate(zip(updates, res["accepted"])):
        if p not in (None, ""):
            links.add((p, i))
        if ok:
            # ancestors of i through known links
            anc, frontier = set(), {i}
            while frontier:
                nxt = {q for (q, c) in links if c in frontier and q not in anc}
                anc |= nxt
                frontier = nxt
            anc.discard(i)
            hit = [c for c in dead if c in anc]
            if hit:
                ctx.violate("C10.update_accepted_under_completed_context", {"recorded": sorted(map(list, [(p_, i_) for i_, (p_, _) in recorded.items() if p_ is not None])),
                                                                          "updates": [list(u) for u in updates]},
                            {"at": k, "update": [i, p, t, a], "completed_ancestors": hit}, component, kind="input")
                return
            if t == "CONTEXT" and a in ("SUCCEED", "FAIL"):
                dead.append(i)
    if res["queued"] != sum(res["accepted"]):
        ctx.violate("C10.accepted_flag_and_queue_disagree", {"updates": [list(u) for u in updates]}, {"queued": res["queued"], "accepted": sum(res["accepted"])},
                    component, kind="input")


def filter_part(ctx, n, component="orphan"):
    scen = [gen(ctx.rng, wellformed=(k % 2 == 0)) for k in range(n)]
    py = [run_python(r, u) for r, u in scen]
    for k, ((r, u), res) in enumerate(zip(scen, py)):
        if k % 2 == 0:
            oracle(ctx, r, u, res, component)
        rejected_after_completion = bool(res["completed"]) and (False in res["accepted"])
        ctx.case(json.dumps(to_case(r, u), sort_keys=True) if rejected_after_completion else None)
        ctx.count("orphan.wellformed" if k % 2 == 0 else "orphan.arbitrary")
        ctx.count("orphan.rejected=%d" % min(res["accepted"].count(False), 5))
    if ctx.driver and ctx.driver.ok:
        outs = ctx.driver.ask_many([to_case(r, u) for r, u in scen])
        for (r, u), res, m in zip(scen, py, outs):
            if m.get("accepted") != res["accepted"] or m.get("done") != res["done"] or m.get("completed") != res["completed"]:
                ctx.disagree(component, to_case(r, u), {k: res[k] for k in ("accepted", "done", "completed")},
                             {k: m.get(k) for k in ("accepted", "done", "completed", "error")}, "orphan filter differs from Orphan.runAll")
            else:
                ctx.traces_validated += 1
    if len(ctx.samples) < 2 and scen:
        ctx.sample({"case": to_case(*scen[0]), "python": py[0]})


def run_concurrent(ctx, parent, threads, seed, schedule=None, component="orphan.concurrent"):
    from harness.sim import Sim, patched
    ids = sorted(i for i in parent if i < 100)
    ctxs = sorted({p for p in parent.values() if p is not None})
    closer = threads[0][0][0]

    def anc(i):
        out = []
        while parent.get(i) is not None:
            i = parent[i]
            out.append(i)
        return out
    under = [i for i in parent if closer in anc(i)]
    sim = Sim(schedule=schedule, seed=seed, policy="pct" if seed % 3 == 0 and not schedule else "random", max_points=20000, wall_limit=20)
    order, accepted = [], []
    with patched(sim):
        from aws_durable_execution_sdk_python.exceptions import OrphanedChildException
        from aws_durable_execution_sdk_python.lambda_service import OperationAction, OperationType, OperationUpdate
        from aws_durable_execution_sdk_python.state import ExecutionState
        from aws_durable_execution_sdk_python.state import ReplayStatus
        st = ExecutionState("arn", "tok", {}, service_client=None, replay_status=ReplayStatus.REPLAY if seed % 2 else ReplayStatus.NEW)

        def worker(seq):
            def f():
                for i, a in seq:
                    u = OperationUpdate(operation_id=sid(i), operation_type=OperationType.CONTEXT if i in ctxs else OperationType.STEP,
                                        action=OperationAction[a], parent_id=None if parent[i] is None else sid(parent[i]))
                    try:
                        st.create_checkpoint(u, is_sync=False)
                        accepted.append((i, a))
                    except OrphanedChildException:
                        pass
            return f

        def main():
            worker([(i, "START") for i in ids])()       # everything that exists already was announced, parents first
            del accepted[:]
            while st._checkpoint_queue._q:              # noqa: SLF001  (those records are on their way already)
                st._checkpoint_queue._q.popleft()       # noqa: SLF001
            ths = [sim.Thread(target=worker(seq), name=f"w{k}") for k, seq in enumerate(threads)]
            for t in ths:
                t.start()
            for t in ths:
                t.join()
        sim.stop_when_main_done = False
        sim.run(main)
        order = [(int(q.operation_update.operation_id.split("-")[1]), q.operation_update.action.value) for q in list(st._checkpoint_queue._q)]  # noqa: SLF001
    case = {"parents": {str(k): v for k, v in parent.items()}, "threads": [[list(x) for x in t] for t in threads], "decisions": list(sim.decisions), "seed": seed}
    ctx.case(json.dumps(case["threads"]) + str(seed) if any(i in under for i, _ in order) and (closer, "SUCCEED") in order else None)
    ctx.count("orphan.concurrent")
    if sim.hung or sim.limit_hit:
        ctx.violate("C10.create_checkpoint_blocked", case, {"hung": sim.hung}, component, kind="schedule")
        return
    if (closer, "SUCCEED") in order:
        k0 = order.index((closer, "SUCCEED"))
        late = [x for x in order[k0 + 1:] if closer in anc(x[0])]
        if late:
            ctx.violate("C10.descendant_update_enqueued_after_completion", case, {"queue_order": order, "completed_context": closer, "after_it": late},
                        component, kind="schedule")


def concurrent_part(ctx, n, component="orphan.concurrent"):
    """Several threads call the real create_checkpoint (is_sync=False, no consumer) under the deterministic scheduler;
    the order in which the updates ENTER THE QUEUE is the order the backend will see: once a context's completion
    record is in the queue, nothing from its descendants may follow it (validation and hand-over must be one step)."""
    for it in range(n):
        rng = ctx.rng
        ids = list(range(1, rng.randint(4, 7)))
        parent = {i: (rng.choice(ids[: i - 1]) if i > 1 and rng.random() < 0.9 else None) for i in ids}
        ctxs = sorted({p for p in parent.values() if p is not None})
        if not ctxs:
            continue
        closer = rng.choice(ctxs)

        def anc(i):
            out = []
            while parent.get(i) is not None:
                i = parent[i]
                out.append(i)
            return out
        fresh = []
        for j in range(rng.randint(0, 3)):
            parent[100 + j] = rng.choice(ctxs)
            fresh.append(100 + j)
        under = [i for i in ids + fresh if closer in anc(i)]
        threads = [[(closer, "SUCCEED")]]
        pool = fresh[:]
        for _ in range(rng.randint(1, 3)):
            seq = []
            for _ in range(rng.randint(1, 3)):
                if pool and rng.random() < 0.4:
                    seq.append((pool.pop(), "START"))
                    continue
                old = [x for x in under if x < 100]
                i = rng.choice(old if old and rng.random() < 0.8 else ids)
                if i != closer:
                    seq.append((i, "SUCCEED"))
            if seq:
                threads.append(seq)
        run_concurrent(ctx, parent, threads, rng.randrange(1 << 30), component=component)


def run(ctx):
    concurrent_part(ctx, ctx.scale(400, 8000))
    filter_part(ctx, ctx.scale(1500, 30000))
    comp_executor.run_prop(ctx, "C10", n_quick=150, n_thorough=4000)
    # the narrow window: a queued branch started by a freed worker while the batch's completion record is in flight
    for i in range(ctx.scale(300, 6000)):
        comp_executor.one(ctx, "C10", comp_executor.gen_late_begin(ctx.rng), ctx.rng.randrange(1 << 30), component="executor.late_begin")
    # a later invocation that is still replaying when the batch is decided
    comp_executor.run_templates(ctx, "C10", [comp_executor.gen_replay_orphan], 60, 2000)


def search(ctx):
    saved, ctx.driver = ctx.driver, None
    try:
        filter_part(ctx, 4000, component="orphan.search")
    finally:
        ctx.driver = saved
    comp_executor.search(ctx, "C10")


def replay(ctx, rec):
    case = rec["case"]
    if "blocks" in (case.get("scenario") or {}):
        comp_executor.replay(ctx, rec, "C10")
        return
    if "threads" in case:
        run_concurrent(ctx, {int(k): v for k, v in case["parents"].items()}, [[tuple(x) for x in t] for t in case["threads"]], case.get("seed", 0),
                       schedule=case.get("decisions"), component="orphan.concurrent.replay")
        return
    recorded = {i: (p, "CONTEXT") for p, i in case.get("recorded", [])}
    updates = [tuple(u) for u in case["updates"]]
    res = run_python(recorded, updates)
    oracle(ctx, recorded, updates, res, "orphan.replay")
