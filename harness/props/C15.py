"""C15 — default serialization.  Type-directed generator over the accepted grammar (plus a separate
stream of non-string-key dicts and oversize ints); per value:
  * correspondence: json.loads(serialize(v)) == model ser(v) (as JSON AST, key order included) and
    deserialize(serialize(v)) == model deser(ser(v));
  * oracle on the implementation: typed deep equality of deserialize(serialize(v)) with v, or a
    serialization error (ExecutionError)."""
from __future__ import annotations

import base64
import datetime as dt
import json
import math
import uuid
from decimal import Decimal

META = {
    "rule": "type-directed random values of the C15 grammar (None,bool,int,float,str,bytes,UUID,Decimal,datetime,date,"
            "list,tuple,str-keyed dict,BatchResult), depth <= 6, with envelope look-alikes, empty containers, bool/int and "
            "date/datetime twins, non-finite floats, 100-4000 digit ints, lone surrogates; second stream: dicts with "
            "int/bool/None/float/tuple keys and ints beyond the interpreter's str-digit limit. Non-trivial = depth >= 2 or "
            "contains a non-JSON-native type; distinct by serialized text.",
    "trusted_base": [
        "T5 json.dumps/json.loads on JSON ASTs and the leaf codecs (base64, str(UUID)/UUID, str(Decimal)/Decimal, isoformat/fromisoformat, float repr) are modelled as identity on their text and only tested here",
        "dict values are modelled as ordered key/value lists (Python dict insertion order)",
    ],
    "assumptions": ["datetimes are naive or carry a fixed-offset tzinfo; bytearray/memoryview/enum subclasses are outside the property's grammar"],
}


# ----------------------------------------------------------------------------- protocol strings
def pstr(s: str) -> str:
    if s.isascii() and s.isprintable() and not s.startswith("~"):
        return s
    return "~" + s.encode("utf-8", "surrogatepass").hex()


def frepr(f: float) -> str:
    return repr(float(f))


def key_model(k):
    if isinstance(k, str):
        return {"k": "kstr", "s": pstr(k)}
    if isinstance(k, bool):
        return {"k": "kbool", "b": k}
    if isinstance(k, int):
        return {"k": "kint", "i": str(k)}
    if k is None:
        return {"k": "knone"}
    if isinstance(k, float):
        return {"k": "kfloat", "r": json.dumps(k)}  # the key text json.dumps emits (repr, or NaN/Infinity)
    return {"k": "ktuple"}


def to_model(v):
    from aws_durable_execution_sdk_python.concurrency.models import BatchResult

    if v is None:
        return {"k": "none"}
    if isinstance(v, bool):
        return {"k": "bool", "b": v}
    if isinstance(v, int):
        try:
            return {"k": "int", "i": str(v)}
        except ValueError:  # beyond the interpreter's int->str digit limit
            return {"k": "int", "i": "huge:" + hex(v)}
    if isinstance(v, float):
        return {"k": "float", "r": frepr(v)}
    if isinstance(v, str):
        return {"k": "str", "s": pstr(v)}
    if isinstance(v, (bytes, bytearray, memoryview)):
        return {"k": "bytes" if isinstance(v, bytes) else type(v).__name__, "s": base64.b64encode(bytes(v)).decode()}
    if isinstance(v, uuid.UUID):
        return {"k": "uuid", "s": str(v)}
    if isinstance(v, Decimal):
        return {"k": "decimal", "s": str(v)}
    if isinstance(v, dt.datetime):
        return {"k": "datetime", "s": v.isoformat()}
    if isinstance(v, dt.date):
        return {"k": "date", "s": v.isoformat()}
    if isinstance(v, list):
        return {"k": "list", "xs": [to_model(x) for x in v]}
    if isinstance(v, tuple):
        return {"k": "tuple", "xs": [to_model(x) for x in v]}
    if isinstance(v, dict):
        return {"k": "dict", "kvs": [[key_model(k), to_model(x)] for k, x in v.items()]}
    if isinstance(v, BatchResult):
        items = []
        for it in v.all:
            e = it.error
            em = None if e is None else {
                "message": None if e.message is None else pstr(e.message),
                "type": None if e.type is None else pstr(e.type),
                "data": None if e.data is None else pstr(e.data),
                "stack": None if e.stack_trace is None else [pstr(s) for s in e.stack_trace]}
            items.append([str(it.index), it.status.value, to_model(it.result), em])
        return {"k": "batch", "items": items, "reason": v.completion_reason.value}
    return {"k": "unsupported:" + type(v).__name__}


def json_canon(text: str):
    """json.loads with floats/ints kept as tokens and object key order preserved -> the driver's J form."""
    def conv(x):
        if isinstance(x, list) and x and isinstance(x[0], tuple) and x[0][0] == "$pairs":
            return {"$o": [[pstr(k), conv(v)] for k, v in x[1:]]}
        if isinstance(x, list):
            return [conv(y) for y in x]
        if isinstance(x, str):
            return pstr(x)
        return x
    obj = json.loads(
        text,
        parse_float=lambda s: {"$f": frepr(float(s))},
        parse_int=lambda s: {"$i": str(int(s))},
        parse_constant=lambda s: {"$f": frepr(float(s))},
        object_pairs_hook=lambda pairs: [("$pairs", None)] + list(pairs),
    )
    def fix(x):
        # dicts created by parse_* hooks are plain dicts; object_pairs_hook lists are tagged
        if isinstance(x, list) and x and isinstance(x[0], tuple) and x[0] == ("$pairs", None):
            return {"$o": [[pstr(k), fix(v)] for k, v in x[1:]]}
        if isinstance(x, list):
            return [fix(y) for y in x]
        if isinstance(x, str):
            return pstr(x)
        return x
    return fix(obj)


# ----------------------------------------------------------------------------- generators
SURR = "\ud800"
STRS = ["", "a", "t", "v", "hello", "é", "\u0000", "𝄞", "~x", 'q"uote', "back\\slash", "line\nbreak", SURR, "x" + SURR + "y"]


def gen_leaf(rng):
    k = rng.randrange(16)
    if k == 0:
        return None
    if k == 1:
        return rng.choice([True, False])
    if k == 2:
        return rng.choice([0, 1, -1, 2**31, -(2**63), 10**18, rng.randrange(-10**6, 10**6)])
    if k == 3:
        d = rng.choice([100, 400, 3999, 4000])
        return rng.choice([1, -1]) * (10 ** d + rng.randrange(10**6))
    if k == 4:
        return rng.choice([0.0, -0.0, 1.5, 1e22, 1e-7, 5e-324, 1.7976931348623157e308, float("inf"), float("-inf"), float("nan"), rng.random() * 10**rng.randrange(-5, 20)])
    if k == 5:
        return rng.choice(STRS)
    if k == 6:
        return rng.choice([b"", b"\x00\x01", bytes(rng.randrange(256) for _ in range(rng.randrange(1, 20)))])
    if k == 7:
        return uuid.UUID(int=rng.getrandbits(128))
    if k == 8:
        return rng.choice([Decimal("0"), Decimal("-0"), Decimal("1E+2"), Decimal("1.10"), Decimal("NaN"), Decimal("-Infinity"), Decimal("sNaN"), Decimal(rng.randrange(-10**9, 10**9)) / Decimal(10 ** rng.randrange(0, 12))])
    if k == 9:
        base = dt.datetime(rng.randrange(1, 9999), rng.randrange(1, 13), rng.randrange(1, 28), rng.randrange(24), rng.randrange(60), rng.randrange(60), rng.choice([0, 1, 999999, rng.randrange(10**6)]))
        tz = rng.choice([None, dt.UTC, dt.timezone(dt.timedelta(hours=5, minutes=30)), dt.timezone(dt.timedelta(seconds=-3723))])
        return base.replace(tzinfo=tz, fold=rng.choice([0, 0, 1]))
    if k == 10:
        return dt.date(rng.randrange(1, 9999), rng.randrange(1, 13), rng.randrange(1, 28))
    if k == 11:
        return rng.choice([[], (), {}])
    if k == 12:
        return rng.choice([1, True, 1.0, "1"])  # twins
    if k == 13:
        return rng.choice([dt.date(2024, 1, 1), dt.datetime(2024, 1, 1)])
    return rng.randrange(-5, 5)


def gen_error(rng):
    from aws_durable_execution_sdk_python.lambda_service import ErrorObject
    opts = [None, "", "boom", "ValueError"]
    while True:
        e = ErrorObject(message=rng.choice(opts), type=rng.choice(opts), data=rng.choice(opts),
                        stack_trace=rng.choice([None, [], ["f1", "f2"]]))
        if any(x is not None for x in (e.message, e.type, e.data, e.stack_trace)):
            return e


def gen_value(rng, depth):
    from aws_durable_execution_sdk_python.concurrency.models import BatchItem, BatchItemStatus, BatchResult, CompletionReason

    if depth <= 0 or rng.random() < 0.3:
        return gen_leaf(rng)
    k = rng.randrange(8)
    n = rng.randrange(0, 4)
    if k in (0, 1):
        return [gen_value(rng, depth - 1) for _ in range(n)]
    if k == 2:
        return tuple(gen_value(rng, depth - 1) for _ in range(n))
    if k in (3, 4):
        keys = rng.sample(["t", "v", "a", "b", "index", "all", "", "é", "~k", "ErrorType"], n)
        return {key: gen_value(rng, depth - 1) for key in keys}
    if k == 5:  # envelope look-alike
        return {"t": rng.choice(["s", "i", "m", "l", "br", "zz", 1, None]), "v": gen_value(rng, depth - 1)}
    if k == 6:
        items = []
        for i in range(n):
            st = rng.choice(list(BatchItemStatus))
            items.append(BatchItem(index=i, status=st,
                                   result=gen_value(rng, depth - 1) if st is BatchItemStatus.SUCCEEDED else None,
                                   error=gen_error(rng) if st is BatchItemStatus.FAILED and rng.random() < 0.9 else None))
        if len(items) > 1 and rng.random() < 0.4:
            rng.shuffle(items)       # a result re-arranged by user code (failed first, completion order): order is part of the value
        if items and rng.random() < 0.15:
            items = items + [BatchItem(index=items[0].index, status=items[0].status, result=items[0].result, error=items[0].error)]   # merged batches
        return BatchResult(all=items, completion_reason=rng.choice(list(CompletionReason)))
    return [gen_leaf(rng) for _ in range(n)]  # primitive-ish list (fast path candidates)


def gen_bad(rng):
    """Values outside the round-trip domain: the serializer must reject them or still reproduce them."""
    k = rng.randrange(6)
    inner = gen_value(rng, 1)
    if k == 0:
        return {rng.choice([1, 0, -7, 10**20]): inner}
    if k == 1:
        return {rng.choice([True, False]): inner, "x": 1}
    if k == 2:
        return {None: inner}
    if k == 3:
        return {rng.choice([1.5, float("nan"), 1e22]): inner}
    if k == 4:
        import datetime as _dt
        import uuid as _uuid
        from decimal import Decimal as _D
        bad_key = rng.choice([(1, 2), (1, 2), _uuid.UUID(int=5), b"k", _dt.date(2024, 1, 2), _dt.datetime(2024, 1, 2, 3, 4, 5),
                              _D("1.5"), frozenset({1})])
        d = {bad_key: inner}
        if rng.random() < 0.5:
            d["count"] = 1
        return d if rng.random() < 0.6 else [0, {"nested": d}]
    return [1, {"k": {2: "two"}}, 10 ** rng.choice([4300, 5000])]


def depth_of(m):
    if m["k"] in ("list", "tuple"):
        return 1 + max([depth_of(x) for x in m["xs"]] or [0])
    if m["k"] == "dict":
        return 1 + max([depth_of(x) for _, x in m["kvs"]] or [0])
    if m["k"] == "batch":
        return 2 + max([depth_of(x[2]) for x in m["items"]] or [0])
    return 0


def has_rich(m):
    if m["k"] in ("bytes", "uuid", "decimal", "datetime", "date", "tuple", "batch"):
        return True
    if m["k"] == "list":
        return any(has_rich(x) for x in m["xs"])
    if m["k"] == "dict":
        return any(has_rich(x) for _, x in m["kvs"])
    return False


# ----------------------------------------------------------------------------- one case
def run_impl(v):
    from aws_durable_execution_sdk_python.exceptions import ExecutionError
    from aws_durable_execution_sdk_python.serdes import deserialize, serialize

    try:
        text = serialize(None, v, "op", "arn")
    except ExecutionError as e:
        return {"reject": True, "msg": str(e)[:120]}
    try:
        back = deserialize(None, text, "op", "arn")
    except ExecutionError as e:
        return {"reject": False, "text": text, "deser_error": str(e)[:120]}
    return {"reject": False, "text": text, "back": back}


def check_value(ctx, v, component, compare_model=True, stream="good"):
    mv = to_model(v)
    impl = run_impl(v)
    case = {"value": mv, "stream": stream}
    # oracle on the implementation
    if not impl["reject"]:
        if "deser_error" in impl:
            ctx.violate("C15.accepted_value_not_deserializable", case, {"error": impl["deser_error"], "text": impl["text"][:200]}, component)
        else:
            mb = to_model(impl["back"])
            if mb != mv:
                ctx.violate("C15.roundtrip_exact", case, {"back": mb, "text": impl["text"][:300]}, component)
    nontriv = depth_of(mv) >= 2 or has_rich(mv)
    ctx.case(json.dumps(mv, sort_keys=True) if nontriv else None)
    ctx.count(("reject:" if impl["reject"] else "ok:") + stream)
    ctx.count("top=" + mv["k"])
    return mv, impl


def compare_with_model(ctx, batch, component):
    if not (ctx.driver and ctx.driver.ok):
        return
    qs = [{"c": "serdes.rt", "v": mv} for mv, _ in batch]
    for (mv, impl), a in zip(batch, ctx.driver.ask_many(qs)):
        case = {"value": mv}
        if a.get("echo") != mv:
            ctx.disagree(component + ".echo", case, mv, a.get("echo"), "protocol echo self-test failed (harness/driver glue)")
            continue
        if impl["reject"]:
            if a.get("ser") != "$reject":
                ctx.disagree(component, case, "reject", a.get("ser"), "implementation rejects, model accepts")
            else:
                ctx.traces_validated += 1
            continue
        if a.get("ser") == "$reject":
            ctx.disagree(component, case, impl.get("text", "")[:200], "$reject", "model rejects, implementation accepts")
            continue
        ij = json_canon(impl["text"])
        if ij != a.get("ser"):
            ctx.disagree(component, case, ij, a.get("ser"), "serialized JSON differs")
            continue
        if "back" in impl:
            mb = to_model(impl["back"])
            if mb != a.get("back"):
                ctx.disagree(component, case, mb, a.get("back"), "deserialized value differs")
                continue
        ctx.traces_validated += 1


CORPUS = [
    {"t": "s", "v": "user"}, {"t": 5, "v": None}, {"t": "br", "v": {"all": []}}, [{"t": "i", "v": 1}],
    [], (), {}, [[]], [()], ([],), {"": ""}, [1, [2, [3, [4]]]], [1, (2,)], True, 1, 1.0, [True, 1, 1.0, "1"],
    float("nan"), [float("inf"), float("-inf")], "\ud800", {"\ud800": "\udfff"}, 10**3999, -(10**4000),
    dt.date(2024, 1, 1), dt.datetime(2024, 1, 1), dt.datetime(2024, 1, 1, tzinfo=dt.UTC), b"", Decimal("sNaN"),
]


def run(ctx):
    batch = []
    for v in CORPUS:
        batch.append(check_value(ctx, v, "serdes", stream="corpus"))
    n = ctx.scale(1500, 40000)
    for i in range(n):
        v = gen_value(ctx.rng, ctx.rng.choice([1, 2, 3, 4, 6]))
        batch.append(check_value(ctx, v, "serdes"))
        if i < 3:
            ctx.sample({"value": batch[-1][0], "text": (batch[-1][1].get("text") or "")[:160]})
    for i in range(ctx.scale(300, 5000)):
        v = gen_bad(ctx.rng)
        batch.append(check_value(ctx, v, "serdes", stream="nonstr-key-or-huge"))
    # ints beyond the interpreter's limit are rejected by json.dumps itself; the model has no such limit
    batch = [(mv, impl) for mv, impl in batch if "huge:" not in json.dumps(mv)]
    compare_with_model(ctx, batch, "serdes")


def search(ctx):
    for i in range(30000):
        v = gen_value(ctx.rng, ctx.rng.choice([1, 2, 3, 4, 6]))
        check_value(ctx, v, "serdes.search")
        if len(ctx.violations) > 20:
            break


def from_model(m):
    """Rebuild a Python value from the protocol form (for replay)."""
    from aws_durable_execution_sdk_python.concurrency.models import BatchItem, BatchItemStatus, BatchResult, CompletionReason
    from aws_durable_execution_sdk_python.lambda_service import ErrorObject

    def us(s):
        return bytes.fromhex(s[1:]).decode("utf-8", "surrogatepass") if s.startswith("~") else s

    def key(k):
        return {"kstr": lambda: us(k["s"]), "kint": lambda: int(k["i"]), "kbool": lambda: k["b"], "knone": lambda: None,
                "kfloat": lambda: float(us(k["r"])),
                "ktuple": lambda: {"UUID": __import__("uuid").UUID(int=5), "bytes": b"k", "date": __import__("datetime").date(2024, 1, 2),
                                   "datetime": __import__("datetime").datetime(2024, 1, 2, 3, 4, 5),
                                   "Decimal": __import__("decimal").Decimal("1.5"), "frozenset": frozenset({1})}.get(k.get("as"), (1, 2))}[k["k"]]()

    k = m["k"]
    if k == "none":
        return None
    if k == "bool":
        return m["b"]
    if k == "int":
        return int(m["i"][5:], 16) if m["i"].startswith("huge:") else int(m["i"])
    if k == "float":
        return float(m["r"])
    if k == "str":
        return us(m["s"])
    if k == "bytes":
        return base64.b64decode(m["s"])
    if k == "uuid":
        return uuid.UUID(m["s"])
    if k == "decimal":
        return Decimal(m["s"])
    if k == "datetime":
        return dt.datetime.fromisoformat(m["s"])
    if k == "date":
        return dt.date.fromisoformat(m["s"])
    if k == "list":
        return [from_model(x) for x in m["xs"]]
    if k == "tuple":
        return tuple(from_model(x) for x in m["xs"])
    if k == "dict":
        return {key(kk): from_model(x) for kk, x in m["kvs"]}
    if k == "batch":
        items = []
        for idx, st, r, e in m["items"]:
            eo = None if e is None else ErrorObject(message=None if e["message"] is None else us(e["message"]),
                                                    type=None if e["type"] is None else us(e["type"]),
                                                    data=None if e["data"] is None else us(e["data"]),
                                                    stack_trace=None if e["stack"] is None else [us(s) for s in e["stack"]])
            items.append(BatchItem(index=int(idx), status=BatchItemStatus(st), result=from_model(r), error=eo))
        return BatchResult(all=items, completion_reason=CompletionReason(m["reason"]))
    raise ValueError(k)


def replay(ctx, rec):
    v = from_model(rec["case"]["value"])
    b = [check_value(ctx, v, "serdes.replay")]
    compare_with_model(ctx, b, "serdes.replay")
