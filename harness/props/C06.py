"""C06 — checkpoint failure is fail-stop (batcher layer; the invocation-level part runs with the
engine scenarios).  Same machinery as C05 with a fault plan: API call k raises, or is applied and
then the paginated fetch raises."""
from __future__ import annotations

from harness import batcher_sim as B
from harness.props import C05

META = {
    "rule": "C05 scenarios x fault plan (failing call index 0-3, kind raise | applied-then-raise) x seeded schedules; "
            "non-trivial = the fault hit while a producer was blocked on its event or between its check and its put; "
            "distinct by (scenario, decisions)",
    "trusted_base": C05.META["trusted_base"] + ["T3 a failed checkpoint call applies nothing unless the fault kind is applied-then-raise"],
    "assumptions": ["the client raises an Exception (not a BaseException)"],
}

CORPUS = [
    # F4 (fixed): two sync producers, call 0 fails
    {"cfg": {"maxBytes": 100000, "maxOps": 10, "window": 0.0},
     "producers": [[{"pad": 5, "sync": True, "empty": False}], [{"pad": 5, "sync": True, "empty": False}]],
     "fault": {"at": 0, "kind": "raise"}, "stop": "end"},
    {"cfg": {"maxBytes": 150, "maxOps": 2, "window": 0.05},
     "producers": [[{"pad": 5, "sync": True, "empty": False}, {"pad": 100, "sync": True, "empty": False}],
                   [{"pad": 100, "sync": False, "empty": False}, {"pad": 5, "sync": True, "empty": False}],
                   [{"pad": 5, "sync": True, "empty": False}]],
     "fault": {"at": 1, "kind": "after_apply"}, "stop": "end"},
]


def run(ctx):
    for sc in CORPUS:
        for seed in range(ctx.scale(25, 300)):
            C05.one(ctx, sc, seed, component="batcher.fault.corpus", prop="C06")
    for i in range(ctx.scale(1200, 12000)):
        sc = B.gen_scenario(ctx.rng, with_fault=True)
        C05.one(ctx, sc, ctx.rng.randrange(1 << 30), component="batcher.fault", prop="C06")
    # invocation level: a failing checkpoint call inside map/parallel (branches, timer thread) ends the invocation,
    # never SUCCEEDED/PENDING and never a hang (executor theorems C06X_*)
    from harness import comp_executor
    comp_executor.run_fault(ctx, "C06")
    comp_executor.run_refresh_fault(ctx, "C06")
    # ... and in sequential workflows (steps incl. at-most-once retries, waits, callbacks, child contexts)
    from harness import comp_engine
    comp_engine.run_fault(ctx, "C06")


def search(ctx):
    saved, ctx.driver = ctx.driver, None
    try:
        for i in range(2000):
            sc = B.gen_scenario(ctx.rng, with_fault=True)
            C05.one(ctx, sc, ctx.rng.randrange(1 << 30), component="batcher.fault.search", prop="C06")
            if ctx.violations:
                break
    finally:
        ctx.driver = saved


def replay(ctx, rec):
    case = rec["case"]
    if "script" in case:
        from harness import comp_engine
        comp_engine.replay(ctx, rec, "C06")
        return
    if "blocks" in (case.get("scenario") or {}):
        from harness import comp_executor
        comp_executor.replay(ctx, rec, "C06")
        return
    C05.one(ctx, case["scenario"], 0, schedule=case.get("decisions"), component="batcher.fault.replay", prop="C06")
