"""C14 — engine-level check: random Script workflows on the real SDK over several invocations (crashes,
checkpoint faults, backend events, paginated histories) vs the Lean engine model, plus the C14
oracles evaluated on the implementation's own traces (harness/comp_engine.py)."""
from __future__ import annotations

from harness import comp_engine

META = comp_engine.meta("C14")


def run(ctx):
    comp_engine.run(ctx, "C14", **comp_engine.PARAMS.get("C14", {}))
    comp_engine.extra(ctx, "C14")
    # "the same backend-issued callback id in every invocation" rests on the operation keeping its identity across
    # invocations, which run in different processes: ids of nested positions computed under different hash seeds
    from harness.props import C08
    C08.check_cross_process(ctx, prop="C14")
    C08.check_paths(ctx, [[1], [2, 1], [1, 1, 3], [3, 2, 1, 2]], component="ident.callback_positions")


def search(ctx):
    comp_engine.search(ctx, "C14")


def replay(ctx, rec):
    if "hashseeds" in rec["case"] or "path" in rec["case"]:
        from harness.props import C08
        C08.check_cross_process(ctx, prop="C14")
        return
    comp_engine.replay(ctx, rec, "C14")
