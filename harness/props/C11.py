"""C11 — the update stream is a valid operation history.  Engine-level check (comp_engine; the fake
backend is the lifecycle automaton and rejects loudly) + the machine-checked counterexample of
Props/C11.lean (cexF2) replayed on the real SDK: a workflow whose control flow branches on the class of
a wait_for_condition failure takes a different path on replay (finding F2) and sends an update the
backend refuses."""
from __future__ import annotations

from harness import comp_engine
from harness.backend import FakeBackend
from harness.engine_sim import run_invocation

META = comp_engine.meta("C11")


def f2_witness_handler(event, context):
    from aws_durable_execution_sdk_python.config import Duration
    from aws_durable_execution_sdk_python.exceptions import CallableRuntimeError
    from aws_durable_execution_sdk_python.waits import WaitForConditionConfig, WaitForConditionDecision

    def check(state, cctx):
        raise ValueError("m")

    try:
        context.wait_for_condition(check, WaitForConditionConfig(wait_strategy=lambda s, a: WaitForConditionDecision.stop_polling(),
                                                               initial_state=0), name="p:1")
    except CallableRuntimeError:
        return context.step(lambda sc: "b", name="p:2")          # replay path
    except ValueError:
        context.wait(Duration.from_seconds(5), name="p:2")        # first-run path
        return "a"


def run_f2_witness(ctx):
    backend = FakeBackend()
    r1 = run_invocation(f2_witness_handler, backend, {"imm": []}, seed=1)
    r2 = run_invocation(f2_witness_handler, backend, {"imm": []}, seed=2)
    ctx.case(("f2-witness",))
    if backend.rejections:
        ctx.violate("C11.backend_rejected_update", {"program": "cexF2 (Props/C11.lean): wfc check raises; except ValueError -> wait, except CallableRuntimeError -> step",
                                                    "script": [{"op": "wfc", "init": "z", "check": [{"err": {"cls": "ValueError", "msg": "m"}}], "decide": [None], "catch": True}]},
                    {"rejection": backend.rejections[0], "first": (r1.get("out") or {}).get("Status"), "second": (r2.get("out") or {}).get("Status") or repr(r2.get("raised"))},
                    "engine.f2_witness", kind="history")


def shared_context_handler(k):
    """k user threads start one step each on the SAME context (the context's step counter is documented as thread safe)."""
    def handler(event, context):
        import aws_durable_execution_sdk_python.state as sdk_state
        threading = sdk_state.threading      # under the simulator: its Thread (user threads are scheduled like the SDK's own)

        def body(c):
            outs = {}

            def w(j):
                def f():
                    try:
                        outs[j] = c.step(lambda s_, j=j: j, name=f"t{j}")
                    except Exception as e:  # noqa: BLE001  (a user thread that dies keeps its error to itself)
                        outs[j] = -1 - j
                return f
            ths = [threading.Thread(target=w(j), name=f"user{j}") for j in range(k)]
            for t in ths:
                t.start()
            for t in ths:
                t.join()
            return sorted(outs.values())
        return context.run_in_child_context(body, name="p:1")
    return handler


def run_shared_context(ctx, seed, k, component="engine.shared_context"):
    backend = FakeBackend()
    r = run_invocation(shared_context_handler(k), backend, {"imm": []}, seed=seed, limits={"fine": True})
    case = {"program": "shared_context", "threads": k, "seed": seed}
    ctx.case(("shared", k, seed))
    ctx.count("shared_context.threads=%d" % k)
    starts = {}
    for t, us, o in backend.calls:
        for u in us:
            if u["action"] == "START" and o == "ok":
                starts[u["id"]] = starts.get(u["id"], 0) + 1
    if backend.rejections:
        ctx.violate("C11.backend_rejected_update", case, {"rejection": backend.rejections[0]}, component, kind="schedule")
    elif any(n > 1 for n in starts.values()):
        ctx.violate("C11.two_starts_for_one_operation", case, {"starts": starts}, component, kind="schedule")
    elif r.get("hung") or r.get("limit"):
        ctx.violate("C11.shared_context_run_never_ends", case, {"hung": r.get("hung")}, component, kind="schedule")
    elif len([1 for t, us, o in backend.calls for u in us if u["action"] == "START" and u["type"] == "STEP"]) != k:
        ctx.violate("C11.step_start_missing", case, {"calls": [(us, o) for t, us, o in backend.calls][:6]}, component, kind="schedule")


def run(ctx):
    run_f2_witness(ctx)
    for i in range(ctx.scale(60, 1500)):
        run_shared_context(ctx, ctx.rng.randrange(1 << 30), ctx.rng.choice([2, 2, 3]))
    comp_engine.run(ctx, "C11", **comp_engine.PARAMS.get("C11", {}))
    comp_engine.extra(ctx, "C11")
    # map/parallel: every update the real SDK sends under a schedule is accepted by the contract backend (the monitor)
    from harness import comp_executor
    comp_executor.run_prop(ctx, "C11", n_quick=100, n_thorough=2500)
    for i in range(ctx.scale(100, 2000)):
        comp_executor.one(ctx, "C11", comp_executor.gen_resubmit_rich(ctx.rng), ctx.rng.randrange(1 << 30), component="executor.resubmit")


def search(ctx):
    comp_engine.search(ctx, "C11")


def replay(ctx, rec):
    if "blocks" in (rec["case"].get("scenario") or {}):
        from harness import comp_executor
        comp_executor.replay(ctx, rec, "C11")
        return
    if rec["case"].get("program") == "shared_context":
        run_shared_context(ctx, rec["case"]["seed"], rec["case"]["threads"], component="engine.shared_context.replay")
    elif "program" in rec["case"]:
        run_f2_witness(ctx)
    else:
        comp_engine.replay(ctx, rec, "C11")
