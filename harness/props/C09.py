"""C09 — map/parallel completion policy.  Components: pure policy (this file's first part) and the
executor-level scenarios (added by harness/comp_executor.py when present)."""
from __future__ import annotations

from harness import comp_policy

META = {
    "rule": "pure part: complete enumeration of (n<=4 quick / n<=7 thorough, s, f, min in {None,0..n+1}, count in {None,0..n}, "
            "pct in {None,0,10,25,33,50,12.5,66.5,100}) plus a seeded boundary grid with f*100 == pct*n (n up to 1000); "
            "non-trivial = at least one criterion set and the executor decides before all branches finished; distinct by tuple",
    "trusted_base": ["T6 percentages are exact rationals in the model; the float evaluation in models.py is compared on the grid and on the boundary grid"],
    "assumptions": ["'policy' is the code's and its tests': with no tolerance configured any failure exceeds it"],
}


def run(ctx):
    comp_policy.run(ctx)
    try:
        from harness import comp_executor
    except ImportError:
        comp_executor = None
    if comp_executor is not None:
        comp_executor.run_c09(ctx)


def search(ctx):
    comp_policy.search(ctx)
    from harness import comp_executor
    comp_executor.search(ctx, "C09")


def replay(ctx, rec):
    case = rec["case"]
    if "n" in case:
        comp_policy.replay_case(ctx, case)
    else:
        from harness import comp_executor
        comp_executor.replay(ctx, rec)
