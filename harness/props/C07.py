"""C07 — suspension sound and live.  Engine-level check: random Script workflows on the real SDK over several invocations (crashes,
checkpoint faults, backend events, paginated histories) vs the Lean engine model, plus the C07
oracles evaluated on the implementation's own traces (harness/comp_engine.py)."""
from __future__ import annotations

from harness import comp_engine

META = comp_engine.meta("C07")


def run(ctx):
    comp_engine.run(ctx, "C07", **comp_engine.PARAMS.get("C07", {}))
    comp_engine.extra(ctx, "C07")
    # map / parallel: the executor suspends only when every branch is parked, picks the earliest timer, resumes
    # timed branches in-process, and every execution terminates (executor theorems C07X_*)
    from harness import comp_executor
    comp_executor.run_prop(ctx, "C07", n_quick=150, n_thorough=4000)
    # timers firing at the very instant other branches park or finish (re-submission racing with the decision)
    for i in range(ctx.scale(200, 4000)):
        comp_executor.one(ctx, "C07", comp_executor.gen_timer_race(ctx.rng), ctx.rng.randrange(1 << 30), component="executor.timer_race")
    # no invocation runs for ever, whether blocked on ... a failed checkpoint: the failing call is the timer thread's refresh
    comp_executor.run_refresh_fault(ctx, "C07")


def search(ctx):
    from harness import comp_executor
    comp_executor.search(ctx, "C07")
    comp_engine.search(ctx, "C07")


def replay(ctx, rec):
    if "blocks" in (rec["case"].get("scenario") or {}):
        from harness import comp_executor
        comp_executor.replay(ctx, rec, "C07")
    else:
        comp_engine.replay(ctx, rec, "C07")
