"""C12 — engine-level check (comp_engine: attempts/polls, RETRY records, state threading across
invocations and crashes) + the packaged strategies of retries.py / waits.py against Strategy.lean
(harness/comp_strategy.py)."""
from __future__ import annotations

from harness import comp_engine, comp_strategy

META = comp_engine.meta("C12")
META["rule"] += "; strategy part: exact-domain grid (dyadic rates/jitter draws) compared for equality, boundary grid checked against the bounds"
META["trusted_base"] = META["trusted_base"] + ["T6 exact rationals stand for floats in Strategy.lean; compared on the exact domain, bounds on the boundary grid",
                                               "error filters of create_retry_strategy: plain strings are modelled (Strategy.retryable: substring test), a compiled pattern only by the outcome of its search (the re engine is not modelled); both compared with the real strategy on a grid of messages and filters incl. regex metacharacters"]


def run(ctx):
    comp_engine.run(ctx, "C12")
    comp_strategy.run(ctx)


def search(ctx):
    comp_engine.search(ctx, "C12")
    comp_strategy.search(ctx)


def replay(ctx, rec):
    if "script" in rec["case"]:
        comp_engine.replay(ctx, rec, "C12")
    else:
        comp_strategy.run(ctx, "strategy.replay")
