"""C20 — wire model codecs.  Random objects of every model class (every enum member, absent/empty
optionals, all-None errors, empty details, replay_children both ways, timestamps on and off the
millisecond grid, pre-epoch, post-2038): (a) correspondence: to_dict / from_dict∘to_dict and the JSON
variants of the real code vs Wire.lean; (b) oracle on the implementation: the round trip yields an
equal object up to the two permitted normalisations (empty optional strings may come back None;
JSON timestamps are truncated to milliseconds)."""
from __future__ import annotations

import dataclasses
import copy
import datetime
import enum

UTC = datetime.timezone.utc
EPOCH = datetime.datetime(1970, 1, 1, tzinfo=UTC)

META = {
    "rule": "300 (quick) / 6000 (thorough) random objects per class (OperationUpdate, Operation, invocation input, "
            "invocation output); non-trivial = at least one optional field present and one absent; distinct by object JSON",
    "trusted_base": [
        "datetime <-> integer microseconds conversion in the harness; `datetime.fromtimestamp(ms/1000)` (from_unix_millis) "
        "is float-based and only tested (exact on all draws)",
        "model decoders return none where Python builds an ill-typed object (an int in a datetime field)",
    ],
    "assumptions": ["wire timestamps are timezone-aware (UTC); naive datetimes are outside the model"],
}

STRS = ["", "a", "x y", "{}", "0", "null", "é é", 'q"uote\\', "Error", "line\nbreak"]


def micros(dt):
    return (dt - EPOCH) // datetime.timedelta(microseconds=1)


class IllTyped(Exception):
    pass


def obj_json(o):
    if o is None:
        return None
    if dataclasses.is_dataclass(o):
        out = {}
        for f in dataclasses.fields(o):
            v = getattr(o, f.name)
            if f.name.endswith("_timestamp"):
                if v is None:
                    out[f.name] = None
                elif isinstance(v, datetime.datetime):
                    out[f.name] = micros(v)
                else:
                    raise IllTyped(f"{f.name}={v!r}")
            else:
                out[f.name] = obj_json(v)
        return out
    if isinstance(o, enum.Enum):
        return o.value
    if isinstance(o, list):
        return [obj_json(x) for x in o]
    if isinstance(o, (str, bool, int)):
        return o
    raise IllTyped(repr(o))


def dv_json(v):
    if v is None:
        return None
    if isinstance(v, bool):
        return v
    if isinstance(v, str):
        return v
    if isinstance(v, int):
        return {"$i": v}
    if isinstance(v, datetime.datetime):
        return {"$ts": micros(v)}
    if isinstance(v, list):
        return [dv_json(x) for x in v]
    if isinstance(v, dict):
        return {"$o": [[k, dv_json(x)] for k, x in v.items()]}
    raise TypeError(repr(v))


def back(f):
    try:
        return obj_json(f())
    except IllTyped:
        return None
    except Exception:  # noqa: BLE001
        return None


class Gen:
    def __init__(self, rng):
        self.r = rng
        from aws_durable_execution_sdk_python import execution as ex
        from aws_durable_execution_sdk_python import lambda_service as ls
        self.ls, self.ex = ls, ex

    def s(self):
        return self.r.choice(STRS)

    def opt(self, f, p=0.5):
        return f() if self.r.random() < p else None

    def i(self):
        return self.r.choice([0, 1, -1, 3, 31622400, self.r.randint(-10**6, 10**12)])

    def ts(self):
        r = self.r
        if r.random() < 0.5:
            k = r.choice([1, -1, 999, 1000, r.randint(-10**12, 4 * 10**12), r.randint(1_600_000_000_000, 1_900_000_000_000)])
            return self.zone(EPOCH + datetime.timedelta(milliseconds=k))
        m = r.choice([0, 500, 1001, 1999, r.randint(1000, 4 * 10**15), r.randint(-10**15, 4 * 10**15),
                      r.randint(1_600_000_000_000_000, 1_900_000_000_000_000)])
        return self.zone(EPOCH + datetime.timedelta(microseconds=m))

    def zone(self, dt):
        """Same instant, sometimes expressed in another UTC offset (botocore hands out tzlocal() datetimes)."""
        r = self.r
        if r.random() < 0.3:
            off = r.choice([120, -480, 330, 60, -1, 845])
            try:
                return dt.astimezone(datetime.timezone(datetime.timedelta(minutes=off)))
            except OverflowError:
                return dt
        return dt

    def err(self):
        ls, r = self.ls, self.r
        x = r.random()
        if x < 0.2:
            return ls.ErrorObject(None, None, None, None)
        if x < 0.3:
            return ls.ErrorObject(None, None, None, [])
        if x < 0.4:
            return ls.ErrorObject("", None, None, None)
        return ls.ErrorObject(self.opt(self.s), self.opt(self.s), self.opt(self.s),
                              self.opt(lambda: [self.s() for _ in range(r.randint(0, 3))]))

    def update(self):
        ls, r = self.ls, self.r
        return ls.OperationUpdate(
            operation_id=self.s(), operation_type=r.choice(list(ls.OperationType)), action=r.choice(list(ls.OperationAction)),
            parent_id=self.opt(self.s), name=self.opt(self.s), sub_type=self.opt(lambda: r.choice(list(ls.OperationSubType))),
            payload=self.opt(self.s), error=self.opt(self.err),
            context_options=self.opt(lambda: ls.ContextOptions(r.random() < 0.5)),
            step_options=self.opt(lambda: ls.StepOptions(self.i())), wait_options=self.opt(lambda: ls.WaitOptions(self.i())),
            callback_options=self.opt(lambda: ls.CallbackOptions(self.i(), self.i())),
            chained_invoke_options=self.opt(lambda: ls.ChainedInvokeOptions(self.s(), self.opt(self.s))))

    def operation(self, p=0.4):
        ls, r = self.ls, self.r
        return ls.Operation(
            operation_id=self.s(), operation_type=r.choice(list(ls.OperationType)), status=r.choice(list(ls.OperationStatus)),
            parent_id=self.opt(self.s), name=self.opt(self.s), start_timestamp=self.opt(self.ts), end_timestamp=self.opt(self.ts),
            sub_type=self.opt(lambda: r.choice(list(ls.OperationSubType))),
            execution_details=self.opt(lambda: ls.ExecutionDetails(self.opt(self.s)), p),
            context_details=self.opt(lambda: ls.ContextDetails(r.random() < 0.5, self.opt(self.s), self.opt(self.err, 0.3)), p),
            step_details=self.opt(lambda: ls.StepDetails(self.i(), self.opt(self.ts), self.opt(self.s), self.opt(self.err)), p),
            wait_details=self.opt(lambda: ls.WaitDetails(self.opt(self.ts)), p),
            callback_details=self.opt(lambda: ls.CallbackDetails(self.s(), self.opt(self.s), self.opt(self.err)), p),
            chained_invoke_details=self.opt(lambda: ls.ChainedInvokeDetails(self.opt(self.s), self.opt(self.err)), p))

    def inv_input(self):
        n = self.r.choice([0, 1, 2, 5])
        return self.ex.DurableExecutionInvocationInput(
            durable_execution_arn=self.s(), checkpoint_token=self.s(),
            initial_execution_state=self.ex.InitialExecutionState([self.operation() for _ in range(n)], self.s()))

    def output(self):
        return self.ex.DurableExecutionInvocationOutput(status=self.r.choice(list(self.ex.InvocationStatus)),
                                                        result=self.opt(self.s), error=self.opt(self.err))


# ---------------------------------------------------------------------------------- oracle
def equal_upto(orig, back_, json_variant, path=""):
    """orig/back_: obj_json forms.  Returns list of (path, orig, back) differences beyond the permitted
    normalisations."""
    diffs = []
    if isinstance(orig, dict) and isinstance(back_, dict):
        for k in orig:
            a, b = orig[k], back_.get(k)
            if k.endswith("_timestamp") and a is not None and json_variant:
                a = (a // 1000) * 1000
            diffs += equal_upto(a, b, json_variant, path + "." + k)
        return diffs
    if isinstance(orig, list) and isinstance(back_, list) and len(orig) == len(back_):
        for n, (a, b) in enumerate(zip(orig, back_)):
            diffs += equal_upto(a, b, json_variant, f"{path}[{n}]")
        return diffs
    if orig == back_:
        return diffs
    if orig == "" and back_ is None:
        return diffs  # the wire form omits empty optional strings
    return [(path, orig, back_)]


def classify(path, a, b):
    """Name the finding a difference belongs to (used by the known-finding matchers)."""
    if isinstance(a, dict) and b is None and a and all(v is None for v in a.values()) and ("error" in path):
        return "allnone_error_dropped"
    if path.endswith(".wait_details") and isinstance(a, dict) and b is None and a.get("scheduled_end_timestamp") is None:
        return "empty_wait_details_dropped"
    if path.endswith(".chained_invoke_details") and isinstance(a, dict) and b is None and not a.get("result") and a.get("error") is None:
        return "empty_chained_details_dropped"
    if path.endswith(".chained_invoke_details") and isinstance(a, dict) and b is None and not a.get("result") \
            and isinstance(a.get("error"), dict) and all(v is None for v in a["error"].values()):
        return "empty_chained_details_dropped"
    return "other"


def run_cases(ctx, gen, n, component="wire"):
    ls, ex = gen.ls, gen.ex
    cases = []
    for _ in range(n):
        u = gen.update()
        cases.append(("wire.update", u, {"dict": dv_json(u.to_dict()), "back": back(lambda: ls.OperationUpdate.from_dict(u.to_dict()))}))
    for j in range(n):
        o = gen.operation(0.15 if j % 3 == 0 else 0.5)
        cases.append(("wire.operation", o, {
            "dict": dv_json(o.to_dict()), "back": back(lambda: ls.Operation.from_dict(o.to_dict())),
            "jdict": dv_json(o.to_json_dict()), "jback": back(lambda: ls.Operation.from_json_dict(o.to_json_dict()))}))
        # decoding is a function of the wire value: it neither changes its argument nor depends on earlier decodes
        wire = o.to_json_dict()
        snap = copy.deepcopy(wire)
        try:
            first = ls.Operation.from_json_dict(wire)
            second = ls.Operation.from_json_dict(wire)
            if wire != snap:
                ctx.violate("C20.decoder_changed_its_input", {"class": "wire.operation", "obj": obj_json(o), "variant": "jback"},
                            {"before": dv_json(snap), "after": dv_json(wire)}, component)
            elif first != second:
                ctx.violate("C20.decoding_twice_differs", {"class": "wire.operation", "obj": obj_json(o), "variant": "jback"}, {}, component)
        except Exception as e:  # noqa: BLE001
            if wire != snap:
                ctx.violate("C20.decoder_changed_its_input", {"class": "wire.operation", "obj": obj_json(o), "variant": "jback"},
                            {"raised_on_second_decode": repr(e)[:200]}, component)
    for _ in range(n // 2):
        x = gen.inv_input()
        cases.append(("wire.input", x, {
            "dict": dv_json(x.to_dict()), "back": back(lambda: ex.DurableExecutionInvocationInput.from_dict(x.to_dict())),
            "jdict": dv_json(x.to_json_dict()), "jback": back(lambda: ex.DurableExecutionInvocationInput.from_json_dict(x.to_json_dict()))}))
    for _ in range(n):
        x = gen.output()
        cases.append(("wire.output", x, {"dict": dv_json(x.to_dict()), "back": back(lambda: ex.DurableExecutionInvocationOutput.from_dict(x.to_dict()))}))
    qs = [{"c": c, "obj": obj_json(o)} for c, o, _ in cases]
    answers = ctx.driver.ask_many(qs) if ctx.driver and ctx.driver.ok else [None] * len(qs)
    for (c, o, exp), q, got in zip(cases, qs, answers):
        oj = q["obj"]
        flat = [v for v in _leaves(oj)]
        ctx.case(__import__("json").dumps(oj, sort_keys=True) if (any(v is None for v in flat) and any(v is not None for v in flat)) else None)
        ctx.count(c)
        # oracle on the implementation
        for key, jv in (("back", False), ("jback", True)):
            if key not in exp:
                continue
            if exp[key] is None:
                ctx.violate("C20.roundtrip_failed_or_ill_typed", {"class": c, "obj": oj, "variant": key}, {"note": "from_dict raised or built an ill-typed object"}, component)
                continue
            for path, a, b in equal_upto(oj, exp[key], jv):
                ctx.violate("C20.roundtrip_not_equal", {"class": c, "obj": oj, "variant": key},
                            {"path": path, "orig": a, "back": b, "finding": classify(path, a, b)}, component)
        if c == "wire.update":
            for optk, wirek in (("context_options", "ContextOptions"), ("step_options", "StepOptions"), ("wait_options", "WaitOptions"),
                                ("callback_options", "CallbackOptions"), ("chained_invoke_options", "ChainedInvokeOptions")):
                if oj[optk] is not None and wirek not in o.to_dict():
                    ctx.violate("C20.update_option_missing_on_wire", {"class": c, "obj": oj}, {"option": optk}, component)
        if got is not None:
            bad = [k for k, v in exp.items() if got.get(k, "<missing>") != v]
            if bad:
                ctx.disagree(component, {"class": c, "obj": oj}, {k: exp[k] for k in bad}, {k: got.get(k) for k in bad}, "codec output differs from Wire.lean")
            else:
                ctx.traces_validated += 1
    ctx.sample({"class": cases[0][0], "obj": qs[0]["obj"], "dict": cases[0][2]["dict"]}, limit=2)


def _leaves(x):
    if isinstance(x, dict):
        for v in x.values():
            yield from _leaves(v)
    elif isinstance(x, list):
        for v in x:
            yield from _leaves(v)
    else:
        yield x


def hunt_timestamps(ctx, rng, n, component="wire.timestamps"):
    """Millisecond conversion vs exact integer arithmetic, outside the protocol (cheap, many draws)."""
    from aws_durable_execution_sdk_python.lambda_service import TimestampConverter as T
    for _ in range(n):
        k = rng.randint(-10**12, 4 * 10**12)
        ctx.evaluations += 1
        if T.to_unix_millis(T.from_unix_millis(k)) != k:
            ctx.violate("C20.millisecond_roundtrip", {"ms": k}, {"got": T.to_unix_millis(T.from_unix_millis(k))}, component)
            break
    for _ in range(n):
        m = rng.randint(-10**15, 4 * 10**15)
        dt = EPOCH + datetime.timedelta(microseconds=m)
        ctx.evaluations += 1
        if rng.random() < 0.3:
            dt = dt.astimezone(datetime.timezone(datetime.timedelta(minutes=rng.choice([120, -480, 330, 845]))))
        if T.to_unix_millis(dt) != m // 1000:
            ctx.violate("C20.millisecond_truncation", {"micros": m}, {"got": T.to_unix_millis(dt), "floor": m // 1000}, component)
            break


def run(ctx):
    gen = Gen(ctx.rng)
    run_cases(ctx, gen, ctx.scale(300, 6000))
    hunt_timestamps(ctx, ctx.rng, ctx.scale(20000, 400000))


def search(ctx):
    saved, ctx.driver = ctx.driver, None
    try:
        run_cases(ctx, Gen(ctx.rng), 3000, "wire.search")
        hunt_timestamps(ctx, ctx.rng, 200000)
    finally:
        ctx.driver = saved


def replay(ctx, rec):
    from aws_durable_execution_sdk_python import execution as ex
    from aws_durable_execution_sdk_python import lambda_service as ls
    case = rec["case"]
    if "ms" in case or "micros" in case:
        hunt_timestamps(ctx, __import__("random").Random(0), 1)
        return
    ctx.notes.append("replay of a wire object: re-run the generator with the recorded seed (objects are rebuilt from JSON only for updates/outputs)")
    run_cases(ctx, Gen(__import__("random").Random(rec.get("seed", 0))), 300, "wire.replay")
