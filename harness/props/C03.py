"""C03 — engine-level check: random Script workflows on the real SDK over several invocations (crashes,
checkpoint faults, backend events, paginated histories) vs the Lean engine model, plus the C03
oracles evaluated on the implementation's own traces (harness/comp_engine.py)."""
from __future__ import annotations

from harness import comp_engine

META = comp_engine.meta("C03")


def run(ctx):
    comp_engine.run(ctx, "C03", **comp_engine.PARAMS.get("C03", {}))
    comp_engine.extra(ctx, "C03")
    # batcher level (theorem C03_release_after_apply): a synchronous checkpoint returns normally only when its update
    # is in an applied call - several producers, failing / slow-then-failing / applied-then-failing API calls
    from harness import batcher_sim as B
    from harness.props import C05
    for i in range(ctx.scale(400, 8000)):
        sc = B.gen_scenario(ctx.rng, with_fault=True)
        C05.one(ctx, sc, ctx.rng.randrange(1 << 30), component="batcher.fault", prop="C03")
    # a client call that ends with a BaseException (cancelled, interrupted): outside the batcher model, write-ahead only
    for i in range(ctx.scale(150, 3000)):
        sc = B.gen_scenario(ctx.rng, with_fault=True)
        sc["fault"]["kind"] = "base_raise"
        res = B.run_scenario(sc, seed=ctx.rng.randrange(1 << 30))
        B.write_ahead_only(ctx, sc, res, "batcher.base_exception")
        ctx.case((repr(sc), tuple(res["decisions"])) if any(c[2] == "raise" for c in res["calls"]) else None)
        ctx.count("batcher.base_exception")


    # executor level: a synchronous checkpoint issued inside a map/parallel branch returns only when a successful call
    # carried it (early completion, branches racing with the batch's completion record)
    from harness import comp_executor
    for i in range(ctx.scale(150, 3000)):
        comp_executor.one(ctx, "C03", comp_executor.gen_late_begin(ctx.rng) if i % 2 else comp_executor.gen_scenario(ctx.rng),
                          ctx.rng.randrange(1 << 30), component="executor")


def search(ctx):
    comp_engine.search(ctx, "C03")


def replay(ctx, rec):
    if "blocks" in (rec["case"].get("scenario") or {}):
        from harness import comp_executor
        comp_executor.replay(ctx, rec, "C03")
        return
    if "scenario" in rec["case"] and "producers" in rec["case"]["scenario"] and (rec["case"]["scenario"].get("fault") or {}).get("kind") == "base_raise":
        from harness import batcher_sim as B
        sc = rec["case"]["scenario"]
        B.write_ahead_only(ctx, sc, B.run_scenario(sc, schedule=rec["case"].get("decisions"), seed=0), "batcher.base_exception.replay")
        return
    if "scenario" in rec["case"] and "producers" in rec["case"]["scenario"]:
        from harness.props import C05
        C05.one(ctx, rec["case"]["scenario"], 0, schedule=rec["case"].get("decisions"), component="batcher.fault.replay", prop="C03")
    else:
        comp_engine.replay(ctx, rec, "C03")
