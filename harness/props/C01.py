"""C01 — engine-level check: random Script workflows on the real SDK over several invocations (crashes,
checkpoint faults, backend events, paginated histories) vs the Lean engine model, plus the C01
oracles evaluated on the implementation's own traces (harness/comp_engine.py)."""
from __future__ import annotations

from harness import comp_engine

META = comp_engine.meta("C01")


def run(ctx):
    comp_engine.run(ctx, "C01", **comp_engine.PARAMS.get("C01", {}))
    comp_engine.extra(ctx, "C01")
    # map/parallel branches: re-submission of a timed-suspended branch inside one invocation and replay of
    # branches in later invocations must not re-enter a step whose outcome the backend holds
    from harness import comp_executor
    comp_executor.run_prop(ctx, "C01", n_quick=120, n_thorough=3000)
    # in-process re-submission of a branch that already completed work, with paginated responses and failing page fetches
    for i in range(ctx.scale(150, 3000)):
        comp_executor.one(ctx, "C01", comp_executor.gen_resubmit_rich(ctx.rng), ctx.rng.randrange(1 << 30), component="executor.resubmit")


    # early-decided batches stored as summaries and rebuilt on replay; re-submissions still queued at the decision
    comp_executor.run_templates(ctx, "C01", [comp_executor.gen_large_early, comp_executor.gen_queued_resubmit], 50, 1500)
    # any batch stored as a summary and rebuilt from its branches in a later invocation: no branch body runs again
    for i in range(ctx.scale(100, 2500)):
        sc = comp_executor.gen_scenario0(ctx.rng)
        sc["ckpt_limit"] = ctx.rng.choice([30, 60, 120])
        if len(sc["blocks"]) == 1:
            sc["blocks"].append({"kind": "seq", "actions": [{"a": "wait", "secs": 1}]})
        comp_executor.one(ctx, "C01", sc, ctx.rng.randrange(1 << 30), component="executor.large")


def search(ctx):
    comp_engine.search(ctx, "C01")


def replay(ctx, rec):
    if "blocks" in (rec["case"].get("scenario") or {}):
        from harness import comp_executor
        comp_executor.replay(ctx, rec, "C01")
    else:
        comp_engine.replay(ctx, rec, "C01")
