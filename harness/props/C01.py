"""C01 — engine-level check: random Script workflows on the real SDK over several invocations (crashes,
checkpoint faults, backend events, paginated histories) vs the Lean engine model, plus the C01
oracles evaluated on the implementation's own traces (harness/comp_engine.py)."""
from __future__ import annotations

from harness import comp_engine

META = comp_engine.meta("C01")


def run(ctx):
    comp_engine.run(ctx, "C01", **comp_engine.PARAMS.get("C01", {}))
    comp_engine.extra(ctx, "C01")


def search(ctx):
    comp_engine.search(ctx, "C01")


def replay(ctx, rec):
    comp_engine.replay(ctx, rec, "C01")
