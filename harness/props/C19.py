"""C19 — ordered lock and counter.  The real OrderedLock / OrderedCounter run under the deterministic
simulator (harness/sim.py); the sequence of atomic actions the real code performs
(enq/wake/rel/brk) is replayed action-for-action through the Lean transition system Lock.step
(trace inclusion) and the final outcomes are compared.  Oracles evaluate the property directly on
the implementation's own trace."""
from __future__ import annotations

import itertools

from harness.sim import Sim, patched

META = {
    "rule": "programs = k threads (2-4) x 1-3 'with lock' rounds each, an exception injected in at most one critical "
            "section, run under explicit schedules (exhaustive for small scopes, seeded random otherwise); non-trivial = "
            "the schedule has >= 1 context switch inside an acquire/release section or a broken lock; distinct by "
            "(program, decisions taken)",
    "trusted_base": [
        "T4 a Python Lock excludes, Event.set/wait/is_set are atomic, a thread blocked in Event.wait resumes after set (the simulator's shims implement exactly this)",
        "harness/sim.py scheduler and the mapping from primitive events to model actions (inner-lock section in acquire -> enq, Event.wait return -> wake, in release -> rel, in __exit__ -> brk)",
    ],
    "assumptions": ["one request = one `with lock:` of one thread; reset() is outside the Lock model and exercised on the implementation alone (lock.reset component)"],
}


class Boom(Exception):
    pass


class BoomBase(BaseException):
    """A holder may also leave with a BaseException that is not an Exception (the SDK's own SuspendExecution is one)."""


def run_lock_program(prog, schedule=None, seed=0, counter=False):
    """prog: list (per thread) of list of bodies; body in {'ok','raise'}.  Returns dict with the derived
    model action list, per-request outcomes, the sim decisions."""
    sim = Sim(schedule=schedule, seed=seed, policy="pct" if (seed or 0) % 3 == 0 and not schedule else "random", max_points=20000, wall_limit=20)
    out = {}
    with patched(sim):
        from aws_durable_execution_sdk_python.threading import OrderedCounter, OrderedLock
        from aws_durable_execution_sdk_python.exceptions import OrderedLockError

        lock = OrderedLock()
        ctr = OrderedCounter() if counter else None
        cs_log = []
        outcomes = {}
        values = {}

        def worker(ti, bodies):
            def f():
                for j, body in enumerate(bodies):
                    r = ti * 100 + j
                    sim.tls.req = r
                    try:
                        if body == "reset":
                            # somebody tries to put a broken lock back into service
                            try:
                                lock.reset()
                                cs_log.append(("reset_ok", r))
                            except OrderedLockError:
                                cs_log.append(("reset_refused", r))
                            outcomes[r] = "doneOk"
                            continue
                        if counter:
                            values[r] = ctr.increment()
                            outcomes[r] = "doneOk"
                        else:
                            with lock:
                                cs_log.append(("in", r))
                                sim.point("cs")
                                cs_log.append(("out", r))
                                if body == "raise":
                                    raise Boom(f"boom{r}")
                                if body == "raiseB":
                                    raise BoomBase(f"boomB{r}")
                            outcomes[r] = "doneOk"
                    except (Boom, BoomBase):
                        outcomes[r] = "doneExc"
                    except OrderedLockError:
                        outcomes[r] = "lockErr"
            return f

        def main():
            ths = [sim.Thread(target=worker(ti, bodies), name=f"w{ti}") for ti, bodies in enumerate(prog)]
            for t in ths:
                t.start()
            for t in ths:
                t.join()

        sim.stop_when_main_done = False
        # tag trace events with the request id of the issuing thread
        sim.tagger = lambda: {"req": getattr(sim.tls, "req", None)}
        sim.run(main)
        out.update(outcomes=outcomes, values=values, cs_log=cs_log, hung=sim.hung, limit=sim.limit_hit,
                   decisions=list(sim.decisions), switches=sim.switches)
    # derive model actions
    acts = []
    switch_inside = 0
    for ev in sim.trace:
        r = ev.get("req")
        if r is None:
            continue
        if ev["op"] == "lock.acquire" and ev["obj"].startswith("Lock:__init__"):
            if ev["fn"] == "reset":
                acts.append(["reset", r])
            elif ev["fn"] == "acquire":
                acts.append(["enq", r])
            elif ev["fn"] == "release":
                acts.append(["rel", r])
            elif ev["fn"] == "__exit__":
                acts.append(["brk", r])
        elif ev["op"] == "event.wake" and ev["fn"] == "acquire":
            acts.append(["wake", r])
    out["acts"] = acts
    return out


def oracle(ctx, prog, res, component):
    """The property stated on the implementation's own behaviour."""
    case = {"prog": prog, "decisions": res["decisions"]}
    if res["hung"] or res["limit"]:
        ctx.violate("C19.never_wedged", case, {"hung": res["hung"], "limit": res["limit"]}, component, kind="schedule")
        return
    # mutual exclusion: in/out strictly alternate for the same request
    depth = 0
    for kind, r in res["cs_log"]:
        depth += 1 if kind == "in" else -1
        if depth not in (0, 1):
            ctx.violate("C19.mutex", case, {"cs_log": res["cs_log"]}, component, kind="schedule")
            return
    # FIFO: entry order == order of the enq actions that joined the queue
    arrivals = [r for k, r in res["acts"] if k == "enq"]
    entries = [r for kind, r in res["cs_log"] if kind == "in"]
    joined = [r for r in arrivals if res["outcomes"].get(r) != "lockErr" or r in entries]
    if entries != [r for r in arrivals if r in set(entries)]:
        ctx.violate("C19.fifo", case, {"arrivals": arrivals, "entries": entries}, component, kind="schedule")
    # break semantics
    raisers = [ti * 100 + j for ti, b in enumerate(prog) for j, x in enumerate(b) if x in ("raise", "raiseB")]
    broke = [r for r in raisers if res["outcomes"].get(r) == "doneExc"]
    for r in raisers:
        if r in entries and res["outcomes"].get(r) != "doneExc":
            ctx.violate("C19.holder_sees_own_exception", case, {"req": r, "outcome": res["outcomes"].get(r)}, component, kind="schedule")
    if broke:
        b = broke[0]
        after = entries[entries.index(b) + 1:]
        if after:
            ctx.violate("C19.no_entry_after_break", case, {"entered_after_break": after}, component, kind="schedule")
        for r, o in res["outcomes"].items():
            if r not in entries and o != "lockErr":
                ctx.violate("C19.break_waiters_get_lock_error", case, {"req": r, "outcome": o}, component, kind="schedule")
    # every request terminated
    allreq = [ti * 100 + j for ti, b in enumerate(prog) for j in range(len(b))]
    # requests after a lockErr/exception in the same thread still run (each is its own try)
    missing = [r for r in allreq if r not in res["outcomes"]]
    if missing:
        ctx.violate("C19.never_wedged", case, {"unfinished": missing}, component, kind="schedule")


def oracle_reset(ctx, prog, res, component):
    """Programs in which a thread calls reset() (not in the Lock model: judged on the implementation alone).  Whatever
    reset() does, nobody blocks for ever, the critical sections exclude each other, and every acquirer that was waiting when
    the holder left with its exception gets the ordered-lock error."""
    case = {"prog": prog, "decisions": res["decisions"]}
    if res["hung"] or res["limit"]:
        ctx.violate("C19.never_wedged", case, {"hung": res["hung"], "limit": res["limit"]}, component, kind="schedule")
        return
    depth = 0
    for kind, r in res["cs_log"]:
        if kind in ("in", "out"):
            depth += 1 if kind == "in" else -1
            if depth not in (0, 1):
                ctx.violate("C19.mutex", case, {"cs_log": res["cs_log"]}, component, kind="schedule")
                return
    acts = res["acts"]
    brk = next((n for n, a in enumerate(acts) if a[0] == "brk"), None)
    if brk is not None:
        entered_before = set()
        for kind, r in res["cs_log"]:
            if kind == "in":
                entered_before.add(r)
            if kind == "out" and r == acts[brk][1]:
                break
        waiting = [a[1] for a in acts[:brk] if a[0] == "enq" and a[1] not in entered_before and a[1] != acts[brk][1]]
        ins = [r for kind, r in res["cs_log"] if kind == "in"]
        for r in waiting:
            if r in ins:
                ctx.violate("C19.no_entry_after_break", case, {"req": r, "entered_although_waiting_at_the_break": True, "cs_log": res["cs_log"]},
                            component, kind="schedule")
            elif res["outcomes"].get(r) != "lockErr":
                ctx.violate("C19.break_waiters_get_lock_error", case, {"req": r, "outcome": res["outcomes"].get(r), "cs_log": res["cs_log"]},
                            component, kind="schedule")


def oracle_counter(ctx, prog, res, component):
    case = {"prog": prog, "decisions": res["decisions"], "counter": True}
    if res["hung"] or res["limit"]:
        ctx.violate("C19.never_wedged", case, {"hung": res["hung"]}, component, kind="schedule")
        return
    arrivals = [r for k, r in res["acts"] if k == "enq"]
    got = [res["values"].get(r) for r in arrivals]
    if got != list(range(1, len(arrivals) + 1)):
        ctx.violate("C19.counter_gap_free_in_arrival_order", case, {"arrivals": arrivals, "values": got}, component, kind="schedule")


def compare(ctx, prog, res, component, counter=False):
    if not (ctx.driver and ctx.driver.ok):
        return
    reqs = [ti * 100 + j for ti, b in enumerate(prog) for j in range(len(b))]
    q = {"c": "lock.run", "acts": res["acts"], "reqs": reqs}
    a = ctx.driver.ask(q)
    case = {"prog": prog, "decisions": res["decisions"], "counter": counter}
    if not a.get("enabled"):
        ctx.disagree(component, case, res["acts"], a, "implementation performed an action the model does not enable (trace inclusion)")
        return
    want = {r: o for r, o in a.get("pcs", [])}
    got = {r: res["outcomes"].get(r, "unfinished") for r in reqs}
    if want != got:
        ctx.disagree(component, case, got, want, "final outcomes differ")
        return
    if counter:
        mv = {r: v for r, v in a.get("results", [])}
        if mv != res["values"]:
            ctx.disagree(component, case, res["values"], mv, "counter values differ")
            return
    ctx.traces_validated += 1


def one(ctx, prog, schedule=None, seed=0, counter=False, component="lock"):
    res = run_lock_program(prog, schedule=schedule, seed=seed, counter=counter)
    if any(b == "reset" for t in prog for b in t):
        oracle_reset(ctx, prog, res, component)
        ctx.case((str(prog), tuple(res["decisions"])))
        ctx.count("with_reset")
        return res
    (oracle_counter if counter else oracle)(ctx, prog, res, component)
    compare(ctx, prog, res, component, counter)
    nontriv = res["switches"] >= 3 or any(o == "lockErr" for o in res["outcomes"].values())
    key = (str(prog), tuple(res["decisions"]), counter)
    ctx.case(key if nontriv else None)
    ctx.count("broken" if any(o == "doneExc" for o in res["outcomes"].values()) else "unbroken")
    ctx.count(f"threads={len(prog)}")
    ctx.sample({"prog": prog, "acts": res["acts"][:14], "outcomes": {str(k): v for k, v in res["outcomes"].items()}})
    return res


def gen_prog(rng):
    k = rng.choice([2, 2, 3, 3, 4])
    prog = [["ok"] * rng.choice([1, 1, 2, 3]) for _ in range(k)]
    if rng.random() < 0.6:
        ti = rng.randrange(k)
        prog[ti][rng.randrange(len(prog[ti]))] = rng.choice(["raise", "raise", "raiseB"])
    return prog


def run(ctx):
    # exhaustive small scope: 2 threads x 1 round, every schedule prefix of length 8 over 3 choices
    small = [[["ok"], ["ok"]], [["raise"], ["ok"]], [["ok"], ["raise"], ["ok"]], [["raiseB"], ["ok"], ["ok"]]]
    depth = 5 if not ctx.thorough else 7
    for prog in small:
        for sched in itertools.product(range(3), repeat=depth):
            one(ctx, prog, schedule=list(sched), seed=0, component="lock.exhaustive")
    n = ctx.scale(150, 3000)
    for i in range(n):
        prog = gen_prog(ctx.rng)
        one(ctx, prog, seed=ctx.rng.randrange(1 << 30))
    for i in range(ctx.scale(40, 600)):
        k = ctx.rng.choice([2, 3, 4, 5])
        prog = [["ok"] * ctx.rng.choice([1, 2, 3]) for _ in range(k)]
        one(ctx, prog, seed=ctx.rng.randrange(1 << 30), counter=True, component="lock.counter")
    # a thread that calls reset() while others are still queued behind a holder that left with an exception
    for i in range(ctx.scale(2000, 20000)):
        k = ctx.rng.choice([1, 2, 2, 3])
        prog = [[ctx.rng.choice(["raise", "raiseB"])]] + [["ok"] * ctx.rng.choice([1, 2]) for _ in range(k)] + [["reset"] * ctx.rng.choice([2, 3, 4])]
        one(ctx, prog, seed=ctx.rng.randrange(1 << 30), component="lock.reset")


def search(ctx):
    saved = ctx.driver
    ctx.driver = None
    try:
        for i in range(1500):
            prog = gen_prog(ctx.rng)
            one(ctx, prog, seed=ctx.rng.randrange(1 << 30), component="lock.search")
            if ctx.violations:
                break
        for i in range(300):
            k = ctx.rng.choice([2, 3, 4])
            prog = [["ok"] * ctx.rng.choice([1, 2]) for _ in range(k)]
            one(ctx, prog, seed=ctx.rng.randrange(1 << 30), counter=True, component="lock.search")
            if ctx.violations:
                break
    finally:
        ctx.driver = saved


def replay(ctx, rec):
    case = rec["case"]
    one(ctx, case["prog"], schedule=case.get("decisions"), seed=0, counter=bool(case.get("counter")), component="lock.replay")
