"""C17 — context logger.  Engine-level check (comp_engine; log-heavy scripts, every page split) with the
silent/audible rule evaluated on the implementation: the interpreter records every log CALL in program order,
the recording logger every EMITTED record."""
from __future__ import annotations

from harness import comp_engine

META = comp_engine.meta("C17")
META["assumptions"] = META["assumptions"] + ["log calls are made between operations (not inside step bodies)",
                                             "model comparison of emitted records is done for unpaged histories; paged ones are judged by the oracle"]


def _step(tok):
    return {"op": "step", "body": [{"ok": tok}], "amo": False, "retry": {"max": 1, "delays": [], "noretry": []}, "catch": True}


# log calls around an operation that an external party completes (succeeded / failed / timed out / stopped, chosen by
# the seeded event generator), caught by user code, followed by another suspension: every terminal status must count
# as "completed work" for the silent/audible rule
TEMPLATES = [
    # a completed step, then a child context whose first batch touches two operations (paginated responses)
    [{"op": "log", "msg": "A"}, _step("t"), {"op": "log", "msg": "B"},
     {"op": "child", "body": [_step("s"), {"op": "log", "msg": "in"}], "limit": 200, "summary": "", "catch": True},
     {"op": "log", "msg": "C"}, _step("i5"), {"op": "log", "msg": "D"}, {"op": "wait", "secs": 1}, {"op": "log", "msg": "E"}],
    [{"op": "log", "msg": "A"}, _step("s"), {"op": "log", "msg": "B"}, {"op": "invoke", "payload": "s", "catch": True},
     {"op": "log", "msg": "C"}, {"op": "wait", "secs": 1}, {"op": "log", "msg": "D"}, _step("t"), {"op": "log", "msg": "E"}],
    [{"op": "log", "msg": "A"}, {"op": "cbnew", "slot": 0}, {"op": "log", "msg": "B"}, {"op": "cbres", "slot": 0, "catch": True},
     {"op": "log", "msg": "C"}, {"op": "wait", "secs": 1}, {"op": "log", "msg": "D"}],
    [{"op": "log", "msg": "A"}, {"op": "child", "body": [{"op": "log", "msg": "in-1"}, {"op": "invoke", "payload": "i5", "catch": True},
                                                       {"op": "log", "msg": "in-2"}], "limit": 200, "summary": "", "catch": True},
     {"op": "log", "msg": "B"}, {"op": "wait", "secs": 2}, {"op": "log", "msg": "C"}],
    # a callback created early and awaited late: while it is outstanding it is visited on every replay without being
    # completed work - the replay boundary is the last COMPLETED operation (the wait), not a count of visited ones
    [{"op": "log", "msg": "A"}, {"op": "cbnew", "slot": 0}, {"op": "log", "msg": "B"}, _step("s"), {"op": "log", "msg": "C"},
     {"op": "wait", "secs": 1}, {"op": "log", "msg": "D"}, _step("t"), {"op": "log", "msg": "E"}, {"op": "wait", "secs": 1},
     {"op": "log", "msg": "F"}, {"op": "cbres", "slot": 0, "catch": True}, {"op": "log", "msg": "G"}],
]


def run(ctx):
    corpus = [(t, 1000 + 17 * k) for t in TEMPLATES for k in range(ctx.scale(14, 60))]
    # the last template with the callback kept outstanding while the waits complete (scripted events; one that is not
    # enabled in a round is skipped)
    waits_only = [[("waitDone", [3], None), ("waitDone", [5], None)]] * 5 + [[("callbackDone", [1], {"k": "succeeded", "v": "R:ok"})]] * 30
    corpus += [(TEMPLATES[-1], 5000 + 13 * k, waits_only) for k in range(ctx.scale(8, 40))]
    comp_engine.run(ctx, "C17", crash_p=0.2, fault_p=0.05, corpus=corpus)


def search(ctx):
    comp_engine.search(ctx, "C17")


def replay(ctx, rec):
    comp_engine.replay(ctx, rec, "C17")
