"""C17 — context logger.  Engine-level check (comp_engine; log-heavy scripts, every page split) with the
silent/audible rule evaluated on the implementation: the interpreter records every log CALL in program order,
the recording logger every EMITTED record."""
from __future__ import annotations

from harness import comp_engine

META = comp_engine.meta("C17")
META["assumptions"] = META["assumptions"] + ["log calls are made between operations (not inside step bodies)",
                                             "model comparison of emitted records is done for unpaged histories; paged ones are judged by the oracle"]


def run(ctx):
    comp_engine.run(ctx, "C17", crash_p=0.2, fault_p=0.05)


def search(ctx):
    comp_engine.search(ctx, "C17")


def replay(ctx, rec):
    comp_engine.replay(ctx, rec, "C17")
