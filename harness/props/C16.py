"""C16 — engine-level check (comp_engine) with child contexts whose results exceed the (patched) checkpoint limit,
and handlers whose final result exceeds the (patched) Lambda response limit."""
from __future__ import annotations

from harness import comp_engine

META = comp_engine.meta("C16")
META["assumptions"] = META["assumptions"] + ["CHECKPOINT_SIZE_LIMIT and LAMBDA_RESPONSE_SIZE_LIMIT are patched to small values (200 / 100-1000 bytes); the real constants are only compared for their use (>)"]


def run(ctx):
    comp_engine.run(ctx, "C16", **comp_engine.PARAMS.get("C16", {}))
    comp_engine.extra(ctx, "C16")


def search(ctx):
    comp_engine.search(ctx, "C16")


def replay(ctx, rec):
    comp_engine.replay(ctx, rec, "C16")
