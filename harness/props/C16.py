"""C16 — engine-level check (comp_engine) with child contexts whose results exceed the (patched) checkpoint limit,
and handlers whose final result exceeds the (patched) Lambda response limit."""
from __future__ import annotations

from harness import comp_engine

META = comp_engine.meta("C16")
META["assumptions"] = META["assumptions"] + ["CHECKPOINT_SIZE_LIMIT and LAMBDA_RESPONSE_SIZE_LIMIT are patched to small values (200 / 100-1000 bytes); the real constants are only compared for their use (>)"]


def run(ctx):
    comp_engine.run(ctx, "C16", **comp_engine.PARAMS.get("C16", {}))
    comp_engine.extra(ctx, "C16")
    # map / parallel results over the (patched) checkpoint limit: stored as a summary, rebuilt from the branches on
    # replay - equal result, no branch body re-run, nothing new sent for finished branches
    from harness import comp_executor
    for i in range(ctx.scale(120, 3000)):
        sc = comp_executor.gen_scenario0(ctx.rng)
        sc["ckpt_limit"] = ctx.rng.choice([30, 60, 120])
        if len(sc["blocks"]) == 1:
            sc["blocks"].append({"kind": "seq", "actions": [{"a": "wait", "secs": 1}]})
        comp_executor.one(ctx, "C16", sc, ctx.rng.randrange(1 << 30), component="executor.large")
    # oversized child contexts INSIDE branches that are re-submitted in-process (re-visited in the invocation that recorded them)
    for i in range(ctx.scale(150, 3000)):
        comp_executor.one(ctx, "C16", comp_executor.gen_resubmit_rich(ctx.rng), ctx.rng.randrange(1 << 30), component="executor.resubmit")


def search(ctx):
    comp_engine.search(ctx, "C16")


def replay(ctx, rec):
    if "blocks" in (rec["case"].get("scenario") or {}):
        from harness import comp_executor
        comp_executor.replay(ctx, rec, "C16")
    else:
        comp_engine.replay(ctx, rec, "C16")
