"""C18 — every invocation ends with exactly one well-formed, correctly classified outcome.
The real `durable_execution` wrapper runs (under the simulator, against the fake backend) with
handler behaviours covering every exception class of exceptions.py, user classes, JSON-able /
non-JSON-able / oversize results and errors, crossed with checkpoint fault plans; its output is
compared with Outcome.wrapper (model) and checked for well-formedness.  The error classification
table of CheckpointError.from_exception is compared exhaustively on a grid."""
from __future__ import annotations

import itertools
import json

from harness.backend import FakeBackend
from harness.sim import Sim, SimAbort, patched

META = {
    "rule": "handler behaviours (return jsonable/non-jsonable/oversize; raise each SDK exception class, user classes, oversize "
            "error; fail inside a step through a failing checkpoint) x checkpoint outcome for the extra large-result checkpoint "
            "(ok / CheckpointError of each category / other exception) x seeded schedules; non-trivial = distinct "
            "(handler-end class, checkpoint outcome) pairs; plus the full status x code x message grid of from_exception",
    "trusted_base": ["the mapping from Python exception classes to the model's Exc families (isinstance checks in the harness)",
                     "T4 thread pool / executor shutdown semantics as implemented by the simulator"],
    "assumptions": ["user code does not raise BaseException subclasses other than the SDK's own"],
}


def run_wrapper(handler, fault=None, resp_limit=None, seed=0):
    sim = Sim(seed=seed, policy="pct" if (seed or 0) % 3 == 0 else "random", max_points=60000, wall_limit=30, quiesce_limit=60.0)
    backend = FakeBackend()
    res = {}
    with patched(sim):
        import aws_durable_execution_sdk_python.execution as ex
        from aws_durable_execution_sdk_python.execution import (
            DurableExecutionInvocationInputWithClient, InitialExecutionState, durable_execution)

        saved = ex.LAMBDA_RESPONSE_SIZE_LIMIT
        if resp_limit is not None:
            ex.LAMBDA_RESPONSE_SIZE_LIMIT = resp_limit
        calls = {"n": 0}
        orig = backend.checkpoint

        def checkpoint(**kw):
            k = calls["n"]
            calls["n"] += 1
            if fault is not None and fault["at"] == k:
                res["fault_fired"] = True
                raise fault["exc"]()
            return orig(**kw)

        backend.checkpoint = checkpoint
        backend._pages = backend.initial_pages()
        backend.clock = lambda: sim.clock
        try:
            h = durable_execution(handler)
            inp = DurableExecutionInvocationInputWithClient(
                durable_execution_arn="arn:exec", checkpoint_token=backend.token,
                initial_execution_state=InitialExecutionState(operations=backend._pages[0], next_marker=""), service_client=backend)

            def main():
                try:
                    res["out"] = h(inp, None)
                except SimAbort:
                    raise
                except BaseException as e:  # noqa: BLE001
                    res["raised"] = e

            sim.run(main)
        finally:
            ex.LAMBDA_RESPONSE_SIZE_LIMIT = saved
    res["hung"] = sim.hung if ("out" not in res and "raised" not in res) else None
    res["leftover"] = [t.name for t in sim.threads if not t.done and t.name.startswith("dex-handler")]
    res["exec_result"] = backend.exec_result
    return res


def out_name(res):
    from aws_durable_execution_sdk_python.exceptions import CheckpointError, InvocationError

    if "out" in res:
        o = res["out"]
        st = o.get("Status")
        if st == "SUCCEEDED":
            return "SUCCEEDED:empty" if o.get("Result") == "" else "SUCCEEDED:payload"
        if st == "FAILED":
            return "FAILED:error" if o.get("Error") else "FAILED:noerror"
        if st == "PENDING":
            return "PENDING"
        return "?" + str(st)
    e = res.get("raised")
    if e is None:
        return "hung"
    if isinstance(e, CheckpointError):
        return "raise:CheckpointError"
    if isinstance(e, InvocationError):
        return "raise:InvocationError"
    return "raise:source"


def well_formed(res):
    if "out" not in res:
        return None
    o = res["out"]
    st = o.get("Status")
    if set(o) - {"Status", "Result", "Error"}:
        return "unexpected keys " + str(sorted(o))
    if st == "SUCCEEDED" and (not isinstance(o.get("Result"), str) or "Error" in o):
        return "SUCCEEDED must carry a JSON text Result and no Error"
    if st == "FAILED" and "Result" in o:
        return "FAILED must not carry a Result"
    if st == "FAILED" and "Error" in o and not isinstance(o["Error"], dict):
        return "FAILED Error must be an error object"
    if st == "FAILED" and "Error" in o:
        e = o["Error"]
        for key in ("ErrorMessage", "ErrorType", "ErrorData"):
            if e.get(key) is not None and not isinstance(e[key], str):
                return f"Error.{key} must be a string, got {type(e[key]).__name__}"
        if e.get("StackTrace") is not None and not (isinstance(e["StackTrace"], list) and all(isinstance(x, str) for x in e["StackTrace"])):
            return "Error.StackTrace must be a list of strings"
        if set(e) - {"ErrorMessage", "ErrorType", "ErrorData", "StackTrace"}:
            return "unexpected error keys " + str(sorted(e))
    if st == "PENDING" and ("Result" in o or "Error" in o):
        return "PENDING must carry neither Result nor Error"
    if st not in ("SUCCEEDED", "FAILED", "PENDING"):
        return "unknown status"
    return None


def behaviours():
    from aws_durable_execution_sdk_python import exceptions as X
    from aws_durable_execution_sdk_python.exceptions import CheckpointErrorCategory as Cat

    B = []

    def ret(v):
        return lambda ev, ctx: v

    def rz(mk):
        def h(ev, ctx):
            raise mk()
        return h

    B.append(("ret:small", ret({"a": [1, 2]}), {"h": "returned", "jsonable": True, "large": False}, None))
    B.append(("ret:none", ret(None), {"h": "returned", "jsonable": True, "large": False}, None))
    # legal JSON results a naive re-encoding could choke on: json.dumps coerces int/float/bool/None keys, also mixed at one level
    for n_, v_ in enumerate([{1001: "a", "summary": "b"}, {"m": {None: 3, "eu": 1}}, [{True: 1, "x": [1.5, None]}, "r\u00e9sum\u00e9", "\udcff"],
                             {"z": 1, "a": {"k": [], "b": {}}}, 0, "", [], 1.5e300]):
        B.append((f"ret:json:{n_}", ret(v_), {"h": "returned", "jsonable": True, "large": False}, None))
    B.append(("ret:nonjson", ret({1, 2}), {"h": "returned", "jsonable": False, "large": False}, None))
    B.append(("ret:large", ret("x" * 300), {"h": "returned", "jsonable": True, "large": True}, 100))
    fam = {
        "other": [lambda: ValueError("boom"), lambda: KeyError("k"), lambda: type("Custom", (Exception,), {})("c"),
                  lambda: X.ValidationError("v"), lambda: X.InvalidStateError("i"), lambda: X.UserlandError("u"),
                  lambda: X.CallableRuntimeError("m", "T", None, None), lambda: X.SerDesError("s"), lambda: X.OrderedLockError("o"),
                  lambda: X.DurableExecutionsError("d"),
                  # user exception classes that happen to carry attributes named like the SDK's error fields
                  lambda: type("ApiError", (Exception,), {"data": b"\x00raw", "stack_trace": 7})("api"),
                  lambda: type("ApiError2", (Exception,), {"data": {"k": 1}, "error_type": 3, "message": ["m"]})("api2")],
        "execution": [lambda: X.ExecutionError("e"), lambda: X.CallbackError("cb"), lambda: X.NonDeterministicExecutionError("nd")],
        "invocation": [lambda: X.InvocationError("i"), lambda: X.StepInterruptedError("si"), lambda: X.BotoClientError("b"),
                       lambda: X.GetExecutionStateError("g")],
        "suspend": [lambda: X.SuspendExecution("s"), lambda: X.TimedSuspendExecution("t", 5.0)],
    }
    for f, mks in fam.items():
        for n, mk in enumerate(mks):
            B.append((f"raise:{f}:{n}", rz(mk), {"h": "raised", "exc": f, "large": False}, None))
    for cat in (Cat.EXECUTION, Cat.INVOCATION):
        B.append((f"raise:checkpoint:{cat.value}", rz(lambda cat=cat: X.CheckpointError("c", cat)),
                  {"h": "raised", "exc": "checkpoint", "cat": cat.value, "large": False}, None))
    B.append(("raise:other:large", rz(lambda: ValueError("y" * 300)), {"h": "raised", "exc": "other", "large": True}, 100))
    return B


def faults():
    from aws_durable_execution_sdk_python.exceptions import CheckpointError, CheckpointErrorCategory as Cat

    return [("ok", None, {"ck": "ok"}),
            ("ckpt:EXECUTION", lambda: CheckpointError("f", Cat.EXECUTION), {"ck": "failedCheckpoint", "ckcat": "EXECUTION"}),
            ("ckpt:INVOCATION", lambda: CheckpointError("f", Cat.INVOCATION), {"ck": "failedCheckpoint", "ckcat": "INVOCATION"}),
            ("other", lambda: RuntimeError("client"), {"ck": "failedOther"})]


def step_then(fault_kind):
    """A handler whose durable step hits a failing checkpoint (BackgroundThreadError path)."""
    def h(ev, ctx):
        return ctx.step(lambda sc: 1, name="p:1")
    return h


def run(ctx):
    cases = []
    for (bn, handler, mq, limit), (fn, fexc, fq) in itertools.product(behaviours(), faults()):
        uses_ck = mq.get("large", False) and (mq["h"] == "returned" or mq.get("exc") == "other")
        if fexc is not None and not uses_ck:
            continue
        for seed in range(ctx.scale(1, 6)):
            res = run_wrapper(handler, fault=None if fexc is None else {"at": 0, "exc": fexc}, resp_limit=limit, seed=ctx.rng.randrange(1 << 30))
            cases.append((f"{bn}|{fn}", res, dict({"c": "outcome.wrapper"}, **mq, **fq)))
    # failures of the background thread while a step is checkpointing
    for fn, fexc, fq in faults()[1:]:
        for at in (0, 1):
            for seed in range(ctx.scale(2, 10)):
                res = run_wrapper(step_then(fn), fault={"at": at, "exc": fexc}, seed=ctx.rng.randrange(1 << 30))
                if not res.get("fault_fired"):
                    continue  # the schedule batched everything into earlier calls: no fault happened
                q = {"c": "outcome.wrapper", "h": "raised", "large": False, "ck": "ok"}
                if fq["ck"] == "failedCheckpoint":
                    q.update(exc="bgCheckpoint", cat=fq["ckcat"])
                else:
                    q.update(exc="bgOther")
                cases.append((f"step-fault@{at}|{fn}", res, q))
    # an ordinary user error raised inside a (non-retried) step, including the attribute-carrying classes
    from aws_durable_execution_sdk_python.config import StepConfig
    from aws_durable_execution_sdk_python.retries import RetryDecision
    for n, mk in enumerate([lambda: ValueError("in-step"), lambda: ValueError("cannot parse report-\udcff.csv"), lambda: ValueError("r\u00e9sum\u00e9 \u65e5\u672c"),
                            lambda: type("ApiError", (Exception,), {"data": b"\x00raw", "stack_trace": 7})("api"),
                            lambda: type("ApiError2", (Exception,), {"data": {"k": 1}, "error_type": 3, "message": ["m"]})("api2")]):
        def h(ev, c, mk=mk):
            def body(sc):
                raise mk()
            return c.step(body, name="p:1", config=StepConfig(retry_strategy=lambda e, a: RetryDecision.no_retry()))
        for seed in range(ctx.scale(1, 4)):
            res = run_wrapper(h, seed=ctx.rng.randrange(1 << 30))
            cases.append((f"step-raise:other:{n}|ok", res, {"c": "outcome.wrapper", "h": "raised", "exc": "other", "large": False, "ck": "ok"}))
    answers = ctx.driver.ask_many([q for _, _, q in cases]) if ctx.driver and ctx.driver.ok else [None] * len(cases)
    for (name, res, q), a in zip(cases, answers):
        got = out_name(res)
        case = {"behaviour": name}
        ctx.case(name)
        ctx.count("out=" + got)
        if res["hung"]:
            ctx.violate("C18.invocation_hung", case, {"hung": res["hung"]}, "wrapper", kind="schedule")
            continue
        wf = well_formed(res)
        if wf:
            ctx.violate("C18.malformed_output", case, {"why": wf, "out": res.get("out")}, "wrapper")
        if res["leftover"]:
            ctx.violate("C18.background_thread_not_stopped", case, {"threads": res["leftover"]}, "wrapper")
        if name.startswith("ret:json:") and name.endswith("|ok"):
            want = dict((b[0], b[1]) for b in behaviours())[name.split("|")[0]](None, None)
            o_ = res.get("out") or {}
            if o_.get("Status") != "SUCCEEDED" or json.loads(o_.get("Result") or "null") != json.loads(json.dumps(want)):
                ctx.violate("C18.json_result_not_returned_as_SUCCEEDED", case, {"out": o_, "handler_returned": repr(want)}, "wrapper")
        if got == "raise:source" and "other" not in name and "step-fault" not in name:
            ctx.violate("C18.raises_for_non_retry_error", case, {"raised": repr(res.get("raised"))}, "wrapper")
        cat = q.get("cat") if q.get("exc") in ("checkpoint", "bgCheckpoint") else (q.get("ckcat") if q.get("ck") == "failedCheckpoint" else None)
        if cat == "EXECUTION" and got != "raise:CheckpointError":
            ctx.violate("C18.retriable_checkpoint_error_must_raise", case, {"got": got}, "wrapper")
        if cat == "INVOCATION" and got != "FAILED:error":
            ctx.violate("C18.nonretriable_checkpoint_error_must_return_FAILED", case, {"got": got}, "wrapper")
        if a is not None:
            if a.get("out") != got:
                ctx.disagree("wrapper", dict(case, query=q), got, a.get("out"), "wrapper outcome differs from Outcome.lean")
            else:
                ctx.traces_validated += 1
    ctx.sample({"behaviour": cases[0][0], "out": cases[0][1].get("out")}, limit=2)
    classification(ctx)
    client_boundary(ctx)


def client_boundary(ctx, component="client"):
    """Whatever goes wrong inside LambdaClient.checkpoint / get_execution_state (the service call itself, or a response
    this SDK cannot parse) leaves the client as the classified error type - the wrapper's table is defined on those."""
    from aws_durable_execution_sdk_python.exceptions import CheckpointError, GetExecutionStateError
    from aws_durable_execution_sdk_python.lambda_service import LambdaClient

    good_op = {"Id": "a", "Type": "STEP", "Status": "SUCCEEDED"}
    responses = [
        ("ok", {"CheckpointToken": "t2", "NewExecutionState": {"Operations": [good_op]}}),
        ("unknown-status", {"CheckpointToken": "t2", "NewExecutionState": {"Operations": [dict(good_op, Status="PAUSED")]}}),
        ("unknown-type", {"CheckpointToken": "t2", "NewExecutionState": {"Operations": [dict(good_op, Type="GADGET")]}}),
        ("missing-id", {"CheckpointToken": "t2", "NewExecutionState": {"Operations": [{"Type": "STEP", "Status": "STARTED"}]}}),
        ("operations-not-a-list", {"CheckpointToken": "t2", "NewExecutionState": {"Operations": 7}}),
        ("raises", RuntimeError("network")),
    ]

    class Boto:
        def __init__(self, r):
            self.r = r

        def checkpoint_durable_execution(self, **kw):
            if isinstance(self.r, Exception):
                raise self.r
            return self.r

        def get_durable_execution_state(self, **kw):
            if isinstance(self.r, Exception):
                raise self.r
            return {"Operations": self.r["NewExecutionState"]["Operations"], "NextMarker": None}

    for name, r in responses:
        for api, errcls in (("checkpoint", CheckpointError), ("get_execution_state", GetExecutionStateError)):
            ctx.evaluations += 1
            c = LambdaClient(client=Boto(r))
            try:
                if api == "checkpoint":
                    c.checkpoint("arn", "t1", [], None)
                else:
                    c.get_execution_state("arn", "t1", "m")
                got = "returned"
            except errcls:
                got = "classified"
            except BaseException as e:  # noqa: BLE001
                got = "escaped:" + type(e).__name__
            ctx.count(f"client.{api}.{got.split(':')[0]}")
            if got.startswith("escaped"):
                ctx.violate("C18.client_error_escapes_classification", {"behaviour": f"client|{api}|{name}"}, {"got": got}, component)
            elif name == "ok" and got != "returned":
                ctx.violate("C18.client_rejects_well_formed_response", {"behaviour": f"client|{api}|{name}"}, {"got": got}, component)


def classification(ctx):
    from aws_durable_execution_sdk_python.exceptions import CheckpointError

    qs, impl = [], []
    for status in (None, 0, 200, 399, 400, 403, 404, 409, 429, 499, 500, 503):
        # messages around the prefix rule ("starts with"): the phrase exactly, as a prefix, elsewhere in the text, after a
        # blank, in another case, cut short, empty (seeded C18-8: `in` instead of `startswith`)
        msgs = ("Invalid Checkpoint Token: x", "Invalid Checkpoint Token", "something else",
                "Bad request: Invalid Checkpoint Token", " Invalid Checkpoint Token", "invalid checkpoint token: x",
                "Invalid Checkpoint Toke", "Invalid  Checkpoint Token", "", None)
        errs = [None, {}, {"Code": "InvalidParameterValueException"}, {"Message": "m"}]
        errs += [{"Code": c, "Message": m} for c in ("InvalidParameterValueException", "ResourceNotFoundException",
                                                      "invalidparametervalueexception", None) for m in msgs]
        for err in errs:
            for with_meta in (True, False):
                class E(Exception):
                    pass
                e = E("boom")
                resp = {}
                if with_meta:
                    resp["ResponseMetadata"] = {"HTTPStatusCode": status}
                if err is not None:
                    resp["Error"] = err
                e.response = resp
                cat = CheckpointError.from_exception(e).error_category.value
                st = status if with_meta else None
                q = {"c": "outcome.classify", "hasError": bool(err), "code": (err or {}).get("Code") or "",
                     "tok": ((err or {}).get("Message") or "").startswith("Invalid Checkpoint Token")}
                if st:
                    q["status"] = st
                qs.append(q)
                impl.append(cat)
    answers = ctx.driver.ask_many(qs) if ctx.driver and ctx.driver.ok else [None] * len(qs)
    for q, c, a in zip(qs, impl, answers):
        ctx.evaluations += 1
        want_exec = bool(q.get("status")) and 400 <= q["status"] < 500 and q["status"] != 429 and q["hasError"] and not (
            q["code"] == "InvalidParameterValueException" and q["tok"])
        if (c == "EXECUTION") != want_exec:
            ctx.violate("C18.classification_table", q, {"category": c}, "classify")
        if a is not None:
            if a.get("cat") != c:
                ctx.disagree("classify", q, c, a.get("cat"), "classification differs from Outcome.classify")
            else:
                ctx.traces_validated += 1


def search(ctx):
    saved, ctx.driver = ctx.driver, None
    try:
        run(ctx)
    finally:
        ctx.driver = saved


def replay(ctx, rec):
    run(ctx)
