"""C02 — replay transparency: engine-level check (comp_engine) + final-outcome independence: every
script is also run once WITHOUT injected crashes/faults, and the final outcome of the interrupted
execution must equal the reference outcome."""
from __future__ import annotations

from harness import comp_engine
from harness import engine_exec as E

META = comp_engine.meta("C02")

F2_WITNESS = [{"op": "wfc", "init": "s", "check": [{"err": {"cls": "ValueError", "msg": "boom"}}], "decide": [None], "catch": True},
              {"op": "wait", "secs": 1}]


def final_of(ex):
    last = ex["invs"][-1]["end"]
    return {k: v for k, v in last.items() if k in ("end", "v", "cls", "msg")} if ex["finished"] else None


def run(ctx):
    comp_engine.one(ctx, F2_WITNESS, 1, "C02", component="engine.corpus", crash_p=0.0, fault_p=0.0)
    comp_engine.run(ctx, "C02")
    # final outcome does not depend on where/how often the execution was interrupted
    for i in range(ctx.scale(40, 800)):
        script = E.gen_script(ctx.rng)
        seed = ctx.rng.randrange(1 << 30)
        ref = E.run_execution(script, seed, crash_p=0.0, fault_p=0.0)
        # same backend event choices are not guaranteed across runs (they depend on the path), so only scripts
        # without external events (no wait/callback/invoke) are compared on the final outcome
        if any(op in ("cbnew", "cbres", "invoke") for _, op in E.static_positions(script)) or "cbres" in str(script):
            continue
        intr = E.run_execution(script, seed + 1, crash_p=0.35, fault_p=0.15)
        ctx.case(None)
        if any(ev[0] == "upd" and (ev[1].get("error") or {}).get("type") == "StepInterruptedError" for inv in intr["invs"] for ev in inv["trace"]):
            continue  # a crash inside an at-most-once body turns into a failed attempt by design
        a, b = final_of(ref), final_of(intr)
        if a is not None and b is not None and a != b and b.get("end") != "ckptFailed":
            ctx.violate("C02.final_outcome_depends_on_interruptions", {"script": script, "plans": intr["plans"], "events": intr["events"], "seed": seed + 1,
                                                                      "limits": intr["limits"]},
                        {"first": {"outcome": {"ok": a.get("v")} if a["end"] == "returned" else {"err": {"cls": a.get("cls"), "msg": a.get("msg"), "etype": None}}},
                         "later": {"outcome": {"ok": b.get("v")} if b["end"] == "returned" else {"err": {"cls": b.get("cls"), "msg": b.get("msg"), "etype": None}}},
                         "reference": a, "interrupted": b}, "engine.final", kind="history")


    # map / parallel results (BatchResult with per-branch errors) are replayed from the context's record
    from harness import comp_executor
    comp_executor.run_prop(ctx, "C02", n_quick=100, n_thorough=2500)
    comp_executor.run_templates(ctx, "C02", [comp_executor.gen_error_replay], 40, 1000)


def search(ctx):
    comp_engine.search(ctx, "C02")


def replay(ctx, rec):
    if "blocks" in (rec["case"].get("scenario") or {}):
        from harness import comp_executor
        comp_executor.replay(ctx, rec, "C02")
    else:
        comp_engine.replay(ctx, rec, "C02")
