"""Runs Script workflows on the REAL SDK (durable_execution wrapper, DurableContext, operation
executors, ExecutionState batcher) against the fake backend, under the deterministic simulator,
over several invocations with crashes / faults / backend events; records the same events the Lean
engine model emits; asks the model to execute the same script under the same oracle; compares.

Values: tokens of VALUE_POOL stand for real Python values of the C15 grammar."""
from __future__ import annotations

import datetime as dt
import json
import uuid
from decimal import Decimal

from harness.backend import CrashNow, FakeBackend
from harness.sim import Sim, SimAbort, patched

VALUE_POOL = {
    "None": None, "i5": 5, "t": True, "f1": 1.5, "s": "hello", "tup": (1, "a"), "lst": [1, [2, 3]], "d": {"t": "s", "v": 1},
    "dt": dt.datetime(2024, 1, 2, 3, 4, 5, 6, tzinfo=dt.UTC), "date": dt.date(2024, 1, 2), "dec": Decimal("1.10"),
    "u": uuid.UUID(int=7), "b": b"\x00\x01", "e": "", "z": 0, "nest": {"k": [(1, 2), {"x": None}]},
    # values that compare equal in Python but are different values of the grammar (True == 1, False == 0 == 0.0)
    "i1": 1, "fl": False, "f0": 0.0,
    # an aware datetime with a non-UTC offset: equal to its UTC rendering, yet a different observation (hour, offset, text)
    "dto": dt.datetime(2024, 3, 10, 1, 30, tzinfo=dt.timezone(dt.timedelta(hours=-5))),
    # text outside ASCII, a lone surrogate (os.fsdecode of an undecodable name), numbers at the edges, empty containers inside
    "uni": "r\u00e9sum\u00e9-\u65e5\u672c", "sur": "report-\udcff.csv", "big": 10 ** 30, "neg": -7, "fbig": 1.5e300,
    "emp": {"a": [], "b": {}, "c": ()}, "b0": b"",
}
TOKENS = sorted(VALUE_POOL)


def typed_key(v):
    from harness.props.C15 import to_model
    return json.dumps(to_model(v), sort_keys=True)


_REV = None


def token_of(v):
    global _REV
    if _REV is None:
        _REV = {typed_key(val): tok for tok, val in VALUE_POOL.items()}
    if isinstance(v, str) and (v.startswith("R:") or v.startswith("C:") or "|" in v or v.startswith("E:") or "#" in v or v == "cb"):
        return v
    return _REV.get(typed_key(v), "?" + repr(v)[:60])


def digest(v: str) -> str:
    return v[:8] + "#" + str(len(v)) if len(v) > 40 else v


class SimCrash(BaseException):
    """The invocation dies inside a user function."""


class RecLogger:
    def __init__(self, sink):
        self.sink = sink

    def _rec(self, msg, *args, extra=None, **kw):
        self.sink.append((str(msg), dict(extra or {})))

    debug = info = warning = error = exception = _rec


class Interp:
    """Interprets a Script with real DurableContext calls and records the observable events."""

    def __init__(self, backend: FakeBackend, script, trace, logs):
        self.backend = backend
        self.script = script
        self.trace = trace
        self.logs = logs
        self.idmap = {}

    @staticmethod
    def name(pos):
        return "p:" + ".".join(map(str, pos))

    def tick_body(self):
        b = self.backend
        if b.plan.get("crash_tick") is not None and b.ticks == b.plan["crash_tick"]:
            b.crashed = "in_body"
            raise SimCrash()
        b.ticks += 1

    def handler(self, event, context):
        context.set_logger(RecLogger(self.logs))
        return self.run(self.script, context, [])

    def be_status(self, pos):
        r = self.backend.by_pos(pos)
        return None if r is None else r.status

    def exc_of(self, e):
        import re
        idmap = self.idmap
        msg = re.sub(r"[0-9a-f]{64}", lambda mo: "@" + idmap.get(mo.group(0), "?"), str(e))
        return {"cls": type(e).__name__, "msg": msg, "etype": getattr(e, "error_type", None)}

    def obs_err(self, x):
        return "E:" + x["cls"] + ":" + x["msg"] + ":" + (x["etype"] or "-")

    def run(self, stmts, ctx, ctxpos):
        from aws_durable_execution_sdk_python.config import ChildConfig, Duration, StepConfig, StepSemantics
        from aws_durable_execution_sdk_python.retries import RetryDecision
        from aws_durable_execution_sdk_python.waits import WaitForConditionConfig, WaitForConditionDecision

        n = 0
        obs = []
        slots = getattr(ctx, "_verif_slots", None)
        if slots is None:
            slots = {}
        slots = dict(slots)
        for st in stmts:
            op = st["op"]
            if op == "ret":
                return "|".join(obs)
            if op == "raise":
                cls = type(st["cls"], (Exception,), {})
                raise cls(st["msg"])
            if op == "log":
                self.trace.append(["logcall", ctxpos, st["msg"]])
                # every level of the logger interface, chosen by the call itself (stable across invocations)
                level = ("info", "debug", "warning", "error", "exception")[(sum(map(ord, st["msg"])) + len(ctxpos) + len(obs)) % 5]
                getattr(ctx.logger, level)(st["msg"])
                continue
            if op == "pad":
                obs.append(st.get("ch", "~") * st["n"])
                continue
            if op == "cbres":
                cb = slots[st["slot"]]
                pos = cb._verif_pos
                self.trace.append(["call", "cbres", pos, self.be_status(pos)])
                try:
                    v = cb.result()
                except Exception as e:  # noqa: BLE001
                    x = self.exc_of(e)
                    self.trace.append(["deliver", pos, {"err": x}, self.be_status(pos)])
                    if not st.get("catch"):
                        raise
                    obs.append(self.obs_err(x))
                    continue
                tok = "None" if v is None else v
                self.trace.append(["deliver", pos, {"ok": tok}, self.be_status(pos)])
                obs.append(digest(tok))
                continue
            n += 1
            pos = ctxpos + [n]
            name = self.name(pos)
            self.trace.append(["call", op, pos, self.be_status(pos)])
            try:
                if op == "step":
                    body, retry = st["body"], st.get("retry") or {"max": 1, "delays": [], "noretry": []}

                    def fn(step_ctx, body=body, pos=pos):
                        attempt = step_ctx.logger._default_extra.get("attempt")
                        r_ = self.backend.by_pos(pos)
                        self.trace.append(["enter", pos, "step", attempt, None, None if r_ is None else [r_.status, r_.attempt]])
                        self.tick_body()
                        o = body[min(attempt - 1, len(body) - 1)]
                        if "err" in o:
                            if o["err"]["cls"] == "InvocationError":
                                # user code may raise the SDK's own (exported) error classes inside a step
                                from aws_durable_execution_sdk_python.exceptions import InvocationError as _IE
                                raise _IE(o["err"]["msg"])
                            raise type(o["err"]["cls"], (Exception,), {})(o["err"]["msg"])
                        return VALUE_POOL[o["ok"]]

                    def strategy(err, made, retry=retry):
                        if retry["max"] <= made or type(err).__name__ in retry.get("noretry", []):
                            return RetryDecision.no_retry()
                        ds = retry["delays"]
                        d = ds[min(made - 1, len(ds) - 1)] if ds else 0
                        return RetryDecision.retry(Duration(seconds=0.25 if d == 0 and made % 2 else d))

                    serdes = None
                    if st.get("fragile"):
                        # a serializer whose stored format is no longer readable in later invocations (a deploy changed the
                        # format, a key was rotated): reading a recorded result then fails - it must never run the step again
                        from aws_durable_execution_sdk_python.serdes import ExtendedTypeSerDes
                        interp_ = self

                        class Fragile(ExtendedTypeSerDes):
                            def deserialize(self, data, c):
                                if interp_.backend.invocation_no >= 1:
                                    raise ValueError("stored payload written in an older format")
                                return super().deserialize(data, c)
                        serdes = Fragile()
                    v = ctx.step(fn, name=name, config=StepConfig(
                        retry_strategy=strategy, serdes=serdes,
                        step_semantics=StepSemantics.AT_MOST_ONCE_PER_RETRY if st.get("amo") else StepSemantics.AT_LEAST_ONCE_PER_RETRY))
                    tok = token_of(v)
                elif op == "wait":
                    ctx.wait(Duration.from_seconds(st["secs"]), name=name)
                    tok = "None"
                elif op == "cbnew":
                    cb = ctx.create_callback(name=name)
                    cb._verif_pos = pos
                    slots[st["slot"]] = cb
                    want = "cb-" + ".".join(map(str, pos))
                    self.trace.append(["deliver", pos, {"ok": "cb" if cb.callback_id == want else "cb?" + str(cb.callback_id)}])
                    continue
                elif op == "invoke":
                    from aws_durable_execution_sdk_python.config import InvokeConfig
                    from aws_durable_execution_sdk_python.serdes import JsonSerDes

                    class PayloadOnly(JsonSerDes):      # wire-identical to the default; each direction is legal for one side only
                        def deserialize(self, data, c):
                            raise AssertionError("the payload serdes was asked to read a result")

                    class ResultOnly(JsonSerDes):
                        def serialize(self, value, c):
                            raise AssertionError("the result serdes was asked to write a payload")
                    v = ctx.invoke("target-fn", {1, 2} if st["payload"] == "!set" else VALUE_POOL.get(st["payload"], st["payload"]), name=name,
                                   config=InvokeConfig(serdes_payload=PayloadOnly(), serdes_result=ResultOnly()))
                    tok = "" if v == "" and isinstance(v, str) else token_of(v)
                elif op == "wfc":
                    check_t, decide_t = st["check"], st["decide"]

                    def check(state, cctx, check_t=check_t, pos=pos):
                        attempt = cctx.logger._default_extra.get("attempt")
                        self.trace.append(["enter", pos, "wfc", attempt, token_of(state)])
                        self.tick_body()
                        o = check_t[min(attempt - 1, len(check_t) - 1)]
                        if "err" in o:
                            raise type(o["err"]["cls"], (Exception,), {})(o["err"]["msg"])
                        if o["ok"] == "!set":
                            return {1, 2}        # a state no serializer accepts (oracle-only scenarios)
                        return VALUE_POOL[o["ok"]]

                    def decide(state, attempt, decide_t=decide_t):
                        d = decide_t[min(attempt - 1, len(decide_t) - 1)] if decide_t else None
                        if d is None:
                            return WaitForConditionDecision.stop_polling()
                        # a delay below one second is clamped to 1 s whatever its type: every other zero is a float
                        return WaitForConditionDecision.continue_waiting(Duration(seconds=0.5 if d == 0 and attempt % 2 else d))

                    cser = None
                    if st.get("cserdes"):
                        # a user-supplied serializer with its own text format (oracle-only scenarios): every read and write
                        # of the condition's state has to go through it
                        from aws_durable_execution_sdk_python.serdes import ExtendedTypeSerDes, SerDes

                        class Prefixed(SerDes):
                            def serialize(self, value, c):
                                return "X:" + ExtendedTypeSerDes().serialize(value, c)

                            def deserialize(self, data, c):
                                if not data.startswith("X:"):
                                    raise ValueError("not written by this serializer")
                                return ExtendedTypeSerDes().deserialize(data[2:], c)
                        cser = Prefixed()
                        if st["cserdes"] == "raw":
                            # text states written as they are: the state "" is recorded as an empty payload, the polls
                            # still have to be numbered 1, 2, 3, ... (seeded C13-8)
                            class Raw(SerDes):
                                def serialize(self, value, c):
                                    return value

                                def deserialize(self, data, c):
                                    return data
                            cser = Raw()
                    v = ctx.wait_for_condition(check, WaitForConditionConfig(wait_strategy=decide, initial_state=VALUE_POOL[st["init"]], serdes=cser), name=name)
                    tok = token_of(v)
                elif op == "child":
                    def body_fn(cctx, st=st, pos=pos, slots=slots):
                        self.trace.append(["enter", pos, "context", 0, None])
                        cctx._verif_slots = slots
                        return self.run(st["body"], cctx, pos)

                    summ = st.get("summary")
                    v = ctx.run_in_child_context(body_fn, name=name, config=ChildConfig(
                        summary_generator=(lambda r, summ=summ: summ) if summ else None))
                    tok = v
                else:
                    raise ValueError(op)
            except Exception as e:  # noqa: BLE001
                from aws_durable_execution_sdk_python.exceptions import InvocationError
                x = self.exc_of(e)
                self.trace.append(["deliver", pos, {"err": x}, self.be_status(pos)])
                if not st.get("catch") or isinstance(e, InvocationError):
                    raise  # invocation-level errors are left to propagate, as the SDK requires
                obs.append(self.obs_err(x))
                continue
            self.trace.append(["deliver", pos, {"ok": tok}, self.be_status(pos)])
            obs.append(digest(tok))
        return "|".join(obs)


def run_invocation(script, backend: FakeBackend, plan, seed, schedule=None, limits=None):
    """One invocation of the real wrapper.  Returns dict(out, raised, trace, logs, hung, ...)."""
    limits = limits or {}
    sim = Sim(schedule=schedule, seed=seed, policy="pct" if (seed or 0) % 3 == 0 else "random", max_points=120000, wall_limit=40, quiesce_limit=100.0)
    if limits.get("fine"):
        # every source line of the id-deriving code is a scheduling point
        sim.line_points = lambda code: code.co_filename.endswith(("aws_durable_execution_sdk_python/context.py",
                                                                  "aws_durable_execution_sdk_python/threading.py"))
    if plan.get("clock0") is not None:
        sim.clock = sim.last_progress_clock = plan["clock0"]      # time goes on between invocations
    res = {"trace": [], "logs": []}
    backend.plan = plan
    backend.ticks = 0
    backend.sync_calls = 0
    backend.api_calls = 0
    backend.asyncs_since_sync = 0
    backend.crashed = None
    backend.clock = lambda: sim.clock
    backend.imm = {tuple(p): o for p, o in plan.get("imm", [])}
    with patched(sim):
        import aws_durable_execution_sdk_python.execution as ex
        import aws_durable_execution_sdk_python.operation.child as childmod
        from aws_durable_execution_sdk_python.execution import (
            DurableExecutionInvocationInput, DurableExecutionInvocationInputWithClient, InitialExecutionState, durable_execution)
        from aws_durable_execution_sdk_python.state import ExecutionState

        interp = Interp(backend, script, res["trace"], res["logs"])
        for r_ in backend.ops.values():
            if r_.pos() is not None:
                interp.idmap[r_.id] = ".".join(map(str, r_.pos()))
        pages = backend.initial_pages(plan.get("page_size"))
        if plan.get("first_empty"):
            # payload size limits: the invocation payload may carry no operations at all, only a marker
            # (execution.py:72-80 documents this)
            pages = [[]] + pages
        if plan.get("mid_empty") and len(pages) >= 2:
            pages = pages[:1] + [[]] + pages[1:]      # AWS-style pagination may return an empty page that still has a marker
        backend._pages = pages
        orig_cc = ExecutionState.create_checkpoint
        saved_limit = childmod.CHECKPOINT_SIZE_LIMIT
        saved_resp = ex.LAMBDA_RESPONSE_SIZE_LIMIT
        if "ckpt_limit" in limits:
            childmod.CHECKPOINT_SIZE_LIMIT = limits["ckpt_limit"]
        if "resp_limit" in limits:
            ex.LAMBDA_RESPONSE_SIZE_LIMIT = limits["resp_limit"]

        def cc(self, operation_update=None, is_sync=True):
            if operation_update is not None:
                object.__setattr__(operation_update, "_verif_sync", bool(is_sync))
                pos = None
                if operation_update.name and operation_update.name.startswith("p:"):
                    pos = [int(x) for x in operation_update.name[2:].split(".")]
                    interp.idmap[operation_update.operation_id] = operation_update.name[2:]
                res["trace"].append(["upd", {"pos": pos, "type": operation_update.operation_type.value,
                                             "sub": operation_update.sub_type.value if operation_update.sub_type else None,
                                             "action": operation_update.action.value, "sync": bool(is_sync),
                                             "payload": operation_update.payload,
                                             "error": None if operation_update.error is None else
                                             {"message": operation_update.error.message, "type": operation_update.error.type},
                                             "delay": operation_update.step_options.next_attempt_delay_seconds if operation_update.step_options
                                             else (operation_update.wait_options.wait_seconds if operation_update.wait_options else None),
                                             "replayChildren": bool(operation_update.context_options.replay_children)
                                             if operation_update.context_options else False,
                                             "id": operation_update.operation_id, "parent": operation_update.parent_id}])
            return orig_cc(self, operation_update, is_sync)

        ExecutionState.create_checkpoint = cc
        try:
            handler = durable_execution(script if callable(script) else interp.handler)
            inp = DurableExecutionInvocationInputWithClient(
                durable_execution_arn="arn:exec", checkpoint_token=backend.token,
                initial_execution_state=InitialExecutionState(operations=pages[0], next_marker="1" if len(pages) > 1 else ""),
                service_client=backend)

            def main():
                try:
                    res["out"] = handler(inp, None)
                except SimAbort:
                    raise
                except BaseException as e:  # noqa: BLE001
                    res["raised"] = e

            sim.stop_when_main_done = True
            sim.run(main)
        finally:
            ExecutionState.create_checkpoint = orig_cc
            childmod.CHECKPOINT_SIZE_LIMIT = saved_limit
            ex.LAMBDA_RESPONSE_SIZE_LIMIT = saved_resp
    res["hung"] = sim.hung if "out" not in res and "raised" not in res else None
    res["limit"] = sim.limit_hit
    res["decisions"] = list(sim.decisions)
    res["leftover_threads"] = [t.name for t in sim.threads if not t.done and t.name.startswith("dex-handler")]
    res["keep"] = backend.asyncs_since_sync
    res["clock"] = sim.clock
    res["crashed"] = backend.crashed
    return res
