"""Runs the real ExecutionState checkpoint batcher under the deterministic simulator, derives the
model's action sequence from the primitive events of the real code, and provides the direct
oracles for C05 / C06 / C03 (batcher layer).

Scenario = {cfg: {maxBytes, maxOps, window}, producers: [[item,...],...], fault: {at: k, kind: 'raise'|'after_apply'}|None,
            stop: 'never'|'end', schedule/seed}
item = {pad: int (payload length), sync: bool, empty: bool}
"""
from __future__ import annotations

import json

from harness.sim import Sim, patched


class ClientBoom(Exception):
    pass


class ClientCancelled(BaseException):
    """What a cancelled / interrupted client call raises (asyncio.CancelledError, gevent.Timeout, SystemExit...): not an
    Exception.  The checkpoint thread does not handle it; whatever else happens, nobody may be told that his record
    was accepted."""


def run_scenario(sc, schedule=None, seed=0, max_points=60000):
    sim = Sim(schedule=schedule, seed=seed, policy="pct" if (seed or 0) % 3 == 0 else "random", max_points=max_points, wall_limit=30, quiesce_limit=50.0 if not (sc.get("fault") or {}).get("kind") == "slow_raise" else 400.0)
    res = {}
    with patched(sim):
        from aws_durable_execution_sdk_python.exceptions import BackgroundThreadError
        from aws_durable_execution_sdk_python.lambda_service import (
            CheckpointOutput, CheckpointUpdatedExecutionState, OperationAction, OperationType, OperationUpdate, StateOutput)
        from aws_durable_execution_sdk_python.state import CheckpointBatcherConfig, ExecutionState, QueuedOperation

        calls = []  # (token, [op ids], outcome)
        fault = sc.get("fault")

        class Client:
            def checkpoint(self, durable_execution_arn, checkpoint_token, updates, client_token):
                sim.point()
                k = len(calls)
                ids = [u.operation_id for u in updates]
                if fault and fault["at"] == k and fault["kind"] == "slow_raise":
                    # the call stays in flight for a long (virtual) time and is then refused
                    sim.block_until(lambda: False, 150.0)
                if fault and fault["at"] == k and fault["kind"] == "base_raise":
                    calls.append((checkpoint_token, ids, "raise"))
                    sim.log("api.fail", None)
                    raise ClientCancelled(f"call {k} cancelled")
                if fault and fault["at"] == k and fault["kind"] in ("raise", "slow_raise"):
                    calls.append((checkpoint_token, ids, "raise"))
                    sim.log("api.fail", None)
                    raise ClientBoom(f"call {k} failed")
                if fault and fault["at"] == k and fault["kind"] == "after_apply":
                    calls.append((checkpoint_token, ids, "after_apply"))
                    sim.log("api.applied", None)
                    return CheckpointOutput(checkpoint_token=f"t{k+1}",
                                            new_execution_state=CheckpointUpdatedExecutionState(operations=[], next_marker="more"))
                calls.append((checkpoint_token, ids, "ok"))
                sim.log("api.ok", None)
                return CheckpointOutput(checkpoint_token=f"t{k+1}", new_execution_state=CheckpointUpdatedExecutionState())

            def get_execution_state(self, durable_execution_arn, checkpoint_token, next_marker, max_items=1000):
                sim.point()
                sim.log("api.fail_after_apply", None)
                raise ClientBoom("get_execution_state failed")

        cfg = sc["cfg"]
        st = ExecutionState("arn", "t0", {}, Client(),
                            CheckpointBatcherConfig(max_batch_size_bytes=cfg["maxBytes"], max_batch_time_seconds=cfg["window"],
                                                    max_batch_operations=cfg["maxOps"]))
        sim.label(st._checkpoint_queue, "mainQ")
        sim.label(st._overflow_queue, "ovQ")
        sim.label(st._checkpointing_stopped, "stopped")
        sim.label(st._checkpointing_failed._event, "failed")
        sim.label(st._operations_lock, "opsLock")
        sim.label(st._parent_done_lock, "pdLock")

        items = {}  # nat id -> dict(size, sync, empty, opid)
        outcomes = {}
        nid = [0]

        def mk_update(opid, pad, ch="x"):
            return OperationUpdate(operation_id=opid, operation_type=OperationType.STEP, action=OperationAction.SUCCEED,
                                   payload=ch * pad)

        def wire_size(upd):
            # the size of the update as the client serialises it (botocore's JSON serialiser: json.dumps with its
            # default escaping), measured by the harness itself and not by the code under test
            return 0 if upd is None else len(json.dumps(upd.to_dict()).encode("utf-8"))

        plan = []
        for pi, seq in enumerate(sc["producers"]):
            row = []
            for it in seq:
                i = nid[0]
                nid[0] += 1
                opid = f"op{i}"
                upd = None if it.get("empty") else mk_update(opid, it["pad"], it.get("ch", "x"))
                size = wire_size(upd)
                items[i] = {"size": size, "sync": bool(it["sync"]), "empty": upd is None, "opid": opid}
                row.append((i, upd, bool(it["sync"])))
            plan.append(row)

        def producer(row):
            def f():
                for i, upd, sync in row:
                    sim.tls.item = i
                    try:
                        st.create_checkpoint(upd, is_sync=sync)
                        outcomes[i] = "retOk" if sync else "retAsync"
                    except BackgroundThreadError:
                        outcomes[i] = "retErr"
                    finally:
                        sim.tls.item = None
            return f

        def main():
            cons = sim.Thread(target=st.checkpoint_batches_forever, name="consumer")
            cons.start()
            ths = [sim.Thread(target=producer(row), name=f"p{pi}") for pi, row in enumerate(plan)]
            for t in ths:
                t.start()
            for t in ths:
                t.join()
            if sc.get("stop", "end") == "end":
                sim.tls.item = None
                st.stop_checkpointing()
                cons.join()

        sim.stop_when_main_done = False
        sim.tagger = lambda: {"item": getattr(sim.tls, "item", None)}
        sim.run(main)
        res.update(calls=calls, outcomes=outcomes, items=items, hung=sim.hung, limit=sim.limit_hit,
                   decisions=list(sim.decisions), switches=sim.switches, trace=sim.trace)
    res["acts"], res["map_error"] = derive_actions(res["trace"], items, sc["cfg"])
    return res


def derive_actions(trace, items, cfg):
    """Primitive events of the real code -> model actions (same order).  Returns (acts, error)."""
    acts = []
    phase = "drain"
    batch_len = 0
    started = False
    checks = {}  # item -> number of failed.is_set seen in this call
    cons = [e for e in trace if e["t"] == "consumer"]
    # index consumer events for look-ahead
    nxt_of = {}
    for a, b in zip(cons, cons[1:]):
        nxt_of[id(a)] = b
    sync_in_batch = [False]

    def item_act(kind, i):
        it = items[i]
        return [kind, i, it["size"], it["sync"]]

    def leave_drain():
        nonlocal phase
        acts.append(["drainEnd"])
        phase = "first" if batch_len == 0 else "window"

    for ev in trace:
        t, op, obj, fn = ev["t"], ev["op"], ev["obj"], ev["fn"]
        if t != "consumer":
            i = ev.get("item")
            if op == "event.set" and obj == "stopped":
                acts.append(["stop"])
                continue
            if i is None:
                continue
            if op == "event.is_set" and obj == "failed" and (fn == "create_checkpoint" or ev.get("fn2") == "create_checkpoint"):
                n = checks.get(i, 0)
                checks[i] = n + 1
                acts.append(item_act("pCheck" if n == 0 else "pRecheck", i))
            elif op == "queue.put" and obj == "mainQ":
                acts.append(item_act("pPut", i))
            elif op == "event.wake" and fn == "wait" and ev.get("fn2") == "create_checkpoint" and obj != "failed":
                acts.append(item_act("pWake", i))
            continue
        # ---------------- consumer
        if op == "event.is_set" and obj == "stopped" and fn == "checkpoint_batches_forever":
            if not started:
                started = True
                if ev["val"]:
                    acts.extend([["drainEnd"], ["firstStop"]])
                    phase = "done"
                continue
            if phase == "release":
                acts.append(["releaseAll"])
                phase = "loopCheck"
            if phase == "loopCheck":
                if ev["val"]:
                    acts.append(["loopStop"])
                    phase = "done"
                else:
                    acts.append(["loopAgain"])
                    phase = "drain"
                    batch_len = 0
            continue
        if fn == "_collect_checkpoint_batch":
            if obj == "ovQ" and op == "queue.empty":
                if phase == "drain":
                    leave_drain()
                continue
            if obj == "ovQ" and op == "queue.get":
                n = nxt_of.get(id(ev))
                if n is not None and n["op"] == "queue.put" and n["obj"] == "ovQ":
                    acts.append(["drainPutBack"])
                    phase = "first" if batch_len == 0 else "window"
                else:
                    acts.append(["drainTake"])
                    batch_len += 1
                continue
            if obj == "ovQ" and op == "queue.put":
                continue
            if phase == "drain":
                leave_drain()
            if op == "event.is_set" and obj == "stopped":
                if phase == "first" and ev["val"]:
                    acts.append(["firstStop"])
                    phase = "done"
                continue
            if obj == "mainQ" and op == "queue.get":
                if phase == "first":
                    acts.append(["firstGet"])
                    batch_len = 1
                    phase = "window"
                elif phase == "window":
                    acts.append(["windowGet"])
                    n = nxt_of.get(id(ev))
                    if n is not None and n["op"] == "queue.put" and n["obj"] == "ovQ":
                        phase = "call"
                    else:
                        batch_len += 1
                continue
            if obj == "mainQ" and op == "queue.timeout":
                if phase == "window":
                    acts.append(["windowEnd"])
                    phase = "call"
                continue
            continue
        if op in ("api.ok", "api.fail", "api.applied"):
            if phase == "drain":
                leave_drain()
            if phase == "window":
                acts.append(["windowEnd"])
                phase = "call"
            if op == "api.ok":
                acts.append(["apiOk"])
                phase = "release"
            elif op == "api.fail":
                acts.append(["apiFail"])
                phase = "failFlag"
            else:
                acts.append(["apiFailAfterApply"])
                phase = "failFlag"
            continue
        if fn == "checkpoint_batches_forever" or (fn == "set" and ev.get("fn2") == "checkpoint_batches_forever"):
            if op == "event.set" and obj == "failed":
                acts.append(["failFlag"])
                phase = "failBatch"
                continue
            if op == "event.set":
                if phase == "release":
                    acts.append(["releaseAll"])
                    phase = "loopCheck"
                elif phase == "failBatch":
                    acts.append(["failBatch"])
                    phase = "failOverflow"
                continue
            if op == "queue.is_empty" and obj == "ovQ":
                if phase == "failBatch":
                    acts.append(["failBatch"])
                    phase = "failOverflow"
                if ev["val"]:
                    acts.append(["failOvEnd"])
                    phase = "failMain"
                continue
            if op == "queue.get" and obj == "ovQ":
                acts.append(["failOvOne"])
                continue
            if op == "queue.is_empty" and obj == "mainQ":
                if ev["val"]:
                    acts.append(["failMainEnd"])
                    phase = "done"
                continue
            if op == "queue.get" and obj == "mainQ":
                acts.append(["failMainOne"])
                continue
    return acts, None


# ----------------------------------------------------------------------------------- oracles
def oracles(ctx, prop, sc, res, component):
    """Direct statements of C05/C06/C03 on the implementation's own behaviour."""
    case = {"scenario": sc, "decisions": res["decisions"]}
    items = res["items"]
    opid2i = {v["opid"]: i for i, v in items.items()}
    calls = res["calls"]
    fault = sc.get("fault")
    stop_early = sc.get("stop") == "early"
    V = lambda name, detail: ctx.violate(name, case, detail, component, kind="schedule")  # noqa: E731

    if res["limit"]:
        V(f"{prop}.step_limit", {"note": "simulation step limit hit (spinning)"})
        return
    handed = [a[1] for a in res["acts"] if a[0] == "pPut"]
    handed_real = [i for i in handed if not items[i]["empty"]]
    delivered = [opid2i[o] for tok, ids, outc in calls if outc in ("ok", "after_apply") for o in ids]
    # no loss / dup / reorder: delivered is a prefix of the handed-over sequence
    if delivered != handed_real[: len(delivered)]:
        V("C05.order_no_loss_no_dup", {"handed": handed_real, "delivered": delivered})
    # token chain
    toks = [tok for tok, _, _ in calls]
    if toks != [f"t{k}" for k in range(len(calls))]:
        V("C05.token_chain", {"tokens": toks})
    # limits (counting only non-empty updates, as the API sees them)
    for tok, ids, outc in calls:
        if len(ids) > sc["cfg"]["maxOps"]:
            V("C05.count_limit", {"call": ids, "maxOps": sc["cfg"]["maxOps"]})
        size = sum(items[opid2i[o]]["size"] for o in ids)
        if size > sc["cfg"]["maxBytes"] and len(ids) > 1:
            V("C05.size_limit", {"call": ids, "size": size, "maxBytes": sc["cfg"]["maxBytes"]})
    # after a failed call no further call
    bad = [k for k, (_, _, outc) in enumerate(calls) if outc != "ok"]
    if bad and bad[0] != len(calls) - 1:
        V("C06.no_call_after_failure", {"calls": [(t, i, o) for t, i, o in calls]})
    # every caller released (C05 liveness / C06 all woken): nobody hung
    all_ids = sorted(items)
    if res["hung"]:
        blocked = [i for i in all_ids if i not in res["outcomes"]]
        V(("C06" if fault else "C05") + ".caller_blocked_forever", {"hung_threads": res["hung"], "unreleased_items": blocked})
        return
    # sync OK only after applied, and everything before it delivered (write-ahead at batcher level)
    for i, o in res["outcomes"].items():
        if o == "retOk" and not items[i]["empty"]:
            if i not in delivered:
                V("C03.sync_returned_before_applied", {"item": i})
            else:
                pos = handed_real.index(i)
                if delivered[: pos + 1] != handed_real[: pos + 1]:
                    V("C05.sync_returned_with_earlier_updates_undelivered", {"item": i})
    if fault is None:
        errs = [i for i, o in res["outcomes"].items() if o == "retErr"]
        if errs:
            V("C05.spurious_failure", {"items": errs})
        # with stop only at the end, everything handed over by a sync caller was delivered
    else:
        # after the failure every later caller fails; nobody reports success for an undelivered update (checked above)
        pass


def write_ahead_only(ctx, sc, res, component):
    """For faults outside the batcher model (a BaseException from the client): only the write-ahead statement - a
    synchronous caller that returned normally has its update in an applied call.  (The thread dies on such a fault and
    callers may stay blocked: liveness is claimed for Exceptions only, C06 META.)"""
    case = {"scenario": sc, "decisions": res["decisions"]}
    opid2i = {it["opid"]: i for i, it in res["items"].items()}
    delivered = [opid2i[o] for tok, ids, outc in res["calls"] if outc in ("ok", "after_apply") for o in ids]
    for i, o in res["outcomes"].items():
        if o == "retOk" and not res["items"][i]["empty"] and res["items"][i]["sync"] and i not in delivered:
            ctx.violate("C03.sync_returned_before_applied", case, {"item": i, "calls": res["calls"][:6]}, component, kind="schedule")


def compare(ctx, sc, res, component):
    if not (ctx.driver and ctx.driver.ok):
        return False
    items = res["items"]
    q = {"c": "batcher.run", "maxBytes": sc["cfg"]["maxBytes"], "maxOps": sc["cfg"]["maxOps"], "acts": res["acts"],
         "ids": sorted(items)}
    a = ctx.driver.ask(q)
    case = {"scenario": sc, "decisions": res["decisions"]}
    if "error" in a:
        ctx.disagree(component, case, res["acts"][:40], a, "driver error")
        return False
    if not a.get("enabled"):
        k = a.get("failed_at")
        ctx.disagree(component, case, {"acts_upto": res["acts"][max(0, (k or 0) - 6): (k or 0) + 1], "at": k}, {"phase": a.get("phase")},
                     "implementation performed an action the model does not enable (trace inclusion)")
        return False
    # calls: model records whole batches incl. empty checkpoints; the API sees only non-empty updates
    mcalls = [[tok, [i for i in ids if not items[i]["empty"]]] for tok, ids in a["calls"]]
    icalls = [[int(tok[1:]), [int(o[2:]) for o in ids]] for tok, ids, outc in res["calls"] if outc in ("ok", "after_apply")]
    if mcalls != icalls:
        ctx.disagree(component, case, icalls, mcalls, "API call log differs")
        return False
    want = {i: p for i, p in a["ppc"]}
    got = {i: res["outcomes"].get(i, "unfinished") for i in items}
    norm = lambda p: p if p in ("retOk", "retErr", "retAsync") else "unfinished"  # noqa: E731
    if {i: norm(p) for i, p in want.items()} != got:
        ctx.disagree(component, case, got, want, "per-caller outcomes differ")
        return False
    ctx.traces_validated += 1
    return True


# ----------------------------------------------------------------------------------- generators
def gen_scenario(rng, with_fault=False):
    maxBytes = rng.choice([150, 300, 300, 1000, 100000])
    cfg = {"maxBytes": maxBytes, "maxOps": rng.choice([1, 2, 3, 3, 10]), "window": rng.choice([0.0, 0.05, 0.3, 1.0])}
    np_ = rng.choice([1, 2, 2, 3, 4])
    producers = []
    for _ in range(np_):
        seq = []
        for _ in range(rng.choice([1, 2, 3, 4])):
            r = rng.random()
            pad = rng.choice([0, 5, 40]) if r < 0.6 else rng.choice([100, 200, 250]) if r < 0.85 else rng.choice([400, 1200])
            it = {"pad": pad, "sync": rng.random() < 0.55, "empty": rng.random() < 0.08}
            if rng.random() < 0.25:
                # non-ASCII text (escaped on the wire: 6 bytes per UTF-16 unit) and, rarely, a lone surrogate as
                # os.fsdecode produces for an undecodable file name
                it["ch"] = rng.choice(["\u00e9", "\u65e5", "\u65e5", "\U0001f600", "\udcff"])
                it["pad"] = pad // rng.choice([1, 3, 6])
            seq.append(it)
        producers.append(seq)
    sc = {"cfg": cfg, "producers": producers, "fault": None, "stop": "end"}
    if with_fault:
        total = sum(len(p) for p in producers)
        sc["fault"] = {"at": rng.randrange(0, max(1, min(total, 4))), "kind": rng.choice(["raise", "raise", "raise", "after_apply", "after_apply", "slow_raise"])}
    return sc


def nontrivial_c05(sc, res):
    ok_calls = [c for c in res["calls"] if c[2] == "ok"]
    return len(ok_calls) >= 2 and (any(len(c[1]) >= 2 for c in ok_calls) or any(a[0] in ("drainTake",) for a in res["acts"]))


def nontrivial_c06(sc, res):
    # the fault hit while at least one producer was blocked or racing
    if not any(c[2] != "ok" for c in res["calls"]):
        return False
    acts = res["acts"]
    k = next((n for n, a in enumerate(acts) if a[0] in ("apiFail", "apiFailAfterApply")), None)
    if k is None:
        return False
    before = acts[:k]
    put = {a[1] for a in before if a[0] == "pPut"}
    woke = {a[1] for a in before if a[0] == "pWake"}
    racing = {a[1] for a in before if a[0] == "pCheck"} - put
    return bool((put - woke)) or bool(racing)
