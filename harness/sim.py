"""Deterministic simulation of the SDK's real threaded code.

Real OS threads, but exactly one holds the *baton* at any time.  Every concurrency primitive the
SDK uses (Lock, Event, Queue, Thread, ThreadPoolExecutor/Future, time, datetime.now) is replaced
by a shim whose operations are *scheduling points placed BEFORE the operation's effect* (reads such
as `is_set`/`empty` included).  At a point the controller picks the next runnable logical thread
from an explicit schedule (list of ints, taken modulo the number of runnable threads; afterwards a
seeded RNG or "keep running" policy).  A virtual clock advances only when every thread is blocked
and some have a timeout.  A run is a pure function of (program, schedule); "all blocked, no timer"
is reported as `hung` instead of hanging the checker.

The shims are installed by `Sim.patch_sdk()` into the SDK's module namespaces from outside — no
change to /repo is needed.
"""
from __future__ import annotations

import collections
import datetime as _real_datetime
import queue as _real_queue
import random
import sys
import threading as _real_threading
import time as _real_time

_REAL_THREAD = _real_threading.Thread
_REAL_SEM = _real_threading.Semaphore
_REAL_EVENT = _real_threading.Event


class SimAbort(BaseException):
    """Raised inside logical threads to unwind them when the simulation is torn down."""


class SimLimit(Exception):
    pass


class LThread:
    def __init__(self, sim, tid, name, fn):
        self.sim = sim
        self.tid = tid
        self.name = name
        self.fn = fn
        self.sem = _REAL_SEM(0)
        self.done = False
        self.started = False
        self.pred = None  # blocked until pred() is true
        self.deadline = None  # or until the virtual clock reaches this
        self.exc = None
        self.real = None
        self.daemon = True

    def __repr__(self):
        return f"<L{self.tid}:{self.name}>"


class Sim:
    def __init__(self, schedule=None, seed=None, policy="random", max_points=200000, quiesce_limit=400.0,
                 wall_limit=60.0):
        self.schedule = list(schedule or [])
        self.sched_pos = 0
        self.decisions = []  # the decisions actually taken (replayable)
        self.rng = random.Random(seed if seed is not None else 0)
        self.policy = policy
        self.threads: list[LThread] = []
        self.current: LThread | None = None
        self.clock = 1_000_000.0
        self.last_progress_clock = self.clock
        self.points = 0
        self.max_points = max_points
        self.quiesce_limit = quiesce_limit
        self.wall_limit = wall_limit
        self.aborted = False
        self.hung = None  # list of thread names blocked forever
        self.limit_hit = False
        self.finished = _REAL_EVENT()
        self.trace = []
        self.labels = {}
        self._obj_counter = collections.Counter()
        self.tls = _real_threading.local()
        self.switches = 0
        self.main_tid = 0
        self.stop_when_main_done = True
        self.trace_enabled = True
        self.tagger = None
        self.trace_hook = None
        # optional fine-grained mode: a predicate on code objects; every source line executed inside a matching
        # function is a scheduling point (finds races between plain statements, where no primitive is involved)
        self.line_points = None
        self.time_jitter = 0.0            # probability per scheduling decision that time passes (see _time_passes)
        self.time_jitter_horizon = 1.0    # only deadlines at most this far ahead are jumped to
        self.prio = {}
        self.change_points = {self.rng.randrange(1, 400) for _ in range(2)} if policy == "pct" else set()

    # ------------------------------------------------------------------ labelling / tracing
    def label(self, obj, name):
        self.labels[id(obj)] = name
        return obj

    def name_of(self, obj):
        return self.labels.get(id(obj)) or f"{type(obj).__name__}@{id(obj) % 100000}"

    def auto_label(self, obj, kind):
        f = sys._getframe(1)
        while f is not None and f.f_code.co_filename == __file__:
            f = f.f_back
        site = f.f_code.co_name if f is not None else "?"
        self._obj_counter[(kind, site)] += 1
        self.labels[id(obj)] = f"{kind}:{site}#{self._obj_counter[(kind, site)]}"

    def me(self) -> LThread | None:
        return getattr(self.tls, "lt", None)

    def log(self, op, obj=None, **extra):
        if not self.trace_enabled:
            return
        me = self.me()
        fn, fn2 = "", ""
        try:
            f = sys._getframe(1)
            while f is not None and f.f_code.co_filename == __file__:
                f = f.f_back
            if f is not None:
                fn = f.f_code.co_name
                g = f.f_back
                while g is not None and g.f_code.co_filename == __file__:
                    g = g.f_back
                fn2 = g.f_code.co_name if g is not None else ""
        except ValueError:
            pass
        ev = {"t": me.name if me else "?", "op": op, "obj": self.name_of(obj) if obj is not None else None,
              "fn": fn, "fn2": fn2}
        ev.update(extra)
        if self.tagger is not None:
            ev.update(self.tagger())
        self.trace.append(ev)
        if self.trace_hook is not None:
            self.trace_hook(ev)

    def progress(self):
        self.last_progress_clock = self.clock

    # ------------------------------------------------------------------ scheduling core
    def spawn(self, fn, name=None, start=True) -> LThread:
        lt = LThread(self, len(self.threads), name or f"T{len(self.threads)}", fn)
        self.threads.append(lt)

        def body():
            self.tls.lt = lt
            lt.sem.acquire()
            try:
                if self.line_points is not None:
                    import sys as _sys
                    sim_ = self

                    def local(frame, event, arg):
                        if event == "line" and not sim_.aborted:
                            sim_.point("line")
                        return local

                    def tracer(frame, event, arg):
                        if event == "call" and sim_.line_points(frame.f_code):
                            return local
                        return None
                    _sys.settrace(tracer)
                if not self.aborted:
                    lt.fn()
            except SimAbort:
                pass
            except BaseException as e:  # noqa: BLE001
                lt.exc = e
            finally:
                lt.done = True
                self._thread_exit(lt)

        lt.real = _REAL_THREAD(target=body, daemon=True, name=f"sim-{lt.name}")
        lt.real.start()
        lt.started = start
        return lt

    def _runnable(self):
        out = []
        for t in self.threads:
            if t.done or not t.started:
                continue
            if t.pred is None:
                out.append(t)
            else:
                ok = False
                try:
                    ok = bool(t.pred())
                except Exception:  # noqa: BLE001
                    ok = True
                if ok or (t.deadline is not None and t.deadline <= self.clock):
                    out.append(t)
        return out

    def _time_passes(self):
        """Real time does not wait for quiescence: with a small probability (or when the replayed schedule says so) the
        clock jumps to the earliest deadline of a blocked thread although other threads are runnable, so that a timer
        or a timed wait can fire in the middle of somebody else's critical sequence.  Recorded in `decisions` as a
        negative entry -(points+1) so that a replay jumps at the same step."""
        if self.sched_pos < len(self.schedule) and self.schedule[self.sched_pos] < 0:
            if self.points < -self.schedule[self.sched_pos] - 1:
                return
            self.sched_pos += 1
        elif self.sched_pos < len(self.schedule) or not self.time_jitter or self.rng.random() >= self.time_jitter:
            return
        dl = [t.deadline for t in self.threads if not t.done and t.started and t.pred is not None and t.deadline is not None and t.deadline > self.clock]
        if dl and min(dl) - self.clock <= self.time_jitter_horizon:
            self.clock = min(dl)
            self.decisions.append(-(self.points + 1))

    def _pick(self, me):
        while True:
            if self.aborted:
                return None
            self._time_passes()
            run = self._runnable()
            if run:
                if len(run) == 1:
                    return run[0]
                if self.sched_pos < len(self.schedule) and self.schedule[self.sched_pos] >= 0:
                    k = self.schedule[self.sched_pos] % len(run)
                    self.sched_pos += 1
                elif self.policy == "random":
                    k = self.rng.randrange(len(run))
                elif self.policy == "pct":
                    # PCT-style priority scheduling (Burckhardt et al.): random thread priorities, the highest runnable
                    # thread always runs, and at a few random step numbers the running thread drops to the lowest
                    # priority.  Finds orderings in which one thread must run far ahead of another, which uniform
                    # random choice at every point practically never produces.
                    for t in run:
                        if t.tid not in self.prio:
                            self.prio[t.tid] = self.rng.random()
                    if self.points in self.change_points and me is not None and me.tid in self.prio:
                        self.prio[me.tid] = -1.0 - len(self.decisions) * 1e-6
                    k = max(range(len(run)), key=lambda j: self.prio[run[j].tid])
                elif self.policy == "sticky" and me in run:
                    k = run.index(me)
                else:
                    k = 0
                self.decisions.append(k)
                return run[k]
            alive = [t for t in self.threads if not t.done and t.started]
            if not alive:
                return None
            main = self.threads[self.main_tid] if self.threads else None
            timers = [t.deadline for t in alive if t.deadline is not None]
            if self.stop_when_main_done and main is not None and main.done:
                return None
            if timers and (min(timers) - self.last_progress_clock) <= self.quiesce_limit:
                self.clock = max(self.clock, min(timers))
                continue
            # blocked for ever (or only pollers spinning without progress)
            self.hung = sorted(t.name for t in alive if t.deadline is None or True)
            return None

    def _teardown(self):
        self.aborted = True
        self.finished.set()
        for t in self.threads:
            if not t.done:
                t.sem.release()

    def _switch(self, me: LThread):
        self.points += 1
        if self.points > self.max_points:
            self.limit_hit = True
            self._teardown()
            raise SimAbort()
        nxt = self._pick(me)
        if nxt is None:
            self._teardown()
            raise SimAbort()
        if nxt is me:
            return
        self.switches += 1
        self.current = nxt
        nxt.sem.release()
        me.sem.acquire()
        if self.aborted:
            raise SimAbort()

    def _thread_exit(self, me: LThread):
        if self.aborted:
            return
        nxt = self._pick(me)
        if nxt is None:
            self._teardown()
            return
        self.current = nxt
        nxt.sem.release()

    def point(self, label="user"):
        """Scheduling point for the calling logical thread."""
        me = self.me()
        if me is None:
            return
        if self.aborted:
            raise SimAbort()
        self._switch(me)

    def block_until(self, pred, timeout=None) -> bool:
        """Block the calling logical thread until pred() holds (True) or the virtual timeout expires (False)."""
        me = self.me()
        if me is None:
            # not under simulation (e.g. module import time) - evaluate directly
            return bool(pred())
        deadline = None if timeout is None else self.clock + max(0.0, timeout)
        while True:
            if self.aborted:
                raise SimAbort()
            me.pred, me.deadline = pred, deadline
            try:
                self._switch(me)
            finally:
                me.pred, me.deadline = None, None
            if pred():
                return True
            if deadline is not None and self.clock >= deadline:
                return False

    def run(self, main_fn, name="main"):
        """Run main_fn as logical thread 0; returns when every logical thread is done, the main thread
        is done (stop_when_main_done), or the run is hung / over its limits."""
        lt = self.spawn(main_fn, name)
        self.main_tid = lt.tid
        self.current = lt
        lt.sem.release()
        ok = self.finished.wait(self.wall_limit)
        if not ok:
            self.limit_hit = True
            self._teardown()
        # give threads a moment to unwind
        for t in self.threads:
            if t.real is not None:
                t.real.join(0.5)
        return lt

    # ------------------------------------------------------------------ shims
    def make_shims(self):
        sim = self

        class Event:
            def __init__(self):
                self._flag = False
                sim.auto_label(self, "Event")

            def is_set(self):
                sim.point()
                sim.log("event.is_set", self, val=self._flag)
                return self._flag

            isSet = is_set

            def set(self):
                sim.point()
                sim.log("event.set", self)
                self._flag = True
                sim.progress()
                sim.point("after-set")      # a woken waiter may run before the setter's next plain statement

            def clear(self):
                sim.point()
                self._flag = False

            def wait(self, timeout=None):
                sim.point()
                sim.log("event.wait", self)
                r = sim.block_until(lambda: self._flag, timeout)
                sim.log("event.wake", self, val=r)
                if r:
                    sim.progress()
                return r

        class Lock:
            def __init__(self):
                self._owner = None
                sim.auto_label(self, "Lock")

            def acquire(self, blocking=True, timeout=-1):
                sim.point()
                if not blocking:
                    if self._owner is None:
                        self._owner = sim.me() or True
                        sim.log("lock.acquire", self)
                        return True
                    return False
                r = sim.block_until(lambda: self._owner is None, None if timeout is None or timeout < 0 else timeout)
                if r:
                    self._owner = sim.me() or True
                    sim.log("lock.acquire", self)
                return r

            def release(self):
                sim.point()
                sim.log("lock.release", self)
                self._owner = None
                sim.progress()
                # second scheduling point *after* the effect: plain reads of shared fields are not
                # scheduling points, so code that leaves a critical section and then looks at shared
                # state (e.g. `len(self._waiters)` outside the mutex) must be preemptible right here
                sim.point("after-release")

            def locked(self):
                return self._owner is not None

            def __enter__(self):
                self.acquire()
                return self

            def __exit__(self, *a):
                self.release()

        class RLock(Lock):
            """Re-entrant lock: the owner may acquire again (T4: threading.RLock)."""
            def __init__(self):
                super().__init__()
                self._depth = 0

            def acquire(self, blocking=True, timeout=-1):
                me = sim.me() or True
                if self._owner is me and self._depth > 0:
                    self._depth += 1
                    return True
                r = super().acquire(blocking, timeout)
                if r:
                    self._depth = 1
                return r

            def release(self):
                if self._depth > 1:
                    self._depth -= 1
                    return
                self._depth = 0
                super().release()

        class Queue:
            def __init__(self, maxsize=0):
                self._q = collections.deque()
                sim.auto_label(self, "Queue")

            def put(self, item, block=True, timeout=None):
                sim.point()
                sim.log("queue.put", self, item=sim.item_id(item))
                self._q.append(item)
                sim.progress()
                sim.point("after-put")

            def put_nowait(self, item):
                self.put(item)

            def get(self, block=True, timeout=None):
                sim.point()
                if not block:
                    if self._q:
                        it = self._q.popleft()
                        sim.log("queue.get", self, item=sim.item_id(it))
                        sim.progress()
                        return it
                    sim.log("queue.empty", self)
                    raise _real_queue.Empty
                r = sim.block_until(lambda: len(self._q) > 0, timeout)
                if not r:
                    sim.log("queue.timeout", self)
                    raise _real_queue.Empty
                it = self._q.popleft()
                sim.log("queue.get", self, item=sim.item_id(it))
                sim.progress()
                return it

            def get_nowait(self):
                return self.get(block=False)

            def empty(self):
                sim.point()
                e = len(self._q) == 0
                sim.log("queue.is_empty", self, val=e)
                return e

            def qsize(self):
                return len(self._q)

            def task_done(self):
                pass

        class Thread:
            def __init__(self, group=None, target=None, name=None, args=(), kwargs=None, daemon=None):
                self._target, self._args, self._kwargs = target, args, kwargs or {}
                self.name = name or "thread"
                self.daemon = bool(daemon)
                self._lt = None

            def start(self):
                sim.point()
                self._lt = sim.spawn(lambda: self._target(*self._args, **self._kwargs), self.name)
                sim.log("thread.start", None, name=self.name)

            def join(self, timeout=None):
                sim.point()
                if self._lt is None:
                    return
                sim.block_until(lambda: self._lt.done, timeout)

            def is_alive(self):
                return self._lt is not None and not self._lt.done

        class Future:
            def __init__(self):
                self._state = "PENDING"  # PENDING RUNNING CANCELLED FINISHED
                self._result = None
                self._exc = None
                self._cbs = []

            def cancel(self):
                sim.point()
                if self._state in ("RUNNING", "FINISHED"):
                    return False
                if self._state == "CANCELLED":
                    return True
                self._state = "CANCELLED"
                sim.log("future.cancel", None)
                self._invoke()
                return True

            def cancelled(self):
                return self._state == "CANCELLED"

            def running(self):
                return self._state == "RUNNING"

            def done(self):
                return self._state in ("CANCELLED", "FINISHED")

            def _invoke(self):
                for cb in list(self._cbs):
                    try:
                        cb(self)
                    except Exception:  # noqa: BLE001  (concurrent.futures logs and swallows Exception only)
                        sim.log("future.callback_exception", None)

            def add_done_callback(self, fn):
                sim.point()
                if self.done():
                    try:
                        fn(self)
                    except Exception:  # noqa: BLE001
                        sim.log("future.callback_exception", None)
                    return
                self._cbs.append(fn)

            def result(self, timeout=None):
                sim.point()
                r = sim.block_until(self.done, timeout)
                if not r:
                    raise TimeoutError
                if self._state == "CANCELLED":
                    import concurrent.futures as cf
                    raise cf.CancelledError
                if self._exc is not None:
                    raise self._exc
                return self._result

            def exception(self, timeout=None):
                sim.block_until(self.done, timeout)
                return self._exc

        class ThreadPoolExecutor:
            def __init__(self, max_workers=None, thread_name_prefix="", initializer=None, initargs=()):
                if max_workers is None:
                    max_workers = 8
                if max_workers <= 0:
                    raise ValueError("max_workers must be greater than 0")
                self._max = max_workers
                self._prefix = thread_name_prefix or "pool"
                sim._obj_counter[("pool", self._prefix)] += 1
                self._pid = sim._obj_counter[("pool", self._prefix)]
                self._work = collections.deque()
                self._workers = []
                self._idle = 0
                self._shutdown = False
                self.max_running = 0
                self._running = 0

            def submit(self, fn, *args, **kwargs):
                sim.point()
                if self._shutdown:
                    raise RuntimeError("cannot schedule new futures after shutdown")
                fut = Future()
                self._work.append((fut, fn, args, kwargs))
                sim.log("pool.submit", None, pool=self._prefix, pid=self._pid)
                # like concurrent.futures: reuse a worker that went idle after finishing a task
                # (the idle semaphore is released only then), otherwise start a new one
                if self._idle > 0:
                    self._idle -= 1
                elif len(self._workers) < self._max:
                    idx = len(self._workers)
                    lt = sim.spawn(self._worker, f"{self._prefix}{self._pid}_{idx}")
                    self._workers.append(lt)
                sim.progress()
                return fut

            def _worker(self):
                first = True
                while True:
                    if not first:
                        self._idle += 1
                    first = False
                    sim.block_until(lambda: bool(self._work) or self._shutdown)
                    if not self._work:
                        return
                    fut, fn, args, kwargs = self._work.popleft()
                    if fut._state == "CANCELLED":
                        continue
                    fut._state = "RUNNING"
                    sim.log("pool.begin", None, pool=self._prefix, pid=self._pid,
                            idx=next((getattr(a, "index", None) for a in args if hasattr(a, "index") and hasattr(a, "func")), None))
                    self._running += 1
                    self.max_running = max(self.max_running, self._running)
                    try:
                        res = fn(*args, **kwargs)
                    except SimAbort:
                        raise
                    except BaseException as e:  # noqa: BLE001
                        self._running -= 1
                        fut._exc = e
                        fut._state = "FINISHED"
                        sim.log("pool.end", None, pool=self._prefix, exc=e,
                                idx=next((getattr(a, "index", None) for a in args if hasattr(a, "index") and hasattr(a, "func")), None))
                        sim.progress()
                        # like concurrent.futures: callbacks run in the worker; a BaseException from a
                        # callback escapes (kills this worker thread)
                        fut._invoke()
                        continue
                    self._running -= 1
                    fut._result = res
                    fut._state = "FINISHED"
                    sim.log("pool.end", None, pool=self._prefix, exc=None,
                            idx=next((getattr(a, "index", None) for a in args if hasattr(a, "index") and hasattr(a, "func")), None))
                    sim.progress()
                    fut._invoke()

            def shutdown(self, wait=True, cancel_futures=False):
                sim.point()
                self._shutdown = True
                if cancel_futures:
                    while self._work:
                        fut, *_ = self._work.popleft()
                        if fut._state == "PENDING":
                            fut._state = "CANCELLED"
                            fut._invoke()
                sim.progress()
                if wait:
                    sim.block_until(lambda: all(w.done for w in self._workers))

            def __enter__(self):
                return self

            def __exit__(self, *a):
                self.shutdown(wait=True)
                return False

        class TimeMod:
            @staticmethod
            def time():
                return sim.clock

            @staticmethod
            def monotonic():
                return sim.clock

            @staticmethod
            def sleep(t):
                sim.point()
                sim.block_until(lambda: False, t)

        class _DT(_real_datetime.datetime):
            @classmethod
            def now(cls, tz=None):
                return _real_datetime.datetime.fromtimestamp(sim.clock, tz=tz)

            @classmethod
            def utcnow(cls):
                return _real_datetime.datetime.fromtimestamp(sim.clock, tz=_real_datetime.UTC).replace(tzinfo=None)

        class _ModProxy:
            """Stands in for a stdlib module inside SDK modules: the clock-reading names are virtual, everything else is
            the real module's."""
            def __init__(self, real, overrides):
                self.__dict__["_real"] = real
                self.__dict__.update(overrides)

            def __getattr__(self, name):
                return getattr(self.__dict__["_real"], name)

        _TimeShim = TimeMod
        TimeMod = _ModProxy(_real_time, {"time": _TimeShim.time, "monotonic": _TimeShim.monotonic, "sleep": _TimeShim.sleep,
                                         "time_ns": lambda: int(sim.clock * 1e9), "monotonic_ns": lambda: int(sim.clock * 1e9),
                                         "perf_counter": _TimeShim.monotonic})
        DatetimeMod = _ModProxy(_real_datetime, {"datetime": _DT})

        class ThreadingMod:
            pass

        ThreadingMod.Event = Event
        ThreadingMod.Lock = Lock
        ThreadingMod.RLock = RLock
        ThreadingMod.Thread = Thread
        ThreadingMod.current_thread = _real_threading.current_thread
        ThreadingMod.local = _real_threading.local

        class QueueMod:
            pass

        QueueMod.Queue = Queue
        QueueMod.Empty = _real_queue.Empty

        self.Event, self.Lock, self.Queue, self.Thread = Event, Lock, Queue, Thread
        self.ThreadPoolExecutor, self.Future = ThreadPoolExecutor, Future
        self.TimeMod, self.DatetimeMod, self.ThreadingMod, self.QueueMod = TimeMod, DatetimeMod, ThreadingMod, QueueMod
        return self

    @staticmethod
    def item_id(item):
        try:
            u = getattr(item, "operation_update", None)
            if u is not None:
                return f"{u.operation_id}:{u.action.value}"
            if hasattr(item, "operation_update"):
                return "EMPTY"
        except Exception:  # noqa: BLE001
            pass
        return None

    # ------------------------------------------------------------------ patching the SDK
    def patch_sdk(self):
        """Install the shims into the SDK's modules.  Returns an undo function."""
        self.make_shims()
        import aws_durable_execution_sdk_python.threading as sdk_threading
        import aws_durable_execution_sdk_python.state as sdk_state
        import aws_durable_execution_sdk_python.exceptions as sdk_exc
        import aws_durable_execution_sdk_python.suspend as sdk_suspend
        import aws_durable_execution_sdk_python.execution as sdk_execution
        import aws_durable_execution_sdk_python.concurrency.executor as sdk_executor
        import aws_durable_execution_sdk_python.concurrency.models as sdk_models

        patches = [
            (sdk_threading, "Event", self.Event),
            (sdk_threading, "Lock", self.Lock),
            (sdk_state, "queue", self.QueueMod),
            (sdk_state, "threading", self.ThreadingMod),
            (sdk_state, "time", self.TimeMod),
            (sdk_state, "Lock", self.Lock),
            (sdk_exc, "time", self.TimeMod),
            (sdk_suspend, "datetime", self.DatetimeMod),
            (sdk_execution, "ThreadPoolExecutor", self.ThreadPoolExecutor),
            (sdk_executor, "threading", self.ThreadingMod),
            (sdk_executor, "time", self.TimeMod),
            (sdk_executor, "ThreadPoolExecutor", self.ThreadPoolExecutor),
            (sdk_models, "threading", self.ThreadingMod),
            (sdk_models, "time", self.TimeMod),
        ]
        # any SDK module that holds the real `time` / `datetime` module under that name reads the virtual clock instead
        # (also a module that did not import it when this list was written)
        listed = {(id(m), a) for m, a, _ in patches}
        for name, mod in list(sys.modules.items()):
            if mod is None or not name.startswith("aws_durable_execution_sdk_python"):
                continue
            if getattr(mod, "time", None) is _real_time and (id(mod), "time") not in listed:
                patches.append((mod, "time", self.TimeMod))
            if getattr(mod, "datetime", None) is _real_datetime and (id(mod), "datetime") not in listed:
                patches.append((mod, "datetime", self.DatetimeMod))
        saved = [(m, a, getattr(m, a)) for m, a, _ in patches]
        for m, a, v in patches:
            setattr(m, a, v)

        def undo():
            for m, a, v in saved:
                setattr(m, a, v)

        self.undo = undo
        return undo


class patched:
    """Context manager: `with patched(sim): ...`"""

    def __init__(self, sim: Sim):
        self.sim = sim

    def __enter__(self):
        self.undo = self.sim.patch_sdk()
        return self.sim

    def __exit__(self, *a):
        self.undo()
        return False
