"""Packaged retry / wait strategies (C12, C13 strategy part) vs Strategy.lean.

Exact domain: dyadic back-off rates and jitter draws whose float arithmetic is exact (all
intermediate values < 2**53), so float == rational and decisions must be *equal* to the model's.
Boundary grid: non-dyadic rates, large attempt numbers: only the property's bounds are checked."""
from __future__ import annotations

import math
import re
from fractions import Fraction

RATES = [(1, 1), (2, 1), (3, 1), (3, 2), (5, 4), (1, 2)]


class patched_random:
    def __init__(self, value):
        self.value = value

    def __enter__(self):
        import aws_durable_execution_sdk_python.config as cfgmod
        self.mod = cfgmod
        self.saved = cfgmod.random

        class R:
            @staticmethod
            def random():
                return self.value
        cfgmod.random = R
        return self

    def __exit__(self, *a):
        self.mod.random = self.saved


def mk_cfg(c, kind):
    from aws_durable_execution_sdk_python.config import Duration, JitterStrategy
    from aws_durable_execution_sdk_python.retries import RetryStrategyConfig
    from aws_durable_execution_sdk_python.waits import WaitStrategyConfig

    rate = c["rateNum"] / c["rateDen"] if c["rateDen"] != 1 else (c["rateNum"] if c.get("intRate") else float(c["rateNum"]))
    kw = dict(max_attempts=c["maxAttempts"], initial_delay=Duration(c["initial"]), max_delay=Duration(c["maxDelay"]),
              backoff_rate=rate, jitter_strategy=JitterStrategy(c["jitter"]))
    if kind == "retry":
        return RetryStrategyConfig(**kw)
    return WaitStrategyConfig(should_continue_polling=lambda st: bool(st), **kw)


def exact_ok(c, a):
    num = c["initial"] * c["rateNum"] ** max(a - 1, 0)
    return num < 2 ** 50 and c["rateDen"] ** max(a - 1, 0) < 2 ** 50


def gen_cfg(rng):
    rn, rd = rng.choice(RATES)
    return {"maxAttempts": rng.choice([1, 2, 3, 6, 10, 12]), "initial": rng.choice([0, 1, 2, 5, 10, 60]),
            "maxDelay": rng.choice([0, 1, 30, 60, 300, 3600]), "rateNum": rn, "rateDen": rd,
            "jitter": rng.choice(["NONE", "FULL", "HALF"]), "intRate": rng.random() < 0.5}


def run(ctx, component="strategy"):
    from aws_durable_execution_sdk_python.retries import create_retry_strategy
    from aws_durable_execution_sdk_python.waits import create_wait_strategy

    qs, meta = [], []
    for _ in range(ctx.scale(400, 8000)):
        c = gen_cfg(ctx.rng)
        kind = ctx.rng.choice(["retry", "wait"])
        a = ctx.rng.randrange(1, c["maxAttempts"] + 3)
        if not exact_ok(c, a):
            continue
        jn, jd = ctx.rng.randrange(0, 16), 16
        flag = ctx.rng.random() < 0.8
        with patched_random(jn / jd):
            if kind == "retry":
                # retryable controlled through the error-type filter
                scfg = mk_cfg(c, "retry")
                scfg.retryable_error_types = [ValueError] if True else None
                scfg.retryable_errors = []
                err = ValueError("x") if flag else KeyError("x")
                d = create_retry_strategy(scfg)(err, a)
                impl = d.delay_seconds if d.should_retry else None
                q = {"c": "strategy.retry", **c, "retryable": flag, "a": a, "jn": jn, "jd": jd}
            else:
                d = create_wait_strategy(mk_cfg(c, "wait"))(flag, a)
                impl = d.delay_seconds if d.should_wait else None
                q = {"c": "strategy.wait", **c, "cont": flag, "a": a, "jn": jn, "jd": jd}
        case = {"kind": kind, "cfg": c, "a": a, "j": f"{jn}/{jd}", "flag": flag}
        # property bounds directly on the implementation
        if impl is not None and not (1 <= impl <= max(1, c["maxDelay"])):
            ctx.violate("C12.delay_within_1_and_max", case, {"delay": impl}, component)
        if impl is not None and a >= c["maxAttempts"]:
            ctx.violate("C12.retry_beyond_max_attempts", case, {"delay": impl}, component)
        if impl is not None and c["jitter"] == "NONE":
            base = min(Fraction(c["initial"]) * Fraction(c["rateNum"], c["rateDen"]) ** (a - 1), c["maxDelay"])
            if impl != max(1, math.ceil(base)):
                ctx.violate("C12.no_jitter_follows_backoff", case, {"delay": impl, "expected": max(1, math.ceil(base))}, component)
        qs.append(q)
        meta.append((case, impl))
        ctx.case((kind, tuple(sorted(c.items())), a, jn, flag) if a >= 2 else None)
        ctx.count("kind=" + kind)
        ctx.count("jitter=" + c["jitter"])
        ctx.count("granted" if impl is not None else "declined")
    answers = ctx.driver.ask_many(qs) if ctx.driver and ctx.driver.ok else [None] * len(qs)
    for (case, impl), a in zip(meta, answers):
        if a is None:
            continue
        if a.get("d") != impl:
            ctx.disagree(component, case, impl, a.get("d"), "strategy decision differs from Strategy.lean")
        else:
            ctx.traces_validated += 1
    if meta:
        ctx.sample({"case": meta[0][0], "impl_delay": meta[0][1]}, limit=3)
    filters(ctx, component + ".filters")
    boundary(ctx, component + ".boundary")


def filters(ctx, component):
    """The error filters (retries.py:74-104): the real strategy's retry/no-retry decision vs `Strategy.retryable` (plain
    strings are substring tests - also when they contain regex metacharacters; a compiled pattern is represented in the
    model by the outcome of its search), and vs an independent re-statement in Python."""
    from aws_durable_execution_sdk_python.retries import RetryStrategyConfig, create_retry_strategy

    msgs = ["timeout", "Connection reset", "throttled: slow down", "", "boom", "upstream said: HTTP 503 (Service Unavailable)",
            "model v105 done", "model v1.5 done", "a+b=c", "aab=c", "[x] failed", "x failed", "cost $5", "a|b", "^start", "start",
            "dot.", "dots", "back\\slash", "(", "*", "r\u00e9sum\u00e9 missing",
            "line one\nline two", "\n", "trailing newline\n", "tab\tsep", "\r\nwin"]
    pats = [None, [], ["timeout"], [re.compile(r"^Conn")], ["x", re.compile("thrott")], ["HTTP 503 (Service Unavailable)"], ["v1.5"],
            ["a+b"], ["[x]"], ["$5"], ["a|b", "zzz"], ["^start"], ["dot."], ["back\\slash"], ["("], ["*"], [""], ["r\u00e9sum\u00e9"]]
    types = [None, [], [ValueError], [KeyError, OSError]]
    cases = []
    for m in msgs:
        for p in pats:
            for t in types:
                for exc in (ValueError, KeyError, RuntimeError):
                    e = exc(m)
                    try:
                        cfg = RetryStrategyConfig(max_attempts=3, retryable_errors=p, retryable_error_types=t)
                        got = create_retry_strategy(cfg)(e, 1).should_retry
                    except Exception as ex:  # noqa: BLE001
                        got = "raised " + type(ex).__name__
                    pl = p if p is not None else ([re.compile(".*")] if t is None else [])
                    want = any((q.search(str(e)) is not None) if isinstance(q, re.Pattern) else (q in str(e)) for q in pl) or any(isinstance(e, tt) for tt in (t or []))
                    ctx.evaluations += 1
                    case = {"msg": m, "patterns": str(p), "types": str(t), "exc": exc.__name__}
                    if got != want:
                        ctx.violate("C12.error_filter", case, {"got": got, "want": want}, component)
                    q = {"c": "strategy.retryable", "msg": str(e),
                         "filters": None if p is None else [{"text": f} if isinstance(f, str) else {"hit": f.search(str(e)) is not None} for f in p],
                         "types": None if t is None else [isinstance(e, tt) for tt in t]}
                    cases.append((case, q, got))
    if ctx.driver and ctx.driver.ok:
        for (case, q, got), a in zip(cases, ctx.driver.ask_many([q for _, q, _ in cases])):
            if a.get("r") != got:
                ctx.disagree(component, dict(case, query=q), got, a, "retry filter decision differs from Strategy.retryable")
            else:
                ctx.traces_validated += 1


def boundary(ctx, component):
    """Large attempt numbers / non-dyadic / large rates: the strategy must still answer within the bounds
    (never raise)."""
    from aws_durable_execution_sdk_python.config import Duration, JitterStrategy
    from aws_durable_execution_sdk_python.retries import RetryStrategyConfig, create_retry_strategy
    from aws_durable_execution_sdk_python.waits import WaitStrategyConfig, create_wait_strategy

    grid = [(2.0, 2000, 1100), (2.0, 5000, 1025), (1.1, 100000, 8000), (10.0, 400, 320), (1000.0, 200, 110), (2, 3000, 2500),
            (1.5, 60, 59), (2.5, 40, 39), (1.7, 90, 77)]
    for rate, max_attempts, a in grid:
        for kind in ("retry", "wait"):
            case = {"kind": kind, "rate": rate, "max_attempts": max_attempts, "attempt": a}
            ctx.evaluations += 1
            try:
                with patched_random(0.5):
                    if kind == "retry":
                        d = create_retry_strategy(RetryStrategyConfig(max_attempts=max_attempts, backoff_rate=rate,
                                                                      max_delay=Duration(300), jitter_strategy=JitterStrategy.FULL))(ValueError("x"), a)
                        granted, delay = d.should_retry, d.delay_seconds
                    else:
                        d = create_wait_strategy(WaitStrategyConfig(should_continue_polling=lambda s: True, max_attempts=max_attempts,
                                                                    backoff_rate=rate, max_delay=Duration(300)))(1, a)
                        granted, delay = d.should_wait, d.delay_seconds
            except Exception as e:  # noqa: BLE001
                ctx.violate("C12.strategy_raises", case, {"exception": type(e).__name__, "msg": str(e)[:100]}, component)
                continue
            if granted and not (1 <= delay <= 300):
                ctx.violate("C12.delay_within_1_and_max", case, {"delay": delay}, component)


def search(ctx):
    saved, ctx.driver = ctx.driver, None
    try:
        run(ctx, "strategy.search")
    finally:
        ctx.driver = saved
