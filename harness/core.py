"""Shared machinery of /verif: build + audit of the Lean development, the model driver,
evidence files, replay files and known findings.

Entry point is `main()` (called by /verif/check).  One run = one property:

  1. build   `lake build` of the model, the property file Props/<id>.lean and the driver
  2. audit   `#print axioms` of every theorem registered for the property in obligations.json,
             plus a source scan for sorry/admit/axiom/native_decide/...
  3. corr    the property's correspondence module(s): model (driver) vs real code in /repo
  4. oracle  the property evaluated directly on the implementation's behaviour
  5. search  if 1-3 broke, look for a concrete failing input with the oracles
  6. report  VIOLATION / KNOWN-FINDING lines, evidence/<id>.json, exit status
"""
from __future__ import annotations

import fcntl
import hashlib
import importlib
import json
import os
import random
import re
import subprocess
import sys
import time
import traceback

VERIF = os.path.dirname(os.path.dirname(os.path.abspath(__file__)))
LEAN_DIR = os.path.join(VERIF, "lean")
REPO = os.environ.get("VERIF_REPO", "/repo")
DRIVER_BIN = os.path.join(LEAN_DIR, ".lake", "build", "bin", "driver")
ALLOWED_AXIOMS = {"propext", "Classical.choice", "Quot.sound"}
FORBIDDEN_RE = re.compile(
    r"\bsorry\b|\badmit\b|^\s*axiom\s|native_decide|bv_decide|implemented_by|\bunsafe\s|maxHeartbeats\s+0|@\[extern"
)

TRUSTED_BASE_COMMON = [
    "T1 Lean 4.33 kernel; axioms propext, Classical.choice, Quot.sound only (audited per run with #print axioms); no native_decide/bv_decide/sorry/own axioms (source scan per run)",
    "T2 correspondence harness + driver JSON glue: differential testing on the generated cases only",
]


def sdk_path_setup() -> None:
    src = os.path.join(REPO, "src")
    if src not in sys.path:
        sys.path.insert(0, src)
    for k in list(sys.modules):
        if k.startswith("aws_durable_execution_sdk_python"):
            del sys.modules[k]


# --------------------------------------------------------------------------- build / audit


def _run(cmd, cwd=None, timeout=1800, env=None):
    t0 = time.time()
    try:
        p = subprocess.run(
            cmd, cwd=cwd, capture_output=True, text=True, timeout=timeout, env=env
        )
        return p.returncode, p.stdout + p.stderr, time.time() - t0
    except subprocess.TimeoutExpired as e:
        return 124, f"timeout after {timeout}s: {e}", time.time() - t0


class BuildLock:
    def __enter__(self):
        os.makedirs(os.path.join(LEAN_DIR, ".lake"), exist_ok=True)
        self.f = open(os.path.join(LEAN_DIR, ".lake", "verif.lock"), "w")
        fcntl.flock(self.f, fcntl.LOCK_EX)
        return self

    def __exit__(self, *a):
        fcntl.flock(self.f, fcntl.LOCK_UN)
        self.f.close()


def lake_build(targets: list[str]) -> tuple[bool, str]:
    with BuildLock():
        rc, out, _ = _run(["lake", "build", *targets], cwd=LEAN_DIR, timeout=3000)
    return rc == 0, out


def load_obligations() -> dict:
    with open(os.path.join(VERIF, "obligations.json")) as f:
        return json.load(f)


def scan_sources() -> list[str]:
    """Forbidden constructs in the Lean sources (comments stripped)."""
    hits = []
    for root, _dirs, files in os.walk(LEAN_DIR):
        if ".lake" in root:
            continue
        for fn in files:
            if not fn.endswith(".lean"):
                continue
            path = os.path.join(root, fn)
            text = open(path, encoding="utf-8").read()
            text = re.sub(r"/-.*?-/", lambda m: "\n" * m.group(0).count("\n"), text, flags=re.S)
            for i, line in enumerate(text.split("\n"), 1):
                line = line.split("--")[0]
                if FORBIDDEN_RE.search(line):
                    hits.append(f"{os.path.relpath(path, VERIF)}:{i}: {line.strip()[:100]}")
    return hits


def audit(prop: str, obl: dict) -> dict:
    """Returns {theorem: {"ok": bool, "axioms": [...], "msg": str}}."""
    entry = obl.get(prop, {})
    names = list(entry.get("theorems", []))
    mods = entry.get("modules", [f"Props.{prop}"])
    res = {n: {"ok": False, "axioms": [], "msg": "not checked"} for n in names}
    if not names:
        return res
    adir = os.path.join(LEAN_DIR, ".lake", "audit")
    os.makedirs(adir, exist_ok=True)
    path = os.path.join(adir, f"Audit{prop}_{os.getpid()}.lean")
    with open(path, "w") as f:
        for m in mods:
            f.write(f"import {m}\n")
        for n in names:
            f.write(f"#print axioms {n}\n")
    rc, out, _ = _run(["lake", "env", "lean", path], cwd=LEAN_DIR, timeout=900)
    try:
        os.unlink(path)
    except OSError:
        pass
    # parse
    flat = re.sub(r"\n\s+", " ", out)
    for n in names:
        m = re.search(r"'" + re.escape(n) + r"' depends on axioms: \[([^\]]*)\]", flat)
        if m:
            ax = [a.strip() for a in m.group(1).split(",") if a.strip()]
            bad = [a for a in ax if a not in ALLOWED_AXIOMS]
            res[n] = {"ok": not bad, "axioms": ax, "msg": "" if not bad else f"forbidden axioms {bad}"}
        elif re.search(r"'" + re.escape(n) + r"' does not depend on any axioms", flat):
            res[n] = {"ok": True, "axioms": [], "msg": ""}
        else:
            msg = "theorem missing or file failed to elaborate"
            mm = re.search(r"error:[^\n]*" + re.escape(n.split(".")[-1]) + r"[^\n]*", out)
            if mm:
                msg = mm.group(0)[:300]
            res[n] = {"ok": False, "axioms": [], "msg": msg}
    if rc != 0 and all(not r["ok"] for r in res.values()):
        for r in res.values():
            r["msg"] = (r["msg"] + " | " + out[-400:]).strip()
    return res


# --------------------------------------------------------------------------- driver


class Driver:
    """Line protocol to the Lean model: one JSON case per line in, one JSON answer per line out."""

    def __init__(self):
        self.ok = os.path.exists(DRIVER_BIN)
        self.p = None
        self.lines = 0
        if self.ok:
            self.p = subprocess.Popen(
                [DRIVER_BIN], stdin=subprocess.PIPE, stdout=subprocess.PIPE, text=True, bufsize=1 << 20
            )

    def ask_many(self, cases: list[dict]) -> list[dict]:
        if not self.ok:
            return [{"error": "driver-unavailable"} for _ in cases]
        import threading

        payload = "".join(json.dumps(c, separators=(",", ":")) + "\n" for c in cases)

        def writer():
            # written from a separate thread: the driver answers while we are still writing, and a
            # full pipe in either direction must not deadlock the check
            try:
                self.p.stdin.write(payload)
                self.p.stdin.flush()
            except (BrokenPipeError, ValueError):
                pass

        th = threading.Thread(target=writer, daemon=True)
        th.start()
        out = []
        for _ in cases:
            line = self.p.stdout.readline()
            if not line:
                self.ok = False
                out.append({"error": "driver-died"})
                continue
            self.lines += 1
            try:
                out.append(json.loads(line))
            except json.JSONDecodeError:
                out.append({"error": "driver-bad-json", "raw": line[:200]})
        th.join(5)
        return out

    def ask(self, case: dict) -> dict:
        return self.ask_many([case])[0]

    def close(self):
        if self.p:
            try:
                self.p.stdin.close()
                self.p.wait(timeout=5)
            except Exception:
                self.p.kill()


# --------------------------------------------------------------------------- run context


class Ctx:
    def __init__(self, prop: str, tier: str, seed: int):
        self.prop = prop
        self.tier = tier
        self.seed = seed
        self.rng = random.Random(seed * 1000003 + int(prop[1:]))
        self.driver: Driver | None = None
        self.evaluations = 0
        self.nontrivial: set = set()
        self.samples: list = []
        self.hist: dict[str, int] = {}
        self.traces_validated = 0
        self.disagreements: list[dict] = []
        self.violations: list[dict] = []
        self.notes: list[str] = []
        self.components: dict[str, dict] = {}
        self.t0 = time.time()
        self.exhaustive = False

    @property
    def thorough(self) -> bool:
        return self.tier == "thorough"

    def scale(self, quick: int, thorough: int) -> int:
        return thorough if self.thorough else quick

    def count(self, key: str, n: int = 1):
        self.hist[key] = self.hist.get(key, 0) + n

    def sample(self, s, limit=6):
        if len(self.samples) < limit:
            self.samples.append(s)

    def case(self, nontrivial_key=None):
        self.evaluations += 1
        if nontrivial_key is not None:
            self.nontrivial.add(nontrivial_key)

    def disagree(self, component: str, case, impl, model, note=""):
        self.disagreements.append(
            {"component": component, "case": case, "impl_output": impl, "model_output": model, "note": note}
        )

    def violate(self, oracle: str, case, detail, component: str = "", kind: str = "input", finding: str | None = None):
        """A direct violation of the property on the implementation.  `finding` is the id of the
        known finding whose *specific pattern* this case was matched against by the caller's
        matcher (never a blanket waiver): see findings.match()."""
        self.violations.append(
            {"oracle": oracle, "case": case, "detail": detail, "component": component, "kind": kind}
        )


def case_hash(obj) -> str:
    return hashlib.sha1(json.dumps(obj, sort_keys=True, default=str).encode()).hexdigest()[:12]


def write_replay(prop: str, rec: dict) -> str:
    d = os.path.join(VERIF, "replays")
    os.makedirs(d, exist_ok=True)
    path = os.path.join(d, f"{prop}-{case_hash(rec)}.json")
    with open(path, "w") as f:
        json.dump(rec, f, indent=1, default=str)
    return path


def load_known_findings() -> list[dict]:
    p = os.path.join(VERIF, "known_findings.json")
    if not os.path.exists(p):
        return []
    with open(p) as f:
        return json.load(f)


def write_evidence(prop: str, ev: dict):
    d = os.path.join(VERIF, "evidence")
    os.makedirs(d, exist_ok=True)
    tmp = os.path.join(d, f".{prop}.json.tmp{os.getpid()}")
    with open(tmp, "w") as f:
        json.dump(ev, f, indent=1, default=str)
    os.replace(tmp, os.path.join(d, f"{prop}.json"))


# --------------------------------------------------------------------------- main


def get_module(prop: str):
    return importlib.import_module(f"harness.props.{prop}")


def main(argv: list[str]) -> int:
    import argparse

    ap = argparse.ArgumentParser()
    ap.add_argument("prop")
    ap.add_argument("--tier", default=os.environ.get("VERIF_TIER", "quick"))
    ap.add_argument("--replay", default=None)
    ap.add_argument("--no-build", action="store_true")
    args = ap.parse_args(argv)
    prop = args.prop
    tier = args.tier if args.tier in ("quick", "thorough") else "quick"
    try:
        seed = int(os.environ.get("VERIF_SEED", "0"))
    except ValueError:
        seed = 0

    sdk_path_setup()
    import logging
    logging.disable(logging.CRITICAL)
    from harness import findings

    mod = get_module(prop)

    if args.replay:
        with open(args.replay) as f:
            rec = json.load(f)
        if rec.get("kind") == "obligation":
            print(f"replay names a broken obligation, not an input: {rec.get('broken_obligation')}")
            ds = [d for d in (rec.get("first_disagreements") or []) if isinstance(d, dict) and isinstance(d.get("case"), dict)]
            if not ds:
                print(f"VIOLATION property={prop} replay={args.replay} no-failing-input-found")
                return 1
            rec = dict(rec, case=ds[0]["case"])      # re-run the first recorded model/implementation disagreement
        ctx = Ctx(prop, tier, seed)
        if os.path.exists(DRIVER_BIN):
            ctx.driver = Driver()
        try:
            mod.replay(ctx, rec)
        finally:
            if ctx.driver:
                ctx.driver.close()
        if ctx.violations:
            v = ctx.violations[0]
            print(f"replayed: oracle={v['oracle']} detail={json.dumps(v['detail'], default=str)[:400]}")
            print(f"VIOLATION property={prop} replay={args.replay}")
            return 1
        if getattr(ctx, "disagreements", None):
            print(f"replayed: model and implementation still differ: {json.dumps(ctx.disagreements[0], default=str)[:300]}")
            print(f"VIOLATION property={prop} replay={args.replay} no-failing-input-found")
            return 1
        print("replay no longer fails")
        return 0

    t0 = time.time()
    obl = load_obligations()
    entry = obl.get(prop, {})
    theorems = entry.get("theorems", [])
    modules = entry.get("modules", [f"Props.{prop}"])

    # 1. build
    build_ok, build_out = (True, "")
    if not args.no_build:
        build_ok, build_out = lake_build(modules + ["driver"])
    driver_ok = os.path.exists(DRIVER_BIN)
    if not build_ok:
        # maybe only the proofs broke: try the driver alone
        d_ok, _ = lake_build(["driver"])
        driver_ok = d_ok and os.path.exists(DRIVER_BIN)

    # 2. audit
    aud = audit(prop, obl) if theorems else {}
    scan = scan_sources()
    discharged = [n for n, r in aud.items() if r["ok"]] if not scan else []
    broken = [f"{n}: {r['msg']}" for n, r in aud.items() if not r["ok"]]
    if scan:
        broken += [f"forbidden construct: {h}" for h in scan]
    if not build_ok:
        errs = [l for l in build_out.split("\n") if "error" in l][:5]
        broken.append("lake build failed: " + " | ".join(errs)[:600])

    leanchecker_note = None
    if tier == "thorough" and build_ok:
        rc, out, dt = _run(["lake", "env", "leanchecker", *modules], cwd=LEAN_DIR, timeout=2400)
        leanchecker_note = f"leanchecker {' '.join(modules)}: rc={rc} in {dt:.0f}s"
        if rc != 0:
            broken.append("leanchecker rejected: " + out[-300:])

    # 3./4. correspondence + oracles
    ctx = Ctx(prop, tier, seed)
    ctx.driver = Driver() if driver_ok else None
    infra_error = None
    try:
        mod.run(ctx)
    except Exception:
        infra_error = traceback.format_exc()
    tie_broken = bool(broken) or bool(ctx.disagreements) or (ctx.driver is None) or (ctx.driver and not ctx.driver.ok)
    if ctx.driver is None or (ctx.driver and not ctx.driver.ok):
        broken.append("model driver unavailable (build failure or crash): correspondence not checked")

    # 5. failing-input search when the tie is broken and no direct violation was seen yet
    searched = False
    if tie_broken and not infra_error and hasattr(mod, "search"):
        searched = True
        try:
            mod.search(ctx)
        except Exception:
            infra_error = traceback.format_exc()
    if ctx.driver:
        ctx.driver.close()

    # 6. classify violations against known findings
    known = [k for k in load_known_findings() if k.get("property") == prop]
    out_lines = []
    new_violations = []
    seen_known: dict[str, dict] = {}
    for v in ctx.violations:
        k = findings.match(prop, v, known)
        if k is not None:
            seen_known.setdefault(k["id"], v)
        else:
            new_violations.append(v)
    for k in known:
        if k.get("status") == "open" and k["id"] in seen_known:
            out_lines.append(f"KNOWN-FINDING: property={prop} {k['id']} {k['what']}")
    exit_code = 0
    reported = 0
    dedup = set()
    for v in new_violations:
        key = (v["oracle"], v["component"])
        if key in dedup:
            continue
        dedup.add(key)
        rec = {
            "property": prop, "kind": v["kind"], "component": v["component"], "oracle": v["oracle"],
            "case": v["case"], "detail": v["detail"], "seed": seed, "tier": tier,
        }
        path = write_replay(prop, rec)
        out_lines.append(f"VIOLATION property={prop} replay={path}")
        reported += 1
        exit_code = 1
    if tie_broken and not new_violations:
        rec = {
            "property": prop, "kind": "obligation", "seed": seed, "tier": tier,
            "broken_obligation": broken[:10],
            "first_disagreements": ctx.disagreements[:3],
            "note": "proof obligation or model/implementation correspondence no longer checks; the oracles found no failing input in this run",
        }
        path = write_replay(prop, rec)
        out_lines.append(f"VIOLATION property={prop} replay={path} no-failing-input-found")
        reported += 1
        exit_code = 1
    if infra_error:
        sys.stderr.write(infra_error)
        out_lines.append(f"INFRASTRUCTURE-ERROR property={prop} (not a violation)")
        if exit_code == 0:
            exit_code = 2

    meta = getattr(mod, "META", {})
    ev = {
        "property_id": prop,
        "tier": tier,
        "seed": seed,
        "level": "proof",
        "coverage": {
            "obligations": len(theorems),
            "discharged": len(discharged),
            "obligation_names": theorems,
            "not_discharged": broken,
            "axioms": {n: r["axioms"] for n, r in aud.items()},
            "checker_cmd": f"cd lean && lake build {' '.join(modules)} driver && lake env lean <#print axioms of the {len(theorems)} theorems>"
            + (" && lake env leanchecker " + " ".join(modules) if tier == "thorough" else ""),
            "trusted_base": TRUSTED_BASE_COMMON + meta.get("trusted_base", []),
            "partial_theorems": entry.get("partial", []),
            "evaluations": ctx.evaluations,
            "distinct_nontrivial": len(ctx.nontrivial),
            "rule": meta.get("rule", ""),
            "samples": ctx.samples[:8],
            "traces_validated_against_impl": ctx.traces_validated,
            "disagreements": len(ctx.disagreements),
            "input_distribution": dict(sorted(ctx.hist.items())),
            "components": ctx.components,
            "known_findings_reproduced": sorted(seen_known),
            "failing_input_search_ran": searched,
            "exhaustive": ctx.exhaustive,
            "notes": ctx.notes + ([leanchecker_note] if leanchecker_note else []),
        },
        "assumptions": meta.get("assumptions", []),
        "wall_s": round(time.time() - t0, 2),
        "violations": reported,
    }
    write_evidence(prop, ev)
    for l in out_lines:
        print(l)
    print(
        f"[{prop}] tier={tier} seed={seed} obligations={len(theorems)} discharged={len(discharged)} "
        f"evaluations={ctx.evaluations} nontrivial={len(ctx.nontrivial)} disagreements={len(ctx.disagreements)} "
        f"violations={reported} known={sorted(seen_known)} wall={time.time()-t0:.1f}s"
    )
    sys.stdout.flush()
    return exit_code
