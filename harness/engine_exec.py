"""Multi-invocation executions on the real SDK + comparison with the Lean engine model + the
per-property oracles evaluated on the implementation's own traces."""
from __future__ import annotations

import json
import random

from harness.backend import TERMINAL, CrashNow, FakeBackend
from harness.engine_sim import SimCrash, TOKENS, digest, run_invocation, token_of

BIG = 10 ** 6
KINDMAP = {"STEP": "step", "WAIT": "wait", "CALLBACK": "callback", "CHAINED_INVOKE": "invoke", "CONTEXT": "context"}


def deser_token(kind, text, replay_children=False, action=None):
    """Token of a payload string stored in the backend / sent in an update."""
    from aws_durable_execution_sdk_python.serdes import deserialize

    if text is None:
        return None
    if kind == "callback":
        return text
    if kind == "invoke":
        try:
            v = json.loads(text)
        except Exception:  # noqa: BLE001
            return "?" + text[:40]
        return "" if v == "" and isinstance(v, str) and action != "START" else token_of(v)   # invoke results are event values, not pool tokens
    if kind == "context" and replay_children:
        return text  # summary, raw
    try:
        v = deserialize(None, text, "op", "arn")
    except Exception:  # noqa: BLE001
        return "?" + text[:40]
    return v if (isinstance(v, str) and kind == "context") else token_of(v)


def canon_upd(u):
    kind = "wfc" if u.get("sub") == "WaitForCondition" else KINDMAP.get(u["type"], u["type"])
    if u["type"] == "EXECUTION":
        return None
    return {"pos": u["pos"], "kind": kind, "action": u["action"],
            "payload": deser_token(kind, u["payload"], u.get("replayChildren"), u["action"]) if u["payload"] not in (None, "") else (None if u["payload"] is None else ""),
            "error": u["error"], "delay": u["delay"], "replayChildren": bool(u.get("replayChildren")), "sync": bool(u["sync"])}


import re as _re

_HEX64 = _re.compile(r"[0-9a-f]{64}")


def canon_msg(m, idmap):
    if not isinstance(m, str):
        return m
    return _HEX64.sub(lambda mo: "@" + idmap.get(mo.group(0), "?"), m)


def canon_real_trace(trace, idmap=None):
    idmap = idmap or {}
    trace = json.loads(json.dumps(trace))
    for ev in trace:
        if ev[0] == "upd" and ev[1].get("error"):
            ev[1]["error"]["message"] = canon_msg(ev[1]["error"]["message"], idmap)
        if ev[0] == "deliver" and "err" in ev[2]:
            ev[2]["err"]["msg"] = canon_msg(ev[2]["err"]["msg"], idmap)
    out = []
    for ev in trace:
        if ev[0] == "upd":
            c = canon_upd(ev[1])
            if c is not None:
                out.append(["upd", c])
        elif ev[0] == "enter":
            out.append(["enter", ev[1], ev[2], ev[3], ev[4]])
        elif ev[0] == "deliver":
            o = ev[2]
            if "err" in o:
                o = {"err": {"cls": o["err"]["cls"], "msg": o["err"]["msg"], "etype": o["err"]["etype"]}}
            out.append(["deliver", ev[1], o])
    return out


def canon_model_trace(trace):
    out = []
    for ev in trace:
        if ev[0] in ("applied", "rejected", "log"):
            continue
        if ev[0] == "upd":
            u = dict(ev[1])
            if u["kind"] == "context" and u["action"] == "SUCCEED" and u["payload"] is not None:
                pass
            out.append(["upd", u])
        else:
            out.append(ev)
    return out


def hidden_filter(tbl):
    def hidden(pos):
        for k in range(1, len(pos)):
            anc = pos[:k]
            for r in tbl:
                if r["pos"] == anc and r["kind"] == "context" and r["status"] in TERMINAL and not r["replayChildren"]:
                    return True
        return False
    return [r for r in tbl if not hidden(r["pos"])]


def canon_real_table(backend):
    out = []
    idmap = {r_.id: ".".join(map(str, r_.pos())) for r_ in backend.ops.values() if r_.pos() is not None}
    for r in backend.table():
        r = dict(r)
        if r["error"] is not None:
            r["error"] = dict(r["error"], message=canon_msg(r["error"].get("message"), idmap))
        r["result"] = deser_token(r["kind"], r["result"], r["replayChildren"]) if r["result"] not in (None, "") else r["result"]
        out.append(r)
    return sorted(out, key=lambda r: r["pos"])


def end_of(res, backend):
    if "out" in res:
        o = res["out"]
        st = o.get("Status")
        if st == "SUCCEEDED":
            payload = o.get("Result")
            if payload == "" and backend.exec_result is not None:
                payload = backend.exec_result.get("payload")
            try:
                v = json.loads(payload) if payload else None
            except Exception:  # noqa: BLE001
                v = "?" + str(payload)[:40]
            return {"end": "returned", "v": v}
        if st == "PENDING":
            return {"end": "suspended"}
        if st == "FAILED":
            e = o.get("Error") or {}
            if not e and backend.exec_result is not None:
                e = backend.exec_result.get("error") or {}
            if e.get("ErrorType") == "CheckpointError":
                return {"end": "ckptFailed", "how": "FAILED"}
            return {"end": "raised", "cls": e.get("ErrorType"), "msg": e.get("ErrorMessage")}
        return {"end": "?status", "out": o}
    e = res.get("raised")
    if isinstance(e, (CrashNow, SimCrash)):
        return {"end": "crashed"}
    if e is not None:
        n = type(e).__name__
        if n == "CheckpointError":
            return {"end": "ckptFailed", "how": "raise"}
        if n == "RuntimeError" and str(e) == "injected client failure":
            return {"end": "ckptFailed", "how": "raise-source"}
        return {"end": "raised", "cls": n, "msg": str(e), "via": "raise"}
    return {"end": "hung", "threads": res.get("hung")}


def model_end(e):
    if e is None:
        return None
    if e["end"] == "returned":
        return {"end": "returned", "v": e["v"]}
    if e["end"] == "raised":
        return {"end": "raised", "cls": e["cls"], "msg": e["msg"]}
    if e["end"] == "suspended":
        return {"end": "suspended"}
    return {"end": e["end"]}


def strip_end(e):
    return {k: v for k, v in e.items() if k in ("end", "v", "cls", "msg")}


# ------------------------------------------------------------------------------------ generators
def gen_outcome(rng, p_err=0.3):
    if rng.random() < p_err:
        return {"err": {"cls": rng.choice(["ValueError", "KeyError", "Boom", "Boom", "InvocationError"]), "msg": rng.choice(["boom", "bad", "", "bad (x.y) [z]* $1"])}}   # ASCII, nothing JSON escapes: the model measures results in characters
    return {"ok": rng.choice(TOKENS)}


DEFAULT_WEIGHTS = {"step": 30, "wait": 10, "cbnew": 10, "cbres": 10, "invoke": 8, "wfc": 12, "child": 12, "log": 8}
FOCUS = {
    "C14": {"step": 8, "wait": 4, "cbnew": 25, "cbres": 30, "invoke": 20, "wfc": 3, "child": 8, "log": 6},
    "C13": {"step": 8, "wait": 6, "cbnew": 2, "cbres": 2, "invoke": 3, "wfc": 50, "child": 10, "log": 4},
    "C12": {"step": 55, "wait": 6, "cbnew": 2, "cbres": 2, "invoke": 3, "wfc": 6, "child": 12, "log": 4},
    "C04": {"step": 55, "wait": 6, "cbnew": 2, "cbres": 2, "invoke": 3, "wfc": 6, "child": 12, "log": 4},
    "C16": {"step": 20, "wait": 8, "cbnew": 4, "cbres": 4, "invoke": 6, "wfc": 8, "child": 40, "log": 4},
    "C17": {"step": 22, "wait": 8, "cbnew": 7, "cbres": 8, "invoke": 12, "wfc": 8, "child": 12, "log": 40},
}


def gen_stmts(rng, depth, budget, slots, weights=None, amo_p=0.35, large_p=0.3):
    weights = weights or DEFAULT_WEIGHTS
    out = []
    n = rng.randrange(1, 5)
    ops = list(weights)
    for _ in range(n):
        if budget[0] <= 0:
            break
        budget[0] -= 1
        op = rng.choices(ops, [weights[o] for o in ops])[0]
        if op == "cbres" and not slots:
            op = "cbnew"
        if op == "child" and depth <= 0:
            op = "step"
        if op == "step":
            k = rng.randrange(1, 4)
            body = [gen_outcome(rng, 0.45) for _ in range(k)]
            out.append({"op": "step", "body": body, "amo": rng.random() < amo_p,
                        "retry": {"max": rng.choice([1, 2, 3, 4]), "delays": [rng.choice([0, 1, 3]) for _ in range(rng.randrange(0, 3))],
                                  "noretry": rng.choice([[], [], ["KeyError"]])},
                        "catch": rng.random() < 0.6})
        elif op == "wait":
            out.append({"op": "wait", "secs": rng.choice([1, 2, 10])})
        elif op == "cbnew":
            s = len(slots)
            slots.append(s)
            out.append({"op": "cbnew", "slot": s})
            if rng.random() < 0.5:
                budget.append(0)
                out.append({"op": "log", "msg": f"between-{s}-L{len(budget)}"})
        elif op == "cbres":
            out.append({"op": "cbres", "slot": rng.choice(slots), "catch": rng.random() < 0.6})
        elif op == "invoke":
            out.append({"op": "invoke", "payload": rng.choice(["None", "i5", "t", "f1", "s", "lst", "d", "e", "z"]), "catch": rng.random() < 0.6})
        elif op == "wfc":
            k = rng.randrange(1, 4)
            checks = [gen_outcome(rng, 0.2) for _ in range(k)]
            if rng.random() < 0.3:
                # consecutive polls returning values that are == in Python yet different (1/True, 0/False/0.0)
                fam = rng.choice([["t", "i1"], ["z", "fl", "f0"]])
                checks = [{"ok": rng.choice(fam)} if "ok" in c else c for c in checks]
            out.append({"op": "wfc", "init": rng.choice(TOKENS + ["t", "i1", "z", "fl"]), "check": checks,
                        "decide": [rng.choice([None, 0, 1, 2]) for _ in range(k - 1)] + [None], "catch": rng.random() < 0.6})
        elif op == "child":
            body = gen_stmts(rng, depth - 1, budget, list(slots), weights, amo_p, large_p)
            if rng.random() < large_p:
                body.append({"op": "pad", "n": 260})
            out.append({"op": "child", "body": body, "limit": 200, "summary": rng.choice(["", "SUMMARY"]), "catch": rng.random() < 0.6})
        else:
            budget.append(0)
            out.append({"op": "log", "msg": f"L{len(budget)}"})
    if rng.random() < 0.08:
        out.append({"op": "raise", "cls": "UserError", "msg": "final"})
    return out


def gen_script(rng, focus=None):
    w = FOCUS.get(focus)
    return gen_stmts(rng, 2, [rng.choice([3, 5, 8, 12])], [], w, amo_p=0.7 if focus == "C04" else 0.35, large_p=0.6 if focus == "C16" else 0.3)


def static_positions(script):
    """(pos, op) of every counter-consuming statement."""
    out = []

    def walk(stmts, ctx):
        n = 0
        for st in stmts:
            if st["op"] in ("step", "wait", "cbnew", "invoke", "wfc", "child"):
                n += 1
                out.append((ctx + [n], st["op"]))
                if st["op"] == "child":
                    walk(st["body"], ctx + [n])
    walk(script, [])
    return out


ANY_CALL_FAULTS = 0.0   # set by the failing-input search only: faults on arbitrary API calls are judged by the oracles, not modelled


def gen_plan(rng, inv_index, crash_p, fault_p, script=None):
    plan = {"imm": [], "page_size": rng.choice([None, None, 1, 2, 3])}
    if rng.random() < 0.12:
        plan["first_empty"] = True
    if plan["page_size"] and rng.random() < 0.2:
        plan["mid_empty"] = True
    if rng.random() < 0.25:
        plan["resp_page_size"] = rng.choice([1, 1, 2])     # checkpoint responses split over pages too
    if script is not None and rng.random() < 0.25:
        for pos, op in static_positions(script):
            if op in ("wait", "invoke", "cbnew") and rng.random() < 0.4:
                o = gen_outcome_event(rng)
                if op == "wait":
                    o = {"k": "succeeded", "v": None}
                plan["imm"].append([pos, o])
    if ANY_CALL_FAULTS and rng.random() < ANY_CALL_FAULTS:
        plan["fail_any_call"] = rng.randrange(0, 3)
        plan["fail_kind"] = rng.choice(["retriable", "nonretriable", "runtime"])
    elif rng.random() < crash_p:
        plan["crash_tick"] = rng.randrange(0, 10)
    elif rng.random() < fault_p:
        plan["fail_sync_call"] = rng.randrange(0, 4)
        plan["fail_kind"] = rng.choice(["retriable", "nonretriable", "runtime"])
    return plan


def make_fail_exc(kind):
    from aws_durable_execution_sdk_python.exceptions import CheckpointError, CheckpointErrorCategory

    if kind == "retriable":
        return lambda: CheckpointError("injected 4xx", CheckpointErrorCategory.EXECUTION)
    if kind == "nonretriable":
        return lambda: CheckpointError("injected 5xx", CheckpointErrorCategory.INVOCATION)
    return lambda: RuntimeError("injected client failure")


def gen_outcome_event(rng):
    k = rng.choice(["succeeded", "succeeded", "failed", "timedOut", "stopped"])
    if k == "succeeded":
        return {"k": "succeeded", "v": rng.choice([None, "R:ok", "R:x2", ""])}
    if k == "failed":
        return {"k": "failed", "e": rng.choice([None, {"message": "extfail", "type": "ExtError"}, {"message": "", "type": None}])}
    return {"k": k}


# ------------------------------------------------------------------------------------ execution
def run_execution(script, seed, crash_p=0.25, fault_p=0.1, max_inv=40, limits=None, plans=None, events=None):
    """Runs the real code to completion (or max_inv).  `plans`/`events` replay a recorded execution."""
    rng = random.Random(seed)
    backend = FakeBackend()
    limits = limits or {"ckpt_limit": 200}
    rounds, invs = [], []
    recorded_plans, recorded_events = [], []
    finished = False
    clock_rng = random.Random(seed ^ 0x5EED)     # its own stream: the gaps do not disturb the plan/event/schedule draws
    clock = None
    for k in range(max_inv):
        if plans is not None:
            if k >= len(plans):
                break
            plan = dict(plans[k])
        else:
            plan = gen_plan(rng, k, crash_p if k < 8 else 0.0, fault_p if k < 8 else 0.0, script)
        if "clock0" not in plan and clock is not None:
            # the next invocation starts a little later than the previous one ended - possibly just before, at, or after
            # a recorded retry instant, whether or not the backend has acted on it yet
            plan["clock0"] = clock + clock_rng.choice([0.0, 0.05, 0.4, 0.9, 1.0, 1.1, 2.5])
        recorded_plans.append({kk: v for kk, v in plan.items() if kk != "fail_exc"})
        if plan.get("fail_sync_call") is not None or plan.get("fail_any_call") is not None:
            plan["fail_exc"] = make_fail_exc(plan.get("fail_kind", "retriable"))
        start_tbl = canon_real_table(backend)
        backend.invocation_no = k
        res = run_invocation(script, backend, plan, seed=rng.randrange(1 << 30), limits=limits)
        clock = res.get("clock", clock)
        e = end_of(res, backend)
        idmap = {}
        for ev in res["trace"]:
            if ev[0] == "upd" and ev[1].get("pos") is not None:
                idmap[ev[1]["id"]] = ".".join(map(str, ev[1]["pos"]))
        for r_ in backend.ops.values():
            if r_.pos() is not None:
                idmap[r_.id] = ".".join(map(str, r_.pos()))
        for kk in ("msg",):
            if kk in e:
                e[kk] = canon_msg(e[kk], idmap)
        inv = {"plan": recorded_plans[-1], "end": e, "trace": canon_real_trace(res["trace"], idmap), "raw_trace": res["trace"],
               "logs": res["logs"], "start_tbl": start_tbl, "tbl": canon_real_table(backend), "rejections": list(backend.rejections),
               "hung": res["hung"], "limit": res["limit"], "leftover_threads": res["leftover_threads"],
               "out_raw": res.get("out"), "exec_result": backend.exec_result,
               "enabled_after": [(kind, backend.ops[i].pos()) for kind, i in backend.enabled_events()],
               "calls": [(t, [(u["name"], u["action"]) for u in us], o) for t, us, o in backend.calls],
               "calls_sync": [[bool(u.get("sync")) for u in us] for t, us, o in backend.calls]}
        invs.append(inv)
        rounds.append({"r": "invoke", "budget": plan.get("crash_tick", BIG) if plan.get("crash_tick") is not None else BIG,
                       "failAt": plan.get("fail_sync_call"), "keep": res["keep"],
                       "imm": [[list(p), o] for p, o in plan.get("imm", [])]})
        backend.calls = []
        if e["end"] in ("returned", "hung") or (e["end"] == "raised" and e.get("via") != "raise") or res["limit"]:
            finished = True
            break
        if e["end"] == "ckptFailed" and e.get("how") == "FAILED":
            finished = True
            break
        # backend events between invocations
        en = backend.enabled_events()
        if events is not None:
            chosen = events[k] if k < len(events) else []
            evs = []
            for kind, pos, outc in chosen:
                r = backend.by_pos(pos)
                if r is not None and (kind, r.id) in en:       # a scripted event that is not enabled now is skipped
                    evs.append((kind, r.id, outc))
        else:
            evs = []
            if en:
                rng.shuffle(en)
                take = en if e["end"] == "suspended" and rng.random() < 0.7 else en[: rng.randrange(0, len(en) + 1)]
                if e["end"] == "suspended" and not take:
                    take = en[:1]
                for kind, i in take:
                    evs.append((kind, i, gen_outcome_event(rng) if kind in ("callbackDone", "invokeDone") else None))
        rec = []
        for kind, i, outc in evs:
            pos = backend.ops[i].pos()
            backend.fire(kind, i, outc)
            rd = {"r": kind, "pos": pos}
            if outc is not None:
                rd["o"] = outc
            rounds.append(rd)
            rec.append((kind, pos, outc))
        recorded_events.append(rec)
        if e["end"] == "suspended" and not en:
            inv["stuck"] = True
            finished = True
            break
    return {"script": script, "rounds": rounds, "invs": invs, "plans": recorded_plans, "events": recorded_events,
            "finished": finished, "limits": limits, "seed": seed}


def ask_model(driver, ex):
    return driver.ask({"c": "engine.exec", "script": ex["script"], "rounds": ex["rounds"]})


def compare(ctx, ex, component):
    """Model vs implementation, per invocation."""
    if not (ctx.driver and ctx.driver.ok):
        return None
    a = ask_model(ctx.driver, ex)
    if "rounds" not in a:
        ctx.disagree(component, {"script": ex["script"]}, None, a, "driver error")
        return None
    mi = [r for r in a["rounds"]]
    inv_outs = [r for r in mi if r["invoke"]]
    case = {"script": ex["script"], "plans": ex["plans"], "events": ex["events"], "seed": ex["seed"], "limits": ex["limits"]}
    for r in mi:
        if not r["invoke"] and not r["enabled"]:
            ctx.disagree(component, case, "event fired on the real backend", "event not enabled in the model", "backend event mismatch")
            return a
    for k, (inv, mo) in enumerate(zip(ex["invs"], inv_outs)):
        ie, me = strip_end(inv["end"]), model_end(mo["end"])
        if inv["end"]["end"] == "hung":
            ctx.disagree(component, case, inv["end"], me, f"invocation {k}: implementation hung")
            return a
        if ie != me:
            ctx.disagree(component, case, {"inv": k, "end": inv["end"]}, {"inv": k, "end": me}, f"invocation {k}: end differs")
            return a
        it, mt = inv["trace"], canon_model_trace(mo["trace"])
        if it != mt:
            j = next((n for n, (x, y) in enumerate(zip(it, mt)) if x != y), min(len(it), len(mt)))
            ctx.disagree(component, case, {"inv": k, "at": j, "impl": it[max(0, j - 2): j + 2]}, {"inv": k, "at": j, "model": mt[max(0, j - 2): j + 2]},
                         f"invocation {k}: trace differs at event {j}")
            return a
        # logs: the emitted messages
        ilog = [m for m, _ in inv["logs"]]
        mlog = [ev[2] for ev in mo["trace"] if ev[0] == "log" and ev[3]]
        if ilog != mlog:
            ctx.disagree(component, case, {"inv": k, "logs": ilog}, {"inv": k, "logs": mlog}, f"invocation {k}: emitted log records differ")
            return a
        def norm(rows):      # an empty payload does not exist on the wire: "" and absent are the same recorded result
            return [dict(r, result=None) if r.get("result") == "" and r.get("kind") in ("context", "step", "wfc") else r for r in rows]
        itbl = norm(inv["tbl"])
        mtbl = norm(sorted(hidden_filter(mo["tbl"]), key=lambda r: r["pos"]))
        if itbl != mtbl:
            d = [(x, y) for x, y in zip(itbl, mtbl) if x != y][:2]
            ctx.disagree(component, case, {"inv": k, "tbl_diff": d, "n": len(itbl)}, {"n": len(mtbl)}, f"invocation {k}: backend table differs")
            return a
    ctx.traces_validated += len(ex["invs"])
    return a
