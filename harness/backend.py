"""Fake durable backend implementing the contract of DESIGN.md section 4 (B1-B7) as a
`DurableServiceClient`.  It is also the C11 monitor: an update the lifecycle automaton does not
accept is recorded in `rejections` and the call fails loudly.

Positions: the harness names every operation "p:<i>.<j>..." (its structural position); the backend
keeps the map id -> position from the Name field."""
from __future__ import annotations

import datetime as dt

TERMINAL = {"SUCCEEDED", "FAILED", "CANCELLED", "TIMED_OUT", "STOPPED"}


class CrashNow(Exception):
    """Raised by the fake client to end the invocation without further API calls (crash simulation)."""


class Rec:
    __slots__ = ("id", "parent", "name", "type", "subtype", "status", "attempt", "result", "error", "replay_children",
                 "next_attempt", "wait_until", "callback_id", "payload", "seq", "options")

    def __init__(self, **kw):
        for k in self.__slots__:
            setattr(self, k, kw.get(k))

    def pos(self):
        if self.name and self.name.startswith("p:"):
            return [int(x) for x in self.name[2:].split(".")]
        return None


class FakeBackend:
    def __init__(self, clock=lambda: 1_000_000.0, input_payload="{}"):
        self.ops: dict[str, Rec] = {}
        self.order: list[str] = []
        self.clock = clock
        self.token_n = 0
        self.calls = []  # log of (token, [update dicts], outcome)
        self.rejections = []
        self.changed_since_call: set[str] = set()
        self.input_payload = input_payload
        self.exec_result = None
        self.imm = {}  # pos tuple -> immediate outcome dict for START of wait/invoke/callback
        # per-invocation plan (set by the harness)
        self.plan = {}
        self.ticks = 0
        self.sync_calls = 0
        self.api_calls = 0
        self.asyncs_since_sync = 0
        self.crashed = None
        self.page_size = None
        self.timers_in_invocation = False
        self.fired_in_invocation = set()   # B3': operations whose timer fired while an invocation was running
        self.invocation_no = 0
        self.page_fetches = 0
        self.page_fetch_failed = False
        self.user_entries = {}             # harness bookkeeping: entries of user functions by name, over the whole execution
        self.hooks = None

    # ------------------------------------------------------------------ helpers
    @property
    def token(self):
        return f"tok{self.token_n}"

    def by_pos(self, pos):
        for r in self.ops.values():
            if r.pos() == list(pos):
                return r
        return None

    def hidden(self, r: Rec) -> bool:
        p = r.parent
        while p:
            pr = self.ops.get(p)
            if pr is None:
                return False
            if pr.type == "CONTEXT" and pr.status in TERMINAL and not pr.replay_children:
                return True
            p = pr.parent
        return False

    def to_operation(self, r: Rec):
        from aws_durable_execution_sdk_python.lambda_service import (
            CallbackDetails, ChainedInvokeDetails, ContextDetails, ErrorObject, Operation, OperationStatus,
            OperationSubType, OperationType, StepDetails, WaitDetails)

        def err(e):
            return None if e is None else ErrorObject(message=e.get("message"), type=e.get("type"), data=e.get("data"),
                                                       stack_trace=e.get("stack"))

        kw = dict(operation_id=r.id, operation_type=OperationType(r.type), status=OperationStatus(r.status),
                  parent_id=r.parent, name=r.name, sub_type=OperationSubType(r.subtype) if r.subtype else None)
        if r.type == "STEP":
            kw["step_details"] = StepDetails(attempt=r.attempt or 0,
                                             next_attempt_timestamp=(dt.datetime.fromtimestamp(r.next_attempt, tz=dt.UTC)
                                                                     if r.next_attempt is not None else None),
                                             result=r.result, error=err(r.error))
        elif r.type == "CONTEXT":
            kw["context_details"] = ContextDetails(replay_children=bool(r.replay_children), result=r.result, error=err(r.error))
        elif r.type == "WAIT":
            kw["wait_details"] = WaitDetails(scheduled_end_timestamp=(dt.datetime.fromtimestamp(r.wait_until, tz=dt.UTC)
                                                                     if r.wait_until is not None else None))
        elif r.type == "CALLBACK":
            kw["callback_details"] = CallbackDetails(callback_id=r.callback_id, result=r.result, error=err(r.error))
        elif r.type == "CHAINED_INVOKE":
            kw["chained_invoke_details"] = ChainedInvokeDetails(result=r.result, error=err(r.error))
        return Operation(**kw)

    def execution_operation(self):
        from aws_durable_execution_sdk_python.lambda_service import ExecutionDetails, Operation, OperationStatus, OperationType

        return Operation(operation_id="exec-0", operation_type=OperationType.EXECUTION, status=OperationStatus.STARTED,
                         execution_details=ExecutionDetails(input_payload=self.input_payload))

    # ------------------------------------------------------------------ B6: state handed to an invocation
    def visible_ops(self):
        return [self.ops[i] for i in self.order if not self.hidden(self.ops[i])]

    def initial_pages(self, page_size=None):
        ops = [self.execution_operation()] + [self.to_operation(r) for r in self.visible_ops()]
        if not page_size:
            return [ops]
        pages = [ops[i:i + page_size] for i in range(0, len(ops), page_size)] or [[]]
        return pages

    # ------------------------------------------------------------------ B1: lifecycle automaton
    def check_update(self, u, staged: dict):
        """Returns (ok, reason). `staged` maps id -> Rec as it would be after earlier updates of the same call."""
        t = u.operation_type.value
        a = u.action.value
        r = staged.get(u.operation_id)
        if t == "EXECUTION":
            if self.exec_result is not None or staged.get("__exec_done__"):
                return False, "second execution-level result"
            return (a in ("SUCCEED", "FAIL")), "execution action"
        if u.parent_id:
            pr = staged.get(u.parent_id)
            if pr is None or pr.type != "CONTEXT":
                return False, "parent is not an existing context"
        if r is None:
            return (a == "START"), f"{a} on an operation the backend does not hold"
        if r.type != t:
            return False, "operation type changed"
        if (u.parent_id or None) != (r.parent or None):
            return False, "operation parent changed"       # B1: type and parent are part of an operation's identity
        if r.status in TERMINAL:
            return False, f"{a} on a terminal operation ({r.status})"
        if a == "START":
            return (t == "STEP" and r.status == "READY"), f"START on {r.status}"
        if a in ("SUCCEED", "FAIL"):
            if t == "STEP":
                return (r.status in ("STARTED", "READY")), f"{a} on {r.status}"
            if t == "CONTEXT":
                return (r.status == "STARTED"), f"{a} on {r.status}"
            return False, f"{a} not allowed for {t}"
        if a == "RETRY":
            return (t == "STEP" and r.status in ("STARTED", "READY")), f"RETRY on {r.status}"
        return False, "unknown action"

    def apply_update(self, u, staged: dict):
        t, a = u.operation_type.value, u.action.value
        if t == "EXECUTION":
            staged["__exec_done__"] = True
            self._pending_exec = {"action": a, "payload": u.payload, "error": None if u.error is None else u.error.to_dict()}
            return None
        r = staged.get(u.operation_id)
        err = None if u.error is None else {"message": u.error.message, "type": u.error.type, "data": u.error.data,
                                             "stack": u.error.stack_trace}
        now = self.clock()
        if r is None:
            r = Rec(id=u.operation_id, parent=u.parent_id, name=u.name, type=t, subtype=u.sub_type.value if u.sub_type else None,
                    status="STARTED", attempt=0, replay_children=False, seq=len(self.order))
            pos = tuple(r.pos() or [])
            imm = self.imm.get(pos)
            if t == "WAIT":
                r.wait_until = now + (u.wait_options.wait_seconds if u.wait_options else 1)
            if t == "CALLBACK":
                r.callback_id = "cb-" + ".".join(map(str, pos))
            if t == "CHAINED_INVOKE":
                r.payload = u.payload
                r.options = u.chained_invoke_options
            if imm and t in ("WAIT", "CALLBACK", "CHAINED_INVOKE"):
                self._finish(r, imm)
            staged[u.operation_id] = r
            return r
        if a == "START":
            r.status = "STARTED"
        elif a == "SUCCEED":
            r.status = "SUCCEEDED"
            r.result = u.payload or None       # wire fidelity: OperationUpdate.to_dict() omits an empty Payload
            r.error = None
            if u.context_options is not None:
                r.replay_children = bool(u.context_options.replay_children)
        elif a == "FAIL":
            r.status = "FAILED"
            r.error = err
        elif a == "RETRY":
            r.status = "PENDING"
            r.attempt = (r.attempt or 0) + 1
            if u.payload is not None and u.payload != "":
                r.result = u.payload
            r.error = err
            d = u.step_options.next_attempt_delay_seconds if u.step_options else 1
            r.next_attempt = now + d
            r.options = d
        return r

    @staticmethod
    def _finish(r: Rec, imm: dict):
        k = imm["k"]
        if k == "succeeded":
            v = imm.get("v")
            if r.type == "CHAINED_INVOKE" and v is not None:
                import json as _json
                v = _json.dumps(v)  # invoke results are JSON documents (DEFAULT_JSON_SERDES)
            r.status, r.result = "SUCCEEDED", v
        elif k == "failed":
            r.status, r.error = "FAILED", imm.get("e")
        elif k == "timedOut":
            r.status = "TIMED_OUT"
        elif k == "stopped":
            r.status = "STOPPED"

    # ------------------------------------------------------------------ the client protocol
    def checkpoint(self, durable_execution_arn, checkpoint_token, updates, client_token):
        from aws_durable_execution_sdk_python.lambda_service import CheckpointOutput, CheckpointUpdatedExecutionState

        if self.hooks:
            self.hooks("api.enter", updates)
        has_sync = any(getattr(u, "_verif_sync", False) for u in updates) or (len(updates) == 0)
        plan = self.plan
        # oracle-only fault plans (not modelled): API call number k of this invocation fails, whatever it carries
        if plan.get("fail_any_call") is not None:
            k_ = self.api_calls
            self.api_calls += 1
            if k_ == plan["fail_any_call"]:
                self.calls.append((checkpoint_token, [self._ud(u) for u in updates], "fault"))
                raise plan["fail_exc"]()
        # crash / fault decisions are taken per call that carries a synchronous update
        if has_sync:
            if plan.get("crash_tick") is not None and self.ticks == plan["crash_tick"]:
                self.crashed = "before_call"
                self.calls.append((checkpoint_token, [self._ud(u) for u in updates], "crash-before"))
                raise CrashNow("crash before the call is applied")
            self.ticks += 1
            if plan.get("fail_sync_call") is not None and self.sync_calls == plan["fail_sync_call"]:
                self.sync_calls += 1
                self.calls.append((checkpoint_token, [self._ud(u) for u in updates], "fault"))
                raise plan["fail_exc"]()
        if checkpoint_token != self.token:
            self.rejections.append({"reason": "stale checkpoint token", "got": checkpoint_token, "want": self.token})
            raise RuntimeError("InvalidParameterValueException: Invalid Checkpoint Token")
        self.fire_due_timers()
        staged = {i: self._copy(r) for i, r in self.ops.items()}
        for u in updates:
            ok, why = self.check_update(u, staged)
            if not ok:
                self.rejections.append({"reason": why, "update": self._ud(u)})
                self.calls.append((checkpoint_token, [self._ud(x) for x in updates], "rejected"))
                raise RuntimeError(f"backend rejected update: {why}: {self._ud(u)}")
            self.apply_update(u, staged)
        # commit (B5: atomically, in order)
        touched = []
        for u in updates:
            if u.operation_type.value == "EXECUTION":
                self.exec_result = self._pending_exec
                continue
            if u.operation_id not in self.ops:
                self.order.append(u.operation_id)
            self.ops[u.operation_id] = staged[u.operation_id]
            if u.operation_id not in touched:
                touched.append(u.operation_id)
        for i in sorted(self.changed_since_call):
            if i not in touched and i in self.ops:
                touched.append(i)
        self.changed_since_call = set()
        self.token_n += 1
        self.calls.append((checkpoint_token, [self._ud(u) for u in updates], "ok"))
        n_async = sum(1 for u in updates if not getattr(u, "_verif_sync", False))
        if has_sync:
            self.sync_calls += 1
            self.asyncs_since_sync = 0
            if plan.get("crash_tick") is not None and self.ticks == plan["crash_tick"]:
                self.crashed = "after_call"
                raise CrashNow("crash after the call was applied")
            self.ticks += 1
        else:
            self.asyncs_since_sync += n_async
        ops = [self.to_operation(self.ops[i]) for i in touched]
        k_ = self.plan.get("resp_page_size")
        if k_ and len(ops) > k_:
            # the updated state of a checkpoint response may be paginated like the initial state
            self._resp_seq = getattr(self, "_resp_seq", 0) + 1
            rest = [ops[j:j + k_] for j in range(k_, len(ops), k_)]
            self._resp_pages = {f"r:{self._resp_seq}:{n}": (pg, f"r:{self._resp_seq}:{n + 1}" if n + 1 < len(rest) else None) for n, pg in enumerate(rest)}
            return CheckpointOutput(checkpoint_token=self.token,
                                    new_execution_state=CheckpointUpdatedExecutionState(operations=ops[:k_], next_marker=f"r:{self._resp_seq}:0"))
        return CheckpointOutput(checkpoint_token=self.token, new_execution_state=CheckpointUpdatedExecutionState(operations=ops))

    def get_execution_state(self, durable_execution_arn, checkpoint_token, next_marker, max_items=1000):
        from aws_durable_execution_sdk_python.lambda_service import StateOutput

        if str(next_marker).startswith("r:"):
            if self.hooks:
                self.hooks("api.page", next_marker)
            fpf = self.plan.get("fail_page_fetch")
            if fpf is not None:
                k_ = self.page_fetches
                self.page_fetches += 1
                if fpf["at"] <= k_ < fpf["at"] + fpf.get("times", 1):
                    self.page_fetch_failed = True
                    raise fpf["exc"]()
            pg, nxt = self._resp_pages[next_marker]
            return StateOutput(operations=pg, next_marker=nxt)
        idx = int(next_marker)
        pages = self._pages
        nxt = str(idx + 1) if idx + 1 < len(pages) else None
        return StateOutput(operations=pages[idx], next_marker=nxt)

    # ------------------------------------------------------------------ B3 events
    def enabled_events(self):
        ev = []
        for i in self.order:
            r = self.ops[i]
            if self.hidden(r):
                continue
            if r.type == "STEP" and r.status == "PENDING":
                ev.append(("retryReady", i))
            elif r.type == "WAIT" and r.status == "STARTED":
                ev.append(("waitDone", i))
            elif r.type == "CALLBACK" and r.status == "STARTED":
                ev.append(("callbackDone", i))
            elif r.type == "CHAINED_INVOKE" and r.status == "STARTED":
                ev.append(("invokeDone", i))
        return ev

    def fire_due_timers(self):
        """B3 inside an invocation: timers whose instant has passed (virtual clock) fire before the call is served."""
        if not self.timers_in_invocation:
            return
        now = self.clock()
        for i in self.order:
            r = self.ops[i]
            if r.type == "WAIT" and r.status == "STARTED" and r.wait_until is not None and r.wait_until <= now:
                r.status = "SUCCEEDED"
                self.changed_since_call.add(i)
                self.fired_in_invocation.add(i)
            elif r.type == "STEP" and r.status == "PENDING" and r.next_attempt is not None and r.next_attempt <= now:
                r.status = "READY"
                self.changed_since_call.add(i)
                self.fired_in_invocation.add(i)

    def fire(self, kind, op_id, outcome=None):
        r = self.ops[op_id]
        if kind == "retryReady":
            r.status = "READY"
        elif kind == "waitDone":
            r.status = "SUCCEEDED"
        else:
            self._finish(r, outcome)
        self.changed_since_call.add(op_id)

    # ------------------------------------------------------------------ misc
    @staticmethod
    def _copy(r: Rec) -> Rec:
        return Rec(**{k: getattr(r, k) for k in Rec.__slots__})

    @staticmethod
    def _ud(u):
        return {"id": u.operation_id, "name": u.name, "type": u.operation_type.value, "action": u.action.value,
                "parent": u.parent_id, "sync": bool(getattr(u, "_verif_sync", False))}

    def table(self):
        """Canonical table for comparison with the model: list of dicts keyed by position."""
        out = []
        for i in self.order:
            r = self.ops[i]
            if self.hidden(r):
                continue
            out.append({"pos": r.pos(), "kind": {"STEP": "step", "WAIT": "wait", "CALLBACK": "callback", "CHAINED_INVOKE": "invoke",
                                               "CONTEXT": "context"}[r.type] if r.subtype != "WaitForCondition" else "wfc",
                        "status": r.status, "attempt": r.attempt or 0, "result": r.result,
                        "error": None if r.error is None else {"message": r.error.get("message"), "type": r.error.get("type")},
                        "replayChildren": bool(r.replay_children)})
        return out
