"""Executor-level scenarios: map / parallel on the real SDK (ConcurrentExecutor, TimerScheduler,
child contexts, ExecutionState orphan filter) under the deterministic simulator and the fake
backend.  Oracles for C09 (policy honoured, items faithful, concurrency bound, replay equality),
C10 (nothing recorded under a completed context), C07 (suspension sound and live) and C06 (a
checkpoint failure inside a branch is fail-stop).

Scenario = {kind: 'map'|'parallel', branches: [[action,...],...], max_concurrency, completion: {min, count, pct},
            after: [...actions after the map in the parent...], fault: {...}|None}
branch action = {"a":"step","out":{"ok":tok}|{"err":{...}}, "gate":bool} | {"a":"wait","secs":n} | {"a":"gate"} |
                {"a":"raise","cls":..} | {"a":"cb"} (create callback + result) | {"a":"block"} (never returns)
"""
from __future__ import annotations

import json
import random

from harness.backend import TERMINAL, CrashNow, FakeBackend
from harness.engine_sim import VALUE_POOL, token_of
from harness.sim import Sim, SimAbort, patched


class Blocked(BaseException):
    pass


def run_invocation(sc, backend, seed, fault=None, schedule=None):
    sim = Sim(schedule=schedule, seed=seed, policy="random", max_points=150000, wall_limit=40, quiesce_limit=120.0)
    res = {"events": [], "bodies": 0, "max_bodies": 0}
    backend.plan = {}
    backend.clock = lambda: sim.clock
    with patched(sim):
        from aws_durable_execution_sdk_python.config import CompletionConfig, Duration, MapConfig, ParallelConfig, StepConfig
        from aws_durable_execution_sdk_python.execution import (
            DurableExecutionInvocationInputWithClient, InitialExecutionState, durable_execution)
        from aws_durable_execution_sdk_python.retries import RetryDecision
        from aws_durable_execution_sdk_python.state import ExecutionState

        calls = {"n": 0}
        orig_ck = backend.checkpoint

        def checkpoint(**kw):
            k = calls["n"]
            calls["n"] += 1
            res["events"].append(["api", k, [(u.name, u.action.value) for u in kw["updates"]], sim.clock])
            if fault is not None and fault["at"] == k:
                res["fault_fired"] = True
                raise fault["exc"]()
            return orig_ck(**kw)

        backend.checkpoint = checkpoint
        pages = backend.initial_pages()
        backend._pages = pages
        orig_cc = ExecutionState.create_checkpoint

        def cc(self, operation_update=None, is_sync=True):
            if not getattr(self, "_verif_put_hooked", False):
                self._verif_put_hooked = True
                q = self._checkpoint_queue
                orig_put = q.put

                def put(item, *a, **k):
                    u = item.operation_update
                    if u is not None:
                        res["events"].append(["put", u.name, u.action.value, u.operation_type.value, sim.clock])
                    return orig_put(item, *a, **k)
                q.put = put
            if operation_update is not None:
                object.__setattr__(operation_update, "_verif_sync", bool(is_sync))
                res["events"].append(["upd", operation_update.name, operation_update.action.value, operation_update.operation_type.value, sim.clock])
            return orig_cc(self, operation_update, is_sync)

        ExecutionState.create_checkpoint = cc
        gates = {}

        def run_actions(ctx, actions, tag):
            out = []
            for j, a in enumerate(actions):
                k = a["a"]
                name = f"{tag}/{j}"
                if k == "step":
                    def fn(sctx, a=a, name=name):
                        res["bodies"] += 1
                        res["max_bodies"] = max(res["max_bodies"], res["bodies"])
                        res["events"].append(["enter", name, sim.clock])
                        try:
                            for _ in range(a.get("yield", 1)):
                                sim.point("body")
                            if "err" in a["out"]:
                                raise type(a["out"]["err"]["cls"], (Exception,), {})(a["out"]["err"]["msg"])
                            return VALUE_POOL[a["out"]["ok"]]
                        finally:
                            res["bodies"] -= 1
                    v = ctx.step(fn, name=name, config=StepConfig(retry_strategy=lambda e, n: RetryDecision.no_retry()))
                    out.append(token_of(v))
                elif k == "wait":
                    ctx.wait(Duration.from_seconds(a["secs"]), name=name)
                    out.append("None")
                elif k == "cb":
                    cb = ctx.create_callback(name=name)
                    out.append(str(cb.result()))
                elif k == "raise":
                    raise type(a["cls"], (Exception,), {})(a.get("msg", "raised"))
                elif k == "block":
                    res["events"].append(["blocked", name, sim.clock])
                    sim.block_until(lambda: False)  # a user function that never returns
                elif k == "yield":
                    for _ in range(a.get("n", 3)):
                        sim.point("user")
            return "|".join(out)

        def handler(event, context):
            cfg = sc.get("completion") or {}
            cc_ = CompletionConfig(min_successful=cfg.get("min"), tolerated_failure_count=cfg.get("count"),
                                   tolerated_failure_percentage=cfg.get("pct"))
            outs = []
            for n, blk in enumerate(sc["blocks"]):
                if blk["kind"] == "map":
                    items = list(range(len(blk["branches"])))

                    def f(cctx, item, idx, items_, blk=blk, n=n):
                        return run_actions(cctx, blk["branches"][idx], f"b{n}.{idx}")
                    br = context.map(items, f, name=f"p:{n+1}", config=MapConfig(max_concurrency=blk.get("max_concurrency"), completion_config=cc_))
                elif blk["kind"] == "parallel":
                    fns = [(lambda cctx, i=i, blk=blk, n=n: run_actions(cctx, blk["branches"][i], f"b{n}.{i}")) for i in range(len(blk["branches"]))]
                    br = context.parallel(fns, name=f"p:{n+1}", config=ParallelConfig(max_concurrency=blk.get("max_concurrency"), completion_config=cc_))
                else:
                    outs.append(run_actions(context, blk["actions"], f"top{n}"))
                    continue
                res["events"].append(["batch", n, sim.clock])
                rep = {"reason": br.completion_reason.value,
                       "items": [[it.index, it.status.value, None if it.result is None else str(it.result),
                                  None if it.error is None else [it.error.type, it.error.message]] for it in br.all]}
                res.setdefault("batches", {})[n] = rep
                outs.append(json.dumps(rep, sort_keys=True))
            return "#".join(outs)

        try:
            h = durable_execution(handler)
            inp = DurableExecutionInvocationInputWithClient(
                durable_execution_arn="arn:exec", checkpoint_token=backend.token,
                initial_execution_state=InitialExecutionState(operations=pages[0], next_marker=""), service_client=backend)

            def main():
                try:
                    res["out"] = h(inp, None)
                except SimAbort:
                    raise
                except BaseException as e:  # noqa: BLE001
                    res["raised"] = e

            sim.stop_when_main_done = True
            sim.run(main)
        finally:
            ExecutionState.create_checkpoint = orig_cc
            backend.checkpoint = orig_ck
    res["hung"] = sim.hung if ("out" not in res and "raised" not in res) else None
    res["limit"] = sim.limit_hit
    res["decisions"] = list(sim.decisions)
    res["clock"] = sim.clock
    return res


def status_of(res):
    if "out" in res:
        return res["out"].get("Status")
    if res.get("raised") is not None:
        return "raise:" + type(res["raised"]).__name__
    return "hung"


def run_execution(sc, seed, max_inv=12, fault=None):
    rng = random.Random(seed)
    backend = FakeBackend()
    backend.timers_in_invocation = True
    invs = []
    for k in range(max_inv):
        res = run_invocation(sc, backend, rng.randrange(1 << 30), fault=fault if k == 0 else None)
        inv = {"status": status_of(res), "batches": res.get("batches", {}), "events": res["events"], "max_bodies": res["max_bodies"],
               "hung": res["hung"], "limit": res["limit"], "decisions": res["decisions"], "out": res.get("out"),
               "log": [(t, [(u["name"], u["action"], u["type"]) for u in us], o) for t, us, o in backend.calls],
               "enabled_after": [(kind, backend.ops[i].name) for kind, i in backend.enabled_events()],
               "rejections": list(backend.rejections), "fault_fired": res.get("fault_fired", False)}
        backend.calls = []
        invs.append(inv)
        if inv["status"] != "PENDING":
            break
        en = backend.enabled_events()
        if not en:
            inv["stuck"] = True
            break
        rng.shuffle(en)
        for kind, i in en[: rng.randrange(1, len(en) + 1)]:
            backend.fire(kind, i, {"k": "succeeded", "v": "R:cb"} if kind in ("callbackDone", "invokeDone") else None)
    return {"scenario": sc, "invs": invs, "seed": seed}


# ------------------------------------------------------------------------------------ oracles
def expected_policy(cfg, n, s, f):
    from fractions import Fraction
    mn, cnt, pct = cfg.get("min"), cfg.get("count"), cfg.get("pct")
    min_eff = mn if mn else n
    no_tol = cnt is None and pct is None
    exceeded = (no_tol and f > 0) or (cnt is not None and f > cnt) or (pct is not None and n > 0 and Fraction(f * 100, n) > Fraction(pct))
    return (s + f == n) or (s >= min_eff) or exceeded, exceeded


def oracles(ctx, prop, ex, component):
    sc = ex["scenario"]
    case = {"scenario": sc, "seed": ex["seed"]}

    def V(name, detail):
        if name.startswith(prop + "."):
            ctx.violate(name, case, detail, component, kind="schedule")

    cfg = sc.get("completion") or {}
    first_batches = {}
    for k, inv in enumerate(ex["invs"]):
        has_block = any(a["a"] == "block" for b in sc["blocks"] for br in b.get("branches", []) for a in br)
        if (inv["hung"] or inv["limit"]) and has_block and not inv["batches"]:
            continue  # a user function that never returns keeps the invocation alive: not the SDK's doing
        if inv["hung"] or inv["limit"]:
            V("C07.invocation_never_ends", {"inv": k, "hung": inv["hung"], "limit": inv["limit"], "fault": inv["fault_fired"]})
            V("C09.map_never_returns", {"inv": k, "hung": inv["hung"]}) if any(len(b.get("branches", [1])) == 0 for b in sc["blocks"]) else None
            V("C06.invocation_hangs_after_checkpoint_failure", {"inv": k, "hung": inv["hung"]}) if inv["fault_fired"] else None
            continue
        if inv["fault_fired"] and inv["status"] in ("SUCCEEDED", "PENDING"):
            V("C06.success_or_pending_after_checkpoint_failure", {"inv": k, "status": inv["status"]})
        for rej in inv["rejections"]:
            V("C11.backend_rejected_update", {"inv": k, "rejection": rej})
        for n, blk in enumerate(sc["blocks"]):
            if blk["kind"] not in ("map", "parallel"):
                continue
            nb = len(blk["branches"])
            rep = inv["batches"].get(n)
            if rep is not None:
                items = rep["items"]
                if [it[0] for it in items] != list(range(nb)):
                    V("C09.one_item_per_input_in_order", {"inv": k, "block": n, "indices": [it[0] for it in items]})
                s = sum(1 for it in items if it[1] == "SUCCEEDED")
                f = sum(1 for it in items if it[1] == "FAILED")
                decided, exceeded = expected_policy(cfg, nb, s, f)
                if not decided:
                    V("C09.returned_before_policy_decided", {"inv": k, "block": n, "succeeded": s, "failed": f, "total": nb, "config": cfg})
                r = rep["reason"]
                ok = not ((r == "ALL_COMPLETED" and s + f != nb) or (r == "MIN_SUCCESSFUL_REACHED" and not (cfg.get("min") is not None and s >= cfg["min"] and s + f != nb))
                          or (r == "FAILURE_TOLERANCE_EXCEEDED" and not exceeded))
                if not ok:
                    V("C09.reason_consistent", {"inv": k, "block": n, "reason": r, "succeeded": s, "failed": f, "total": nb, "config": cfg,
                                                 "min": cfg.get("min"), "count": cfg.get("count"), "pct": cfg.get("pct"), "f": f})
                # items carry the branch's own outcome
                for it in items:
                    acts = blk["branches"][it[0]]
                    if it[1] == "SUCCEEDED":
                        want = "|".join(("None" if a["a"] == "wait" else a["out"]["ok"] if a["a"] == "step" else "R:cb") for a in acts if a["a"] in ("step", "wait", "cb"))
                        if it[2] != want:
                            V("C09.item_result_not_branch_result", {"inv": k, "block": n, "index": it[0], "got": it[2], "want": want})
                if n in first_batches and first_batches[n] != rep:
                    V("C09.replayed_batch_result_differs", {"block": n, "first": first_batches[n], "later": rep, "inv": k})
                first_batches.setdefault(n, rep)
            mc = blk.get("max_concurrency")
            if mc and inv["max_bodies"] > mc and sum(1 for b in sc["blocks"] if b["kind"] in ("map", "parallel")) == 1:
                V("C09.concurrency_limit_exceeded", {"inv": k, "max_simultaneous_bodies": inv["max_bodies"], "limit": mc})
        # C10: nothing from descendants after the context's completion record was handed over
        done_at = {}
        for i, ev in enumerate(inv["events"]):
            if ev[0] == "upd" and ev[3] == "CONTEXT" and ev[2] in ("SUCCEED", "FAIL") and ev[1] and ev[1].startswith("p:"):
                done_at[ev[1]] = i
        for t, us, o in inv["log"]:
            pass
        # backend view: updates delivered for operations named b<n>.<i>/... after block n completed
        completed_blocks = set()
        for t, us, o in inv["log"]:
            for name, action, typ in us:
                if name and name.startswith("p:") and typ == "CONTEXT" and action in ("SUCCEED", "FAIL"):
                    completed_blocks.add(int(name[2:]) - 1)
                elif name and name[0] == "b" and "/" in name or (name and (name.startswith("map-item-") or name.startswith("parallel-branch-"))):
                    pass
            if o != "ok":
                continue
        order = [(name, action, typ) for t, us, o in inv["log"] if o == "ok" for name, action, typ in us]
        closed = set()
        for name, action, typ in order:
            if name and name.startswith("p:") and typ == "CONTEXT" and action in ("SUCCEED", "FAIL"):
                closed.add(int(name[2:]) - 1)
            elif name and name.startswith("b") and "/" in name:
                blkno = int(name[1:].split(".")[0])
                if blkno in closed:
                    V("C10.update_under_completed_context_reached_backend", {"inv": k, "update": [name, action, typ], "block": blkno})
        # once the completion record of block n has been handed over (enqueued), nothing from its descendants is
        # handed over any more; and no user function of a descendant operation is entered whose START came after it
        closed_ev = set()
        for ev in inv["events"]:
            if ev[0] == "put" and ev[3] == "CONTEXT" and ev[2] in ("SUCCEED", "FAIL") and ev[1] and ev[1].startswith("p:"):
                closed_ev.add(int(ev[1][2:]) - 1)
            elif ev[0] == "put" and ev[1] and ev[1].startswith("b") and "/" in ev[1]:
                blkno = int(ev[1][1:].split(".")[0])
                if blkno in closed_ev:
                    V("C10.orphan_update_handed_over_after_completion", {"inv": k, "update": ev[1:4], "block": blkno})
        if inv["status"] == "PENDING":
            if not inv["enabled_after"]:
                V("C07.pending_with_nothing_armed", {"inv": k})
            closed_blocks = {int(ev[1][2:]) - 1 for ev in inv["events"] if ev[0] == "upd" and ev[3] == "CONTEXT" and ev[2] in ("SUCCEED", "FAIL")
                             and ev[1] and ev[1].startswith("p:")}
            running = [ev for ev in inv["events"] if ev[0] == "blocked" and int(ev[1][1:].split(".")[0]) not in closed_blocks]
            if running:
                V("C07.pending_while_user_function_running", {"inv": k, "blocked": running})
    if ex["invs"] and ex["invs"][-1]["status"] == "PENDING" and not ex["invs"][-1].get("stuck") and len(ex["invs"]) >= 12:
        V("C07.execution_does_not_terminate", {"invocations": len(ex["invs"])})


# ------------------------------------------------------------------------------------ generators
def gen_branch(rng, allow_block=True):
    acts = []
    for _ in range(rng.choice([1, 1, 2, 3])):
        r = rng.random()
        if r < 0.55:
            out = {"ok": rng.choice(["i5", "s", "t", "z", "None"])} if rng.random() < 0.7 else {"err": {"cls": "Boom", "msg": "bad"}}
            acts.append({"a": "step", "out": out, "yield": rng.choice([1, 1, 3, 8])})
        elif r < 0.7:
            acts.append({"a": "wait", "secs": rng.choice([1, 2, 5])})
        elif r < 0.78:
            acts.append({"a": "cb"})
        elif r < 0.86:
            acts.append({"a": "yield", "n": rng.choice([1, 5])})
        elif r < 0.92:
            acts.append({"a": "raise", "cls": "Boom"})
            break
        elif allow_block and r < 0.96:
            acts.append({"a": "block"})
            break
        else:
            acts.append({"a": "step", "out": {"ok": "i5"}, "yield": 20})
    return acts


def gen_scenario(rng, zero_p=0.05):
    nb = 0 if rng.random() < zero_p else rng.choice([1, 2, 2, 3, 3, 4, 5])
    comp = rng.choice([{}, {}, {"min": 1}, {"min": 2}, {"count": 0}, {"count": 1}, {"pct": 50}, {"min": 1, "count": 1}, {"min": 2, "pct": 34}])
    early = bool(comp.get("min")) and nb > (comp.get("min") or 0)
    blk = {"kind": rng.choice(["map", "parallel"]), "branches": [gen_branch(rng, allow_block=early) for _ in range(nb)],
           "max_concurrency": rng.choice([None, None, 1, 2, 3])}
    blocks = [blk]
    if rng.random() < 0.4:
        blocks.append({"kind": "seq", "actions": [{"a": "wait", "secs": 1}] if rng.random() < 0.5 else [{"a": "step", "out": {"ok": "s"}}]})
    return {"blocks": blocks, "completion": comp}


def nontrivial(ex):
    sc = ex["scenario"]
    comp = sc.get("completion") or {}
    early = False
    for inv in ex["invs"]:
        for n, rep in inv["batches"].items():
            if any(it[1] == "STARTED" for it in rep["items"]):
                early = True
    return bool(comp) and early


def one(ctx, prop, sc, seed, component="executor", fault=None):
    ex = run_execution(sc, seed, fault=fault)
    oracles(ctx, prop, ex, component)
    ctx.case((json.dumps(sc, sort_keys=True), seed) if (nontrivial(ex) or prop in ("C07", "C06", "C10")) and len(ex["invs"]) >= 1 else None)
    ctx.count("exec.invocations=%d" % min(len(ex["invs"]), 5))
    ctx.count("exec.status=" + ex["invs"][-1]["status"])
    if len(ctx.samples) < 4:
        ctx.sample({"scenario": sc, "statuses": [i["status"] for i in ex["invs"]], "batches": ex["invs"][-1]["batches"]}, limit=4)
    return ex


def run_prop(ctx, prop, n_quick=150, n_thorough=4000):
    for i in range(ctx.scale(n_quick, n_thorough)):
        sc = gen_scenario(ctx.rng)
        one(ctx, prop, sc, ctx.rng.randrange(1 << 30))


def run_c09(ctx):
    run_prop(ctx, "C09")


def replay(ctx, rec, prop="C09"):
    case = rec["case"]
    one(ctx, prop, case["scenario"], case.get("seed", 0), component="executor.replay")
