"""Executor-level scenarios: map / parallel on the real SDK (ConcurrentExecutor, TimerScheduler,
child contexts, ExecutionState orphan filter) under the deterministic simulator and the fake
backend.  Oracles for C09 (policy honoured, items faithful, concurrency bound, replay equality),
C10 (nothing recorded under a completed context), C07 (suspension sound and live) and C06 (a
checkpoint failure inside a branch is fail-stop).

Scenario = {kind: 'map'|'parallel', branches: [[action,...],...], max_concurrency, completion: {min, count, pct},
            after: [...actions after the map in the parent...], fault: {...}|None}
branch action = {"a":"step","out":{"ok":tok}|{"err":{...}}, "gate":bool} | {"a":"wait","secs":n} | {"a":"gate"} |
                {"a":"raise","cls":..} | {"a":"cb"} (create callback + result) | {"a":"block"} (never returns)
"""
from __future__ import annotations

import json
import random

from harness.backend import TERMINAL, CrashNow, FakeBackend
from harness.engine_sim import VALUE_POOL, token_of
from harness.sim import Sim, SimAbort, patched


class Blocked(BaseException):
    pass


def _fine_grained(code):
    """Functions of the SDK that touch state shared between branch threads without a lock of their own."""
    fn = code.co_filename
    return (fn.endswith("aws_durable_execution_sdk_python/context.py") and code.co_name in (
        "_create_step_id_for_logical_step", "_create_step_id", "create_child_context")) or (
        fn.endswith("aws_durable_execution_sdk_python/concurrency/executor.py") and code.co_name in ("_execute_item_in_child_context",))


def run_invocation(sc, backend, seed, fault=None, schedule=None, clock0=None):
    sim = Sim(schedule=schedule, seed=seed, policy="pct" if seed % 3 == 0 else "random", max_points=150000, wall_limit=40, quiesce_limit=120.0)
    if clock0 is not None:
        sim.clock = sim.last_progress_clock = clock0     # time goes on between invocations
    if sc.get("fine"):
        sim.line_points = _fine_grained
    if seed % 4 == 1:
        sim.time_jitter = 0.02       # a quarter of the runs: timers may fire while other threads are in the middle of something
    res = {"events": [], "bodies": 0, "max_bodies": 0, "jitter": bool(sim.time_jitter)}
    backend.plan = {}
    if sc.get("resp_page_size"):
        backend.plan["resp_page_size"] = sc["resp_page_size"]
    if sc.get("page_fault") and backend.invocation_no == 0:
        # what the real LambdaClient.get_execution_state raises for any failure of the call
        from aws_durable_execution_sdk_python.exceptions import GetExecutionStateError
        backend.plan["fail_page_fetch"] = dict(sc["page_fault"], exc=lambda: GetExecutionStateError("injected page-fetch failure"))
    backend.page_fetches = 0
    backend.page_fetch_failed = False
    backend.clock = lambda: sim.clock
    with patched(sim):
        from aws_durable_execution_sdk_python.config import CompletionConfig, Duration, MapConfig, ParallelConfig, StepConfig
        from aws_durable_execution_sdk_python.execution import (
            DurableExecutionInvocationInputWithClient, InitialExecutionState, durable_execution)
        from aws_durable_execution_sdk_python.retries import RetryDecision
        from aws_durable_execution_sdk_python.state import ExecutionState

        calls = {"n": 0}
        orig_ck = backend.checkpoint

        def checkpoint(**kw):
            k = calls["n"]
            calls["n"] += 1
            res["events"].append(["api", k, [(u.name, u.action.value) for u in kw["updates"]], sim.clock])
            if fault is not None and fault["at"] == k:
                res["fault_fired"] = True
                raise fault["exc"]()
            return orig_ck(**kw)

        backend.checkpoint = checkpoint
        pages = backend.initial_pages()
        backend._pages = pages
        orig_cc = ExecutionState.create_checkpoint

        def cc(self, operation_update=None, is_sync=True):
            if not getattr(self, "_verif_put_hooked", False):
                self._verif_put_hooked = True
                q = self._checkpoint_queue
                orig_put = q.put

                def put(item, *a, **k):
                    u = item.operation_update
                    if u is not None:
                        res["events"].append(["put", u.name, u.action.value, u.operation_type.value, sim.clock])
                    return orig_put(item, *a, **k)
                q.put = put
            if operation_update is not None:
                object.__setattr__(operation_update, "_verif_sync", bool(is_sync))
                res["events"].append(["upd", operation_update.name, operation_update.action.value, operation_update.operation_type.value, sim.clock])
                r_ = orig_cc(self, operation_update, is_sync)
                if is_sync:
                    # a synchronous checkpoint returned normally: the caller now relies on the record being held
                    res["events"].append(["ack", operation_update.name, operation_update.action.value, operation_update.operation_type.value, sim.clock])
                return r_
            # the empty (refresh) checkpoint of the timer thread's resubmitter
            return orig_cc(self, operation_update, is_sync)

        ExecutionState.create_checkpoint = cc
        import aws_durable_execution_sdk_python.operation.child as childmod
        saved_limit = childmod.CHECKPOINT_SIZE_LIMIT
        if sc.get("ckpt_limit"):
            childmod.CHECKPOINT_SIZE_LIMIT = sc["ckpt_limit"]   # small limit: batch results are stored as summaries (ReplayChildren)
        gates = {}
        # ---- instrumentation for the Par model (trace inclusion), all from outside the SDK
        import aws_durable_execution_sdk_python.concurrency.executor as exmod
        from aws_durable_execution_sdk_python.concurrency.models import ExecutableWithState
        pe = res.setdefault("pevents", [])
        t0 = sim.clock
        res["_t0"] = t0

        def us(t):
            return int(round((t - t0) * 1e6))

        orig_execute = exmod.ConcurrentExecutor.execute
        orig_cb = exmod.ConcurrentExecutor._on_task_complete
        orig_reset = ExecutableWithState.reset_to_pending
        orig_heapq = exmod.heapq

        def execute(self, execution_state, executor_context):
            pe.append(["exec.start", us(sim.clock), len(self.executables), self.max_concurrency or 0])
            try:
                r = orig_execute(self, execution_state, executor_context)
            except BaseException as e:  # noqa: BLE001
                kind = type(e).__name__
                pe.append(["exec.end", us(sim.clock), "raise", kind, us(getattr(e, "scheduled_timestamp", t0)) if hasattr(e, "scheduled_timestamp") else None])
                raise
            pe.append(["exec.end", us(sim.clock), "result", [it.status.value for it in r.all], None])
            return r

        def on_task_complete(self, exe_state, future, scheduler):
            if future.cancelled():
                pe.append(["cancel", us(sim.clock), exe_state.index])
            else:
                exc = future._exc
                n = type(exc).__name__ if exc is not None else None
                if exc is None:
                    k = ["ok"]
                elif n == "OrphanedChildException":
                    k = ["orphan"]
                elif n == "TimedSuspendExecution":
                    k = ["suspUntil", us(exc.scheduled_timestamp), float(exc.scheduled_timestamp)]
                elif n == "SuspendExecution":
                    k = ["susp"]
                elif isinstance(exc, Exception):
                    k = ["err"]
                else:
                    k = ["fatal"]
                # the model's `finish` action is placed at the instant the callback's effect happens: the branch status
                # change (ok/err/susp*), or - for orphan/fatal, which change no status - the entry of the locked section
                sim.tls.cb = (exe_state.index, k)
                if k[0] in ("orphan",) and not hasattr(exmod.ConcurrentExecutor, "_handle_task_complete"):
                    pe.append(["finish", us(sim.clock), exe_state.index] + k)
                    sim.tls.cb = None
            try:
                return orig_cb(self, exe_state, future, scheduler)
            finally:
                sim.tls.cb = None

        def flush_cb():
            cb = getattr(sim.tls, "cb", None)
            if cb is not None:
                pe.append(["finish", us(sim.clock), cb[0]] + cb[1])
                sim.tls.cb = None

        orig_status = {m: getattr(ExecutableWithState, m) for m in ("complete", "fail", "suspend", "suspend_with_timeout")}

        def wrap_status(m):
            orig = orig_status[m]

            def w(self, *a, **k):
                flush_cb()
                return orig(self, *a, **k)
            return w
        for m in orig_status:
            setattr(ExecutableWithState, m, wrap_status(m))
        orig_handle = getattr(exmod.ConcurrentExecutor, "_handle_task_complete", None)
        if orig_handle is not None:
            def handle_task_complete(self, exe_state, future, scheduler):
                cb = getattr(sim.tls, "cb", None)
                if cb is not None and cb[1][0] in ("orphan",):
                    flush_cb()        # (a fatal end takes effect when the fatal flag is assigned: see the property below)
                try:
                    return orig_handle(self, exe_state, future, scheduler)
                finally:
                    pe.append(["finish.end", us(sim.clock), exe_state.index])
            exmod.ConcurrentExecutor._handle_task_complete = handle_task_complete

        def reset_to_pending(self):
            pe.append(["reset", us(sim.clock), self.index])
            return orig_reset(self)

        # The fatal flag is a plain attribute: to place its assignment (by a done-callback or by the timer thread) and
        # its first read by the main thread exactly, it is observed through a property installed from outside.
        flag_state = {"read": False}

        def _get_fatal(self_):
            v = self_.__dict__.get("_verif_fatal")
            if not flag_state["read"] and self_.__dict__.get("_verif_waiting"):
                flag_state["read"] = True
                pe.append(["flags", us(sim.clock)])
            return v

        def _set_fatal(self_, v):
            self_.__dict__["_verif_fatal"] = v
            if v is None:
                flag_state["read"] = False
                self_.__dict__["_verif_waiting"] = True      # execute() clears the flags right before it starts submitting
                return
            cb = getattr(sim.tls, "cb", None)
            if cb is not None and cb[1][0] == "fatal":
                flush_cb()
            else:
                pe.append(["refresh.fail", us(sim.clock)])
        exmod.ConcurrentExecutor._fatal_exception = property(_get_fatal, _set_fatal)
        orig_ses = exmod.ConcurrentExecutor.should_execution_suspend

        def should_execution_suspend(self):
            pe.append(["decide", us(sim.clock)])      # the instant at which a done-callback reads the branch statuses
            return orig_ses(self)
        exmod.ConcurrentExecutor.should_execution_suspend = should_execution_suspend

        class HeapqProxy:
            heappush = staticmethod(orig_heapq.heappush)

            @staticmethod
            def heappop(h):
                item = orig_heapq.heappop(h)
                pe.append(["timer.pop", us(sim.clock), item[2].index])
                return item

        exmod.ConcurrentExecutor.execute = execute
        exmod.ConcurrentExecutor._on_task_complete = on_task_complete
        ExecutableWithState.reset_to_pending = reset_to_pending
        exmod.heapq = HeapqProxy
        def fin_of(exc):
            n = type(exc).__name__ if exc is not None else None
            if exc is None:
                return ["ok"]
            if n == "OrphanedChildException":
                return ["orphan"]
            if n == "TimedSuspendExecution":
                return ["suspUntil", us(exc.scheduled_timestamp), float(exc.scheduled_timestamp)]
            if n == "SuspendExecution":
                return ["susp"]
            return ["err"] if isinstance(exc, Exception) else ["fatal"]

        pool_block = {}

        def trace_hook(ev):
            if ev["op"] == "pool.submit" and ev.get("pool") == "pool" and ev.get("pid") not in pool_block:
                pool_block[ev.get("pid")] = res.get("cur_block")
            if ev["op"] == "pool.begin" and ev.get("idx") is not None and ev.get("pool") == "pool":
                # a worker takes a (queued) branch task: by then the block's completion record must not be held yet
                bn = pool_block.get(ev.get("pid"))
                if bn is not None and any(o.name == f"p:{bn+1}" and o.type == "CONTEXT" and o.status in TERMINAL for o in backend.ops.values()):
                    res["events"].append(["late_begin", bn, ev["idx"], sim.clock])
            if ev["op"] == "pool.begin" and ev.get("idx") is not None:
                pe.append(["begin", us(sim.clock), ev["idx"]])
            elif ev["op"] == "pool.end" and ev.get("idx") is not None and ev.get("pool") == "pool":
                pe.append(["end", us(sim.clock), ev["idx"]] + fin_of(ev.get("exc")))
            elif ev["op"] == "pool.submit" and ev.get("pool") == "pool":
                pe.append(["submit", us(sim.clock), ev["t"]])
        sim.trace_hook = trace_hook

        def run_actions(ctx, actions, tag):
            out = []
            last_cb = None
            for j, a in enumerate(actions):
                k = a["a"]
                name = f"{tag}/{j}"
                if k == "step":
                    def fn(sctx, a=a, name=name):
                        in_branch = name.startswith("b")     # the concurrency limit concerns the branches of the block, not
                        res["bodies"] += 1 if in_branch else 0  # code that runs after an early-completed block returned
                        res["max_bodies"] = max(res["max_bodies"], res["bodies"])
                        recorded = sorted(o.status for o in backend.ops.values() if o.name == name and o.status in TERMINAL)
                        res["events"].append(["enter", name, sim.clock, recorded])
                        res.setdefault("running", set()).add(name)
                        try:
                            for _ in range(a.get("yield", 1)):
                                sim.point("body")
                            if a.get("sleep"):
                                sim.block_until(lambda: False, a["sleep"])   # a user function that takes (virtual) time
                            if "err" in a["out"]:
                                raise type(a["out"]["err"]["cls"], (Exception,), {})(a["out"]["err"]["msg"])
                            return VALUE_POOL[a["out"]["ok"]]
                        finally:
                            res["bodies"] -= 1 if in_branch else 0
                            res["running"].discard(name)
                    v = ctx.step(fn, name=name, config=StepConfig(retry_strategy=lambda e, n: RetryDecision.no_retry()))
                    out.append(token_of(v))
                elif k == "rstep":
                    # a step that fails its first `fails` attempts and is retried after `delay` seconds; optionally at-most-once
                    def rfn(sctx, a=a, name=name):
                        att = backend.user_entries[name] = backend.user_entries.get(name, 0) + 1
                        res["events"].append(["enter", name, sim.clock, sorted(o.status for o in backend.ops.values() if o.name == name and o.status in TERMINAL), att])
                        sim.point("body")
                        if att <= a["fails"]:
                            raise type("Flaky", (Exception,), {})(f"attempt {att}")
                        return VALUE_POOL[a["out"]]
                    from aws_durable_execution_sdk_python.config import StepSemantics
                    v = ctx.step(rfn, name=name, config=StepConfig(
                        retry_strategy=lambda e, n, a=a: RetryDecision.retry(Duration.from_seconds(a["delay"])) if n <= a["fails"] else RetryDecision.no_retry(),
                        step_semantics=StepSemantics.AT_MOST_ONCE_PER_RETRY if a.get("amo") else StepSemantics.AT_LEAST_ONCE_PER_RETRY))
                    out.append(token_of(v))
                elif k == "child":
                    v = ctx.run_in_child_context(lambda c, a=a, name=name: run_actions(c, a["body"], name) + "~" * a.get("big", 0), name=name)
                    out.append("(" + str(v) + ")")
                elif k == "wfc":
                    from aws_durable_execution_sdk_python.waits import WaitForConditionConfig, WaitForConditionDecision

                    def check(state, cctx, name=name):
                        res["events"].append(["poll", name, sim.clock, state])
                        sim.point("body")
                        return state + 1
                    v = ctx.wait_for_condition(check, WaitForConditionConfig(
                        wait_strategy=lambda st_, n, a=a: WaitForConditionDecision.stop_polling() if st_ >= a["polls"]
                        else WaitForConditionDecision.continue_waiting(Duration(seconds=1)), initial_state=0), name=name)
                    out.append("w" + str(v))
                elif k == "wait":
                    ctx.wait(Duration.from_seconds(a["secs"]), name=name)
                    out.append("None")
                elif k == "cb":
                    cb = ctx.create_callback(name=name)
                    out.append(str(cb.result()))
                elif k == "cbnew":
                    last_cb = ctx.create_callback(name=name)
                elif k == "cbres":
                    out.append(str(last_cb.result()))
                elif k == "sleep":
                    sim.block_until(lambda: False, a["secs"])      # user code between two operations that takes (virtual) time
                elif k == "raise":
                    raise type(a["cls"], (Exception,), {})(a.get("msg", "raised"))
                elif k == "block":
                    res["events"].append(["blocked", name, sim.clock])
                    sim.block_until(lambda: False)  # a user function that never returns
                elif k == "yield":
                    for _ in range(a.get("n", 3)):
                        sim.point("user")
            return "|".join(out)

        def handler(event, context):
            cfg = sc.get("completion") or {}
            cc_ = CompletionConfig(min_successful=cfg.get("min"), tolerated_failure_count=cfg.get("count"),
                                   tolerated_failure_percentage=cfg.get("pct"))
            outs = []
            for n, blk in enumerate(sc["blocks"]):
                res["cur_block"] = n
                if blk["kind"] == "map":
                    items = list(range(len(blk["branches"])))

                    def f(cctx, item, idx, items_, blk=blk, n=n):
                        return run_actions(cctx, blk["branches"][idx], f"b{n}.{idx}")
                    br = context.map(items, f, name=f"p:{n+1}", config=MapConfig(max_concurrency=blk.get("max_concurrency"), completion_config=cc_))
                elif blk["kind"] == "parallel":
                    fns = [(lambda cctx, i=i, blk=blk, n=n: run_actions(cctx, blk["branches"][i], f"b{n}.{i}")) for i in range(len(blk["branches"]))]
                    br = context.parallel(fns, name=f"p:{n+1}", config=ParallelConfig(max_concurrency=blk.get("max_concurrency"), completion_config=cc_))
                else:
                    outs.append(run_actions(context, blk["actions"], f"top{n}"))
                    continue
                res["events"].append(["batch", n, sim.clock])
                rep = {"reason": br.completion_reason.value,
                       "items": [[it.index, it.status.value, None if it.result is None else str(it.result),
                                  None if it.error is None else [it.error.type, it.error.message]] for it in br.all]}
                res.setdefault("batches", {})[n] = rep
                outs.append(json.dumps(rep, sort_keys=True))
            return "#".join(outs)

        try:
            h = durable_execution(handler)
            inp = DurableExecutionInvocationInputWithClient(
                durable_execution_arn="arn:exec", checkpoint_token=backend.token,
                initial_execution_state=InitialExecutionState(operations=pages[0], next_marker=""), service_client=backend)

            def main():
                try:
                    res["out"] = h(inp, None)
                    res["running_at_return"] = sorted(res.get("running", ()))
                except SimAbort:
                    raise
                except BaseException as e:  # noqa: BLE001
                    res["raised"] = e

            sim.stop_when_main_done = True
            sim.run(main)
        finally:
            ExecutionState.create_checkpoint = orig_cc
            childmod.CHECKPOINT_SIZE_LIMIT = saved_limit
            backend.checkpoint = orig_ck
            exmod.ConcurrentExecutor.execute = orig_execute
            exmod.ConcurrentExecutor._on_task_complete = orig_cb
            exmod.ConcurrentExecutor.should_execution_suspend = orig_ses
            try:
                del exmod.ConcurrentExecutor._fatal_exception
            except AttributeError:
                pass
            ExecutableWithState.reset_to_pending = orig_reset
            exmod.heapq = orig_heapq
            for m, f in orig_status.items():
                setattr(ExecutableWithState, m, f)
            if orig_handle is not None:
                exmod.ConcurrentExecutor._handle_task_complete = orig_handle
    res["hung"] = sim.hung if ("out" not in res and "raised" not in res) else None
    res["limit"] = sim.limit_hit
    res["decisions"] = list(sim.decisions)
    res["clock"] = sim.clock
    return res


def status_of(res):
    if "out" in res:
        return res["out"].get("Status")
    if res.get("raised") is not None:
        return "raise:" + type(res["raised"]).__name__
    return "hung"


def run_execution(sc, seed, max_inv=12, fault=None):
    rng = random.Random(seed)
    backend = FakeBackend()
    backend.timers_in_invocation = True
    invs = []
    clock = None
    for k in range(max_inv):
        backend.fired_in_invocation = set()
        backend.invocation_no = k
        res = run_invocation(sc, backend, rng.randrange(1 << 30), fault=fault if k == 0 else None, clock0=clock)
        # the next invocation starts a little later (possibly after recorded retry/wait instants, whether or not the
        # backend has acted on them yet)
        clock = res["clock"] + rng.choice([0.0, 0.1, 1.0, 2.5])
        inv = {"status": status_of(res), "batches": res.get("batches", {}), "events": res["events"], "max_bodies": res["max_bodies"],
               "hung": res["hung"], "limit": res["limit"], "decisions": res["decisions"], "out": res.get("out"),
               "running_at_return": res.get("running_at_return", []),
               # B3': a timer that fired while the invocation was running re-triggers the execution after PENDING
               "rearmed": sorted(backend.ops[i].name or "?" for i in backend.fired_in_invocation),
               "log": [(t, [(u["name"], u["action"], u["type"]) for u in us], o) for t, us, o in backend.calls],
               "ids": [(u["name"], u["id"], u["parent"]) for t, us, o in backend.calls for u in us],
               "enabled_after": [(kind, backend.ops[i].name) for kind, i in backend.enabled_events()],
               "rejections": list(backend.rejections), "fault_fired": res.get("fault_fired", False) or backend.page_fetch_failed,
               "pevents": res.get("pevents", []), "jitter": res.get("jitter", False)}
        backend.calls = []
        invs.append(inv)
        if inv["status"] != "PENDING":
            break
        en = backend.enabled_events()
        if not en and not inv["rearmed"]:
            inv["stuck"] = True
            break
        if not en:
            continue
        rng.shuffle(en)
        for kind, i in en[: rng.randrange(1, len(en) + 1)]:
            backend.fire(kind, i, {"k": "succeeded", "v": "R:cb"} if kind in ("callbackDone", "invokeDone") else None)
    return {"scenario": sc, "invs": invs, "seed": seed, "fault_at": None if fault is None else fault["at"]}


# ------------------------------------------------------------------------------------ oracles
def expected_out(acts):
    out = []
    for a in acts:
        k = a["a"]
        if k == "wait":
            out.append("None")
        elif k == "step":
            out.append(a["out"]["ok"])
        elif k == "rstep":
            out.append(a["out"])
        elif k in ("cb", "cbres"):
            out.append("R:cb")
        elif k == "child":
            out.append("(" + expected_out(a["body"]) + "~" * a.get("big", 0) + ")")
        elif k == "wfc":
            out.append("w" + str(a["polls"]))
    return "|".join(out)


def expected_policy(cfg, n, s, f):
    from fractions import Fraction
    mn, cnt, pct = cfg.get("min"), cfg.get("count"), cfg.get("pct")
    min_eff = mn if mn else n
    no_tol = cnt is None and pct is None
    exceeded = (no_tol and f > 0) or (cnt is not None and f > cnt) or (pct is not None and n > 0 and Fraction(f * 100, n) > Fraction(pct))
    return (s + f == n) or (s >= min_eff) or exceeded, exceeded


def oracles(ctx, prop, ex, component):
    sc = ex["scenario"]
    case = {"scenario": sc, "seed": ex["seed"]}
    if ex.get("fault_at") is not None:
        case["fault_at"] = ex["fault_at"]

    def V(name, detail):
        if name.startswith(prop + "."):
            ctx.violate(name, case, detail, component, kind="schedule")

    cfg = sc.get("completion") or {}
    first_batches = {}
    entered = {}
    branch_done = {}
    allowed_retries = {}

    def collect(acts, tag):
        for j, a in enumerate(acts):
            if a["a"] == "rstep":
                allowed_retries[f"{tag}/{j}"] = a["fails"]
            elif a["a"] == "child":
                collect(a["body"], f"{tag}/{j}")
    for n_, b_ in enumerate(sc["blocks"]):
        for i_, br_ in enumerate(b_.get("branches", [])):
            collect(br_, f"b{n_}.{i_}")
        collect(b_.get("actions", []), f"top{n_}")
    # C08: one id per program position (the scenario names every operation by its position), over all invocations
    id_of, name_of = {}, {}
    for k, inv in enumerate(ex["invs"]):
        for name, oid, parent in inv.get("ids", []):
            if name is None:
                continue
            if id_of.setdefault(name, oid) != oid:
                V("C08.one_position_two_ids", {"inv": k, "position": name, "ids": [id_of[name], oid]})
            if name_of.setdefault(oid, name) != name:
                V("C08.one_id_two_positions", {"inv": k, "id": oid, "positions": [name_of[oid], name]})
    closed_before = set()
    for k, inv in enumerate(ex["invs"]):
        has_block = any(a["a"] == "block" for b in sc["blocks"] for br in b.get("branches", []) for a in br)
        if (inv["hung"] or inv["limit"]) and has_block and not inv["batches"]:
            continue  # a user function that never returns keeps the invocation alive: not the SDK's doing
        if inv["hung"] or inv["limit"]:
            V("C07.invocation_never_ends", {"inv": k, "hung": inv["hung"], "limit": inv["limit"], "fault": inv["fault_fired"]})
            V("C09.map_never_returns", {"inv": k, "hung": inv["hung"]}) if any(len(b.get("branches", [1])) == 0 for b in sc["blocks"]) else None
            V("C06.invocation_hangs_after_checkpoint_failure", {"inv": k, "hung": inv["hung"]}) if inv["fault_fired"] else None
            continue
        for ev in inv["events"]:
            if ev[0] == "late_begin":
                # the completion record of the map/parallel operation is held by the backend, and only afterwards a
                # worker starts (another run of) one of its branch functions
                V("C01.branch_function_started_after_completion_recorded", {"inv": k, "block": ev[1], "branch": ev[2], "t": ev[3]})
            if ev[0] == "enter":
                if len(ev) > 3 and ev[3]:
                    V("C01.user_function_entered_for_recorded_operation", {"inv": k, "step": ev[1], "recorded": ev[3]})
                entered[ev[1]] = entered.get(ev[1], 0) + 1
                if entered[ev[1]] > 1 + allowed_retries.get(ev[1], 0):
                    # no-retry steps, no crashes in these scenarios: a second entry is a re-execution
                    V("C01.step_user_function_ran_twice", {"inv": k, "step": ev[1], "runs": entered[ev[1]]})
                    V("C16.step_re_executed_while_rebuilding", {"inv": k, "step": ev[1], "runs": entered[ev[1]]})
        if inv["fault_fired"] and inv["status"] in ("SUCCEEDED", "PENDING"):
            V("C06.success_or_pending_after_checkpoint_failure", {"inv": k, "status": inv["status"]})
        for rej in inv["rejections"]:
            V("C11.backend_rejected_update", {"inv": k, "rejection": rej})
            if "terminal" in str(rej.get("reason", "")) and (rej.get("update") or {}).get("type") == "CONTEXT":
                # a record for a context whose completion (summary) is already held
                V("C16.record_sent_for_completed_context", {"inv": k, "rejection": rej})
        applied_ok = {(nm, ac) for t, us, o in inv["log"] if o == "ok" for nm, ac, ty in us}
        for ev in inv["events"]:
            if ev[0] == "ack" and ev[1] and (ev[1], ev[2]) not in applied_ok and not inv["fault_fired"]:
                # create_checkpoint(is_sync=True) returned although no successful API call carried the update
                V("C03.sync_checkpoint_returned_but_update_never_applied", {"inv": k, "update": ev[1:4]})
                V("C05.sync_checkpoint_returned_but_update_never_applied", {"inv": k, "update": ev[1:4]})
        for n, blk in enumerate(sc["blocks"]):
            if blk["kind"] not in ("map", "parallel"):
                continue
            nb = len(blk["branches"])
            rep = inv["batches"].get(n)
            if rep is not None:
                items = rep["items"]
                if [it[0] for it in items] != list(range(nb)):
                    V("C09.one_item_per_input_in_order", {"inv": k, "block": n, "indices": [it[0] for it in items]})
                s = sum(1 for it in items if it[1] == "SUCCEEDED")
                f = sum(1 for it in items if it[1] == "FAILED")
                decided, exceeded = expected_policy(cfg, nb, s, f)
                if not decided:
                    V("C09.returned_before_policy_decided", {"inv": k, "block": n, "succeeded": s, "failed": f, "total": nb, "config": cfg})
                r = rep["reason"]
                ok = not ((r == "ALL_COMPLETED" and s + f != nb) or (r == "MIN_SUCCESSFUL_REACHED" and not (cfg.get("min") is not None and s >= cfg["min"] and s + f != nb))
                          or (r == "FAILURE_TOLERANCE_EXCEEDED" and not exceeded))
                if not ok:
                    V("C09.reason_consistent", {"inv": k, "block": n, "reason": r, "succeeded": s, "failed": f, "total": nb, "config": cfg,
                                                 "min": cfg.get("min"), "count": cfg.get("count"), "pct": cfg.get("pct"), "f": f})
                # items carry the branch's own outcome
                for it in items:
                    acts = blk["branches"][it[0]]
                    if it[1] == "SUCCEEDED":
                        want = expected_out(acts)
                        if it[2] != want:
                            V("C09.item_result_not_branch_result", {"inv": k, "block": n, "index": it[0], "got": it[2], "want": want})
                            V("C01.item_result_not_recorded_result", {"inv": k, "block": n, "index": it[0], "got": it[2], "want": want})
                if n in first_batches and first_batches[n] != rep:
                    V("C09.replayed_batch_result_differs", {"block": n, "first": first_batches[n], "later": rep, "inv": k})
                    V("C02.replayed_batch_result_differs", {"block": n, "first": first_batches[n], "later": rep, "inv": k})
                    V("C16.replayed_batch_result_differs", {"block": n, "first": first_batches[n], "later": rep, "inv": k})
                first_batches.setdefault(n, rep)
            mc = blk.get("max_concurrency")
            if mc and inv["max_bodies"] > mc and sum(1 for b in sc["blocks"] if b["kind"] in ("map", "parallel")) == 1:
                V("C09.concurrency_limit_exceeded", {"inv": k, "max_simultaneous_bodies": inv["max_bodies"], "limit": mc})
        # a branch parked on a timer is re-submitted when the timer is due (the timer thread looks at least every 0.1 s)
        # as long as the executor is still waiting for its decision; judged on runs in which the clock advances only
        # when every thread is blocked, so that the only lateness is the timer thread's own
        if not inv.get("jitter"):
            pev = inv.get("pevents") or []
            t_end = next((e[1] for e in pev if e[0] == "exec.end"), None)
            # intervals in which the timer thread is busy re-submitting an earlier entry (state refresh = a checkpoint)
            busy = []
            for q, e in enumerate(pev):
                if e[0] == "timer.pop":
                    fin = next((f for f in pev[q + 1:] if (f[0] == "submit" and f[2] == "thread") or f[0] in ("refresh.fail", "timer.pop", "exec.end")), None)
                    busy.append((e[1], fin[1] if fin is not None else e[1]))
            for q, e in enumerate(pev):
                if e[0] == "finish" and len(e) > 4 and e[3] == "suspUntil":
                    due = max(e[4], e[1])
                    nxt = next((f for f in pev[q + 1:] if f[0] in ("reset", "timer.pop", "cancel") and f[2] == e[2]), None)
                    seen_at = nxt[1] if nxt is not None else t_end
                    if seen_at is None:
                        continue
                    idle = (seen_at - due) - sum(max(0, min(b, seen_at) - max(a, due)) for a, b in busy)
                    if idle > 100_000 + 1000:
                        V("C09.timed_branch_not_resumed_when_due", {"inv": k, "branch": e[2], "due_us": due, "looked_at_us": seen_at,
                                                                      "timer_thread_idle_us": idle, "executor_end_us": t_end})
        # C10: nothing from descendants after the context's completion record was handed over
        done_at = {}
        for i, ev in enumerate(inv["events"]):
            if ev[0] == "upd" and ev[3] == "CONTEXT" and ev[2] in ("SUCCEED", "FAIL") and ev[1] and ev[1].startswith("p:"):
                done_at[ev[1]] = i
        for t, us, o in inv["log"]:
            pass
        # backend view: updates delivered for operations named b<n>.<i>/... after block n completed
        completed_blocks = set()
        for t, us, o in inv["log"]:
            for name, action, typ in us:
                if name and name.startswith("p:") and typ == "CONTEXT" and action in ("SUCCEED", "FAIL"):
                    completed_blocks.add(int(name[2:]) - 1)
                elif name and name[0] == "b" and "/" in name or (name and (name.startswith("map-item-") or name.startswith("parallel-branch-"))):
                    pass
            if o != "ok":
                continue
        order = [(name, action, typ) for t, us, o in inv["log"] if o == "ok" for name, action, typ in us]
        closed = set(closed_before)      # blocks whose completion record an earlier invocation delivered stay closed
        for name, action, typ in order:
            if name and name.startswith("p:") and typ == "CONTEXT" and action in ("SUCCEED", "FAIL"):
                closed.add(int(name[2:]) - 1)
            elif name and name.startswith("b") and "/" in name:
                blkno = int(name[1:].split(".")[0])
                if blkno in closed:
                    V("C10.update_under_completed_context_reached_backend", {"inv": k, "update": [name, action, typ], "block": blkno,
                                                                             "completed_in_an_earlier_invocation": blkno in closed_before})
        closed_before |= closed
        # once the completion record of block n has been handed over (enqueued), nothing from its descendants is
        # handed over any more; and no user function of a descendant operation is entered whose START came after it
        closed_ev = set()
        for ev in inv["events"]:
            if ev[0] == "put" and ev[3] == "CONTEXT" and ev[2] in ("SUCCEED", "FAIL") and ev[1] and ev[1].startswith("p:"):
                closed_ev.add(int(ev[1][2:]) - 1)
            elif ev[0] == "put" and ev[1] and ev[1].startswith("b") and "/" in ev[1]:
                blkno = int(ev[1][1:].split(".")[0])
                if blkno in closed_ev:
                    V("C10.orphan_update_handed_over_after_completion", {"inv": k, "update": ev[1:4], "block": blkno})
        for ev in inv["events"]:
            if ev[0] == "upd" and ev[3] == "CONTEXT" and ev[2] in ("SUCCEED", "FAIL") and ev[1] and (
                    ev[1].startswith("map-item-") or ev[1].startswith("parallel-branch-")):
                branch_done[ev[1]] = ev[2]
        if inv["status"] == "PENDING" and not inv["fault_fired"]:
            maps = [(n_, b_) for n_, b_ in enumerate(sc["blocks"]) if b_["kind"] in ("map", "parallel")]
            closed_now = {int(ev[1][2:]) - 1 for i2 in ex["invs"][:k + 1] for ev in i2["events"]
                          if ev[0] == "upd" and ev[3] == "CONTEXT" and ev[2] in ("SUCCEED", "FAIL") and ev[1] and ev[1].startswith("p:")}
            if len(maps) == 1 and maps[0][0] not in closed_now:
                nb_ = len(maps[0][1]["branches"])
                s_ = sum(1 for v_ in branch_done.values() if v_ == "SUCCEED")
                f_ = sum(1 for v_ in branch_done.values() if v_ == "FAIL")
                if nb_ and expected_policy(cfg, nb_, s_, f_)[0]:
                    # the policy is decided by the branch outcomes already recorded, yet the call suspended instead of returning
                    V("C09.suspended_although_policy_decided", {"inv": k, "succeeded": s_, "failed": f_, "total": nb_, "config": cfg})
        if inv["status"] == "PENDING":
            if not inv["enabled_after"] and not inv.get("rearmed"):
                V("C07.pending_with_nothing_armed", {"inv": k})
            closed_blocks = {int(ev[1][2:]) - 1 for ev in inv["events"] if ev[0] == "upd" and ev[3] == "CONTEXT" and ev[2] in ("SUCCEED", "FAIL")
                             and ev[1] and ev[1].startswith("p:")}
            running = [ev for ev in inv["events"] if ev[0] == "blocked" and int(ev[1][1:].split(".")[0]) not in closed_blocks]
            if running:
                V("C07.pending_while_user_function_running", {"inv": k, "blocked": running})
            live = [nm for nm in inv.get("running_at_return", []) if nm.startswith("b") and int(nm[1:].split(".")[0]) not in closed_blocks]
            finished = {ev[1] for ev in inv["events"] if ev[0] == "upd" and ev[3] == "STEP" and ev[2] in ("SUCCEED", "FAIL", "RETRY")}
            abandoned = [ev[1] for ev in inv["events"] if ev[0] == "enter" and ev[1] not in finished and ev[1].startswith("b")
                         and int(ev[1][1:].split(".")[0]) not in closed_blocks]
            if abandoned and not has_block:
                # a step function of a still open map/parallel was entered in this invocation, its outcome never handed over,
                # and the invocation reported PENDING: in-flight work abandoned
                V("C07.pending_abandons_entered_step", {"inv": k, "steps": abandoned})
            if live:
                # a step function of a branch of a still open map/parallel is executing while PENDING is reported
                V("C07.pending_while_step_function_executing", {"inv": k, "steps": live})
    if ex["invs"] and ex["invs"][-1]["status"] == "PENDING" and not ex["invs"][-1].get("stuck") and len(ex["invs"]) >= 12:
        V("C07.execution_does_not_terminate", {"invocations": len(ex["invs"])})


# ------------------------------------------------------------------------------------ generators
def gen_rich_action(rng, depth=1):
    r = rng.random()
    if r < 0.35:
        return {"a": "rstep", "fails": rng.choice([1, 1, 2]), "delay": rng.choice([1, 2]), "out": rng.choice(["i5", "s", "t"]), "amo": rng.random() < 0.4}
    if r < 0.6 and depth > 0:
        return {"a": "child", "body": [gen_rich_action(rng, depth - 1) if rng.random() < 0.5 else
                                       {"a": "step", "out": {"ok": rng.choice(["i5", "s", "z"])}, "yield": 1} for _ in range(rng.choice([1, 2]))]}
    if r < 0.8:
        return {"a": "wfc", "polls": rng.choice([1, 2, 3])}
    return {"a": "step", "out": {"ok": rng.choice(["i5", "s", "t"])}, "yield": rng.choice([1, 3])}


def gen_branch(rng, allow_block=True):
    acts = []
    for _ in range(rng.choice([1, 1, 2, 3])):
        r = rng.random()
        if r < 0.22:
            acts.append(gen_rich_action(rng))
            continue
        r = rng.random()
        if r < 0.55:
            out = {"ok": rng.choice(["i5", "s", "t", "z", "None"])} if rng.random() < 0.7 else {"err": {"cls": "Boom", "msg": rng.choice(["bad", "", "", "r\u00e9sum\u00e9-\u65e5\u672c", "report-\udcff.csv"])}}
            acts.append({"a": "step", "out": out, "yield": rng.choice([1, 1, 3, 8])})
            if rng.random() < 0.25:
                acts[-1]["sleep"] = rng.choice([1, 2, 4])
        elif r < 0.7:
            acts.append({"a": "wait", "secs": rng.choice([1, 2, 5])})
        elif r < 0.78:
            acts.append({"a": "cb"})
        elif r < 0.86:
            acts.append({"a": "yield", "n": rng.choice([1, 5])})
        elif r < 0.92:
            acts.append({"a": "raise", "cls": "Boom", "msg": rng.choice(["raised", "", "report-\udcff.csv"])})
            break
        elif allow_block and r < 0.96:
            acts.append({"a": "block"})
            break
        else:
            acts.append({"a": "step", "out": {"ok": "i5"}, "yield": 20})
    return acts


def gen_timer_race(rng):
    """A branch whose timer fires at the very (virtual) instant at which the last other branch parks or finishes."""
    s_ = rng.choice([1, 2])
    a = [{"a": "wait", "secs": s_}, {"a": "step", "out": {"ok": "i5"}, "yield": rng.choice([1, 3])}]
    if rng.random() < 0.6:
        # parks without any backend round trip exactly when the other branch's timer fires
        b = [{"a": "cbnew"}, {"a": "sleep", "secs": s_}, {"a": "cbres"}]
    else:
        b = [{"a": "step", "out": {"ok": "s"}, "yield": 1, "sleep": s_}, rng.choice([{"a": "cb"}, {"a": "wait", "secs": 3}, {"a": "raise", "cls": "Boom", "msg": "raised"}])]
    if rng.random() < 0.3:
        # a branch whose re-run (after its timer) ends at once without any blocking call, while a sibling still runs:
        # the re-submitted task can finish before the timer thread has attached its done-callback
        a = [{"a": "cbnew"}, {"a": "wait", "secs": s_}, {"a": "cbres"}]
        b = [{"a": "step", "out": {"ok": "s"}, "yield": 1, "sleep": s_ + 2}]
    branches = [a, b]
    if rng.random() < 0.4:
        branches.append(rng.choice([[{"a": "cb"}], [{"a": "step", "out": {"ok": "t"}, "yield": 2, "sleep": s_}]]))
    rng.shuffle(branches)
    comp = rng.choice([{}, {"count": 1}, {"count": 2}, {"pct": 50}])
    return {"blocks": [{"kind": rng.choice(["map", "parallel"]), "branches": branches, "max_concurrency": None}], "completion": comp}


def gen_late_begin(rng):
    """More branches than workers and an early decision: a queued branch may still be started by a freed worker
    between the decision and the main thread's cancellation, i.e. while the batch's completion record is on its way."""
    nb = rng.choice([3, 3, 4])
    branches = []
    for i in range(nb):
        k = rng.choice([1, 2, 2])
        branches.append([{"a": "step", "out": {"ok": rng.choice(["i5", "s", "t"])} if (i or rng.random() < 0.6) else {"err": {"cls": "Boom", "msg": "bad"}},
                          "yield": rng.choice([1, 1, 3])} for _ in range(k)])
    comp = rng.choice([{"min": 1}, {"min": 1}, {"min": 2}, {}])
    return {"blocks": [{"kind": rng.choice(["map", "parallel"]), "branches": branches, "max_concurrency": rng.choice([1, 2, 2])},
                       {"kind": "seq", "actions": [{"a": "step", "out": {"ok": "s"}}]}], "completion": comp}


def gen_queued_resubmit(rng):
    """Fewer workers than branches, an early decision, and timer-suspended branches whose re-submissions are still
    queued when a running sibling decides the batch; later top-level work keeps the invocation alive."""
    w = rng.choice([1, 1, 2])
    nb_wait = rng.choice([2, 2, 3])
    branches = []
    for i in range(nb_wait):
        b = [{"a": "wait", "secs": 1}]
        if rng.random() < 0.7:
            b.append({"a": "sleep", "secs": rng.choice([1, 2])})
        b.append({"a": "step", "out": {"ok": rng.choice(["i5", "s"])}, "yield": 1})
        branches.append(b)
    branches.append([{"a": "step", "out": {"ok": "t"}, "yield": 1, "sleep": rng.choice([2, 3])}])
    if rng.random() < 0.3:
        rng.shuffle(branches)
    return {"blocks": [{"kind": rng.choice(["map", "parallel"]), "branches": branches, "max_concurrency": w},
                       {"kind": "seq", "actions": [{"a": "step", "out": {"ok": "s"}, "sleep": rng.choice([2, 4])}]}],
            "completion": rng.choice([{"min": 1}, {"min": 1}, {"min": 2}])}


def gen_timer_order(rng):
    """Timers scheduled out of due order: one branch parks for long, another parks later for a short time, a third keeps
    the batch running; the later, shorter timer has to fire when due."""
    long_ = rng.choice([20, 30, 60])
    a = [{"a": "wait", "secs": long_}]
    b = [{"a": "step", "out": {"ok": "i5"}, "yield": 1, "sleep": rng.choice([1, 2])}, {"a": "wait", "secs": rng.choice([1, 2])},
         {"a": "step", "out": {"ok": "s"}, "yield": 1}]
    c = [{"a": "step", "out": {"ok": "t"}, "yield": 1, "sleep": rng.choice([6, 8, 12])}]
    branches = [a, b, c] + ([[{"a": "step", "out": {"ok": "z"}, "yield": 1}]] if rng.random() < 0.3 else [])
    if rng.random() < 0.5:
        rng.shuffle(branches)
    return {"blocks": [{"kind": rng.choice(["map", "parallel"]), "branches": branches, "max_concurrency": None}],
            "completion": rng.choice([{}, {"min": 2}, {"min": 1}])}


def gen_replay_orphan(rng):
    """A later invocation in which the batch is decided early while the state is still replaying: a branch holding
    recorded operations is still queued (fewer workers than branches) when a sibling decides the batch, and a third
    branch, past its own recorded operations, then starts new ones."""
    x = [{"a": "wait", "secs": 1}, rng.choice([{"a": "yield", "n": rng.choice([3, 8])}, {"a": "sleep", "secs": 1}]),
         {"a": "step", "out": {"ok": "i5"}, "yield": 1}, {"a": "step", "out": {"ok": "s"}, "yield": 1}]
    y = [{"a": "wait", "secs": 1}, {"a": "step", "out": {"ok": "t"}, "yield": rng.choice([1, 3])}]
    z = [{"a": "step", "out": {"ok": "z"}, "yield": 1}, {"a": "wait", "secs": rng.choice([1, 3])}, {"a": "step", "out": {"ok": "s"}, "yield": 1}]
    branches = [x, y, z] if rng.random() < 0.7 else [y, x, z]
    sc = {"blocks": [{"kind": rng.choice(["map", "parallel"]), "branches": branches, "max_concurrency": 2}],
          "completion": {"min": 1}}
    if rng.random() < 0.8:
        sc["blocks"].append({"kind": "seq", "actions": [{"a": "step", "out": {"ok": "s"}, "sleep": 2}]})
    return sc


def gen_error_replay(rng):
    """Branches that fail with unusual error texts (empty, non-ASCII, a lone surrogate), reported in the batch result, and a
    later suspension: the result is delivered again on replay and must carry the same errors."""
    nb = rng.choice([2, 3])
    branches = []
    for i in range(nb):
        if i == 0 or rng.random() < 0.5:
            msg = rng.choice(["", "", "r\u00e9sum\u00e9-\u65e5\u672c", "report-\udcff.csv", "bad"])
            branches.append([{"a": "step", "out": {"err": {"cls": rng.choice(["Boom", "E"]), "msg": msg}}, "yield": 1}] if rng.random() < 0.6
                            else [{"a": "raise", "cls": "Boom", "msg": msg}])
        else:
            branches.append([{"a": "step", "out": {"ok": rng.choice(["i5", "s", "None"])}, "yield": 1}])
    sc = {"blocks": [{"kind": rng.choice(["map", "parallel"]), "branches": branches, "max_concurrency": rng.choice([None, 1])},
                     {"kind": "seq", "actions": [{"a": "wait", "secs": 1}]}], "completion": rng.choice([{}, {"count": 3}, {"pct": 100}])}
    if rng.random() < 0.4:
        sc["ckpt_limit"] = rng.choice([30, 60])
    return sc


def gen_refresh_fault(rng):
    """A branch parked on a timer that fires while a sibling is still in user code, and that sibling then ends WITHOUT
    another checkpoint (it awaits a callback it started earlier): if the timer thread's refresh checkpoint fails, nobody
    else will notice - the failure has to end the invocation from the timer thread."""
    a = [{"a": "wait", "secs": rng.choice([1, 2])}, {"a": "step", "out": {"ok": "i5"}, "yield": 1}]
    c = [{"a": "cbnew"}, {"a": "sleep", "secs": rng.choice([3, 4])}, {"a": "cbres"}]
    branches = [a, c] if rng.random() < 0.5 else [c, a]
    if rng.random() < 0.3:
        branches.append([{"a": "cb"}])
    return {"blocks": [{"kind": rng.choice(["map", "parallel"]), "branches": branches, "max_concurrency": None}], "completion": {}}


def gen_large_early(rng):
    """Early decision with branches still unstarted or running, a result over the (patched) checkpoint limit, and a later
    suspension: the batch is rebuilt from its children on replay."""
    sc = gen_late_begin(rng)
    sc["ckpt_limit"] = rng.choice([30, 60])
    sc["blocks"][1] = {"kind": "seq", "actions": [{"a": "wait", "secs": 1}]}
    return sc


def gen_resubmit_rich(rng):
    """A branch with completed work (a step, possibly an oversized child context) followed by a timed suspension, and a
    sibling that keeps the invocation alive: the branch is re-submitted in-process and re-traverses its recorded
    operations; checkpoint responses are paginated and a page fetch may fail (twice in a row)."""
    s_ = rng.choice([1, 2])
    first = rng.choice([{"a": "step", "out": {"ok": "i5"}, "yield": 1},
                        {"a": "child", "body": [{"a": "step", "out": {"ok": "s"}, "yield": 1}], "big": rng.choice([0, 150])}])
    a = [first, {"a": "wait", "secs": s_}, {"a": "step", "out": {"ok": "t"}, "yield": 1}]
    b = [{"a": "step", "out": {"ok": "s"}, "yield": rng.choice([1, 3]), "sleep": s_ + rng.choice([1, 2])}]
    branches = [a, b] + ([[{"a": "step", "out": {"ok": "z"}, "yield": 1}]] if rng.random() < 0.5 else [])
    rng.shuffle(branches)
    sc = {"blocks": [{"kind": rng.choice(["map", "parallel"]), "branches": branches, "max_concurrency": None}], "completion": {}}
    if rng.random() < 0.6:
        sc["ckpt_limit"] = rng.choice([60, 120])
    if rng.random() < 0.7:
        sc["resp_page_size"] = 1
        if rng.random() < 0.7:
            sc["page_fault"] = {"at": rng.randrange(0, 4), "times": rng.choice([1, 2, 2])}
    return sc


def gen_scenario(rng, zero_p=0.05):
    x = rng.random()
    if x > 0.9:
        return gen_resubmit_rich(rng)
    if x > 0.82:
        return gen_queued_resubmit(rng)
    if x > 0.76:
        return gen_timer_order(rng)
    if x > 0.70:
        return gen_replay_orphan(rng)
    if x < 0.15:
        return gen_timer_race(rng)
    if x < 0.30:
        return gen_late_begin(rng)
    if x < 0.40:
        return gen_large_early(rng)
    sc = gen_scenario0(rng, zero_p)
    if rng.random() < 0.25:
        sc["ckpt_limit"] = rng.choice([30, 60, 120])
        if len(sc["blocks"]) == 1:
            sc["blocks"].append({"kind": "seq", "actions": [{"a": "wait", "secs": 1}]})   # a later suspension: the batch is replayed
    return sc


def gen_scenario0(rng, zero_p=0.05):
    nb = 0 if rng.random() < zero_p else rng.choice([1, 2, 2, 3, 3, 4, 5])
    comp = rng.choice([{}, {}, {"min": 1}, {"min": 2}, {"count": 0}, {"count": 1}, {"pct": 50}, {"min": 1, "count": 1}, {"min": 2, "pct": 34}])
    early = bool(comp.get("min")) and nb > (comp.get("min") or 0)
    blk = {"kind": rng.choice(["map", "parallel"]), "branches": [gen_branch(rng, allow_block=early) for _ in range(nb)],
           "max_concurrency": rng.choice([None, None, 1, 2, 3])}
    blocks = [blk]
    if rng.random() < 0.4:
        blocks.append({"kind": "seq", "actions": [{"a": "wait", "secs": 1}] if rng.random() < 0.5 else [{"a": "step", "out": {"ok": "s"}}]})
    return {"blocks": blocks, "completion": comp}


def nontrivial(ex):
    sc = ex["scenario"]
    comp = sc.get("completion") or {}
    early = False
    for inv in ex["invs"]:
        for n, rep in inv["batches"].items():
            if any(it[1] == "STARTED" for it in rep["items"]):
                early = True
    return bool(comp) and early


def one(ctx, prop, sc, seed, component="executor", fault=None):
    ex = run_execution(sc, seed, fault=fault)
    oracles(ctx, prop, ex, component)
    for inv in ex["invs"]:
        compare_par(ctx, sc, inv, seed=seed)
    ctx.case((json.dumps(sc, sort_keys=True), seed) if (nontrivial(ex) or prop in ("C07", "C06", "C10", "C01", "C02", "C08", "C16", "C03", "C05", "C11")) and len(ex["invs"]) >= 1 else None)
    ctx.count("exec.invocations=%d" % min(len(ex["invs"]), 5))
    ctx.count("exec.status=" + ex["invs"][-1]["status"])
    if len(ctx.samples) < 4:
        ctx.sample({"scenario": sc, "statuses": [i["status"] for i in ex["invs"]], "batches": ex["invs"][-1]["batches"]}, limit=4)
    return ex


def run_prop(ctx, prop, n_quick=150, n_thorough=4000):
    for i in range(ctx.scale(n_quick, n_thorough)):
        sc = gen_scenario(ctx.rng)
        one(ctx, prop, sc, ctx.rng.randrange(1 << 30))


def search(ctx, prop, n=400):
    """Failing-input search without the model: first the scenarios on which the Par model and the executor disagreed,
    each under many other schedules, then fresh scenarios."""
    targets = []
    for d in getattr(ctx, "disagreements", []):
        c = d.get("case") if isinstance(d, dict) else None
        if isinstance(c, dict) and isinstance(c.get("scenario"), dict) and "blocks" in c["scenario"] and c["scenario"] not in targets:
            targets.append(c["scenario"])
    saved, ctx.driver = ctx.driver, None
    try:
        for sc in targets[:8]:
            for j in range(40):
                one(ctx, prop, sc, ctx.rng.randrange(1 << 30), component="executor.search.targeted")
        n0 = len(ctx.violations)
        for i in range(n):
            one(ctx, prop, gen_scenario(ctx.rng), ctx.rng.randrange(1 << 30), component="executor.search")
            if len(ctx.violations) > n0:
                break
    finally:
        ctx.driver = saved


def run_templates(ctx, prop, gens, n_quick, n_thorough):
    """A guaranteed number of runs of each named template (the random mix of gen_scenario gives each only a share)."""
    for g in gens:
        for i in range(ctx.scale(n_quick, n_thorough)):
            one(ctx, prop, g(ctx.rng), ctx.rng.randrange(1 << 30), component="executor." + g.__name__[4:])


def run_c09(ctx):
    run_prop(ctx, "C09")
    run_templates(ctx, "C09", [gen_timer_order, gen_large_early], 30, 1000)


class InjectedFault(RuntimeError):
    """What the fake client raises for an injected checkpoint failure."""


def run_fault(ctx, prop, n_quick=80, n_thorough=2500):
    """Scenarios in which API call number k of the first invocation fails."""
    for i in range(ctx.scale(n_quick, n_thorough)):
        sc = gen_scenario(ctx.rng)
        one(ctx, prop, sc, ctx.rng.randrange(1 << 30), component="executor.fault", fault={"at": ctx.rng.randrange(0, 5), "exc": InjectedFault})


def run_refresh_fault(ctx, prop, n_quick=6, n_thorough=120):
    """gen_refresh_fault with the failing API call at every index in turn (one of them is the refresh checkpoint)."""
    for i in range(ctx.scale(n_quick, n_thorough)):
        sc = gen_refresh_fault(ctx.rng)
        for at in range(1, 7):
            one(ctx, prop, sc, ctx.rng.randrange(1 << 30), component="executor.refresh_fault", fault={"at": at, "exc": InjectedFault})


def replay(ctx, rec, prop="C09"):
    case = rec["case"]
    fault = {"at": case["fault_at"], "exc": InjectedFault} if case.get("fault_at") is not None else None
    one(ctx, prop, case["scenario"], case.get("seed", 0), component="executor.replay", fault=fault)


# ------------------------------------------------------------------------------------ Par model (trace inclusion)
def commute_timer(evs):
    """The done-callback of branch i is atomic with respect to other callbacks (lock) but not with respect to the
    timer thread: between its status/counter update (logged as `finish`) and the end of its decision (`finish.end`)
    the timer thread may pop and re-submit another branch j.  The update of branch i and the re-submission of
    branch j != i commute (neither reads what the other writes), so the run is equivalent to the one in which the
    timer fired first; the model's `finish` is atomic, so those timer events are moved in front of the `finish`."""
    evs = list(evs)
    k = 0
    while k < len(evs):
        e = evs[k]
        if e[0] == "finish":
            end = next((q for q in range(k + 1, len(evs)) if evs[q][0] == "finish.end" and evs[q][2] == e[2]), None)
            if end is not None:
                # only what happened before the callback read the statuses (its `decide` marker) is moved; without a
                # marker (policy decided from the counters alone, orphan, fatal) nothing is moved
                dec = next((q for q in range(k + 1, end) if evs[q][0] == "decide"), None)
                end = dec if dec is not None else k + 1
            if end is not None and end > k + 1:
                inside = evs[k + 1:end]
                # what the deciding callback can see of a resumption is the branch's status, changed by `reset`
                # (after the pop, outside the scheduler's lock): only resumptions whose reset lies in the window move
                resets_in = {x[2] for x in inside if x[0] == "reset"}
                moved = [x for x in inside if (x[0] == "timer.pop" and x[2] in resets_in) or x[0] == "reset" or (x[0] == "submit" and x[2] == "thread")]
                if moved and all(x[2] != e[2] for x in moved if x[0] in ("timer.pop", "reset")):
                    rest = [x for x in inside if x not in moved]
                    evs[k:end] = moved + [e] + rest
                    k += len(moved)
        k += 1
    return evs


def same_branch_window(pevents):
    """True when the timer thread reset branch i between the status update of i's own done-callback and that callback's
    decision (possible only when the resume instant is already due at the moment it is scheduled).  The Par model's
    `finish` is atomic with the decision, and unlike a reset of ANOTHER branch this one cannot be commuted in front of
    the `finish`: such runs lie outside the model's granularity (DESIGN.md section 9) and are judged by the oracles only."""
    for k, e in enumerate(pevents):
        if e[0] != "finish":
            continue
        for x in pevents[k + 1:]:
            if x[0] in ("decide", "finish.end"):
                break
            if x[0] == "reset" and x[2] == e[2]:
                return True
    return False


def derive_par_actions(pevents):
    """Events of ONE executor run (between exec.start and exec.end) -> Par model actions."""
    acts = []
    start = next((e for e in pevents if e[0] == "exec.start"), None)
    if start is None:
        return None
    last_t = start[1]
    n, max_conc = start[2], start[3]
    end = None
    evs = commute_timer(pevents[pevents.index(start) + 1:])
    i = 0
    n_sub = 0
    woke = False
    pending_resubmit = None
    # The timer heap orders equal resume instants by insertion, and instants that differ only in the last bits of the
    # float by value; rounding them to microseconds would make such pairs look equal.  Instants falling into the same
    # microsecond are therefore spread over the nanoseconds just below it, in float order.
    buckets = {}
    for e_ in evs:
        if e_[0] in ("finish", "end") and e_[3] == "suspUntil" and len(e_) > 5:
            buckets.setdefault(e_[4], set()).add(e_[5])

    def resume_ns(e_):
        if len(e_) <= 5:
            return e_[4] * 1000
        vals = sorted(buckets[e_[4]])
        return e_[4] * 1000 - (len(vals) - 1 - vals.index(e_[5]))
    while i < len(evs):
        e = evs[i]
        t = e[1]
        if e[0] in ("begin", "end", "finish", "timer.pop", "reset", "exec.end", "cancel", "submit", "refresh.fail", "flags") and t > last_t:
            acts.append(["tick", (t - last_t) * 1000])      # the model's clock runs in nanoseconds (see resume_ns)
            last_t = t
        if e[0] in ("timer.pop", "exec.end") and pending_resubmit is not None:
            acts.append(["resubmit", pending_resubmit, True])     # returned without submitting: the decision had been taken
            pending_resubmit = None
        if e[0] == "submit" and e[2] != "thread":
            acts.append(["submit", n_sub])       # the main thread submits the initial tasks in index order
            n_sub += 1
        elif e[0] == "begin":
            acts.append(["begin", e[2]])
        elif e[0] == "end":
            acts.append(["taskEnd", e[2]] + ([e[3], max(0, resume_ns(e) - start[1] * 1000)] if e[3] == "suspUntil" else e[3:4]))
        elif e[0] == "finish":
            # resume instants are logged relative to the start of the invocation; the model's clock starts with the executor
            acts.append(["finish", e[2]] + ([e[3], max(0, resume_ns(e) - start[1] * 1000)] if e[3] == "suspUntil" else e[3:]))
        elif e[0] == "cancel":
            acts.append(["cancel", e[2]])
        elif e[0] == "timer.pop" and any(f[0] == "reset" and f[2] == e[2] for f in evs[i + 1:next(
                (q for q in range(i + 1, len(evs)) if evs[q][0] in ("timer.pop", "exec.end")), len(evs))]):
            pass    # the pop takes effect (status change) at its `reset`, emitted there
        elif e[0] == "timer.pop":
            acts.append(["timerFire", e[2]])          # an entry whose branch cannot resume: only erased
        elif e[0] == "reset":
            acts.append(["timerFire", e[2]])
            pending_resubmit = e[2]
        elif e[0] == "refresh.fail" and pending_resubmit is not None:
            acts.append(["resubmit", pending_resubmit, False])
            pending_resubmit = None
        elif e[0] == "submit" and e[2] == "thread" and pending_resubmit is not None:
            acts.append(["resubmit", pending_resubmit, True])
            pending_resubmit = None
        elif e[0] == "flags":
            acts.append(["wake"])
            woke = True
            fin = next((f for f in evs[i + 1:] if f[0] == "exec.end"), None)
            if fin is not None and fin[2] != "result":
                # the executor raises (fatal / suspend): the model's run ends with `wake`, which includes the pool
                # shutdown's cancellation of the tasks still queued (logged later, one by one, by the real code)
                end = fin
                break
        elif e[0] == "exec.end":
            if not woke:
                acts.append(["wake"])
            if e[2] == "result":
                acts.append(["snapshot"])
            end = e
            break
        i += 1
    return {"n": n, "maxConc": max_conc, "acts": acts, "end": end}


def compare_par(ctx, sc, inv, component="executor.par", seed=None):
    if not (ctx.driver and ctx.driver.ok):
        return
    blocks = [b for b in sc["blocks"] if b["kind"] in ("map", "parallel")]
    if len(blocks) != 1 or not inv.get("pevents"):
        return
    if same_branch_window(inv["pevents"]):
        ctx.count("par.same_branch_window_skipped")
        return
    d = derive_par_actions(inv["pevents"])
    if d is None or d["n"] == 0 or d["end"] is None or d["end"][3] == "SimAbort":
        return  # no executor run, or the simulation was torn down (a user function that never returns)
    cfg = sc.get("completion") or {}
    q = {"c": "par.run", "n": d["n"], "maxConc": d["maxConc"], "acts": d["acts"]}
    if cfg.get("min") is not None:
        q["min"] = cfg["min"]
    if cfg.get("count") is not None:
        q["count"] = cfg["count"]
    if cfg.get("pct") is not None:
        q["pctNum"], q["pctDen"] = cfg["pct"], 1
    a = ctx.driver.ask(q)
    case = {"scenario": sc, "acts": d["acts"], "seed": seed}
    if not a.get("enabled"):
        k = a.get("failed_at") or 0
        ctx.disagree(component, case, {"at": k, "acts": d["acts"][max(0, k - 5): k + 1]}, {"statuses": a.get("statuses"), "evt": a.get("evt")},
                     "the real executor performed an action the Par model does not enable")
        return
    end = d["end"]
    out = a.get("out")
    if end[2] == "result":
        want = {"k": "result", "items": [{"SUCCEEDED": "completed", "FAILED": "failed"}.get(x, "started") for x in end[3]]}
        got = None if out is None else {"k": out["k"], "items": [x if x in ("completed", "failed") else "started" for x in out.get("items", [])]}
    elif end[3] in ("TimedSuspendExecution", "SuspendExecution"):
        want = {"k": "suspend", "timed": end[3] == "TimedSuspendExecution"}
        got = None if out is None else {"k": out["k"], "timed": out.get("t") is not None}
    else:
        want = {"k": "fatal"}
        got = None if out is None else {"k": out["k"]}
    if got != want:
        ctx.disagree(component, case, want, got, "executor outcome differs from the Par model")
        return
    if a["maxActive"] > a["maxWorkers"]:
        ctx.disagree(component, case, a["maxActive"], a["maxWorkers"], "more active branches than workers")
        return
    ctx.traces_validated += 1
