#!/bin/bash
# Runs every claimed check (quick tier by default) on the current tree, 4 at a time; prints one line per check.
cd "$(dirname "$0")/.."
TIER=${1:-quick}
IDS=$(python3 -c "import json; print(' '.join(c['property_id'] for c in json.load(open('MANIFEST.json'))['checks']))")
( cd lean && timeout 1800 lake build >/dev/null 2>&1 )
echo $IDS | tr ' ' '\n' | xargs -P 4 -I{} bash -c "timeout 3000 ./check {} --tier $TIER --no-build 2>&1 | tail -1 | cut -c1-220; echo \"  exit={} \$?\" >/dev/null"
