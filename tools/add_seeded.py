#!/usr/bin/env python3
"""usage: tools/add_seeded.py <src-out-dir> <id> <mutantN> <demoN> <property> <checks,comma> <summary> <needs>"""
import json, os, shutil, sys
src, sid, mf, df, prop, checks, summary, needs = sys.argv[1:9]
d = os.path.join(os.path.dirname(os.path.dirname(os.path.abspath(__file__))), "seeded", sid)
os.makedirs(d, exist_ok=True)
shutil.copy(os.path.join(src, mf + ".diff"), os.path.join(d, "patch.diff"))
shutil.copy(os.path.join(src, df + ".py"), os.path.join(d, "demo.py"))
shutil.copy(os.path.join(src, "notes.md"), os.path.join(d, "notes.md"))
json.dump({"id": sid, "property": prop, "summary": summary, "needs_to_manifest": needs, "checks_to_run": checks.split(","),
           "origin": "fresh sub-agent given only the property text (plus the list of changes earlier adversaries had delivered) and its own scratch git worktree of /repo (nothing from /verif)",
           "apply": f"git -C /repo apply /verif/seeded/{sid}/patch.diff", "undo": "git -C /repo checkout -- ."},
          open(os.path.join(d, "meta.json"), "w"), indent=1)
print("added", sid)
