#!/bin/bash
# usage: tools/try_mutant.sh <patch.diff> <prop> [<prop>...]   — applies the patch to /repo, runs the checks (quick), reverts.
cd "$(dirname "$0")/.."
PATCH=$(readlink -f "$1"); shift
git -C /repo diff --quiet || { echo "/repo is dirty"; exit 2; }
git -C /repo apply "$PATCH" || { echo "patch does not apply"; exit 2; }
for P in "$@"; do
  timeout 1500 ./check "$P" --no-build 2>&1 | grep -E "VIOLATION|^\[$P\]" | cut -c1-260
done
git -C /repo checkout -- . ; git -C /repo status --short
# evidence/replays produced while a mutant was applied must not be committed as evidence of the unchanged tree
git checkout -- evidence 2>/dev/null
