#!/usr/bin/env python3
"""Regenerates MANIFEST.json from tools/claims.json (per-property text) + obligations.json."""
import json, os
V = os.path.dirname(os.path.dirname(os.path.abspath(__file__)))
claims = json.load(open(os.path.join(V, "tools", "claims.json")))
obl = json.load(open(os.path.join(V, "obligations.json")))
props = [json.loads(l) for l in open(os.path.join(V, "properties.jsonl"))]
checks, na = [], []
for p in props:
    pid = p["id"]
    c = claims.get(pid)
    if not c or not c.get("claimed"):
        na.append({"property_id": pid, "reason": (c or {}).get("reason", "check not built yet (in progress; see DESIGN.md section 9 staging)")})
        continue
    th = obl.get(pid, {}).get("theorems", [])
    checks.append({
        "property_id": pid,
        "quick_cmd": f"./check {pid} --tier quick",
        "thorough_cmd": f"./check {pid} --tier thorough",
        "evidence_file": f"evidence/{pid}.json",
        "replay_cmd_template": f"./check {pid} --replay {{path}}",
        "engine": "lean4-proof+correspondence",
        "level_claimed": {"category": "proof", "text": c["text"] + f" Theorems ({len(th)}): " + ", ".join(t.split(".")[-1] for t in th) + ".", "design_ref": c.get("design_ref", f"DESIGN.md section 7 {pid}")},
        "level_note": c["note"],
        "technique": c.get("technique", "Lean 4 theorem over a hand-written model + behavioural correspondence check against /repo"),
    })
m = {
    "version": 1,
    "setup_cmd": "cd lean && lake build && cd .. && ./check C08 --tier quick >/dev/null; true",
    "hooks": {"guard": "DURABLE_SDK_VERIF", "enable": "no source hooks are needed: the harness replaces module-level primitives of the SDK from outside (DESIGN.md 6.1); the guard is declared and unused",
              "baseline_off_cmd": "cd /repo && /venv/bin/python -m pytest -ra -q -p no:cacheprovider --timeout=900 --continue-on-collection-errors",
              "source_commits": [], "add_only": True},
    "engines": [{"name": "lean4-proof+correspondence", "path": "lean/ + harness/", "serves_properties": [c["property_id"] for c in checks],
                 "kind_free_text": "Lean 4 model (DurableModel/*), theorems (Props/*), line-protocol driver; python harness drives the real SDK from /repo/src and diffs against the model"}],
    "checks": checks,
    "not_applicable": na,
    "notes": "One entry point ./check <id>. Exit 0 held / 1 VIOLATION / 2 infrastructure. Known findings: known_findings.json. See DESIGN.md.",
}
json.dump(m, open(os.path.join(V, "MANIFEST.json"), "w"), indent=1)
print("checks:", [c["property_id"] for c in checks], "not_applicable:", len(na))
