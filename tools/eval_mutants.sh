#!/bin/bash
# usage: tools/eval_mutants.sh Cxx [check ids...]   — verifies the sub-agent's mutants of property Cxx and runs our checks on them
cd "$(dirname "$0")/.."
P=$1; shift
CHECKS=${@:-$P}
OUT=/tmp/mut/$P-out; WT=/tmp/mut/$P
for n in 1 2; do
  D=$OUT/mutant$n.diff; [ -f "$D" ] || continue
  echo "=== $P mutant$n"
  git -C $WT checkout -q -- . ; 
  ( cd $OUT && PYTHONPATH=$WT/src timeout 180 /venv/bin/python demo$n.py >/tmp/mut/$P.demo$n.clean.log 2>&1; echo "  demo on clean worktree: exit $?" )
  git -C $WT apply "$D" || { echo "  does not apply to worktree"; continue; }
  ( cd $OUT && PYTHONPATH=$WT/src timeout 180 /venv/bin/python demo$n.py >/tmp/mut/$P.demo$n.mut.log 2>&1; echo "  demo with mutant: exit $?" )
  ( cd $WT && PYTHONPATH=$WT/src timeout 900 /venv/bin/python -m pytest -q -p no:cacheprovider -n 8 --timeout=900 2>&1 | tail -1 | sed 's/^/  suite with mutant: /' )
  git -C $WT checkout -q -- .
  if git -C /repo apply --check "$D" 2>/dev/null; then
    git -C /repo apply "$D"
    for C in $CHECKS; do timeout 1500 ./check $C --no-build 2>&1 | grep -E "VIOLATION|^\[$C\]" | cut -c1-230 | sed 's/^/  /'; done
    git -C /repo checkout -- .
  else echo "  patch does not apply to current /repo (later fixes touched the same lines)"; fi
done
git checkout -q -- evidence 2>/dev/null; git -C /repo status --short
