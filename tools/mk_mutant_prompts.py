#!/usr/bin/env python3
"""usage: tools/mk_mutant_prompts.py <scratch-dir> <property-id>...   Writes <scratch>/<id>.prop.txt (property text + the
summaries of changes already delivered) and <scratch>/<id>.prompt.txt (the adversary's instructions).  The sub-agent gets
these two files and its own git worktree <scratch>/<id> of /repo; nothing from /verif."""
import glob, json, os, sys
scratch, ids = sys.argv[1], sys.argv[2:]
PROMPT = r'''You are helping to evaluate a verification tool by playing the adversary. A Python SDK for AWS Lambda durable functions (checkpoint-and-replay workflow engine) lives in a scratch git worktree at @S@/@ID@ (source under src/aws_durable_execution_sdk_python/, tests under tests/). Do NOT look at or touch /verif or /repo (you have everything you need in your worktree); work only inside @S@/@ID@ and write your deliverables to @S@/@ID@-out/ (create it). There is no network. ALWAYS run commands with a timeout (e.g. `timeout 600 ...`); scripts that start the SDK's threads can hang the interpreter at exit, so end demo scripts with `sys.stdout.flush(); os._exit(code)` and run potentially-hanging scenarios in a daemon thread with join(timeout). NEVER use `pkill`/`killall` (other jobs run on this machine); kill only process ids you started.

The property under attack is in @S@/@ID@.prop.txt — read it first, then read the relevant source until you understand the mechanism that is supposed to make it hold.

Your task: produce ONE realistic source change (mutant) - the subtlest you can find - to the SDK, which BREAKS this property while
  (a) the package still imports and the whole existing test suite still passes: `cd @S@/@ID@ && PYTHONPATH=@S@/@ID@/src timeout 900 /venv/bin/python -m pytest -q -p no:cacheprovider -n 8 --timeout=900` must report the same number of passed tests as on the unmodified worktree (run it first on the unmodified tree to get the baseline: 1080 passed) and no failures;
  (b) the breakage needs something specific to manifest — a particular thread interleaving, a crash or fault at a particular point, a multi-step sequence of operations or invocations, an unusual input or configuration, or two cooperating sites that each look fine alone — NOT something that ordinary use would expose at once;
  (c) the change looks like something a developer could plausibly commit (a refactor gone slightly wrong, an "optimisation", a mishandled edge case, a wrong comparison, a moved line), is small (a few lines), and is in the SDK source (not in tests).
Earlier adversaries already delivered the changes listed at the end of the property file; yours must be DIFFERENT in mechanism and code site (not a variation of one of them).
Provide a demonstration: a self-contained script (or pytest file) that drives the REAL SDK code (you may write a small fake `DurableServiceClient` backend, use threads, inject faults, run several invocations through `durable_execution` with `DurableExecutionInvocationInputWithClient`, etc.) and that FAILS (exit code 1, printing what property violation it observed) with the mutant applied and PASSES (exit code 0) on the unmodified worktree. Make the demonstration deterministic (use events/barriers or monkeypatching to force the interleaving rather than sleeps where possible).

Deliverables in @S@/@ID@-out/:
  - mutant1.diff : `git diff` output against the unmodified worktree (applies alone to a clean tree with `git apply`);
  - demo1.py : run as `PYTHONPATH=@S@/@ID@/src timeout 120 /venv/bin/python demo1.py`;
  - notes.md : what it changes, why the property breaks, what exactly is needed for it to manifest, the test-suite result with the mutant applied (number passed), and the demo's output with and without the mutant.
Leave the worktree CLEAN at the end (`git -C @S@/@ID@ checkout -- . && git -C @S@/@ID@ status --short` shows nothing). Final answer: a short summary of the mutant and the verification you ran.

Additional rules: do NOT use `git stash` (the stash is shared between worktrees of other workers); use `git diff > file` and `git checkout -- .` instead. Prefer a mechanism of a kind not yet in the list: e.g. interplay of two features, behaviour across three or more invocations, pagination of both the initial state and checkpoint responses, unusual but legal values (non-ASCII text, lone surrogates, huge or negative numbers, empty containers, sub-second durations, naive/aware timestamps), configuration corner values, or an exception type/level/overload of an API that is rarely used.
'''
used = {}
for f in sorted(glob.glob('/verif/seeded/*/meta.json')):
    m = json.load(open(f)); used.setdefault(m['property'], []).append(m['summary'])
for l in open('/verif/properties.jsonl'):
    d = json.loads(l); pid = d['id']; a = d['anchors']
    if pid not in ids:
        continue
    txt = f"{pid} — {d['title']}\n\nSTATEMENT: {d['statement']}\n\nQUANTIFIED OVER: {d['quantifier']['text']}\n\nWHY THE TESTS CANNOT SETTLE IT: {d['why_tests_cant']}\n\nWHERE: files {', '.join(a['files'])}\n"
    for m in a.get('mechanism', []):
        txt += f"  - {m['name']} ({m['where']})\n"
    txt += "OBSERVE AT: " + "; ".join(a.get('observe_at', [])) + "\n\nCHANGES ALREADY DELIVERED BY EARLIER ADVERSARIES (do not repeat these or close variations):\n"
    for s_ in used.get(pid, []):
        txt += f"  * {s_}\n"
    open(os.path.join(scratch, f'{pid}.prop.txt'), 'w').write(txt)
    open(os.path.join(scratch, f'{pid}.prompt.txt'), 'w').write(PROMPT.replace('@S@', scratch).replace('@ID@', pid))
