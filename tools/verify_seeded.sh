#!/bin/bash
# usage: tools/verify_seeded.sh [seeded-id ...]
# Re-confirms every seeded change on a scratch worktree of /repo HEAD (outside /repo and /verif; removed at the end):
#   demo exits 0 on the clean tree and non-zero with the patch, the pinned suite still passes with the patch;
# then applies the patch to /repo, runs the checks named in meta.json (quick tier) and reverts.
# Results are written to seeded/<id>/meta.json ("verified").
cd "$(dirname "$0")/.."
IDS=${@:-$(ls seeded)}
WT=$(mktemp -d /var/tmp/seedwt.XXXXXX)
git -C /repo worktree add -q --detach "$WT" HEAD || exit 2
trap 'git -C /repo worktree remove --force "$WT" 2>/dev/null; rm -rf "$WT"; git -C /repo checkout -q -- . ; git checkout -q -- evidence 2>/dev/null' EXIT
[ -n "$(git -C /repo status --porcelain)" ] && { echo "/repo has local changes; refusing"; exit 2; }
( cd lean && timeout 1800 lake build >/dev/null 2>&1 )
for ID in $IDS; do
  D=seeded/$ID; [ -f $D/patch.diff ] || continue
  echo "=== $ID"
  git -C $WT checkout -q -- .
  ( cd $D && PYTHONPATH=$WT/src timeout 300 /venv/bin/python demo.py >/dev/null 2>&1 ); C0=$?
  if ! git -C $WT apply $PWD/$D/patch.diff; then echo "  patch does not apply"; continue; fi
  ( cd $D && PYTHONPATH=$WT/src timeout 300 /venv/bin/python demo.py >/dev/null 2>&1 ); C1=$?
  SUITE=$( cd $WT && PYTHONPATH=$WT/src timeout 900 /venv/bin/python -m pytest -q -p no:cacheprovider -n 8 --timeout=900 2>&1 | tail -1 )
  git -C $WT checkout -q -- .
  find $WT -name __pycache__ -prune -exec rm -rf {} + 2>/dev/null
  echo "  demo clean=$C0 mutant=$C1; suite: $SUITE"
  git -C /repo apply $PWD/$D/patch.diff || { echo "  does not apply to /repo"; continue; }
  RES=""
  for C in $(python3 -c "import json;print(' '.join(json.load(open('$D/meta.json'))['checks_to_run']))"); do
    OUT=$(timeout 1500 ./check $C --no-build 2>&1); RC=$?
    V=$(echo "$OUT" | grep -c "^VIOLATION property=$C")
    NF=$(echo "$OUT" | grep "^VIOLATION property=$C" | grep -c "no-failing-input-found")
    ORACLE=$(echo "$OUT" | grep "^VIOLATION property=$C" | head -1 | sed 's/.*replay=//' | awk '{print $1}' | xargs -I{} python3 -c "import json;d=json.load(open('{}'));print(d.get('oracle') or d.get('note','')[:60])" 2>/dev/null)
    echo "  check $C: exit=$RC violations=$V (no-failing-input-found: $NF) first: $ORACLE"
    RES="$RES$C:$RC:$V:$NF:$ORACLE;"
  done
  git -C /repo checkout -q -- .
  python3 - "$D/meta.json" "$C0" "$C1" "$SUITE" "$RES" "$(git -C /repo rev-parse --short HEAD)" <<'E'
import json, sys, datetime
p, c0, c1, suite, res, head = sys.argv[1:7]
m = json.load(open(p))
checks = {}
for part in filter(None, res.split(";")):
    c, rc, v, nf, oracle = part.split(":", 4)
    checks[c] = {"exit": int(rc), "violation_lines": int(v), "of_which_no_failing_input_found": int(nf), "first_oracle": oracle,
                 "verdict": "missed" if int(rc) == 0 else ("error (check exited %s without a VIOLATION line)" % rc if int(v) == 0 else ("caught, concrete failing input" if int(v) > int(nf) else "caught by broken correspondence only (no-failing-input-found)"))}
m["verified"] = {"repo_head": head, "demo_exit_clean_tree": int(c0), "demo_exit_with_patch": int(c1), "suite_with_patch": suite.strip(),
                 "commands": ["PYTHONPATH=<worktree>/src python demo.py  (clean, then patched)",
                              "PYTHONPATH=<worktree>/src python -m pytest -q -p no:cacheprovider -n 8 --timeout=900  (patched)",
                              "git -C /repo apply patch.diff; ./check <id> --no-build; git -C /repo checkout -- ."],
                 "checks": checks}
json.dump(m, open(p, "w"), indent=1)
E
done
