#!/usr/bin/env python3
"""Prints the table of section 8 of DESIGN.md from seeded/*/meta.json (the `verified` records written by verify_seeded.sh)."""
import glob, json, os, re
V = os.path.dirname(os.path.dirname(os.path.abspath(__file__)))


def key(p):
    m = re.match(r"C(\d+)-(\d+)", os.path.basename(os.path.dirname(p)))
    return (int(m.group(1)), int(m.group(2)))


print("| id | change | result of the checks (quick tier) |")
print("|---|---|---|")
for f in sorted(glob.glob(os.path.join(V, "seeded", "*", "meta.json")), key=key):
    m = json.load(open(f))
    res = []
    for c, r in (m.get("verified") or {}).get("checks", {}).items():
        if r["verdict"] == "missed":
            res.append(f"{c}: **missed**")
        elif r["verdict"].startswith("caught, concrete"):
            res.append(f"{c}: concrete `{r['first_oracle']}`")
        else:
            res.append(f"{c}: broken correspondence (no-failing-input-found)")
    print(f"| {m['id']} | {m['summary'][:150]} | {'; '.join(res)} |")
